(* C18 - proofs about the model of the hand-registered pytree nodes and of the field partition
   (Model/PytreeReg.v). *)
From Coq Require Import ZArith List String Bool Lia.
From Furax Require Import Model.PytreeReg.
Import ListNotations.
Open Scope string_scope.

(* ---------------------------------------------------------------------------------------------- *)
(* call binding *)

Lemma fill_names : forall ps bound loc, fill ps bound = Ok loc -> map fst loc = map p_name ps.
Proof.
  induction ps as [|p r IH]; intros bound loc H; simpl in H.
  - inversion H; reflexivity.
  - destruct (lookup (p_name p) bound) as [v|].
    + destruct (fill r bound) as [e| |] eqn:E; simpl in H; try discriminate.
      inversion H; subst; simpl. f_equal. eapply IH; eauto.
    + destruct (p_default p) as [dv|]; try discriminate.
      destruct (fill r bound) as [e| |] eqn:E; simpl in H; try discriminate.
      inversion H; subst; simpl. f_equal. eapply IH; eauto.
Qed.

(* a successful call binds exactly the parameters, in order *)
Lemma bind_call_names : forall ps args kw loc,
  bind_call ps args kw = Ok loc -> map fst loc = map p_name ps.
Proof.
  intros ps args kw loc H. unfold bind_call in H.
  destruct (bind_pos ps args) as [b| |]; simpl in H; try discriminate.
  destruct (bind_kw ps b kw) as [b'| |]; simpl in H; try discriminate.
  eapply fill_names; eauto.
Qed.

Lemma bind_pos_nil : forall ps, bind_pos ps [] = Ok [].
Proof. destruct ps; reflexivity. Qed.

Lemma bind_kw_only_typeerror : forall ps kw bound,
  (exists e, bind_kw ps bound kw = Ok e) \/ bind_kw ps bound kw = Err TypeError.
Proof.
  induction kw as [|[k v] r IH]; intros bound; simpl.
  - left; eauto.
  - destruct (has_param k ps); simpl; [|right; reflexivity].
    destruct (lookup k bound); [right; reflexivity|apply IH].
Qed.

(* an aux key that is not a constructor parameter makes the keyword call fail with TypeError,
   whatever the values and whatever the other keys are *)
Lemma bind_kw_unexpected : forall ps kw bound k,
  In k (map fst kw) -> has_param k ps = false -> bind_kw ps bound kw = Err TypeError.
Proof.
  induction kw as [|[k0 v] r IH]; intros bound k Hin Hp; simpl in *; [contradiction|].
  destruct (has_param k0 ps) eqn:E0; simpl; [|reflexivity].
  destruct (lookup k0 bound); [reflexivity|].
  destruct Hin as [->|Hin]; [congruence|]. eapply IH; eauto.
Qed.

Lemma read_aux_keys : forall self aux e, read_aux self aux = Ok e -> map fst e = map fst aux.
Proof.
  induction aux as [|[k a] r IH]; intros e H; simpl in H.
  - inversion H; reflexivity.
  - destruct (lookup a self); try discriminate.
    destruct (read_aux self r) as [vs| |] eqn:E; simpl in H; try discriminate.
    inversion H; subst; simpl. f_equal. apply IH; reflexivity.
Qed.

Lemma forallb_false_ex : forall {A} (f : A -> bool) l, forallb f l = false -> exists x, In x l /\ f x = false.
Proof.
  induction l as [|a r IH]; simpl; intros H; [discriminate|].
  destruct (f a) eqn:E; simpl in H.
  - destruct (IH H) as [x [Hx Hf]]. exists x; auto.
  - exists a; auto.
Qed.

(* D4 for ALL field values: when some aux key is not accepted by the constructor, unflatten of any
   flattened object raises TypeError - no object of such a class survives the round trip *)
Lemma unaccepted_key_always_fails_l : forall t d self,
  keys_accepted d = false -> c_unflatten d = UKwargs ->
  forall ch aux, flatten d self = Ok (ch, aux) -> unflatten t d ch aux = Err TypeError.
Proof.
  intros t d self Hk Hu ch aux Hf.
  unfold keys_accepted in Hk. apply forallb_false_ex in Hk. destruct Hk as [[k a] [Hin Hp]]. simpl in Hp.
  unfold flatten in Hf.
  destruct (read_attrs self (c_children d)) as [c| |]; simpl in Hf; try discriminate.
  destruct (read_aux self (c_aux d)) as [e| |] eqn:E; simpl in Hf; try discriminate.
  inversion Hf; subst. apply read_aux_keys in E.
  unfold unflatten, construct, bind_call. rewrite Hu, bind_pos_nil. simpl.
  rewrite (bind_kw_unexpected (c_params d) aux [] k); [reflexivity| |assumption].
  rewrite E. change k with (fst (k, a)). apply in_map. assumption.
Qed.

(* ---------------------------------------------------------------------------------------------- *)
(* the positive counterpart, for ANY table: when every aux key is a parameter, keys are distinct and
   every parameter without default is an aux key, the call cls( **aux_data ) binds whatever the values *)

Lemma lookup_app_none : forall k e1 e2, lookup k e1 = None -> lookup k (e1 ++ e2)%list = lookup k e2.
Proof.
  induction e1 as [|[k0 v0] r IH]; intros e2 H; simpl in *; [reflexivity|].
  destruct (String.eqb k0 k); [discriminate|]. apply IH; assumption.
Qed.

Lemma lookup_app_some : forall k e1 e2 v, lookup k e1 = Some v -> lookup k (e1 ++ e2)%list = Some v.
Proof.
  induction e1 as [|[k0 v0] r IH]; intros e2 v H; simpl in *; [discriminate|].
  destruct (String.eqb k0 k); [assumption|]. apply IH; assumption.
Qed.

Lemma lookup_in_keys : forall k e, In k (map fst e) -> exists v, lookup k e = Some v.
Proof.
  induction e as [|[k0 v0] r IH]; simpl; intros H; [contradiction|].
  destruct (String.eqb k0 k) eqn:E; [eauto|].
  destruct H as [H|H]; [subst; rewrite String.eqb_refl in E; discriminate|]. apply IH; assumption.
Qed.

Lemma nodupb_sound : forall l, nodupb l = true -> NoDup l.
Proof.
  induction l as [|x r IH]; simpl; intros H; [constructor|].
  apply andb_true_iff in H. destruct H as [H1 H2]. constructor; [|apply IH; assumption].
  intros Hin. apply negb_true_iff in H1.
  assert (existsb (String.eqb x) r = true) by (apply existsb_exists; exists x; split; [assumption|apply String.eqb_refl]).
  congruence.
Qed.

Lemma bind_kw_ok : forall ps kw bound,
  (forall k, In k (map fst kw) -> has_param k ps = true) -> NoDup (map fst kw) ->
  (forall k, In k (map fst kw) -> lookup k bound = None) ->
  bind_kw ps bound kw = Ok (bound ++ kw)%list.
Proof.
  induction kw as [|[k v] r IH]; intros bound Hp Hn Hb; simpl.
  - rewrite app_nil_r. reflexivity.
  - rewrite (Hp k (or_introl eq_refl)). simpl. rewrite (Hb k (or_introl eq_refl)).
    simpl in Hn. inversion Hn as [|? ? Hnot Hn']; subst.
    rewrite IH.
    + rewrite <- app_assoc. reflexivity.
    + intros k' Hk'. apply Hp. right; assumption.
    + assumption.
    + intros k' Hk'. rewrite lookup_app_none by (apply Hb; right; assumption).
      simpl. destruct (String.eqb k k') eqn:E; [|reflexivity].
      apply String.eqb_eq in E. subst. contradiction.
Qed.

Lemma fill_ok : forall ps bound,
  (forall p, In p ps -> p_default p = None -> exists v, lookup (p_name p) bound = Some v) ->
  exists loc, fill ps bound = Ok loc.
Proof.
  induction ps as [|p r IH]; intros bound H; simpl; [eauto|].
  destruct (IH bound) as [loc Hl]; [intros q Hq; apply H; right; assumption|].
  rewrite Hl. simpl.
  destruct (lookup (p_name p) bound) as [v|] eqn:E; [eauto|].
  destruct (p_default p) as [dv|] eqn:D; [eauto|].
  destruct (H p (or_introl eq_refl) D) as [v Hv]. congruence.
Qed.

Lemma has_key_in : forall x aux, has_key x aux = true -> In x (map fst aux).
Proof.
  induction aux as [|[k a] r IH]; simpl; intros H; [discriminate|].
  apply orb_true_iff in H. destruct H as [H|H]; [left; apply String.eqb_eq in H; assumption|right; auto].
Qed.

Lemma call_binds_l : forall d self ch aux, call_binds_check d = true ->
  flatten d self = Ok (ch, aux) -> exists loc, bind_call (c_params d) [] aux = Ok loc.
Proof.
  intros d self ch aux Hc Hf. unfold call_binds_check in Hc.
  repeat (apply andb_true_iff in Hc; destruct Hc as [Hc ?]).
  rename H into Hnd, H0 into Hreq, H1 into Hacc.
  unfold flatten in Hf.
  destruct (read_attrs self (c_children d)) as [c| |]; simpl in Hf; try discriminate.
  destruct (read_aux self (c_aux d)) as [e| |] eqn:E; simpl in Hf; try discriminate.
  inversion Hf; subst. apply read_aux_keys in E.
  unfold bind_call. rewrite bind_pos_nil. simpl.
  rewrite bind_kw_ok; simpl.
  - apply fill_ok. intros p Hp Hd.
    unfold required_given in Hreq. rewrite forallb_forall in Hreq. specialize (Hreq p Hp). rewrite Hd in Hreq.
    apply lookup_in_keys. rewrite E. apply has_key_in. assumption.
  - intros k Hk. rewrite E in Hk. apply in_map_iff in Hk. destruct Hk as [[k' a] [<- Hin]].
    unfold keys_accepted in Hacc. rewrite forallb_forall in Hacc. exact (Hacc _ Hin).
  - rewrite E. apply nodupb_sound. assumption.
  - reflexivity.
Qed.

Lemma call_binds_table_l : forall t, forallb call_binds_check t = true ->
  forall d self ch aux, In d t -> flatten d self = Ok (ch, aux) ->
  exists loc, bind_call (c_params d) [] aux = Ok loc.
Proof.
  intros t H d self ch aux Hin Hf. rewrite forallb_forall in H. eapply call_binds_l; eauto.
Qed.

(* ---------------------------------------------------------------------------------------------- *)
(* the round trip of the registered classes of the pinned table, for all constructor arguments *)

Ltac env_shape H :=
  repeat match type of H with
  | map fst ?l = _ :: _ => destruct l as [|[? ?] l]; simpl in H; [discriminate|]; injection H as ? H; subst
  | map fst ?l = [] => destruct l; simpl in H; [clear H|discriminate]
  end.

Ltac crush_ctor Hc :=
  repeat match type of Hc with
  | context [match ?v with VNone => _ | _ => _ end] => is_var v; destruct v; simpl in Hc; try discriminate
  end.

Lemma roundtrip_landscape : forall args kw obj,
  construct pinned_table (mkC "Landscape" true true "Landscape" [mkP "shape" POK None; mkP "dtype" POK (Some (VObj 1 None))]
      [SAttr "shape" (EName "shape"); SAttr "dtype" (EName "dtype")]
      "Landscape" [] [("shape", "shape"); ("dtype", "dtype")] "Landscape" UKwargs) args kw = Ok obj ->
  roundtrip pinned_table (mkC "Landscape" true true "Landscape" [mkP "shape" POK None; mkP "dtype" POK (Some (VObj 1 None))]
      [SAttr "shape" (EName "shape"); SAttr "dtype" (EName "dtype")]
      "Landscape" [] [("shape", "shape"); ("dtype", "dtype")] "Landscape" UKwargs) obj = Ok obj.
Proof.
  intros args kw obj Hc. unfold construct in Hc. simpl c_params in Hc. simpl c_body in Hc.
  destruct (bind_call _ args kw) as [loc| |] eqn:Hb; simpl in Hc; try discriminate.
  apply bind_call_names in Hb. simpl in Hb. env_shape Hb.
  simpl in Hc. injection Hc as <-. reflexivity.
Qed.

Definition d_stokes := nth 1 pinned_table (mkC "" false false "" [] [] "" [] [] "" UKwargs).
Definition d_healpix := nth 2 pinned_table (mkC "" false false "" [] [] "" [] [] "" UKwargs).
Definition d_frequency := nth 3 pinned_table (mkC "" false false "" [] [] "" [] [] "" UKwargs).

Lemma roundtrip_stokes : forall args kw obj,
  construct pinned_table d_stokes args kw = Ok obj -> roundtrip pinned_table d_stokes obj = Ok obj.
Proof.
  intros args kw obj Hc. unfold construct in Hc. simpl c_params in Hc. simpl c_body in Hc.
  destruct (bind_call _ args kw) as [loc| |] eqn:Hb; simpl in Hc; try discriminate.
  apply bind_call_names in Hb. simpl in Hb. env_shape Hb.
  rename v into shape, v0 into stokes, v1 into dtype, v2 into pshape.
  destruct shape, pshape; simpl in Hc; try discriminate;
    injection Hc as <-; vm_compute; rewrite ?rev_involutive; reflexivity.
Qed.

Lemma roundtrip_healpix : forall args kw obj,
  construct pinned_table d_healpix args kw = Ok obj -> roundtrip pinned_table d_healpix obj = Ok obj.
Proof.
  intros args kw obj Hc. unfold construct in Hc. simpl c_params in Hc. simpl c_body in Hc.
  destruct (bind_call _ args kw) as [loc| |] eqn:Hb; simpl in Hc; try discriminate.
  apply bind_call_names in Hb. simpl in Hb. env_shape Hb.
  rename v into nside.
  destruct nside; simpl in Hc; try discriminate.
  injection Hc as <-. reflexivity.
Qed.

Lemma roundtrip_frequency : forall args kw obj,
  construct pinned_table d_frequency args kw = Ok obj -> roundtrip pinned_table d_frequency obj = Ok obj.
Proof.
  intros args kw obj Hc. unfold construct in Hc. simpl c_params in Hc. simpl c_body in Hc.
  destruct (bind_call _ args kw) as [loc| |] eqn:Hb; simpl in Hc; try discriminate.
  apply bind_call_names in Hb. simpl in Hb. env_shape Hb.
  rename v into nside, v0 into freqs.
  destruct nside; simpl in Hc; try discriminate.
  destruct freqs as [| | | |l|id [n|]]; simpl in Hc; try discriminate;
    injection Hc as <-; reflexivity.
Qed.

Lemma roundtrip_pinned : roundtrip_holds pinned_table.
Proof.
  intros d args kw obj Hin _ Hc. simpl in Hin.
  destruct Hin as [<-|[<-|[<-|[<-|[]]]]].
  - eapply roundtrip_landscape; eauto.
  - eapply (roundtrip_stokes args kw); exact Hc.
  - eapply (roundtrip_healpix args kw); exact Hc.
  - eapply (roundtrip_frequency args kw); exact Hc.
Qed.

(* consequence for any table equal to the pinned one *)
Lemma roundtrip_of_equal : forall t, t = pinned_table -> roundtrip_holds t.
Proof. intros t ->. exact roundtrip_pinned. Qed.

(* the round trip also keeps the object when it is repeated (idempotence of unflatten . flatten) *)
Lemma roundtrip_twice : forall t d args kw obj, roundtrip_holds t -> In d t -> c_registered d = true ->
  construct t d args kw = Ok obj ->
  bind (roundtrip t d obj) (roundtrip t d) = Ok obj.
Proof.
  intros t d args kw obj H Hin Hr Hc. rewrite (H d args kw obj Hin Hr Hc). simpl.
  exact (H d args kw obj Hin Hr Hc).
Qed.

(* every observation of the object that is a function of its attributes (structure, size, full, normal,
   world2index ... of a landscape) is therefore unchanged: "same structures and same action" *)
Lemma roundtrip_same_action : forall t, roundtrip_holds t ->
  forall d args kw obj, In d t -> c_registered d = true -> construct t d args kw = Ok obj ->
  forall (A : Type) (f : env -> A), exists obj', roundtrip t d obj = Ok obj' /\ f obj' = f obj.
Proof.
  intros t H d args kw obj Hin Hr Hc A f. exists obj. split; [|reflexivity].
  exact (H d args kw obj Hin Hr Hc).
Qed.

(* what a constructed HealpixLandscape / FrequencyLandscape looks like (used by the non-vacuity
   examples and to state that shape is derived, hence need not travel in the aux data) *)
Lemma healpix_shape_derived : forall args kw obj,
  construct pinned_table d_healpix args kw = Ok obj ->
  exists n, lookup "nside" obj = Some (VInt n) /\
            lookup "shape" obj = Some (VTuple [VInt (12 * n ^ 2)]) /\
            lookup "pixel_shape" obj = Some (VTuple [VInt (12 * n ^ 2)]).
Proof.
  intros args kw obj Hc. unfold construct in Hc. simpl c_params in Hc. simpl c_body in Hc.
  destruct (bind_call _ args kw) as [loc| |] eqn:Hb; simpl in Hc; try discriminate.
  apply bind_call_names in Hb. simpl in Hb. env_shape Hb.
  destruct v; simpl in Hc; try discriminate.
  injection Hc as <-. exists z. repeat split; reflexivity.
Qed.

(* ---------------------------------------------------------------------------------------------- *)
(* field partition *)

Lemma assoc_in : forall {A} x (l : list (string * A)) v, assoc x l = Some v -> In (x, v) l.
Proof.
  induction l as [|[k w] r IH]; simpl; intros v H; [discriminate|].
  destruct (String.eqb k x) eqn:E.
  - apply String.eqb_eq in E. inversion H; subst. left; reflexivity.
  - right. apply IH; assumption.
Qed.

(* the finite check lifted to a statement about every field of every generated class *)
Lemma partition_sound_l : forall u t, partition_ok u t = true ->
  forall cls fs f st k, In (cls, fs) t -> In (f, (st, k)) fs ->
  exists use, use_of u cls f = Some use /\ consistent st k use = true.
Proof.
  intros u t H cls fs f st k Hc Hf.
  unfold partition_ok in H. rewrite forallb_forall in H. specialize (H _ Hc).
  unfold class_ok in H. simpl in H.
  destruct (assoc cls u) as [ufs|] eqn:E; [|discriminate].
  apply andb_true_iff in H. destruct H as [_ H].
  rewrite forallb_forall in H. specialize (H _ Hf). unfold field_ok in H. simpl in H.
  destruct (use_of u cls f) as [use|] eqn:Eu; [|discriminate].
  exists use; auto.
Qed.

(* a field consulted by Python-level control flow is never traced by a filtering jit ... *)
Lemma shape_level_not_traced : forall st k, consistent st k UShapeLevel = true -> may_be_traced st k = false.
Proof. intros [|] k H; destruct k; simpl in *; try reflexivity; discriminate. Qed.

Lemma config_not_traced : forall st k, consistent st k UConfigUse = true -> may_be_traced st k = false.
Proof. intros [|] k H; destruct k; simpl in *; try reflexivity; discriminate. Qed.

(* ... and a field used as numbers is a dynamic array leaf (a static array would be unhashable
   metadata) *)
Lemma value_level_dynamic : forall st k, consistent st k UValue = true -> st = false /\ may_be_traced st k = true.
Proof. intros [|] k H; destruct k; simpl in *; try discriminate; auto. Qed.

Lemma partition_no_shape_level_traced : forall u t, partition_ok u t = true ->
  forall cls fs f st k, In (cls, fs) t -> In (f, (st, k)) fs ->
  (use_of u cls f = Some UShapeLevel \/ use_of u cls f = Some UConfigUse) -> may_be_traced st k = false.
Proof.
  intros u t H cls fs f st k Hc Hf Hu.
  destruct (partition_sound_l u t H cls fs f st k Hc Hf) as [use [E C]].
  destruct Hu as [Hu|Hu]; rewrite Hu in E; inversion E; subst.
  - apply shape_level_not_traced; assumption.
  - apply config_not_traced; assumption.
Qed.

(* the boolean-mask fields (the property's exclusion) occur in IndexOperator and PackOperator only *)
Definition mask_classes_check : bool :=
  forallb (fun c => forallb (fun fu => implb (field_is_mask (snd fu))
                                             (mem (fst c) ["IndexOperator"; "PackOperator"])) (snd c)) model_uses.

Lemma mask_fields_only_in_index_and_pack : forall cls f u,
  use_of model_uses cls f = Some u -> field_is_mask u = true -> cls = "IndexOperator" \/ cls = "PackOperator".
Proof.
  assert (Hc : mask_classes_check = true) by (vm_compute; reflexivity).
  intros cls f u Hu Hm. unfold use_of in Hu.
  destruct (assoc cls model_uses) as [fs|] eqn:E; [|discriminate].
  apply assoc_in in E. apply assoc_in in Hu.
  unfold mask_classes_check in Hc. rewrite forallb_forall in Hc. specialize (Hc _ E). simpl in Hc.
  rewrite forallb_forall in Hc. specialize (Hc _ Hu). simpl in Hc. rewrite Hm in Hc. simpl in Hc.
  unfold mem in Hc. simpl in Hc.
  destruct (String.eqb cls "IndexOperator") eqn:E1; [left; apply String.eqb_eq; assumption|].
  destruct (String.eqb cls "PackOperator") eqn:E2; [right; apply String.eqb_eq; assumption|].
  discriminate.
Qed.

(* coverage: every classified class is generated (or optional) *)
Lemma coverage_sound_l : forall u t, coverage_ok u t = true ->
  forall cls fs, In (cls, fs) u -> In cls (map fst t) \/ In cls optional_classes.
Proof.
  intros u t H cls fs Hin. unfold coverage_ok in H. rewrite forallb_forall in H.
  specialize (H _ Hin). simpl in H. apply orb_true_iff in H.
  assert (Hm : forall l, mem cls l = true -> In cls l).
  { intros l Hl. unfold mem in Hl. apply existsb_exists in Hl. destruct Hl as [x [Hx Ex]].
    apply String.eqb_eq in Ex. subst. assumption. }
  destruct H as [H|H]; [left|right]; apply Hm; assumption.
Qed.

(* ---------------------------------------------------------------------------------------------- *)
(* equality of the static part (jit cache key) *)

(* when every field takes part in the comparison (and the equality of field values is sound), two
   records that compare equal have the same value in every field: no two operators that differ in a
   static field share one cache entry *)
Lemma rec_eq_sound_l : forall (V : Type) (veq : V -> V -> bool) flags a b,
  (forall x y, veq x y = true -> x = y) ->
  forallb (fun f : string * bool => snd f) flags = true ->
  rec_eq veq flags a b = true ->
  forall f, In f (map fst flags) -> assoc f a = assoc f b /\ assoc f a <> None.
Proof.
  intros V veq flags a b Hv Hall Heq f Hin.
  apply in_map_iff in Hin. destruct Hin as [[n c] [Hn Hin]]. simpl in Hn. subst n.
  rewrite forallb_forall in Hall. specialize (Hall _ Hin). simpl in Hall. subst c.
  unfold rec_eq in Heq. rewrite forallb_forall in Heq. specialize (Heq _ Hin). simpl in Heq.
  destruct (assoc f a) as [x|]; [|discriminate].
  destruct (assoc f b) as [y|]; [|discriminate].
  apply Hv in Heq. subst. split; [reflexivity|discriminate].
Qed.

(* ... and the condition is necessary: a field declared compare=False is ignored by the comparison,
   whatever its two values are *)
Lemma rec_eq_ignores_uncompared_l : forall (V : Type) (veq : V -> V -> bool) f x y,
  rec_eq veq [(f, false)] [(f, x)] [(f, y)] = true.
Proof. intros. reflexivity. Qed.

Lemma all_compared_table_l : forall (t : ctable), all_compared t = true ->
  forall cls flags, In (cls, flags) t -> forallb (fun f : string * bool => snd f) flags = true.
Proof.
  intros t H cls flags Hin. unfold all_compared in H. rewrite forallb_forall in H.
  specialize (H _ Hin). exact H.
Qed.

Lemma static_key_sound_l : forall (t : ctable), all_compared t = true ->
  forall cls flags, In (cls, flags) t ->
  forall (V : Type) (veq : V -> V -> bool) a b, (forall x y, veq x y = true -> x = y) ->
  rec_eq veq flags a b = true ->
  forall f, In f (map fst flags) -> assoc f a = assoc f b /\ assoc f a <> None.
Proof.
  intros t H cls flags Hin V veq a b Hv Heq f Hf.
  eapply rec_eq_sound_l; eauto. eapply all_compared_table_l; eauto.
Qed.
