(* reduce() returns an operator with the same input and output structures (the structural clause of
   C01, `reduce_structs` of C05, the squareness premise of C06), for every well-formed expression
   tree whose primitives satisfy `prims_ok` (below: the two facts about structures that cannot be
   read off a term and that the rules rely on).  Everything else is proved from the term: @square
   classes, lazy wrappers, chain compatibility, validated block containers.

   Invariant: `typed ops si so`: the factors of a composition form a path of structures from si
   (input of the last factor) to so (output of the first); the empty path has si = so.  Every
   binary rule, the identity and scalar rules, the splice of the scan and reduce() preserve it. *)
From Coq Require Import List Bool Arith ZArith NArith QArith String Lia.
From Furax Require Import Base.Pytree Model.Op Model.Algebra Model.Wf Lemmas.Sound Lemmas.BuildL.
From Furax Require Model.Axes Lemmas.AxesL.
Import ListNotations.
Local Close Scope Q_scope.
Local Open Scope nat_scope.

(* ---------- the structure of jnp.moveaxis(x, source, destination), leaf by leaf ---------- *)
Definition move_leaf (s d : list Z) (l : sds) : option sds :=
  match Axes.moveaxis_perm (List.length (s_shape l)) s d with
  | Axes.Ok p => Some (mkSds (Axes.permute 0 (s_shape l) p) (s_dtype l))
  | Axes.Err _ => None
  end.
Definition move_leaf_t (s d : list Z) (l : sds) : sds :=
  match move_leaf s d l with Some l' => l' | None => l end.
Definition move_ok (s d : list Z) (si : struct) : bool :=
  forallb (fun l => match move_leaf s d l with Some _ => true | None => false end) (flatten si).
Definition move_struct (s d : list Z) (si : struct) : struct := pmap (move_leaf_t s d) si.
(* out_structure() = eval_shape(mv, in_structure) of a MoveAxisOperator: defined, and equal to `so` *)
Definition moveaxis_okb (s d : list Z) (si so : struct) : bool :=
  move_ok s d si && struct_eqb so (move_struct s d si).

Lemma moveaxis_perm_length r s d p : Axes.moveaxis_perm r s d = Axes.Ok p -> List.length p = r.
Proof.
  unfold Axes.moveaxis_perm.
  destruct (Axes.mapM (Axes.canon_axis r) s) as [s'|]; cbn [Axes.bind]; [|discriminate].
  destruct (Axes.mapM (Axes.canon_axis r) d) as [d'|]; cbn [Axes.bind]; [|discriminate].
  destruct (negb _); [discriminate|].
  destruct (Axes.is_perm r _) eqn:E; [|discriminate].
  intros H; inversion H; subst. unfold Axes.is_perm in E. apply andb_true_iff in E as [E _].
  now apply Nat.eqb_eq in E.
Qed.

Lemma move_leaf_round s d a b c : move_leaf s d a = Some b -> move_leaf d s b = Some c -> c = a.
Proof.
  unfold move_leaf. destruct a as [sh dt]. cbn [s_shape s_dtype].
  destruct (Axes.moveaxis_perm (List.length sh) s d) as [p|] eqn:Ep; [|discriminate].
  intros H; inversion H; subst b; clear H. cbn [s_shape s_dtype].
  pose proof (moveaxis_perm_length _ _ _ _ Ep) as Hlen.
  rewrite AxesL.permute_length, Hlen.
  destruct (Axes.moveaxis_perm (List.length sh) d s) as [q|] eqn:Eq; [|discriminate].
  intros H; inversion H; subst c; clear H. f_equal.
  apply AxesL.moveaxis_perm_ok_inv in Ep as (Hs & Hd & Hl & NDs & ->).
  apply AxesL.moveaxis_perm_ok_inv in Eq as (_ & _ & _ & NDd & ->).
  apply AxesL.shape_restored; [|reflexivity].
  apply AxesL.legalZ_legal. repeat split; assumption.
Qed.

Lemma pmap_round A (f g : A -> A) (t : pt A) :
  (forall a, In a (flatten t) -> g (f a) = a) -> pmap g (pmap f t) = t.
Proof.
  induction t as [a|k cs IH] using pt_ind'; intros H; cbn [pmap].
  - f_equal. apply H. now left.
  - f_equal. cbn [flatten] in H. induction IH as [|x xs Hx _ IHl]; [reflexivity|].
    cbn [map]. cbn [flat_map] in H. f_equal.
    + apply Hx. intros a Ha. apply H, in_or_app. now left.
    + apply IHl. intros a Ha. apply H, in_or_app. now right.
Qed.

Lemma move_struct_round s d si :
  move_ok s d si = true -> move_ok d s (move_struct s d si) = true ->
  move_struct d s (move_struct s d si) = si.
Proof.
  unfold move_ok, move_struct. intros H1 H2. apply pmap_round. intros a Ha.
  rewrite flatten_pmap in H2. rewrite forallb_forall in H1, H2.
  specialize (H1 a Ha). specialize (H2 (move_leaf_t s d a) (in_map _ _ _ Ha)).
  unfold move_leaf_t in *. destruct (move_leaf s d a) as [b|] eqn:Eb; [|discriminate].
  destruct (move_leaf d s b) as [c|] eqn:Ec; [|discriminate].
  eapply move_leaf_round; eauto.
Qed.

(* two MoveAxis operators with crosswise equal (source, destination): if the right one feeds the
   left one, the left one gives back the input structure of the right one *)
Lemma moveaxis_pair s d sir sor sil sol :
  moveaxis_okb s d sir sor = true -> moveaxis_okb d s sil sol = true -> sor = sil -> sir = sol.
Proof.
  unfold moveaxis_okb. intros H1 H2 E. apply andb_true_iff in H1 as [O1 E1]. apply andb_true_iff in H2 as [O2 E2].
  apply struct_eqb_eq in E1, E2. subst sor sol. subst sil. symmetry. now apply move_struct_round.
Qed.

Section ReduceStructs.
  Variable K : Type.
  Variable keqb : K -> K -> bool.
  Hypothesis keqb_eq : forall a b, keqb a b = true -> a = b.
  Variables (k1 : K) (kmul : K -> K -> K).
  Notation op := (op K).
  Notation wfo := (@wfo K).
  Notation chain_ok := (@chain_ok K).
  Notation allwf := (allwf K).
  Notation same := (same keqb).
  Notation matmul := (matmul keqb kmul).
  Notation guard_ok := (guard_ok keqb).
  Notation apply_rule := (apply_rule keqb kmul).
  Notation fires := (fires keqb kmul).
  Notation scan := (scan keqb k1 kmul).
  Notation algebraic_reduction := (algebraic_reduction keqb k1 kmul).
  Notation reduce := (reduce keqb k1 kmul).
  Notation homothety_rule := (homothety_rule k1 kmul).

  (* ---------- what cannot be read off a term ---------- *)
  (* 1. MoveAxisOperator: out_structure() is the jnp.moveaxis image of in_structure() (it is
        computed so: AbstractLinearOperator.out_structure = eval_shape(self.mv, in_structure));
     2. IndexOperator without any indexed axis (only slice(None) / Ellipsis entries): the output
        structure is the input structure (x[:, ...] has the shape of x; IndexOperator.reduce()
        returns IdentityOperator(in_structure) for it). *)
  Fixpoint prims_okb (e : op) : bool :=
    let all := fix all (l : list op) : bool :=
      match l with [] => true | x :: xs => prims_okb x && all xs end in
    match e with
    | Prim _ CMoveAxis si so (PAxes s d) => moveaxis_okb s d si so
    | Prim _ CIndex si so (PIndex _ ix) =>
        match indexed_axes ix with [] => struct_eqb so si | _ => true end
    | Prim _ _ _ _ _ | Ident _ _ | Homoth _ _ _ => true
    | Wrap _ _ x => prims_okb x
    | Comp _ l | AddOp _ l | Block _ _ _ l => all l
    end.
  Definition prims_ok (e : op) : Prop := prims_okb e = true.
  Fixpoint allpk (l : list op) : bool := match l with [] => true | x :: xs => prims_okb x && allpk xs end.

  Lemma pk_comp i l : prims_okb (Comp i l) = allpk l.
  Proof. reflexivity. Qed.
  Lemma pk_add i l : prims_okb (AddOp i l) = allpk l.
  Proof. reflexivity. Qed.
  Lemma pk_block i b td l : prims_okb (Block i b td l) = allpk l.
  Proof. reflexivity. Qed.
  Lemma allpk_app l1 l2 : allpk (l1 ++ l2) = allpk l1 && allpk l2.
  Proof. induction l1; cbn; [reflexivity|]. rewrite IHl1. now rewrite andb_assoc. Qed.
  Lemma pk_operands b : allpk (operands b) = prims_okb b.
  Proof. destruct b; cbn [operands allpk]; try apply andb_true_r. reflexivity. Qed.
  Lemma wfo_add i l : wfo (AddOp i l) = negb (Nat.eqb (List.length l) 0) && sum_ok l && allwf l.
  Proof. reflexivity. Qed.
  Lemma wfo_block i b td l : wfo (Block i b td l) =
    negb (Nat.eqb (List.length l) 0) && Nat.eqb (List.length l) (nleaves td) &&
    match b with
    | BRow => all_eqb (map (@out_struct K) l)
    | BCol => all_eqb (map (@in_struct K) l)
    | BDiag => true
    end && allwf l.
  Proof. reflexivity. Qed.
  Lemma structs_block i b td (l : list op) :
    in_struct (Block i b td l) =
      match b with BCol => hd dummy_struct (map (@in_struct K) l) | _ => build dummy_struct td (map (@in_struct K) l) end /\
    out_struct (Block i b td l) =
      match b with BRow => hd dummy_struct (map (@out_struct K) l) | _ => build dummy_struct td (map (@out_struct K) l) end.
  Proof. destruct b; split; reflexivity. Qed.
  Lemma structs_add i (l : list op) :
    in_struct (AddOp i l) = hd dummy_struct (map (@in_struct K) l) /\
    out_struct (AddOp i l) = hd dummy_struct (map (@out_struct K) l).
  Proof. split; reflexivity. Qed.

  (* ---------- paths of structures ---------- *)
  Fixpoint typed (l : list op) (si so : struct) : Prop :=
    match l with
    | [] => si = so
    | a :: r => wfo a = true /\ prims_ok a /\ out_struct a = so /\ typed r si (in_struct a)
    end.

  Lemma typed_app l1 : forall l2 si sm so, typed l2 si sm -> typed l1 sm so -> typed (l1 ++ l2) si so.
  Proof.
    induction l1 as [|a l1 IH]; intros l2 si sm so H2 H1; cbn [typed app] in *.
    - now subst.
    - destruct H1 as (W & P & O & T). repeat split; auto. eapply IH; eauto.
  Qed.
  Lemma typed_app_inv l1 : forall l2 si so, typed (l1 ++ l2) si so ->
    exists sm, typed l2 si sm /\ typed l1 sm so.
  Proof.
    induction l1 as [|a l1 IH]; intros l2 si so H; cbn [typed app] in *.
    - exists so. auto.
    - destruct H as (W & P & O & T). destruct (IH _ _ _ T) as (sm & T2 & T1).
      exists sm. repeat split; auto.
  Qed.

  Lemma typed_chain ops : forall si so d, typed ops si so -> ops <> [] ->
    chain_ok ops = true /\ allwf ops = true /\ allpk ops = true /\
    in_struct (last ops d) = si /\ out_struct (hd d ops) = so.
  Proof.
    induction ops as [|a r IH]; intros si so d T Hne; [congruence|].
    cbn [typed] in T. destruct T as (W & P & O & T). destruct r as [|b r'].
    - cbn [typed] in T. subst. cbn [Wf.chain_ok BuildL.allwf allpk last hd]. unfold prims_ok in P. rewrite W, P. repeat split; reflexivity.
    - destruct (IH _ _ d T ltac:(discriminate)) as (C & A & Pk & I & Oo).
      cbn [hd] in Oo. repeat split.
      + change (chain_ok (a :: b :: r')) with (struct_eqb (in_struct a) (out_struct b) && chain_ok (b :: r')).
        rewrite C, andb_true_r. apply struct_eqb_true. now symmetry.
      + change (allwf (a :: b :: r')) with (wfo a && allwf (b :: r')). now rewrite W, A.
      + change (allpk (a :: b :: r')) with (prims_okb a && allpk (b :: r')). unfold prims_ok in P. now rewrite P, Pk.
      + exact I.
      + exact O.
  Qed.

  Lemma chain_typed ops : forall d, ops <> [] -> chain_ok ops = true -> allwf ops = true -> allpk ops = true ->
    typed ops (in_struct (last ops d)) (out_struct (hd d ops)).
  Proof.
    induction ops as [|a r IH]; intros d Hne C A P; [congruence|].
    change (allwf (a :: r)) with (wfo a && allwf r) in A. apply andb_true_iff in A as [Wa A].
    change (allpk (a :: r)) with (prims_okb a && allpk r) in P. apply andb_true_iff in P as [Pa P].
    destruct r as [|b r'].
    - cbn. repeat split; auto.
    - change (chain_ok (a :: b :: r')) with (struct_eqb (in_struct a) (out_struct b) && chain_ok (b :: r')) in C.
      apply andb_true_iff in C as [E C]. apply struct_eqb_true in E.
      specialize (IH d ltac:(discriminate) C A P). cbn [hd] in IH.
      change (wfo a = true /\ prims_ok a /\ out_struct a = out_struct a /\
              typed (b :: r') (in_struct (last (b :: r') d)) (in_struct a)).
      split; [exact Wa|]. split; [exact Pa|]. split; [reflexivity|]. rewrite E. exact IH.
  Qed.

  (* dropping factors whose two structures coincide *)
  Lemma filter_typed (p : op -> bool) : (forall e, p e = false -> in_struct e = out_struct e) ->
    forall ops si so, typed ops si so -> typed (filter p ops) si so.
  Proof.
    intros Hp. induction ops as [|a r IH]; intros si so T; [exact T|].
    cbn [typed] in T. destruct T as (W & P & O & T). cbn [filter]. destruct (p a) eqn:E.
    - cbn [typed]. repeat split; auto.
    - apply IH. rewrite (Hp a E), O in T. exact T.
  Qed.

  Lemma identity_rule_typed ops si so : typed ops si so -> typed (identity_rule ops) si so.
  Proof.
    apply filter_typed. intros e He. destruct e; try discriminate. reflexivity.
  Qed.

  Lemma homothety_rule_typed ops si so : typed ops si so -> typed (homothety_rule ops) si so.
  Proof.
    intros T. unfold Algebra.homothety_rule.
    destruct ops as [|first [|second rest]]; try exact T.
    set (ops := first :: second :: rest) in *.
    destruct (Nat.eqb _ 0); [exact T|].
    match goal with |- context [if ?c then ops else _] => destruct c end; [exact T|].
    assert (To : typed (filter (fun e => negb (is_homoth e)) ops) si so).
    { apply filter_typed; [|exact T]. intros e He. destruct e; try discriminate. reflexivity. }
    destruct (typed_chain ops si so first T ltac:(discriminate)) as (_ & _ & _ & I & O).
    destruct (Nat.leb _ _).
    - change (out_struct first = so) in O. cbn [typed]. repeat split; [exact O|].
      change (in_struct (Homoth fresh (homoth_value k1 kmul ops) (out_struct first))) with (out_struct first).
      rewrite O. exact To.
    - eapply typed_app; [|exact To]. cbn [typed]. repeat split.
      change (out_struct (Homoth fresh (homoth_value k1 kmul ops) (in_struct (last ops first))))
        with (in_struct (last ops first)). exact I.
      change (in_struct (Homoth fresh (homoth_value k1 kmul ops) (in_struct (last ops first))))
        with (in_struct (last ops first)). now symmetry.
  Qed.

  (* ---------- A @ B keeps prims_ok ---------- *)
  Lemma base_matmul_pk a b c : prims_ok a -> prims_ok b -> base_matmul keqb a b = Ok c -> prims_ok c.
  Proof.
    unfold prims_ok. intros Pa Pb. unfold base_matmul. destruct (negb _); [discriminate|].
    assert (Hdef : prims_okb (Comp fresh [a; b]) = true) by (cbn; now rewrite Pa, Pb).
    destruct b; cbn [lazy_inverse_of]; try (intros H; inversion H; subst; exact Hdef).
    - destruct (isinst _ _); [|intros H; inversion H; subst; exact Hdef].
      destruct (same b a); intros H; inversion H; subst; [reflexivity|exact Hdef].
    - intros H; inversion H; subst. rewrite pk_comp in *. cbn [allpk]. now rewrite Pa, Pb.
  Qed.
  Lemma matmul_pk a b c : prims_ok a -> prims_ok b -> matmul a b = Ok c -> prims_ok c.
  Proof.
    intros Pa Pb. unfold Algebra.matmul.
    destruct a as [ia ca sia soa pa|ia wa ea|ia sa|ia ka sa|ia la|ia la|ia ba tda la];
      try (apply base_matmul_pk; assumption).
    - destruct (lazy_inverse_of _); [|apply base_matmul_pk; assumption].
      destruct (same _ _); [|apply base_matmul_pk; assumption]. intros H; inversion H; reflexivity.
    - destruct (negb _); [discriminate|]. intros H; inversion H; subst; exact Pb.
    - destruct b; try (apply base_matmul_pk; assumption).
      destruct (negb _); [discriminate|]. intros H; inversion H; reflexivity.
    - destruct (negb _); [discriminate|]. intros H; inversion H; subst. unfold prims_ok in *.
      rewrite pk_comp in *. now rewrite allpk_app, Pa, pk_operands.
  Qed.

  Lemma mapM2_matmul_structs ll : forall lr prods, mapM2 matmul ll lr = Ok prods ->
    allwf ll = true -> allwf lr = true -> allpk ll = true -> allpk lr = true ->
    allwf prods = true /\ allpk prods = true /\
    map (@in_struct K) prods = map (@in_struct K) lr /\ map (@out_struct K) prods = map (@out_struct K) ll.
  Proof.
    induction ll as [|a ll IH]; intros [|b lr] prods H Wl Wr Pl Pr; cbn in H; try discriminate.
    - inversion H; subst. repeat split; reflexivity.
    - apply result_bind_ok in H as (c & Hc & H). apply result_bind_ok in H as (cs & Hcs & H).
      inversion H; subst prods. cbn [BuildL.allwf allpk] in *.
      apply andb_true_iff in Wl as [Wa Wl]. apply andb_true_iff in Wr as [Wb Wr].
      apply andb_true_iff in Pl as [Pa Pl]. apply andb_true_iff in Pr as [Pb Pr].
      destruct (IH _ _ Hcs Wl Wr Pl Pr) as (W & P & I & O).
      destruct (matmul_wf K kmul keqb keqb_eq a b c Wa Wb Hc) as (Wc & Ic & Oc).
      pose proof (matmul_pk a b c Pa Pb Hc) as Pc. unfold prims_ok in Pc.
      rewrite Wc, W, Pc, P. cbn [map]. rewrite Ic, Oc, I, O. repeat split; reflexivity.
  Qed.

  Lemma mk_block_ok b td l new : mk_block b td l = Ok new -> allwf l = true ->
    new = Block fresh b td l /\ wfo new = true.
  Proof.
    unfold mk_block. destruct (negb (Nat.eqb (List.length l) (nleaves td))) eqn:El; [discriminate|].
    apply negb_false_iff in El. intros H A.
    destruct l as [|x xs]; [discriminate|].
    destruct b.
    - destruct (all_eqb _) eqn:E; inversion H; subst. split; [reflexivity|].
      rewrite wfo_block, El, A, E. reflexivity.
    - inversion H; subst. split; [reflexivity|]. rewrite wfo_block, El, A. reflexivity.
    - destruct (all_eqb _) eqn:E; inversion H; subst. split; [reflexivity|].
      rewrite wfo_block, El, A, E. reflexivity.
  Qed.

  Lemma hwp_square (r : op) : is_a r [CHWP] = true -> in_struct r = out_struct r.
  Proof.
    unfold is_a. destruct r as [i c si so p|i w e| | | | |i b]; cbn [cls_of].
    - destruct c; intros H; try (vm_compute in H; discriminate H). reflexivity.
    - destruct w; intros H; vm_compute in H; discriminate H.
    - intros H; vm_compute in H; discriminate H.
    - intros H; vm_compute in H; discriminate H.
    - intros H; vm_compute in H; discriminate H.
    - intros H; vm_compute in H; discriminate H.
    - destruct b; intros H; vm_compute in H; discriminate H.
  Qed.

  (* ---------- the binary rules ---------- *)
  Definition keeps (f : op -> result op) : Prop :=
    forall e e', wfo e = true -> prims_ok e -> f e = Ok e' ->
      wfo e' = true /\ prims_ok e' /\ in_struct e' = in_struct e /\ out_struct e' = out_struct e.

  Section Rules.
    Variable rr : op -> result op.
    Hypothesis Hrr : keeps rr.

    Lemma block_rule_typed reduced l r new bl br :
      (forall i b td ll, l = Block i b td ll -> b = bl) ->
      (forall i b td lr, r = Block i b td lr -> b = br) ->
      match reduced, bl, br with
      | Some BRow, BRow, BDiag | Some BCol, BDiag, BCol | Some BDiag, BDiag, BDiag | None, BRow, BCol => True
      | _, _, _ => False
      end ->
      wfo l = true -> wfo r = true -> prims_ok l -> prims_ok r ->
      block_rule keqb kmul rr reduced l r = Ok (Some new) -> typed new (in_struct r) (out_struct l).
    Proof.
      intros Hl Hr Hkinds Wl Wr Pl Pr H. unfold block_rule in H.
      destruct l as [| | | | | |il bl' tdl ll]; try discriminate.
      destruct r as [| | | | | |ir br' tdr lr]; try discriminate.
      specialize (Hl _ _ _ _ eq_refl). specialize (Hr _ _ _ _ eq_refl). subst bl' br'.
      destruct (pt_eqb (fun _ _ : unit => true) tdl tdr) eqn:Etd; cbn [negb] in H; [|discriminate].
      apply (pt_eqb_eq _ (@unit_eqb_eq)) in Etd. subst tdr.
      apply result_bind_ok in H as (prods & Hp & H).
      apply result_bind_ok in H as (newb & Hn & H).
      apply result_bind_ok in H as (red & Hred & H). inversion H; subst new. clear H.
      rewrite wfo_block in Wl, Wr.
      apply andb_true_iff in Wl as [Wl Al]. apply andb_true_iff in Wl as [_ Kl].
      apply andb_true_iff in Wr as [Wr Ar]. apply andb_true_iff in Wr as [_ Kr].
      unfold prims_ok in Pl, Pr. rewrite pk_block in Pl, Pr.
      destruct (mapM2_matmul_structs _ _ _ Hp Al Ar Pl Pr) as (Wp & Pp & Ip & Op).
      assert (Hnew : wfo newb = true /\ prims_ok newb /\
                     in_struct newb = in_struct (Block ir br tdl lr) /\
                     out_struct newb = out_struct (Block il bl tdl ll)).
      { destruct reduced as [[| |]|], bl, br; try contradiction.
        - destruct (mk_block_ok _ _ _ _ Hn Wp) as [-> Wn]. split; [exact Wn|]. split; [exact Pp|].
          destruct (structs_block fresh BRow tdl prods) as [-> ->].
          destruct (structs_block ir BDiag tdl lr) as [-> _].
          destruct (structs_block il BRow tdl ll) as [_ ->]. now rewrite Ip, Op.
        - destruct (mk_block_ok _ _ _ _ Hn Wp) as [-> Wn]. split; [exact Wn|]. split; [exact Pp|].
          destruct (structs_block fresh BDiag tdl prods) as [-> ->].
          destruct (structs_block ir BDiag tdl lr) as [-> _].
          destruct (structs_block il BDiag tdl ll) as [_ ->]. now rewrite Ip, Op.
        - destruct (mk_block_ok _ _ _ _ Hn Wp) as [-> Wn]. split; [exact Wn|]. split; [exact Pp|].
          destruct (structs_block fresh BCol tdl prods) as [-> ->].
          destruct (structs_block ir BCol tdl lr) as [-> _].
          destruct (structs_block il BDiag tdl ll) as [_ ->]. now rewrite Ip, Op.
        - destruct prods as [|p0 pr] eqn:Ep; [discriminate|]. inversion Hn; subst newb. rewrite <- Ep in *.
          split; [|split; [exact Pp|]].
          + rewrite wfo_add, Wp, andb_true_r. unfold sum_ok. rewrite Ip, Op, Kl, Kr. rewrite Ep. reflexivity.
          + destruct (structs_add fresh prods) as [-> ->].
            destruct (structs_block ir BCol tdl lr) as [-> _].
            destruct (structs_block il BRow tdl ll) as [_ ->]. now rewrite Ip, Op. }
      destruct Hnew as (Wn & Pn & In & On).
      destruct (Hrr _ _ Wn Pn Hred) as (Wd & Pd & Id & Od).
      cbn [typed]. repeat split; auto; congruence.
    Qed.

    Lemma rule_typed ru l r new si so :
      guard_ok (guard_of ru) l r = true ->
      apply_rule rr ru l r = Ok (Some new) -> typed [l; r] si so -> typed new si so.
    Proof.
      intros Hg Ha T. cbn [typed] in T. destruct T as (Wl & Pl & Ho & Wr & Pr & Hlr & Hi). subst si so.
      apply guard_parts in Hg as (Hc & Hl & Hr).
      destruct ru; cbn [guard_of g_any g_left g_right is_exactly_transpose] in Hc, Hl, Hr;
        cbn [Algebra.apply_rule] in Ha.
      - (* InverseBinaryRule *)
        destruct (lazy_inverse_of l) as [xl|] eqn:El.
        + destruct (same xl r) eqn:Es; [|discriminate]. inversion Ha; subst new.
          apply same_eq in Es; [|exact keqb_eq]. subst xl.
          destruct (lazy_inverse_wf K l r El Wl) as (_ & H2 & _). cbn [typed]. now symmetry.
        + destruct (lazy_inverse_of r) as [xr|] eqn:Er; [|discriminate].
          destruct (same xr l) eqn:Es; [|discriminate]. inversion Ha; subst new.
          apply same_eq in Es; [|exact keqb_eq]. subst xr.
          destruct (lazy_inverse_wf K r l Er Wr) as (H1 & _ & _). exact H1.
      - (* MoveAxisInverseRule *)
        apply andb_true_iff in Hc as [Hcl Hcr].
        destruct l as [il cl sil sol pl| | | | | |]; try discriminate.
        destruct pl as [| | | |ls ld|]; try discriminate.
        destruct r as [ir cr sir sor pr| | | | | |]; try discriminate.
        destruct pr as [| | | |rs rd|]; try discriminate.
        destruct (list_eqb Z.eqb ls rd && list_eqb Z.eqb ld rs) eqn:E; [|discriminate]. inversion Ha; subst new.
        apply andb_true_iff in E as [E1 E2].
        apply (list_eqb_eq Z.eqb) in E1; [|intros; now apply Z.eqb_eq].
        apply (list_eqb_eq Z.eqb) in E2; [|intros; now apply Z.eqb_eq]. subst ls ld.
        assert (cl = CMoveAxis) by (unfold is_a in Hcl; cbn in Hcl; destruct cl; cbn in Hcl; try discriminate; reflexivity).
        assert (cr = CMoveAxis) by (unfold is_a in Hcr; cbn in Hcr; destruct cr; cbn in Hcr; try discriminate; reflexivity).
        subst cl cr. unfold prims_ok in Pl, Pr. cbn [prims_okb] in Pl, Pr.
        cbn [typed]. unfold in_struct, out_struct in *. cbn [structs square_cls fst snd] in *.
        eapply moveaxis_pair; eauto.
      - (* ReshapeInverseRule *)
        destruct (is_a l [CAbstractRavelOrReshape]) eqn:Ell.
        + destruct (is_a r [CReshapeTranspose]) eqn:Err; cbn [negb] in Ha; [|discriminate].
          destruct (wrapped r) as [xr|] eqn:Ew; [|discriminate].
          destruct (same xr l) eqn:Es; [|discriminate]. inversion Ha; subst new.
          apply same_eq in Es; [|exact keqb_eq]. subst xr. destruct r as [|ir wr er| | | | |]; try discriminate.
          cbn in Ew. inversion Ew; subst er. cbn [typed]. apply (wrap_structs K).
        + destruct (is_a l [CReshapeTranspose]) eqn:Elt; [|discriminate].
          destruct (is_a r [CAbstractRavelOrReshape]) eqn:Err; cbn [negb] in Ha; [|discriminate].
          destruct (wrapped l) as [xl|] eqn:Ew; [|discriminate].
          destruct (same xl r) eqn:Es; [|discriminate]. inversion Ha; subst new.
          apply same_eq in Es; [|exact keqb_eq]. subst xl. destruct l as [|il wl el| | | | |]; try discriminate.
          cbn in Ew. inversion Ew; subst el. cbn [typed]. symmetry. apply (wrap_structs K).
      - (* PackUnpackRule *)
        inversion Ha; subst new.
        destruct (wrapped r) as [xr|] eqn:Ew; [|discriminate]. apply same_eq in Hr; [|exact keqb_eq]. subst xr.
        destruct r as [|ir wr er| | | | |]; try discriminate. cbn in Ew. inversion Ew; subst er.
        cbn [typed]. apply (wrap_structs K).
      - (* QURotationRule *)
        destruct (angles_of l) as [la|] eqn:Eal.
        + destruct l as [il cl sil sol pl| | | | | |]; try discriminate. cbn in Eal.
          destruct cl; try discriminate. destruct pl; try discriminate. inversion Eal; subst a.
          destruct (angles_of r) as [ra|] eqn:Ear.
          * destruct r as [ir cr sir sor pr| | | | | |]; try discriminate. cbn in Ear.
            destruct cr; try discriminate. destruct pr; try discriminate. inversion Ear; subst a.
            inversion Ha; subst new. cbn [typed]. unfold in_struct, out_struct in *.
            cbn [structs square_cls fst snd] in *. repeat split; congruence.
          * destruct r as [|ir wr er| | | | |]; try discriminate. destruct wr; try discriminate.
            destruct (angles_of er) as [ra|] eqn:Eer; [|discriminate].
            destruct er as [jr cr sjr sojr pr| | | | | |]; try discriminate. cbn in Eer.
            destruct cr; try discriminate. destruct pr; try discriminate. inversion Eer; subst a.
            inversion Ha; subst new. cbn [typed]. unfold in_struct, out_struct in *.
            cbn [structs square_cls fst snd] in *. repeat split; congruence.
        + destruct l as [|il wl el| | | | |]; try discriminate. destruct wl; try discriminate.
          destruct (angles_of el) as [la|] eqn:Eel; [|discriminate].
          destruct el as [jl cl sjl sojl pl| | | | | |]; try discriminate. cbn in Eel.
          destruct cl; try discriminate. destruct pl; try discriminate. inversion Eel; subst a.
          destruct (angles_of r) as [ra|] eqn:Ear.
          * destruct r as [ir cr sir sor pr| | | | | |]; try discriminate. cbn in Ear.
            destruct cr; try discriminate. destruct pr; try discriminate. inversion Ear; subst a.
            inversion Ha; subst new. cbn [typed]. unfold in_struct, out_struct in *.
            cbn [structs square_cls fst snd] in *. repeat split; congruence.
          * destruct r as [|ir wr er| | | | |]; try discriminate. destruct wr; try discriminate.
            destruct (angles_of er) as [ra|] eqn:Eer; [|discriminate].
            destruct er as [jr cr sjr sojr pr| | | | | |]; try discriminate. cbn in Eer.
            destruct cr; try discriminate. destruct pr; try discriminate. inversion Eer; subst a.
            inversion Ha; subst new. cbn [typed]. unfold in_struct, out_struct in *.
            cbn [structs square_cls fst snd] in *. repeat split; congruence.
      - (* QURotationHWPRule *)
        apply andb_true_iff in Hc as [Hcl Hcr]. pose proof (hwp_square r Hcr) as Sq.
        destruct l as [il cl sil sol pl|il wl el| | | | |]; try discriminate.
        + destruct cl; try discriminate. inversion Ha; subst new.
          destruct (wrap_structs K fresh WQURotT (Prim il CQURotation sil sol pl)) as [I1 O1].
          assert (Sl : in_struct (Prim il CQURotation sil sol pl : op) = out_struct (Prim il CQURotation sil sol pl : op))
            by reflexivity.
          cbn [typed]. repeat split; auto; try congruence.
          cbn [Wf.wfo]. cbn [wcls]. unfold is_square. rewrite Sl. apply struct_eqb_refl.
        + destruct wl; try discriminate. inversion Ha; subst new.
          destruct (wrap_structs K il WQURotT el) as [I1 O1].
          cbn [Wf.wfo] in Wl. apply andb_true_iff in Wl as [We Sl]. cbn in Sl.
          unfold is_square in Sl. apply struct_eqb_true in Sl.
          cbn [typed]. repeat split; auto; try congruence.
      - (* LinearPolarizerHWPRule *)
        apply andb_true_iff in Hc as [Hcl Hcr]. pose proof (hwp_square r Hcr) as Sq. inversion Ha; subst new.
        cbn [typed]. repeat split; auto; congruence.
      - (* row @ diag *)
        apply andb_true_iff in Hc as [Hcl Hcr].
        eapply (block_rule_typed (Some BRow) l r new BRow BDiag); [| |exact I| | | | |exact Ha]; auto.
        + intros i b td ll ->. pose proof (is_a_block K _ _ Hcl ltac:(auto) _ _ _ _ eq_refl) as Hb. now destruct b.
        + intros i b td lr ->. pose proof (is_a_block K _ _ Hcr ltac:(auto) _ _ _ _ eq_refl) as Hb. now destruct b.
      - apply andb_true_iff in Hc as [Hcl Hcr].
        eapply (block_rule_typed (Some BCol) l r new BDiag BCol); [| |exact I| | | | |exact Ha]; auto.
        + intros i b td ll ->. pose proof (is_a_block K _ _ Hcl ltac:(auto) _ _ _ _ eq_refl) as Hb. now destruct b.
        + intros i b td lr ->. pose proof (is_a_block K _ _ Hcr ltac:(auto) _ _ _ _ eq_refl) as Hb. now destruct b.
      - apply andb_true_iff in Hc as [Hcl Hcr].
        eapply (block_rule_typed (Some BDiag) l r new BDiag BDiag); [| |exact I| | | | |exact Ha]; auto.
        + intros i b td ll ->. pose proof (is_a_block K _ _ Hcl ltac:(auto) _ _ _ _ eq_refl) as Hb. now destruct b.
        + intros i b td lr ->. pose proof (is_a_block K _ _ Hcr ltac:(auto) _ _ _ _ eq_refl) as Hb. now destruct b.
      - apply andb_true_iff in Hc as [Hcl Hcr].
        eapply (block_rule_typed None l r new BRow BCol); [| |exact I| | | | |exact Ha]; auto.
        + intros i b td ll ->. pose proof (is_a_block K _ _ Hcl ltac:(auto) _ _ _ _ eq_refl) as Hb. now destruct b.
        + intros i b td lr ->. pose proof (is_a_block K _ _ Hcr ltac:(auto) _ _ _ _ eq_refl) as Hb. now destruct b.
      - (* IndexTransposeRule *)
        destruct l as [il cl sil sol pl| | | | | |]; try discriminate.
        destruct pl as [| | |uniq ix| |]; try discriminate. destruct uniq; [|discriminate].
        inversion Ha; subst new.
        destruct (wrapped r) as [xr|] eqn:Ew; [|discriminate]. apply same_eq in Hr; [|exact keqb_eq]. subst xr.
        destruct r as [|ir wr er| | | | |]; try discriminate. cbn in Ew. inversion Ew; subst er.
        cbn [typed]. apply (wrap_structs K).
      - (* TransposeIndexRule *)
        destruct r as [ir cr sir sor pr| | | | | |]; try discriminate.
        destruct pr as [| | |uniq ix| |]; try discriminate.
        destruct (Nat.ltb 1 (List.length (indexed_axes ix))) eqn:Elen; [discriminate|].
        destruct uniq; [discriminate|].
        destruct (leaf_shapes sir) as [|sh shs] eqn:Esh; [discriminate|].
        destruct (forallb (shape_eqb sh) shs) eqn:Eall; cbn [negb] in Ha; [|discriminate].
        destruct (indexed_axes ix) as [|axis rest] eqn:Eax; [discriminate|].
        destruct (py_nth ix axis) as [[| | | |d|]|] eqn:Ei; try discriminate.
        destruct (py_nth sh axis) as [n|] eqn:En; [|discriminate].
        inversion Ha; subst new.
        destruct (wrapped l) as [xl|] eqn:Ew; [|discriminate]. apply same_eq in Hl; [|exact keqb_eq]. subst xl.
        destruct l as [|il wl el| | | | |]; try discriminate. cbn in Ew. inversion Ew; subst el.
        destruct (wrap_structs K il wl (Prim ir cr sir sor (PIndex false ix))) as [I1 O1].
        cbn [typed]. repeat split. rewrite O1. destruct cr; reflexivity. destruct cr; reflexivity.
    Qed.

    Lemma fires_typed order l r new si so :
      fires rr order l r = Ok (Some new) -> typed [l; r] si so -> typed new si so.
    Proof.
      induction order as [|ru rest IH]; cbn [Algebra.fires]; [discriminate|].
      destruct (guard_ok (guard_of ru) l r) eqn:Eg; [|exact IH].
      intros H. apply result_bind_ok in H as (res & Hres & H).
      destruct res as [new'|]; [|exact (IH H)]. inversion H; subst new'.
      eapply rule_typed; eauto.
    Qed.

    Lemma scan_typed fuel order : forall ops index res si so,
      scan rr fuel order ops index = Ok res -> typed ops si so -> typed res si so.
    Proof.
      induction fuel as [|fuel IH]; intros ops index res si so H T; [discriminate|].
      cbn [Algebra.scan] in H. destruct (Nat.ltb (S index) (List.length ops)).
      - destruct (nth_error ops index) as [l|] eqn:El; [|discriminate].
        destruct (nth_error ops (S index)) as [r|] eqn:Er; [|discriminate].
        apply result_bind_ok in H as (fr & Hf & H). destruct fr as [new0|].
        + pose proof (nth_error_split _ _ _ _ _ El Er) as Hs.
          assert (T1 : typed (firstn index ops ++ identity_rule new0 ++ skipn (index + 2) ops) si so).
          { rewrite Hs in T. apply typed_app_inv in T as (s2 & T2 & TA).
            apply typed_app_inv in T2 as (s1 & TB & TP).
            eapply typed_app; [|exact TA]. eapply typed_app; [exact TB|].
            apply identity_rule_typed. eapply fires_typed; eauto. }
          destruct (existsb _ (identity_rule new0)).
          * eapply IH; [exact H|]. now apply homothety_rule_typed.
          * eapply IH; eauto.
        + eapply IH; eauto.
      - inversion H; subst. exact T.
    Qed.

    Lemma algebraic_typed fuel order ops res si so :
      algebraic_reduction rr fuel order ops = Ok res -> typed ops si so -> typed res si so.
    Proof.
      unfold Algebra.algebraic_reduction.
      destruct ops as [|a [|b rest]]; try (intros H T; inversion H; subst; exact T).
      intros H T. apply result_bind_ok in H as (res' & Hs & H).
      pose proof (scan_typed _ _ _ _ _ _ _ Hs (homothety_rule_typed _ _ _ (identity_rule_typed _ _ _ T))) as T'.
      destruct res' as [|c r]; inversion H; subst; [|exact T'].
      cbn [typed] in T'. subst so.
      destruct (typed_chain _ _ _ (Ident fresh dummy_struct) T ltac:(discriminate)) as (_ & _ & _ & I & _).
      cbn [typed]. split; [reflexivity|]. split; [reflexivity|]. split; [exact I|symmetry; exact I].
    Qed.
  End Rules.

  (* ---------- reduce() ---------- *)
  Lemma mapM_typed (f : op -> result op) : keeps f ->
    forall l l' si so, mapM f l = Ok l' -> typed l si so -> typed l' si so.
  Proof.
    intros Hf. induction l as [|a r IH]; intros l' si so H T; cbn in H.
    - inversion H; subst. exact T.
    - apply result_bind_ok in H as (a' & Ha & H). apply result_bind_ok in H as (r' & Hr & H).
      inversion H; subst l'. cbn [typed] in *. destruct T as (W & P & O & T).
      destruct (Hf _ _ W P Ha) as (W' & P' & I' & O'). repeat split; auto; try congruence.
      rewrite I'. eapply IH; eauto.
  Qed.
  Lemma mapM_pres (f : op -> result op) : keeps f ->
    forall l l', mapM f l = Ok l' -> allwf l = true -> allpk l = true ->
    allwf l' = true /\ allpk l' = true /\
    map (@in_struct K) l' = map (@in_struct K) l /\ map (@out_struct K) l' = map (@out_struct K) l.
  Proof.
    intros Hf. induction l as [|a r IH]; intros l' H W P; cbn in H.
    - inversion H; subst. repeat split; reflexivity.
    - apply result_bind_ok in H as (a' & Ha & H). apply result_bind_ok in H as (r' & Hr & H).
      inversion H; subst l'. cbn [BuildL.allwf allpk] in *.
      apply andb_true_iff in W as [Wa W]. apply andb_true_iff in P as [Pa P].
      destruct (Hf _ _ Wa Pa Ha) as (W' & P' & I' & O'). destruct (IH _ Hr W P) as (W2 & P2 & I2 & O2).
      unfold prims_ok in P'. rewrite W', P', W2, P2. cbn [map]. rewrite I', O', I2, O2. repeat split; reflexivity.
  Qed.
  Lemma map_eq_length A B (f : A -> B) l l' : map f l = map f l' -> List.length l = List.length l'.
  Proof. intros H. apply (f_equal (@List.length B)) in H. now rewrite !map_length in H. Qed.
  Lemma idents_square (l : list op) : forallb (@is_ident K) l = true ->
    map (@in_struct K) l = map (@out_struct K) l.
  Proof.
    induction l as [|e r IH]; [reflexivity|]. cbn [forallb]. intros H. apply andb_true_iff in H as [He Hr].
    destruct e; try discriminate. cbn [map]. now rewrite (IH Hr).
  Qed.

  Theorem reduce_keeps : forall fuel order, keeps (reduce fuel order).
  Proof.
    induction fuel as [|f IH]; intros order e e' W P H; [discriminate|].
    cbn [Algebra.reduce] in H.
    assert (Hsame : e' = e -> wfo e' = true /\ prims_ok e' /\ in_struct e' = in_struct e /\ out_struct e' = out_struct e)
      by (intros ->; auto).
    destruct e as [i c si so p|i w e0|i s|i k s|i l|i l|i b td l].
    - destruct c; try (inversion H; subst; now apply Hsame).
      + (* CIndex *)
        destruct p as [| | |u ix| |]; try (inversion H; subst; now apply Hsame).
        unfold prims_ok in P. cbn [prims_okb] in P.
        destruct (indexed_axes ix) eqn:Eax; inversion H; subst; [|now apply Hsame].
        apply struct_eqb_eq in P. subst so. repeat split; reflexivity.
      + destruct (struct_eqb so si) eqn:E; inversion H; subst; [|now apply Hsame].
        apply struct_eqb_eq in E. subst so. repeat split; reflexivity.
      + destruct (struct_eqb so si) eqn:E; inversion H; subst; [|now apply Hsame].
        apply struct_eqb_eq in E. subst so. repeat split; reflexivity.
    - inversion H; subst; now apply Hsame.
    - inversion H; subst; now apply Hsame.
    - inversion H; subst; now apply Hsame.
    - (* composition *)
      apply result_bind_ok in H as (ops & Hops & H). apply result_bind_ok in H as (ops' & Halg & H).
      rewrite wfo_comp in W. apply andb_true_iff in W as [W Wa]. apply andb_true_iff in W as [Wn Wc].
      assert (Hne : l <> []) by (destruct l; [discriminate|discriminate]).
      unfold prims_ok in P. rewrite pk_comp in P.
      pose proof (chain_typed l (Ident fresh dummy_struct) Hne Wc Wa P) as T.
      rewrite <- (in_struct_comp K i l _ Hne), <- (out_struct_comp K i l _ Hne) in T.
      pose proof (mapM_typed _ (IH order) _ _ _ _ Hops T) as T1.
      pose proof (algebraic_typed _ (IH order) _ _ _ _ _ _ Halg T1) as T2.
      destruct ops' as [|a [|b r]]; inversion H; subst e'.
      + cbn [typed] in T2. repeat split. exact T2.
      + cbn [typed] in T2. destruct T2 as (Wx & Px & Ox & Ix). repeat split; auto.
      + destruct (typed_chain _ _ _ (Ident fresh dummy_struct) T2 ltac:(discriminate)) as (C & A & Pk & I & O).
        rewrite wfo_comp, C, A. unfold prims_ok. rewrite pk_comp, Pk.
        rewrite (in_struct_comp K fresh _ (Ident fresh dummy_struct)) by discriminate.
        rewrite (out_struct_comp K fresh _ (Ident fresh dummy_struct)) by discriminate.
        repeat split; auto.
    - (* sum *)
      apply result_bind_ok in H as (ops & Hops & H).
      rewrite wfo_add in W. apply andb_true_iff in W as [W Wa]. apply andb_true_iff in W as [Wn Ws].
      unfold prims_ok in P. rewrite pk_add in P.
      destruct (mapM_pres _ (IH order) _ _ Hops Wa P) as (W' & P' & I' & O').
      destruct (structs_add i l) as [-> ->].
      assert (Hgen : wfo (AddOp fresh ops) = true /\ prims_ok (AddOp fresh ops) /\
                in_struct (AddOp fresh ops) = hd dummy_struct (map (@in_struct K) l) /\
                out_struct (AddOp fresh ops) = hd dummy_struct (map (@out_struct K) l)).
      { destruct (structs_add fresh ops) as [-> ->]. rewrite wfo_add, W'. unfold prims_ok. rewrite pk_add, P'.
        unfold sum_ok in *. rewrite I', O', Ws, (map_eq_length _ _ _ _ _ I'), Wn. repeat split; reflexivity. }
      destruct ops as [|a [|b r]]; inversion H; subst e'; try exact Hgen.
      rewrite <- I', <- O'. cbn [BuildL.allwf allpk map hd] in *.
      rewrite andb_true_r in W', P'. repeat split; auto.
    - (* block containers *)
      apply result_bind_ok in H as (ops & Hops & H). apply result_bind_ok in H as (new & Hnew & H).
      rewrite wfo_block in W. apply andb_true_iff in W as [W Wa].
      unfold prims_ok in P. rewrite pk_block in P.
      destruct (mapM_pres _ (IH order) _ _ Hops Wa P) as (W' & P' & I' & O').
      destruct (mk_block_ok _ _ _ _ Hnew W') as [-> Wn].
      assert (Hgen : wfo (Block fresh b td ops) = true /\ prims_ok (Block fresh b td ops) /\
                in_struct (Block fresh b td ops) = in_struct (Block i b td l) /\
                out_struct (Block fresh b td ops) = out_struct (Block i b td l)).
      { split; [exact Wn|]. split; [exact P'|].
        destruct (structs_block fresh b td ops) as [-> ->]. destruct (structs_block i b td l) as [-> ->].
        now rewrite I', O'. }
      destruct b; try (inversion H; subst; exact Hgen).
      destruct (forallb (@is_ident K) ops) eqn:Eall; inversion H; subst; [|exact Hgen].
      repeat split; try reflexivity.
      destruct (structs_block i BDiag td l) as [-> ->].
      change (out_struct (Ident fresh (build dummy_struct td (map (@in_struct K) l))))
        with (build dummy_struct td (map (@in_struct K) l)).
      rewrite <- I', <- O'. now rewrite (idents_square _ Eall).
  Qed.

  (* the statement asked for *)
  Theorem reduce_structs : forall fuel order e e', wfo e = true -> prims_ok e ->
    reduce fuel order e = Ok e' ->
    wfo e' = true /\ prims_ok e' /\ in_struct e' = in_struct e /\ out_struct e' = out_struct e.
  Proof. intros fuel order e e'. apply reduce_keeps. Qed.

  Corollary reduce_square : forall fuel order e e', wfo e = true -> prims_ok e -> is_square e = true ->
    reduce fuel order e = Ok e' -> is_square e' = true.
  Proof.
    intros fuel order e e' W P S H. destruct (reduce_structs _ _ _ _ W P H) as (_ & _ & I & O).
    unfold is_square in *. now rewrite I, O.
  Qed.

  (* `typed` spelled out with chain_ok / last / hd *)
  Lemma typed_explicit new si so d : typed new si so ->
    (new = [] /\ si = so) \/
    (new <> [] /\ chain_ok new = true /\ allwf new = true /\ allpk new = true /\
     in_struct (last new d) = si /\ out_struct (hd d new) = so).
  Proof.
    intros T. destruct new as [|a r]; [left; split; [reflexivity|exact T]|].
    right. split; [discriminate|]. apply typed_chain; [exact T|discriminate].
  Qed.

  (* each registered binary rule fired on an adjacent, chain-compatible pair *)
  Theorem rule_structs : forall rr ru l r new, keeps rr ->
    guard_ok (guard_of ru) l r = true -> apply_rule rr ru l r = Ok (Some new) ->
    wfo l = true -> wfo r = true -> prims_ok l -> prims_ok r -> in_struct l = out_struct r ->
    (new = [] /\ in_struct r = out_struct l) \/
    (new <> [] /\ chain_ok new = true /\ allwf new = true /\ allpk new = true /\
     in_struct (last new l) = in_struct r /\ out_struct (hd l new) = out_struct l).
  Proof.
    intros rr ru l r new Hrr Hg Ha Wl Wr Pl Pr E. apply typed_explicit.
    eapply rule_typed; eauto. cbn [typed]. repeat split; auto.
  Qed.

  (* the scan and the whole n-ary rule on a chain-compatible list of well-formed factors *)
  Theorem scan_structs : forall rr fuel order ops index res d, keeps rr ->
    ops <> [] -> chain_ok ops = true -> allwf ops = true -> allpk ops = true ->
    scan rr fuel order ops index = Ok res ->
    (res = [] /\ in_struct (last ops d) = out_struct (hd d ops)) \/
    (res <> [] /\ chain_ok res = true /\ allwf res = true /\ allpk res = true /\
     in_struct (last res d) = in_struct (last ops d) /\ out_struct (hd d res) = out_struct (hd d ops)).
  Proof.
    intros rr fuel order ops index res d Hrr Hne C A P H. apply typed_explicit.
    eapply scan_typed; eauto. now apply chain_typed.
  Qed.
  Theorem algebraic_structs : forall rr fuel order ops res d, keeps rr ->
    ops <> [] -> chain_ok ops = true -> allwf ops = true -> allpk ops = true ->
    algebraic_reduction rr fuel order ops = Ok res ->
    res <> [] /\ chain_ok res = true /\ allwf res = true /\ allpk res = true /\
    in_struct (last res d) = in_struct (last ops d) /\ out_struct (hd d res) = out_struct (hd d ops).
  Proof.
    intros rr fuel order ops res d Hrr Hne C A P H.
    assert (Hres : res <> []).
    { unfold Algebra.algebraic_reduction in H. destruct ops as [|a [|b rest]]; [congruence| |].
      - inversion H; discriminate.
      - apply result_bind_ok in H as (res' & _ & H). destruct res'; inversion H; discriminate. }
    split; [exact Hres|]. apply typed_chain; [|exact Hres]. eapply algebraic_typed; eauto. now apply chain_typed.
  Qed.
End ReduceStructs.
Arguments prims_okb {K} e.
Arguments prims_ok {K} e.
Arguments allpk {K} l.
Arguments typed {K} l si so.
Arguments keeps {K} f.
