(* C01, last clause: "reduce() terminates without raising".

   1. `rle` (refinement order on results: Err OutOfFuel is below everything) and monotonicity of the
      whole reduction machinery in both kinds of fuel: `reduce_mono`, `fuel_mono`.
   2. `params_okb`: the decidable typing of parameters that real objects satisfy and that the rules
      rely on to stay out of their `Err` branches (class discipline of leaf objects, angles of
      rotations, axes of MoveAxis, the index tuple of a non-unique IndexOperator).
   3. `weight`: the nesting measure that bounds the fuel of reduce() (a composition counts one
      level, a sum or a block container two: the block rules rebuild a container of compositions
      of the CONTENTS of two containers).
   4. the scan: potential Phi(ops, index) = 4|ops|^3 + 2 inv(ops) + (|ops| - index), strictly
      decreasing at every iteration of the while loop, below scan_fuel.
   5. `reduce_main`: one induction on the fuel giving "no exception", preservation of the typing,
      of the weight, and "OutOfFuel only if fuel < weight". *)
From Coq Require Import List Bool Arith ZArith NArith QArith String Lia.
From Furax Require Import Base.Pytree Model.Op Model.Algebra Model.Wf Lemmas.Sound Lemmas.BuildL
  Lemmas.ReduceStructsL.
Import ListNotations.
Local Close Scope Q_scope.
Local Open Scope nat_scope.

(* ---------- refinement order on results ---------- *)
Definition rle {A} (r r' : result A) : Prop := r = Err OutOfFuel \/ r = r'.
Lemma rle_refl A (r : result A) : rle r r.
Proof. now right. Qed.
Lemma rle_bind A B (r r' : result A) (k k' : A -> result B) :
  rle r r' -> (forall a, rle (k a) (k' a)) -> rle (bind r k) (bind r' k').
Proof.
  intros [-> | ->] Hk; [now left|]. destruct r'; cbn; [apply Hk|now right].
Qed.
Lemma rle_mapM A B (f g : A -> result B) : (forall x, rle (f x) (g x)) ->
  forall l, rle (mapM f l) (mapM g l).
Proof.
  intros H. induction l as [|x xs IH]; cbn [mapM]; [apply rle_refl|].
  apply rle_bind; [apply H|]. intros y. apply rle_bind; [exact IH|]. intros; apply rle_refl.
Qed.
Lemma rle_ok A (r r' : result A) a : rle r r' -> r = Ok a -> r' = Ok a.
Proof. intros [H|H] E; congruence. Qed.
Lemma rle_not_oof A (r r' : result A) : rle r r' -> r' = Err OutOfFuel -> r = Err OutOfFuel.
Proof. intros [H|H] E; congruence. Qed.

Section Mono.
  Variable K : Type.
  Variable keqb : K -> K -> bool.
  Variables (k1 : K) (kmul : K -> K -> K).
  Notation op := (op K).
  Notation scan := (scan keqb k1 kmul).
  Notation reduce := (reduce keqb k1 kmul).

  Section Rules.
    Variables rr rr' : op -> result op.
    Hypothesis Hrr : forall e, rle (rr e) (rr' e).

    Lemma block_rule_mono red l r :
      rle (block_rule keqb kmul rr red l r) (block_rule keqb kmul rr' red l r).
    Proof.
      unfold block_rule. destruct l; try apply rle_refl. destruct r; try apply rle_refl.
      destruct (negb _); [apply rle_refl|].
      apply rle_bind; [apply rle_refl|]. intros prods.
      apply rle_bind; [apply rle_refl|]. intros new.
      apply rle_bind; [apply Hrr|]. intros; apply rle_refl.
    Qed.
    Lemma apply_rule_mono ru l r :
      rle (apply_rule keqb kmul rr ru l r) (apply_rule keqb kmul rr' ru l r).
    Proof. destruct ru; cbn [apply_rule]; try apply rle_refl; apply block_rule_mono. Qed.
    Lemma fires_mono order l r :
      rle (fires keqb kmul rr order l r) (fires keqb kmul rr' order l r).
    Proof.
      induction order as [|ru rest IH]; cbn [fires]; [apply rle_refl|].
      destruct (guard_ok _ _ _ _); [|exact IH].
      apply rle_bind; [apply apply_rule_mono|]. intros [new|]; [apply rle_refl|exact IH].
    Qed.
    Lemma scan_mono order : forall fuel fuel' ops index, fuel <= fuel' ->
      rle (scan rr fuel order ops index) (scan rr' fuel' order ops index).
    Proof.
      induction fuel as [|fuel IH]; intros fuel' ops index Hle; [now left|].
      destruct fuel' as [|fuel']; [lia|]. cbn [Algebra.scan].
      destruct (Nat.ltb _ _); [|apply rle_refl].
      destruct (nth_error ops index); [|apply rle_refl].
      destruct (nth_error ops (S index)); [|apply rle_refl].
      apply rle_bind; [apply fires_mono|]. intros [new|]; [|apply IH; lia].
      destruct (existsb _ _); apply IH; lia.
    Qed.
    Lemma algebraic_mono order fuel fuel' ops : fuel <= fuel' ->
      rle (algebraic_reduction keqb k1 kmul rr fuel order ops)
          (algebraic_reduction keqb k1 kmul rr' fuel' order ops).
    Proof.
      intros Hle. unfold algebraic_reduction. destruct ops as [|a [|b rest]]; try apply rle_refl.
      apply rle_bind; [now apply scan_mono|]. intros; apply rle_refl.
    Qed.
  End Rules.

  (* more fuel refines the result: everything except Err OutOfFuel is kept *)
  Theorem reduce_mono order : forall f f' e, f <= f' -> rle (reduce f order e) (reduce f' order e).
  Proof.
    induction f as [|f IH]; intros f' e Hle; [now left|].
    destruct f' as [|f']; [lia|]. assert (Hf : f <= f') by lia.
    cbn [Algebra.reduce]. destruct e as [i c si so p|i w e0|i s|i k s|i l|i l|i b td l]; try apply rle_refl.
    - apply rle_bind; [apply rle_mapM; intros; now apply IH|]. intros ops.
      apply rle_bind; [|intros; apply rle_refl].
      apply algebraic_mono; [intros; now apply IH|lia].
    - apply rle_bind; [apply rle_mapM; intros; now apply IH|]. intros; apply rle_refl.
    - apply rle_bind; [apply rle_mapM; intros; now apply IH|]. intros; apply rle_refl.
  Qed.

  Theorem fuel_mono order f f' e e' : reduce f order e = Ok e' -> f <= f' -> reduce f' order e = Ok e'.
  Proof. intros H Hle. eapply rle_ok; [apply reduce_mono; exact Hle|exact H]. Qed.
  (* any outcome other than fuel exhaustion (a value or an exception) is final *)
  Theorem fuel_mono_any order f f' e : reduce f order e <> Err OutOfFuel -> f <= f' ->
    reduce f' order e = reduce f order e.
  Proof. intros H Hle. destruct (reduce_mono order f f' e Hle) as [E|E]; congruence. Qed.
  Theorem scan_fuel_mono rr order fuel fuel' ops index res :
    scan rr fuel order ops index = Ok res -> fuel <= fuel' -> scan rr fuel' order ops index = Ok res.
  Proof. intros H Hle. eapply rle_ok; [apply scan_mono; [intros; apply rle_refl|exact Hle]|exact H]. Qed.
End Mono.

(* ---------- the typing of parameters ---------- *)
(* classes of the objects encoded as `Prim` (leaf operators: everything that is not a lazy wrapper,
   a composition, a sum, a block container, an identity or a scalar) *)
Definition leaf_cls (c : cls) : bool :=
  match c with
  | CDense | CIndex | CPack | CMoveAxis | CRavel | CReshape | CQURotation | CHWP | CLinearPolarizer
  | CToeplitz | CBroadcastDiagonal | CDiagonal | CObsMatrix | CAtom => true
  | _ => false
  end.
(* IndexOperator: `unique_indices` is False only when some entry is an integer array (the constructor
   forces True otherwise), so a non-unique operator has at least one indexed axis; when it has exactly
   one and all leaves have the same shape, TransposeIndexRule reads that entry (an integer array) and
   the size of that axis of the common leaf shape, which exists only if the input pytree has a leaf *)
Definition index_okb (si : struct) (uniq : bool) (ix : list ientry) : bool :=
  if uniq then true else
  match indexed_axes ix with
  | [] => false
  | axis :: rest =>
      match rest with
      | _ :: _ => true
      | [] =>
          match leaf_shapes si with
          | [] => false
          | sh :: shs =>
              if forallb (shape_eqb sh) shs then
                match py_nth ix axis with
                | Some (IArr _) => match py_nth sh axis with Some _ => true | None => false end
                | _ => false
                end
              else true
          end
      end
  end.

Section Total.
  Variable K : Type.
  Variable keqb : K -> K -> bool.
  Hypothesis keqb_eq : forall a b, keqb a b = true -> a = b.
  Variables (k1 : K) (kmul : K -> K -> K).
  Notation op := (op K).
  Notation wfo := (@wfo K).
  Notation chain_ok := (@chain_ok K).
  Notation allwf := (allwf K).
  Notation same := (same keqb).
  Notation matmul := (matmul keqb kmul).
  Notation guard_ok := (guard_ok keqb).
  Notation apply_rule := (apply_rule keqb kmul).
  Notation fires := (fires keqb kmul).
  Notation scan := (scan keqb k1 kmul).
  Notation algebraic_reduction := (algebraic_reduction keqb k1 kmul).
  Notation reduce := (reduce keqb k1 kmul).
  Notation homothety_rule := (homothety_rule k1 kmul).
  Notation keeps := (@keeps K).
  Notation typed := (@typed K).

  Fixpoint params_okb (e : op) : bool :=
    let all := fix all (l : list op) : bool :=
      match l with [] => true | x :: xs => params_okb x && all xs end in
    match e with
    | Prim _ c si _ p =>
        leaf_cls c &&
        match c with
        | CQURotation => match p with PAngles _ => true | _ => false end
        | CMoveAxis => match p with PAxes _ _ => true | _ => false end
        | CIndex => match p with PIndex u ix => index_okb si u ix | _ => false end
        | _ => true
        end
    | Wrap _ w x =>
        params_okb x &&
        match w with
        | WQURotT => match x with Prim _ CQURotation _ _ (PAngles _) => true | _ => false end
        | _ => true
        end
    | Ident _ _ | Homoth _ _ _ => true
    | Comp _ l | AddOp _ l | Block _ _ _ l => all l
    end.
  Definition params_ok (e : op) : Prop := params_okb e = true.
  Fixpoint allpa (l : list op) : bool := match l with [] => true | x :: xs => params_okb x && allpa xs end.
  Lemma pa_comp i l : params_okb (Comp i l) = allpa l.
  Proof. reflexivity. Qed.
  Lemma pa_add i l : params_okb (AddOp i l) = allpa l.
  Proof. reflexivity. Qed.
  Lemma pa_block i b td l : params_okb (Block i b td l) = allpa l.
  Proof. reflexivity. Qed.
  Lemma allpa_app l1 l2 : allpa (l1 ++ l2) = allpa l1 && allpa l2.
  Proof. induction l1; cbn; [reflexivity|]. rewrite IHl1. now rewrite andb_assoc. Qed.
  Lemma pa_operands b : allpa (operands b) = params_okb b.
  Proof. destruct b; cbn [operands allpa]; try apply andb_true_r. reflexivity. Qed.
  Lemma allpa_Forall l : allpa l = true <-> Forall params_ok l.
  Proof.
    induction l as [|a r IH]; cbn [allpa]; [split; auto|]. rewrite andb_true_iff, IH. split.
    - intros [H1 H2]. now constructor.
    - intros H. inversion H; subst. auto.
  Qed.

  (* ---------- the nesting measure ---------- *)
  Definition maxl (l : list nat) : nat := fold_right Nat.max 0 l.
  Fixpoint weight (e : op) : nat :=
    match e with
    | Comp _ l => S (maxl (map weight l))
    | AddOp _ l | Block _ _ _ l =>
        S (S (maxl (map (fun x => match x with Comp _ _ => pred (weight x) | _ => weight x end) l)))
    | _ => 1
    end.
  (* weight of an operator taken as a factor of a composition (compositions are flattened by @) *)
  Definition od (e : op) : nat := match e with Comp _ _ => pred (weight e) | _ => weight e end.
  Definition wmax (l : list op) : nat := maxl (map weight l).
  Definition omax (l : list op) : nat := maxl (map od l).
  Lemma weight_comp i l : weight (Comp i l) = S (wmax l).
  Proof. reflexivity. Qed.
  Lemma weight_add i l : weight (AddOp i l) = S (S (omax l)).
  Proof. reflexivity. Qed.
  Lemma weight_block i b td l : weight (Block i b td l) = S (S (omax l)).
  Proof. reflexivity. Qed.
  Lemma od_comp i l : od (Comp i l) = wmax l.
  Proof. reflexivity. Qed.
  Lemma weight_pos e : 1 <= weight e.
  Proof. destruct e; cbn [weight]; lia. Qed.
  Lemma od_le_weight e : od e <= weight e.
  Proof. destruct e; cbn [od]; lia. Qed.
  Lemma weight_le_S_od e : weight e <= S (od e).
  Proof. destruct e; cbn [od]; lia. Qed.
  Lemma od_pos e : 1 <= od e \/ exists i, e = Comp i [].
  Proof.
    destruct e as [| | | |i l| |]; try (left; cbn [od weight]; lia).
    destruct l as [|a l]; [right; eauto|left]. rewrite od_comp. unfold wmax. cbn [map maxl fold_right].
    pose proof (weight_pos a). lia.
  Qed.
  Lemma maxl_le l D : Forall (fun x => x <= D) l -> maxl l <= D.
  Proof. induction 1; cbn [maxl fold_right]; [lia|]. fold (maxl l). lia. Qed.
  Lemma maxl_ge l x : In x l -> x <= maxl l.
  Proof.
    induction l as [|a r IH]; intros H; [destruct H|]. cbn [maxl fold_right]. fold (maxl r).
    destruct H as [->|H]; [lia|]. specialize (IH H). lia.
  Qed.
  Lemma maxl_app a b : maxl (a ++ b) = Nat.max (maxl a) (maxl b).
  Proof. induction a as [|x a IH]; cbn [app maxl fold_right]; [reflexivity|]. fold (maxl (a ++ b)) (maxl a). lia. Qed.
  Lemma wmax_le l D : Forall (fun e => weight e <= D) l -> wmax l <= D.
  Proof. intros H. apply maxl_le. apply Forall_map. exact H. Qed.
  Lemma wmax_ge l e : In e l -> weight e <= wmax l.
  Proof. intros H. apply maxl_ge. now apply in_map. Qed.
  Lemma omax_ge l e : In e l -> od e <= omax l.
  Proof. intros H. apply maxl_ge. now apply in_map. Qed.
  Lemma omax_le l D : Forall (fun e => od e <= D) l -> omax l <= D.
  Proof. intros H. apply maxl_le. apply Forall_map. exact H. Qed.
  Lemma wmax_app a b : wmax (a ++ b) = Nat.max (wmax a) (wmax b).
  Proof. unfold wmax. now rewrite map_app, maxl_app. Qed.
  Lemma wmax_operands b : wmax (operands b) = od b.
  Proof.
    destruct b; cbn [operands]; try (unfold wmax; cbn [map maxl fold_right od weight]; lia).
  Qed.

  (* ---------- classes: what the guards of the rules tell about a well-typed operand ---------- *)
  Definition rotlike (e : op) : bool := is_a e [CQURotation; CQURotationTranspose].
  Definition ishwp (e : op) : bool := is_a e [CHWP].

  Ltac noinst H := first [discriminate H | (vm_compute in H; discriminate H)].

  Lemma inv_lazy e : params_ok e -> is_a e [CAbstractLazyInverse] = true ->
    exists x, lazy_inverse_of e = Some x.
  Proof.
    unfold params_ok, is_a.
    destruct e as [i c si so p|i w x| | | | |i b td l]; cbn [cls_of lazy_inverse_of params_okb]; intros P H;
      try noinst H.
    - apply andb_true_iff in P as [L _]. destruct c; try discriminate L; noinst H.
    - rewrite H. eauto.
    - destruct b; noinst H.
  Qed.
  Lemma inv_moveaxis e : params_ok e -> is_a e [CMoveAxis] = true ->
    exists i si so s d, e = Prim i CMoveAxis si so (PAxes s d).
  Proof.
    unfold params_ok, is_a.
    destruct e as [i c si so p|i w x| | | | |i b td l]; cbn [cls_of params_okb]; intros P H; try noinst H.
    - apply andb_true_iff in P as [L P2]. destruct c; try discriminate L; try noinst H.
      destruct p; try discriminate P2. eauto 6.
    - destruct w; noinst H.
    - destruct b; noinst H.
  Qed.
  Lemma inv_rot e : params_ok e -> rotlike e = true ->
    (exists i si so a, e = Prim i CQURotation si so (PAngles a)) \/
    (exists i j si so a, e = Wrap i WQURotT (Prim j CQURotation si so (PAngles a))).
  Proof.
    unfold params_ok, rotlike, is_a.
    destruct e as [i c si so p|i w x| | | | |i b td l]; cbn [cls_of params_okb]; intros P H; try noinst H.
    - apply andb_true_iff in P as [L P2]. destruct c; try discriminate L; try noinst H.
      destruct p; try discriminate P2. left; eauto.
    - destruct w; try noinst H. apply andb_true_iff in P as [_ P2].
      destruct x as [j c sj soj p| | | | | |]; try discriminate P2.
      destruct c; try discriminate P2. destruct p; try discriminate P2. right; eauto 6.
    - destruct b; noinst H.
  Qed.
  Lemma inv_hwp e : params_ok e -> ishwp e = true -> exists i si so p, e = Prim i CHWP si so p.
  Proof.
    unfold params_ok, ishwp, is_a.
    destruct e as [i c si so p|i w x| | | | |i b td l]; cbn [cls_of params_okb]; intros P H; try noinst H.
    - apply andb_true_iff in P as [L P2]. destruct c; try discriminate L; try noinst H. eauto.
    - destruct w; noinst H.
    - destruct b; noinst H.
  Qed.
  Lemma inv_block e b : params_ok e -> is_a e [bcls b] = true -> exists i td l, e = Block i b td l.
  Proof.
    unfold params_ok, is_a.
    destruct e as [i c si so p|i w x| | | | |i b' td l]; cbn [cls_of params_okb]; intros P H;
      try (destruct b; noinst H).
    - apply andb_true_iff in P as [L P2]. destruct c; try discriminate L; destruct b; noinst H.
    - destruct w, b; noinst H.
    - destruct b, b'; try noinst H; eauto.
  Qed.
  Lemma inv_index e : params_ok e -> is_a e [CIndex] = true ->
    exists i si so u ix, e = Prim i CIndex si so (PIndex u ix) /\ index_okb si u ix = true.
  Proof.
    unfold params_ok, is_a.
    destruct e as [i c si so p|i w x| | | | |i b td l]; cbn [cls_of params_okb]; intros P H; try noinst H.
    - apply andb_true_iff in P as [L P2]. destruct c; try discriminate L; try noinst H.
      destruct p; try discriminate P2. eauto 8.
    - destruct w; noinst H.
    - destruct b; noinst H.
  Qed.

  Lemma hwp_facts e : ishwp e = true -> is_ident e = false /\ is_homoth e = false /\ rotlike e = false.
  Proof.
    unfold ishwp, rotlike, is_a.
    destruct e as [i c si so p|i w x| | | | |i b td l]; cbn [cls_of is_ident is_homoth]; intros H; try noinst H.
    - destruct c; try noinst H. auto.
    - destruct w; noinst H.
    - destruct b; noinst H.
  Qed.
  Lemma rot_facts e : rotlike e = true -> is_ident e = false /\ is_homoth e = false /\ ishwp e = false.
  Proof.
    unfold ishwp, rotlike, is_a.
    destruct e as [i c si so p|i w x| | | | |i b td l]; cbn [cls_of is_ident is_homoth]; intros H; try noinst H.
    - destruct c; try noinst H; auto.
    - destruct w; try noinst H; auto.
    - destruct b; noinst H.
  Qed.

  (* ---------- A @ B never raises on compatible structures; typing and weight ---------- *)
  Lemma base_matmul_total a b : in_struct a = out_struct b -> exists c, base_matmul keqb a b = Ok c.
  Proof.
    intros E. unfold base_matmul. rewrite E, struct_eqb_refl. cbn [negb].
    destruct b; cbn [lazy_inverse_of]; eauto. destruct (isinst _ _); eauto. destruct (same _ _); eauto.
  Qed.
  Lemma matmul_total a b : in_struct a = out_struct b -> exists c, matmul a b = Ok c.
  Proof.
    intros E. unfold Algebra.matmul.
    destruct a as [ia ca sia soa pa|ia wa ea|ia sa|ia ka sa|ia la|ia la|ia ba tda la];
      try (apply base_matmul_total; exact E).
    - destruct (lazy_inverse_of _); [|apply base_matmul_total; exact E].
      destruct (same _ _); [eauto|apply base_matmul_total; exact E].
    - rewrite E, struct_eqb_refl. cbn [negb]. eauto.
    - destruct b; try (apply base_matmul_total; exact E). rewrite E, struct_eqb_refl. cbn [negb]. eauto.
    - rewrite E, struct_eqb_refl. cbn [negb]. eauto.
  Qed.

  Lemma base_matmul_pa a b c : params_ok a -> params_ok b -> base_matmul keqb a b = Ok c ->
    params_ok c /\ od c <= Nat.max (weight a) (od b).
  Proof.
    unfold params_ok. intros Pa Pb. unfold base_matmul. destruct (negb _); [discriminate|].
    pose proof (weight_pos a) as Wa.
    assert (Hdef : (forall i l, b <> Comp i l) -> params_okb (Comp fresh [a; b]) = true /\
                   od (Comp fresh [a; b]) <= Nat.max (weight a) (od b)).
    { intros Hb. split; [cbn; now rewrite Pa, Pb|]. rewrite od_comp. unfold wmax. cbn [map maxl fold_right].
      destruct b; cbn [od]; try lia. exfalso; eapply Hb; reflexivity. }
    destruct b as [| | | |ib lb| |]; cbn [lazy_inverse_of];
      try (intros H; inversion H; subst; apply Hdef; intros; discriminate).
    - destruct (isinst _ _); [|intros H; inversion H; subst; apply Hdef; intros; discriminate].
      destruct (same _ a); intros H; inversion H; subst; [|apply Hdef; intros; discriminate].
      split; [reflexivity|]. cbn [od weight]. lia.
    - intros H; inversion H; subst. split.
      + rewrite pa_comp in *. cbn [allpa]. now rewrite Pa, Pb.
      + rewrite !od_comp. unfold wmax. cbn [map maxl fold_right]. fold (maxl (map weight lb)). lia.
  Qed.
  Lemma matmul_pa a b c : params_ok a -> params_ok b -> matmul a b = Ok c ->
    params_ok c /\ od c <= Nat.max (od a) (od b).
  Proof.
    intros Pa Pb. unfold Algebra.matmul.
    destruct a as [ia ca sia soa pa|ia wa ea|ia sa|ia ka sa|ia la|ia la|ia ba tda la];
      try (apply base_matmul_pa; assumption).
    - destruct (lazy_inverse_of _); [|apply base_matmul_pa; assumption].
      destruct (same _ _); [|apply base_matmul_pa; assumption].
      intros H; inversion H; subst. split; [reflexivity|]. cbn [od weight]. lia.
    - destruct (negb _); [discriminate|]. intros H; inversion H; subst. split; [exact Pb|lia].
    - destruct b; try (apply base_matmul_pa; assumption).
      destruct (negb _); [discriminate|]. intros H; inversion H; subst. split; [reflexivity|]. cbn [od weight]. lia.
    - destruct (negb _); [discriminate|]. intros H; inversion H; subst. unfold params_ok in *. split.
      + rewrite pa_comp in *. now rewrite allpa_app, Pa, pa_operands.
      + rewrite !od_comp, wmax_app, wmax_operands. lia.
  Qed.

  Lemma mapM2_matmul_total ll : forall lr,
    map (@in_struct K) ll = map (@out_struct K) lr -> exists prods, mapM2 matmul ll lr = Ok prods.
  Proof.
    induction ll as [|a ll IH]; intros [|b lr] H; cbn [map] in H; try discriminate; cbn [mapM2]; eauto.
    inversion H as [[H1 H2]]. destruct (matmul_total a b H1) as (c & ->). destruct (IH _ H2) as (cs & ->).
    cbn [bind]. eauto.
  Qed.
  Lemma mapM2_matmul_pa ll : forall lr prods D, mapM2 matmul ll lr = Ok prods ->
    allpa ll = true -> allpa lr = true -> omax ll <= D -> omax lr <= D ->
    allpa prods = true /\ omax prods <= D /\ List.length prods = List.length ll.
  Proof.
    induction ll as [|a ll IH]; intros [|b lr] prods D H Pl Pr Ol Or; cbn in H; try discriminate.
    - inversion H; subst. repeat split; unfold omax; cbn; lia.
    - apply result_bind_ok in H as (c & Hc & H). apply result_bind_ok in H as (cs & Hcs & H).
      inversion H; subst prods. cbn [allpa] in *.
      apply andb_true_iff in Pl as [Pa Pl]. apply andb_true_iff in Pr as [Pb Pr].
      unfold omax in *. cbn [map maxl fold_right] in *. fold (maxl (map od ll)) in Ol. fold (maxl (map od lr)) in Or.
      destruct (IH _ _ D Hcs Pl Pr ltac:(lia) ltac:(lia)) as (P & O & Len).
      destruct (matmul_pa a b c Pa Pb Hc) as (Pc & Oc). unfold params_ok in Pc.
      rewrite Pc, P. fold (maxl (map od cs)). cbn [List.length]. repeat split; lia.
  Qed.

  Lemma build_inj (d : struct) td xs ys : List.length xs = nleaves td -> List.length ys = nleaves td ->
    build d td xs = build d td ys -> xs = ys.
  Proof.
    intros Hx Hy E. pose proof (split_build d td xs Hx) as H1. pose proof (split_build d td ys Hy) as H2.
    rewrite E in H1. congruence.
  Qed.

  Lemma mk_block_total b td (l : list op) : List.length l = nleaves td -> l <> [] ->
    match b with
    | BRow => all_eqb (map (@out_struct K) l) = true
    | BCol => all_eqb (map (@in_struct K) l) = true
    | BDiag => True
    end -> mk_block b td l = Ok (Block fresh b td l).
  Proof.
    intros Hl Hne Hk. unfold mk_block. rewrite Hl, Nat.eqb_refl. cbn [negb].
    destruct l; [congruence|]. destruct b; try rewrite Hk; reflexivity.
  Qed.

  Lemma is_a_two (e : op) a b : is_a e [a; b] = is_a e [a] || is_a e [b].
  Proof. unfold is_a, isinst. cbn [existsb]. now rewrite !orb_false_r. Qed.

  (* ---------- the binary rules ---------- *)
  Section Rules.
    Variable rr : op -> result op.
    Variables D F : nat.
    Hypothesis Hkeeps : keeps rr.
    (* the reduce() used by the block rules: on a well-typed operator it returns a well-typed
       operator that is not heavier, or runs out of fuel, and this only if F < weight *)
    Hypothesis Hrr : forall e, wfo e = true -> prims_ok e -> params_ok e ->
      (exists e', rr e = Ok e' /\ params_ok e' /\ weight e' <= weight e /\ od e' <= od e) \/
      (rr e = Err OutOfFuel /\ F < weight e).

    Definition pelt (e : op) : Prop := params_ok e /\ weight e <= D.
    (* what a firing puts in place of the pair: at most one factor, or (rotation . HWP) swapped *)
    Definition shape (l r : op) (new : list op) : Prop :=
      List.length new <= 1 \/
      exists l', new = [r; l'] /\ rotlike l = true /\ ishwp r = true /\ rotlike l' = true.
    Definition outcome (l r : op) (res : result (option (list op))) : Prop :=
      res = Ok None \/
      (exists new, res = Ok (Some new) /\ Forall pelt new /\ shape l r new) \/
      (res = Err OutOfFuel /\ F < D).

    Lemma block_rule_spec reduced il bl tdl ll ir br tdr lr :
      let l := Block il bl tdl ll in let r := Block ir br tdr lr in
      match reduced, bl, br with
      | Some BRow, BRow, BDiag | Some BCol, BDiag, BCol | Some BDiag, BDiag, BDiag | None, BRow, BCol => True
      | _, _, _ => False
      end ->
      wfo l = true -> wfo r = true -> prims_ok l -> prims_ok r -> in_struct l = out_struct r ->
      pelt l -> pelt r -> outcome l r (block_rule keqb kmul rr reduced l r).
    Proof.
      intros l r Hkinds Wl Wr Pl Pr E [Al Dl] [Ar Dr]. subst l r. unfold block_rule.
      destruct (pt_eqb (fun _ _ : unit => true) tdl tdr) eqn:Etd; cbn [negb]; [|left; reflexivity].
      apply (pt_eqb_eq _ (@unit_eqb_eq)) in Etd. subst tdr.
      rewrite wfo_block in Wl, Wr.
      apply andb_true_iff in Wl as [Wl Wal]. apply andb_true_iff in Wl as [Wl Kl]. apply andb_true_iff in Wl as [Nl Ll].
      apply andb_true_iff in Wr as [Wr War]. apply andb_true_iff in Wr as [Wr Kr]. apply andb_true_iff in Wr as [Nr Lr].
      apply Nat.eqb_eq in Ll, Lr.
      unfold prims_ok in Pl, Pr. rewrite pk_block in Pl, Pr.
      unfold params_ok in Al, Ar. rewrite pa_block in Al, Ar. rewrite weight_block in Dl, Dr.
      assert (Hio : map (@in_struct K) ll = map (@out_struct K) lr).
      { apply (build_inj dummy_struct tdl); [now rewrite map_length|now rewrite map_length|].
        destruct (structs_block K il bl tdl ll) as [Hi _]. destruct (structs_block K ir br tdl lr) as [_ Ho].
        rewrite Hi, Ho in E. destruct reduced as [[| |]|], bl, br; try contradiction; exact E. }
      destruct (mapM2_matmul_total _ _ Hio) as (prods & Hp). rewrite Hp. cbn [bind].
      destruct (mapM2_matmul_structs K keqb keqb_eq kmul _ _ _ Hp Wal War Pl Pr) as (Wp & Pp & Ip & Op).
      assert (Ol : omax ll <= D - 2) by (clear - Dl; lia).
      assert (Or : omax lr <= D - 2) by (clear - Dr; lia).
      destruct (mapM2_matmul_pa _ _ _ (D - 2) Hp Al Ar Ol Or) as (Ap & Dp & Lp).
      assert (Hw2 : S (S (omax prods)) <= D) by (clear - Dp Dl; lia).
      assert (Lp' : List.length prods = nleaves tdl) by (clear - Lp Ll; lia).
      assert (Hne : prods <> []).
      { intros ->. cbn in Lp. rewrite <- Lp in Nl. discriminate. }
      assert (Hnew : exists new,
        match reduced with
        | Some b => mk_block b tdl prods
        | None => match prods with [] => Err IndexError | _ => Ok (AddOp fresh prods) end
        end = Ok new /\ wfo new = true /\ prims_ok new /\ params_ok new /\ weight new <= D).
      { destruct reduced as [b|].
        - exists (Block fresh b tdl prods).
          assert (Hmk : mk_block b tdl prods = Ok (Block fresh b tdl prods)).
          { apply mk_block_total; [exact Lp'|exact Hne|].
            destruct b, bl, br; try contradiction; try exact I; [now rewrite Op|now rewrite Ip]. }
          split; [exact Hmk|]. destruct (mk_block_ok K _ _ _ _ Hmk Wp) as [_ Wn].
          split; [exact Wn|]. split; [exact Pp|]. split; [exact Ap|]. rewrite weight_block. exact Hw2.
        - exists (AddOp fresh prods). destruct prods as [|p0 pr] eqn:Ep; [congruence|]. rewrite <- Ep in *.
          split; [reflexivity|]. split; [|split; [exact Pp|split; [exact Ap|rewrite weight_add; exact Hw2]]].
          rewrite wfo_add, Wp, andb_true_r. unfold sum_ok. rewrite Ip, Op.
          destruct bl, br; try contradiction. rewrite Kl, Kr. rewrite Ep. reflexivity. }
      destruct Hnew as (new & -> & Wn & Pn & An & Dn). cbn [bind].
      destruct (Hrr new Wn Pn An) as [(red & -> & Ared & Wred & _)|(-> & HF)]; cbn [bind].
      - right; left. exists [red]. split; [reflexivity|]. split.
        + constructor; [|constructor]. split; [exact Ared|clear - Wred Dn; lia].
        + left. cbn [List.length]. apply le_n.
      - right; right. split; [reflexivity|clear - HF Dn; lia].
    Qed.

    Ltac out_none := left; reflexivity.
    Ltac out_nil := right; left; exists []; split; [reflexivity|split; [constructor|left; cbn; lia]].

    Lemma apply_rule_spec ru l r :
      guard_ok (guard_of ru) l r = true ->
      wfo l = true -> wfo r = true -> prims_ok l -> prims_ok r -> in_struct l = out_struct r ->
      pelt l -> pelt r -> outcome l r (apply_rule rr ru l r).
    Proof.
      intros Hg Wl Wr Pl Pr E Hl Hr. pose proof Hl as [Al Dl]. pose proof Hr as [Ar Dr].
      pose proof (weight_pos l) as Hpos.
      apply (guard_parts K keqb) in Hg as (Hc & Hgl & Hgr).
      destruct ru; cbn [guard_of g_any g_left g_right is_exactly_transpose] in Hc, Hgl, Hgr;
        cbn [Algebra.apply_rule].
      - (* InverseBinaryRule *)
        destruct (lazy_inverse_of l) as [xl|] eqn:El.
        + destruct (same xl r); [out_nil|out_none].
        + apply orb_true_iff in Hc as [Hc|Hc].
          * destruct (inv_lazy l Al Hc) as (x & Hx). congruence.
          * destruct (inv_lazy r Ar Hc) as (x & ->). destruct (same x l); [out_nil|out_none].
      - (* MoveAxisInverseRule *)
        apply andb_true_iff in Hc as [Hcl Hcr].
        destruct (inv_moveaxis l Al Hcl) as (i1 & si1 & so1 & s1 & d1 & ->).
        destruct (inv_moveaxis r Ar Hcr) as (i2 & si2 & so2 & s2 & d2 & ->).
        destruct (_ && _); [out_nil|out_none].
      - (* ReshapeInverseRule *)
        apply andb_true_iff in Hc as [Hcl Hcr]. rewrite is_a_two in Hcl.
        destruct (is_a l [CAbstractRavelOrReshape]).
        + destruct (negb _); [out_none|]. destruct (wrapped r); [|out_none]. destruct (same _ _); [out_nil|out_none].
        + cbn [orb] in Hcl. rewrite Hcl. destruct (negb _); [out_none|].
          destruct (wrapped l); [|out_none]. destruct (same _ _); [out_nil|out_none].
      - (* PackUnpackRule *) out_nil.
      - (* QURotationRule *)
        apply andb_true_iff in Hc as [Hcl Hcr].
        assert (Hone : forall s a, outcome l r (Ok (Some [Prim fresh CQURotation s s (PAngles a) : op]))).
        { intros s a. right; left. eexists; split; [reflexivity|]. split; [|left; cbn; lia].
          constructor; [|constructor]. split; [reflexivity|]. cbn [weight]. lia. }
        destruct (inv_rot l Al Hcl) as [(i1 & si1 & so1 & a1 & El)|(i1 & j1 & si1 & so1 & a1 & El)];
          destruct (inv_rot r Ar Hcr) as [(i2 & si2 & so2 & a2 & Er)|(i2 & j2 & si2 & so2 & a2 & Er)];
          rewrite El, Er; cbn [angles_of]; rewrite <- ?El, <- ?Er; apply Hone.
      - (* QURotationHWPRule *)
        apply andb_true_iff in Hc as [Hcl Hcr].
        destruct (inv_rot l Al Hcl) as [(i1 & si1 & so1 & a1 & El)|(i1 & j1 & si1 & so1 & a1 & El)]; rewrite El.
        + right; left. eexists; split; [reflexivity|]. split.
          * constructor; [exact Hr|]. constructor; [|constructor]. split; [reflexivity|]. cbn [weight]; lia.
          * right. eexists; split; [reflexivity|]. rewrite <- El. repeat split; auto.
        + right; left. eexists; split; [reflexivity|]. split.
          * constructor; [exact Hr|]. constructor; [|constructor]. split; [reflexivity|]. cbn [weight]; lia.
          * right. eexists; split; [reflexivity|]. rewrite <- El. repeat split; auto.
      - (* LinearPolarizerHWPRule *)
        right; left. eexists; split; [reflexivity|]. split; [|left; cbn; lia]. constructor; [exact Hl|constructor].
      - apply andb_true_iff in Hc as [Hcl Hcr].
        destruct (inv_block l BRow Al Hcl) as (il & tdl & ll & ->).
        destruct (inv_block r BDiag Ar Hcr) as (ir & tdr & lr & ->).
        apply (block_rule_spec (Some BRow)); auto.
      - apply andb_true_iff in Hc as [Hcl Hcr].
        destruct (inv_block l BDiag Al Hcl) as (il & tdl & ll & ->).
        destruct (inv_block r BCol Ar Hcr) as (ir & tdr & lr & ->).
        apply (block_rule_spec (Some BCol)); auto.
      - apply andb_true_iff in Hc as [Hcl Hcr].
        destruct (inv_block l BDiag Al Hcl) as (il & tdl & ll & ->).
        destruct (inv_block r BDiag Ar Hcr) as (ir & tdr & lr & ->).
        apply (block_rule_spec (Some BDiag)); auto.
      - apply andb_true_iff in Hc as [Hcl Hcr].
        destruct (inv_block l BRow Al Hcl) as (il & tdl & ll & ->).
        destruct (inv_block r BCol Ar Hcr) as (ir & tdr & lr & ->).
        apply (block_rule_spec None); auto.
      - (* IndexTransposeRule *)
        apply andb_true_iff in Hc as [Hcl Hcr].
        destruct (inv_index l Al Hcl) as (i1 & si1 & so1 & u & ix & -> & _).
        destruct u; [out_nil|out_none].
      - (* TransposeIndexRule *)
        apply andb_true_iff in Hc as [Hcl Hcr].
        destruct (inv_index r Ar Hcr) as (i1 & si1 & so1 & u & ix & Er & Hix). rewrite Er.
        unfold index_okb in Hix. cbv zeta.
        destruct u.
        { destruct (Nat.ltb _ _); out_none. }
        destruct (indexed_axes ix) as [|axis rest]; [discriminate|].
        destruct rest as [|a2 rest]; [|out_none]. cbn [List.length Nat.ltb Nat.leb].
        destruct (leaf_shapes si1) as [|sh shs]; [discriminate|].
        destruct (forallb (shape_eqb sh) shs); cbn [negb]; [|out_none].
        destruct (py_nth ix axis) as [[| | | |d|]|]; try discriminate.
        destruct (py_nth sh axis) as [n|]; [|discriminate].
        right; left. eexists; split; [reflexivity|]. split; [|left; cbn; lia].
        constructor; [|constructor]. split; [reflexivity|]. cbn [weight]; lia.
    Qed.

    Lemma fires_spec order l r :
      wfo l = true -> wfo r = true -> prims_ok l -> prims_ok r -> in_struct l = out_struct r ->
      pelt l -> pelt r -> outcome l r (fires rr order l r).
    Proof.
      intros Wl Wr Pl Pr E Hl Hr. induction order as [|ru rest IH]; cbn [Algebra.fires]; [left; reflexivity|].
      destruct (guard_ok (guard_of ru) l r) eqn:Eg; [|exact IH].
      destruct (apply_rule_spec ru l r Eg Wl Wr Pl Pr E Hl Hr) as [-> |[(new & -> & Hn)|(-> & HF)]]; cbn [bind].
      - exact IH.
      - right; left. eauto.
      - right; right. auto.
    Qed.
  End Rules.

  (* ---------- the potential of the while loop ---------- *)
  Definition cnt (p : op -> bool) (l : list op) : nat := List.length (filter p l).
  (* number of pairs (rotation-like operator, HWP further right) *)
  Fixpoint inv (l : list op) : nat :=
    match l with [] => 0 | a :: r => (if rotlike a then cnt ishwp r else 0) + inv r end.
  Definition cube (n : nat) : nat := n * n * n.
  Definition phi (ops : list op) (index : nat) : nat :=
    4 * cube (List.length ops) + 2 * inv ops + (List.length ops - index).

  Lemma cnt_app p a b : cnt p (a ++ b) = cnt p a + cnt p b.
  Proof. unfold cnt. now rewrite filter_app, app_length. Qed.
  Lemma cnt_le p l : cnt p l <= List.length l.
  Proof. unfold cnt. induction l as [|a r IH]; cbn [filter List.length]; [lia|]. destruct (p a); cbn [List.length]; lia. Qed.
  Lemma cnt_cons p a l : cnt p (a :: l) = (if p a then 1 else 0) + cnt p l.
  Proof. unfold cnt. cbn [filter]. destruct (p a); reflexivity. Qed.
  Lemma inv_app a b : inv (a ++ b) = inv a + inv b + cnt rotlike a * cnt ishwp b.
  Proof.
    induction a as [|x a IH]; cbn [app inv]; [unfold cnt; cbn; lia|].
    rewrite IH, cnt_app, cnt_cons. destruct (rotlike x); lia.
  Qed.
  Lemma inv_le l : inv l <= List.length l * List.length l.
  Proof.
    induction l as [|a r IH]; cbn [inv List.length]; [lia|].
    pose proof (cnt_le ishwp r). destruct (rotlike a); lia.
  Qed.
  Lemma inv_swap pre post l r l' : rotlike l = true -> ishwp r = true -> rotlike l' = true ->
    inv (pre ++ [r; l'] ++ post) + 1 = inv (pre ++ [l; r] ++ post).
  Proof.
    intros Rl Hr Rl'. destruct (hwp_facts r Hr) as (_ & _ & Rr).
    destruct (rot_facts l Rl) as (_ & _ & Hl). destruct (rot_facts l' Rl') as (_ & _ & Hl').
    rewrite !inv_app, !cnt_app. cbn [inv]. rewrite !cnt_cons.
    change (cnt ishwp []) with 0. change (cnt rotlike []) with 0.
    rewrite Rl, Hr, Rl', Rr, Hl, Hl'. lia.
  Qed.
  Lemma cube_step n m : m < n -> 4 * cube m + 2 * (m * m) + m + 1 <= 4 * cube n.
  Proof.
    intros H. assert (Hc : cube (S m) <= cube n).
    { unfold cube. apply Nat.mul_le_mono; [apply Nat.mul_le_mono|]; lia. }
    unfold cube in *. lia.
  Qed.
  Lemma phi_small x j n : List.length x < n -> phi x j < 4 * cube n.
  Proof.
    intros H. unfold phi. pose proof (inv_le x). pose proof (cube_step _ _ H). lia.
  Qed.
  Lemma phi_scan_fuel x j (ops0 : list op) : List.length x <= List.length ops0 -> phi x j < scan_fuel ops0.
  Proof.
    intros H. unfold scan_fuel. pose proof (phi_small x j (S (List.length ops0)) ltac:(lia)) as H1.
    unfold cube in H1. lia.
  Qed.

  Lemma filter_split_length (p : op -> bool) l :
    List.length (filter p l) + List.length (filter (fun e => negb (p e)) l) = List.length l.
  Proof. induction l as [|a r IH]; cbn [filter List.length]; [reflexivity|]. destruct (p a); cbn [negb List.length]; lia. Qed.
  Lemma identity_rule_length (l : list op) : List.length (identity_rule l) <= List.length l.
  Proof.
    unfold identity_rule. induction l as [|a r IH]; cbn [filter List.length]; [lia|].
    destruct (negb _); cbn [List.length]; lia.
  Qed.
  Lemma homothety_rule_length l : List.length (homothety_rule l) <= List.length l.
  Proof.
    unfold Algebra.homothety_rule. destruct l as [|a [|b r]]; try lia.
    set (ops := a :: b :: r). destruct (Nat.eqb _ 0) eqn:E0; [lia|]. apply Nat.eqb_neq in E0.
    match goal with |- context [if ?c then ops else _] => destruct c end; [lia|].
    pose proof (filter_split_length (@is_homoth K) ops) as Hs.
    destruct (Nat.leb _ _); [cbn [List.length]|rewrite app_length; cbn [List.length]]; lia.
  Qed.
  Lemma Forall_filter' (P : op -> Prop) p l : Forall P l -> Forall P (filter p l).
  Proof. rewrite !Forall_forall. intros H e He. apply filter_In in He as [He _]. auto. Qed.
  Lemma homothety_rule_pelt D l : 1 <= D -> Forall (pelt D) l -> Forall (pelt D) (homothety_rule l).
  Proof.
    intros HD H. unfold Algebra.homothety_rule. destruct l as [|a [|b r]]; try exact H.
    destruct (Nat.eqb _ 0); [exact H|].
    match goal with |- context [if ?c then a :: b :: r else _] => destruct c end; [exact H|].
    assert (Hh : forall k s, pelt D (Homoth fresh k s)) by (intros; split; [reflexivity|exact HD]).
    destruct (Nat.leb _ _).
    - constructor; [apply Hh|now apply Forall_filter'].
    - apply Forall_app. split; [now apply Forall_filter'|]. constructor; [apply Hh|constructor].
  Qed.

  (* ---------- the scan ---------- *)
  Section Scan.
    Variable rr : op -> result op.
    Variables D F : nat.
    Hypothesis Hkeeps : keeps rr.
    Hypothesis Hrr : forall e, wfo e = true -> prims_ok e -> params_ok e ->
      (exists e', rr e = Ok e' /\ params_ok e' /\ weight e' <= weight e /\ od e' <= od e) \/
      (rr e = Err OutOfFuel /\ F < weight e).
    Hypothesis HD : 1 <= D.
    Variable order : list rule_id.

    Lemma scan_spec : forall fuel ops index si so,
      typed ops si so -> Forall (pelt D) ops ->
      (exists res, scan rr fuel order ops index = Ok res /\ typed res si so /\ Forall (pelt D) res) \/
      (scan rr fuel order ops index = Err OutOfFuel /\ (F < D \/ fuel <= phi ops index)).
    Proof.
      induction fuel as [|fuel IH]; intros ops index si so T Hall.
      { right. split; [reflexivity|right; lia]. }
      cbn [Algebra.scan]. destruct (Nat.ltb (S index) (List.length ops)) eqn:Hlt; [|left; eauto].
      apply Nat.ltb_lt in Hlt.
      destruct (nth_error ops index) as [l|] eqn:El; [|apply nth_error_None in El; lia].
      destruct (nth_error ops (S index)) as [r|] eqn:Er; [|apply nth_error_None in Er; lia].
      pose proof (nth_error_split K _ _ _ _ El Er) as Hs.
      assert (Hpre : List.length (firstn index ops) = index) by (apply firstn_length_le; lia).
      remember (firstn index ops) as pre eqn:Epre. remember (skipn (index + 2) ops) as post eqn:Epost.
      clear Epre Epost El Er.
      assert (Hn : List.length ops = index + 2 + List.length post).
      { rewrite Hs, !app_length. cbn [List.length]. lia. }
      pose proof T as T'. rewrite Hs in T'.
      apply typed_app_inv in T' as (s2 & T2 & TA). apply typed_app_inv in T2 as (s1 & TB & TP).
      pose proof TP as (Wl & Pl & Ol & Wr & Pr & Or & Is).
      pose proof Hall as Hall'. rewrite Hs in Hall'.
      apply Forall_app in Hall' as [HallA Hall']. apply Forall_app in Hall' as [HallP HallB].
      pose proof (Forall_inv HallP) as Hl. pose proof (Forall_inv (Forall_inv_tail HallP)) as Hr.
      destruct (fires_spec rr D F Hrr order l r Wl Wr Pl Pr (eq_sym Or) Hl Hr)
        as [Hf|[(new & Hf & Hnew & Hshape)|(Hf & HF)]]; rewrite Hf; cbn [bind].
      - (* no rule fires: advance *)
        destruct (IH ops (S index) si so T Hall) as [Hok|(Hoof & Hb)]; [left; exact Hok|].
        right. split; [exact Hoof|]. destruct Hb as [Hb|Hb]; [left; exact Hb|right].
        unfold phi in *. clear - Hb Hlt. lia.
      - (* a rule fires *)
        pose proof (fires_typed K keqb keqb_eq kmul rr Hkeeps order l r new s1 s2 Hf TP) as Tn.
        apply (identity_rule_typed K) in Tn.
        assert (Hn' : Forall (pelt D) (identity_rule new)) by (now apply Forall_filter').
        set (new' := identity_rule new) in *.
        assert (T1 : typed (pre ++ new' ++ post) si so).
        { eapply typed_app; [|exact TA]. eapply typed_app; [exact TB|exact Tn]. }
        assert (H1 : Forall (pelt D) (pre ++ new' ++ post)).
        { apply Forall_app. split; [exact HallA|]. apply Forall_app. split; [exact Hn'|exact HallB]. }
        destruct Hshape as [Hlen|(l' & -> & Rl & Hr' & Rl')].
        + (* the chain gets shorter *)
          assert (Hshort : List.length (pre ++ new' ++ post) < List.length ops).
          { rewrite !app_length. pose proof (identity_rule_length new). fold new' in H. clear - H Hlen Hn Hpre. lia. }
          assert (Hphi : 4 * cube (List.length ops) < phi ops index).
          { unfold phi. clear - Hlt. lia. }
          destruct (existsb (@is_homoth K) new').
          * pose proof (homothety_rule_length (pre ++ new' ++ post)) as Hh.
            destruct (IH (homothety_rule (pre ++ new' ++ post)) 0 si so
                        (homothety_rule_typed K k1 kmul _ _ _ T1) (homothety_rule_pelt D _ HD H1))
              as [Hok|(Hoof & Hb)]; [left; exact Hok|].
            right. split; [exact Hoof|]. destruct Hb as [Hb|Hb]; [left; exact Hb|right].
            pose proof (phi_small (homothety_rule (pre ++ new' ++ post)) 0 (List.length ops) ltac:(lia)) as Hp.
            clear - Hb Hp Hphi. lia.
          * destruct (IH (pre ++ new' ++ post) (pred index) si so T1 H1)
              as [Hok|(Hoof & Hb)]; [left; exact Hok|].
            right. split; [exact Hoof|]. destruct Hb as [Hb|Hb]; [left; exact Hb|right].
            pose proof (phi_small (pre ++ new' ++ post) (pred index) (List.length ops) Hshort) as Hp.
            clear - Hb Hp Hphi. lia.
        + (* rotation . HWP -> HWP . rotation': same length, one inversion less *)
          destruct (hwp_facts r Hr') as (Ir & Hor & _). destruct (rot_facts l' Rl') as (Il' & Hol' & _).
          assert (Enew : new' = [r; l']).
          { unfold new', identity_rule. cbn [filter]. now rewrite Ir, Il'. }
          rewrite Enew in *. cbn [existsb]. rewrite Hor, Hol'. cbn [orb].
          destruct (IH (pre ++ [r; l'] ++ post) (pred index) si so T1 H1)
            as [Hok|(Hoof & Hb)]; [left; exact Hok|].
          right. split; [exact Hoof|]. destruct Hb as [Hb|Hb]; [left; exact Hb|right].
          pose proof (inv_swap pre post l r l' Rl Hr' Rl') as Hi. rewrite <- Hs in Hi.
          assert (Hlen : List.length (pre ++ [r; l'] ++ post) = List.length ops).
          { rewrite !app_length. cbn [List.length]. clear - Hn Hpre. lia. }
          unfold phi in *. rewrite Hlen in Hb. clear - Hb Hi Hlt. lia.
      - right. split; [reflexivity|left; exact HF].
    Qed.

    Lemma algebraic_spec ops si so : typed ops si so -> Forall (pelt D) ops ->
      (exists res, algebraic_reduction rr (scan_fuel ops) order ops = Ok res /\
                   typed res si so /\ Forall (pelt D) res) \/
      (algebraic_reduction rr (scan_fuel ops) order ops = Err OutOfFuel /\ F < D).
    Proof.
      intros T Hall. unfold Algebra.algebraic_reduction.
      destruct ops as [|a [|b rest]]; try (left; eauto; fail).
      set (ops := a :: b :: rest) in *.
      assert (Ts : typed (homothety_rule (identity_rule ops)) si so).
      { apply (homothety_rule_typed K), (identity_rule_typed K), T. }
      assert (Hs : Forall (pelt D) (homothety_rule (identity_rule ops))).
      { apply homothety_rule_pelt; [exact HD|]. now apply Forall_filter'. }
      assert (Hlen : List.length (homothety_rule (identity_rule ops)) <= List.length ops).
      { pose proof (homothety_rule_length (identity_rule ops)). pose proof (identity_rule_length ops). lia. }
      destruct (scan_spec (scan_fuel ops) _ 0 si so Ts Hs) as [(res & Hres & Tr & Hr)|(Hoof & Hb)].
      - left. rewrite Hres. cbn [bind]. destruct res as [|c r].
        + eexists; split; [reflexivity|]. split.
          * cbn [ReduceStructsL.typed] in Tr. subst so.
            destruct (typed_chain K _ _ _ (Ident fresh dummy_struct) T ltac:(discriminate)) as (_ & _ & _ & I & _).
            cbn [ReduceStructsL.typed]. split; [reflexivity|]. split; [reflexivity|]. split; [exact I|symmetry; exact I].
          * constructor; [|constructor]. split; [reflexivity|exact HD].
        + eexists; split; [reflexivity|]. split; [exact Tr|exact Hr].
      - right. rewrite Hoof. cbn [bind]. split; [reflexivity|]. destruct Hb as [Hb|Hb]; [exact Hb|].
        pose proof (phi_scan_fuel (homothety_rule (identity_rule ops)) 0 ops Hlen). lia.
    Qed.
  End Scan.

  (* ---------- reduce() ---------- *)
  (* the outcome of reducing e with fuel f: a well-typed operator that is not heavier, or
     fuel exhaustion, and this only if f < weight e *)
  Definition rres (f : nat) (e : op) (R : result op) : Prop :=
    (exists e', R = Ok e' /\ params_ok e' /\ weight e' <= weight e /\ od e' <= od e) \/
    (R = Err OutOfFuel /\ f < weight e).
  Definition rspec (f : nat) (rr : op -> result op) : Prop :=
    forall e, wfo e = true -> prims_ok e -> params_ok e -> rres f e (rr e).

  Lemma wmax_cons a l : wmax (a :: l) = Nat.max (weight a) (wmax l).
  Proof. reflexivity. Qed.
  Lemma omax_cons a l : omax (a :: l) = Nat.max (od a) (omax l).
  Proof. reflexivity. Qed.
  Lemma wmax_le_S_omax l : wmax l <= S (omax l).
  Proof.
    induction l as [|a r IH]; [unfold wmax, omax; cbn; lia|]. rewrite wmax_cons, omax_cons.
    pose proof (weight_le_S_od a). lia.
  Qed.

  Lemma mapM_spec f rr : rspec f rr -> forall l, allwf l = true -> allpk l = true -> allpa l = true ->
    (exists l', mapM rr l = Ok l' /\ allpa l' = true /\ wmax l' <= wmax l /\ omax l' <= omax l) \/
    (mapM rr l = Err OutOfFuel /\ f < wmax l).
  Proof.
    intros Hrr. induction l as [|a r IH]; intros W P A; cbn [mapM].
    - left. eexists; split; [reflexivity|]. repeat split; lia.
    - cbn [BuildL.allwf allpk allpa] in W, P, A.
      apply andb_true_iff in W as [Wa W]. apply andb_true_iff in P as [Pa P]. apply andb_true_iff in A as [Aa A].
      rewrite wmax_cons, omax_cons.
      destruct (Hrr a Wa Pa Aa) as [(a' & -> & Aa' & Wa' & Oa')|(-> & HF)]; cbn [bind].
      + destruct (IH W P A) as [(r' & -> & Ar' & Wr' & Or')|(-> & HF)]; cbn [bind].
        * left. eexists; split; [reflexivity|]. cbn [allpa]. unfold params_ok in Aa'. rewrite Aa', Ar'.
          rewrite wmax_cons, omax_cons. repeat split; lia.
        * right. split; [reflexivity|lia].
      + right. split; [reflexivity|lia].
  Qed.

  Lemma rres_self f e : params_ok e -> rres f e (Ok e).
  Proof. intros A. left. exists e. repeat split; auto. Qed.
  Lemma rres_ident f e s : 1 <= od e -> rres f e (Ok (Ident fresh s)).
  Proof.
    intros H. left. eexists; split; [reflexivity|]. split; [reflexivity|]. cbn [weight od].
    pose proof (od_le_weight e). lia.
  Qed.

  Theorem reduce_main order : forall f, rspec f (reduce f order).
  Proof.
    induction f as [|f IH]; intros e W P A.
    { right. split; [reflexivity|apply weight_pos]. }
    pose proof (reduce_keeps K keqb keqb_eq k1 kmul f order) as Hkeeps.
    destruct e as [i c si so p|i w e0|i s|i k s|i l|i l|i b td l].
    - assert (Hs : forall R, R = Ok (Prim i c si so p) -> rres (S f) (Prim i c si so p) R)
        by (intros R ->; now apply rres_self).
      assert (Hi : forall s, rres (S f) (Prim i c si so p) (Ok (Ident fresh s)))
        by (intros; apply rres_ident; cbn [od weight]; lia).
      cbn [Algebra.reduce]. destruct c; try (apply Hs; reflexivity).
      + destruct p; try (apply Hs; reflexivity). destruct (indexed_axes ix); [apply Hi|apply Hs; reflexivity].
      + destruct (struct_eqb so si); [apply Hi|apply Hs; reflexivity].
      + destruct (struct_eqb so si); [apply Hi|apply Hs; reflexivity].
    - now apply rres_self.
    - now apply rres_self.
    - now apply rres_self.
    - (* composition *)
      rewrite (wfo_comp K) in W. apply andb_true_iff in W as [W Wa]. apply andb_true_iff in W as [Wn Wc].
      unfold prims_ok in P. rewrite pk_comp in P. unfold params_ok in A. rewrite pa_comp in A.
      assert (Hne : l <> []) by (destruct l; [discriminate|discriminate]).
      cbn [Algebra.reduce].
      destruct (mapM_spec f _ IH l Wa P A) as [(ops & Hops & Aops & Wops & Oops)|(Hoof & HF)].
      2:{ rewrite Hoof. cbn [bind]. right. split; [reflexivity|]. rewrite weight_comp. lia. }
      rewrite Hops. cbn [bind].
      pose proof (chain_typed K l (Ident fresh dummy_struct) Hne Wc Wa P) as T.
      rewrite <- (in_struct_comp K i l _ Hne), <- (out_struct_comp K i l _ Hne) in T.
      pose proof (mapM_typed K _ Hkeeps _ _ _ _ Hops T) as T1.
      assert (HD : 1 <= wmax l).
      { destruct l as [|a l]; [congruence|]. rewrite wmax_cons. pose proof (weight_pos a). lia. }
      assert (Hall : Forall (pelt (wmax l)) ops).
      { apply Forall_forall. intros x Hx. split.
        - apply allpa_Forall in Aops. rewrite Forall_forall in Aops. now apply Aops.
        - pose proof (wmax_ge ops x Hx). lia. }
      destruct (algebraic_spec (reduce f order) (wmax l) f Hkeeps IH HD order ops _ _ T1 Hall)
        as [(res & Hres & Tr & Hr)|(Hoof & HF)].
      2:{ rewrite Hoof. cbn [bind]. right. split; [reflexivity|]. rewrite weight_comp. lia. }
      rewrite Hres. cbn [bind]. destruct res as [|x [|y r]].
      + apply rres_ident. rewrite od_comp. exact HD.
      + destruct (Forall_inv Hr) as [Ax Wx]. left. exists x. split; [reflexivity|]. split; [exact Ax|].
        rewrite weight_comp, od_comp. pose proof (od_le_weight x). lia.
      + left. eexists; split; [reflexivity|].
        assert (Hw : wmax (x :: y :: r) <= wmax l).
        { apply wmax_le. eapply Forall_impl; [|exact Hr]. intros z [_ Hz]. exact Hz. }
        split; [|rewrite !weight_comp, !od_comp; lia].
        unfold params_ok. rewrite pa_comp. apply allpa_Forall.
        eapply Forall_impl; [|exact Hr]. intros z [Hz _]. exact Hz.
    - (* sum *)
      rewrite (wfo_add K) in W. apply andb_true_iff in W as [W Wa].
      unfold prims_ok in P. rewrite pk_add in P. unfold params_ok in A. rewrite pa_add in A.
      cbn [Algebra.reduce]. pose proof (wmax_le_S_omax l) as Hwo.
      destruct (mapM_spec f _ IH l Wa P A) as [(ops & Hops & Aops & Wops & Oops)|(Hoof & HF)].
      2:{ rewrite Hoof. cbn [bind]. right. split; [reflexivity|]. rewrite weight_add. lia. }
      rewrite Hops. cbn [bind].
      assert (Hgen : rres (S f) (AddOp i l) (Ok (AddOp fresh ops))).
      { left. eexists; split; [reflexivity|]. split; [exact Aops|]. cbn [od]. rewrite !weight_add. lia. }
      destruct ops as [|x [|y r]]; try exact Hgen.
      left. exists x. split; [reflexivity|]. cbn [allpa] in Aops. rewrite andb_true_r in Aops.
      split; [exact Aops|]. rewrite wmax_cons in Wops. cbn [od]. rewrite weight_add.
      pose proof (od_le_weight x). lia.
    - (* block containers *)
      rewrite (wfo_block K) in W. apply andb_true_iff in W as [W Wa].
      apply andb_true_iff in W as [W Kl]. apply andb_true_iff in W as [Nl Ll]. apply Nat.eqb_eq in Ll.
      unfold prims_ok in P. rewrite pk_block in P. unfold params_ok in A. rewrite pa_block in A.
      cbn [Algebra.reduce]. pose proof (wmax_le_S_omax l) as Hwo.
      destruct (mapM_spec f _ IH l Wa P A) as [(ops & Hops & Aops & Wops & Oops)|(Hoof & HF)].
      2:{ rewrite Hoof. cbn [bind]. right. split; [reflexivity|]. rewrite weight_block. lia. }
      rewrite Hops. cbn [bind].
      destruct (mapM_pres K _ Hkeeps _ _ Hops Wa P) as (W' & P' & I' & O').
      pose proof (map_eq_length _ _ _ _ _ I') as Hlen.
      assert (Hmk : mk_block b td ops = Ok (Block fresh b td ops)).
      { apply mk_block_total; [lia| |].
        - intros ->. cbn in Hlen. rewrite <- Hlen in Nl. discriminate.
        - destruct b; try exact I; [now rewrite O'|now rewrite I']. }
      rewrite Hmk. cbn [bind].
      assert (Hgen : rres (S f) (Block i b td l) (Ok (Block fresh b td ops))).
      { left. eexists; split; [reflexivity|]. split; [exact Aops|]. cbn [od]. rewrite !weight_block. lia. }
      destruct b; try exact Hgen. destruct (forallb _ ops); [|exact Hgen].
      apply rres_ident. cbn [od]. rewrite weight_block. lia.
  Qed.

  (* ---------- the theorems ---------- *)
  Definition fuel_for (e : op) : nat := weight e.

  (* (1) the only error reduce() can return on a well-typed operator is fuel exhaustion *)
  Theorem reduce_no_exception order fuel e : wfo e = true -> prims_ok e -> params_ok e ->
    (exists e', reduce fuel order e = Ok e') \/ reduce fuel order e = Err OutOfFuel.
  Proof.
    intros W P A. destruct (reduce_main order fuel e W P A) as [(e' & H & _)|(H & _)]; eauto.
  Qed.
  (* the typing of parameters is preserved; the result is not heavier *)
  Theorem reduce_params order fuel e e' : wfo e = true -> prims_ok e -> params_ok e ->
    reduce fuel order e = Ok e' -> params_ok e' /\ weight e' <= weight e.
  Proof.
    intros W P A H. destruct (reduce_main order fuel e W P A) as [(e2 & H2 & A2 & W2 & _)|(H2 & _)]; [|congruence].
    rewrite H in H2. inversion H2; subst. auto.
  Qed.
  (* (2) fuel >= weight e is enough *)
  Theorem reduce_total_fuel order fuel e : wfo e = true -> prims_ok e -> params_ok e ->
    fuel_for e <= fuel -> exists e', reduce fuel order e = Ok e'.
  Proof.
    intros W P A Hf. destruct (reduce_main order fuel e W P A) as [(e' & H & _)|(_ & H)]; [eauto|].
    unfold fuel_for in Hf. lia.
  Qed.
  Theorem reduce_terminates order e : wfo e = true -> prims_ok e -> params_ok e ->
    exists fuel, forall fuel', fuel <= fuel' -> reduce fuel' order e <> Err OutOfFuel.
  Proof.
    intros W P A. exists (fuel_for e). intros fuel' Hf.
    destruct (reduce_total_fuel order fuel' e W P A Hf) as (e' & ->). discriminate.
  Qed.
  Theorem reduce_total order e : wfo e = true -> prims_ok e -> params_ok e ->
    exists e', reduce (fuel_for e) order e = Ok e'.
  Proof. intros W P A. apply reduce_total_fuel; auto. Qed.

  (* the while loop alone: with a reduce() for the block rules that does not fail, the scan
     returns within any fuel above the potential, in particular within scan_fuel *)
  Theorem scan_terminates rr D order fuel ops index si so :
    keeps rr ->
    (forall e, wfo e = true -> prims_ok e -> params_ok e ->
       exists e', rr e = Ok e' /\ params_ok e' /\ weight e' <= weight e /\ od e' <= od e) ->
    1 <= D -> typed ops si so -> Forall (pelt D) ops -> phi ops index < fuel ->
    exists res, scan rr fuel order ops index = Ok res /\ typed res si so /\ Forall (pelt D) res.
  Proof.
    intros Hk Hrr HD T Hall Hf.
    assert (Hrr' : forall e, wfo e = true -> prims_ok e -> params_ok e ->
      (exists e', rr e = Ok e' /\ params_ok e' /\ weight e' <= weight e /\ od e' <= od e) \/
      (rr e = Err OutOfFuel /\ D < weight e)) by (intros e W P A; left; now apply Hrr).
    destruct (scan_spec rr D D Hk Hrr' HD order fuel ops index si so T Hall) as [H|(_ & [H|H])]; [exact H|lia|lia].
  Qed.
  Theorem scan_fuel_enough (ops ops0 : list op) index :
    List.length ops <= List.length ops0 -> phi ops index < scan_fuel ops0.
  Proof. apply phi_scan_fuel. Qed.
End Total.
Arguments params_okb {K} e.
Arguments params_ok {K} e.
Arguments allpa {K} l.
Arguments weight {K} e.
Arguments fuel_for {K} e.
Arguments od {K} e.
Arguments pelt {K} D e.
Arguments phi {K} ops index.
Arguments inv {K} l.

(* ---------- the executable instance used by the correspondence harness (Model/Exec.v) ---------- *)
From Coq Require Qcanon.
From Furax Require Model.Exec.
Lemma exec_keqb_eq (a b : Exec.K) : Exec.keqb a b = true -> a = b.
Proof. apply Qcanon.Qc_eq_bool_correct. Qed.
(* what the harness can evaluate (vm_compute) on every encoded expression *)
Definition reduce_readyb (e : Exec.xop) : bool :=
  wfo e && prims_okb e && params_okb e && (weight e <=? Exec.alg_fuel).
Theorem x_reduce_no_exception order (e : Exec.xop) : wfo e = true -> prims_ok e -> params_ok e ->
  (exists e', Exec.x_reduce order e = Ok e') \/ Exec.x_reduce order e = Err OutOfFuel.
Proof. apply (reduce_no_exception Exec.K Exec.keqb exec_keqb_eq). Qed.
Theorem x_reduce_total order (e : Exec.xop) : reduce_readyb e = true ->
  exists e', Exec.x_reduce order e = Ok e' /\ wfo e' = true /\ prims_ok e' /\ params_ok e' /\
             in_struct e' = in_struct e /\ out_struct e' = out_struct e /\ weight e' <= weight e.
Proof.
  unfold reduce_readyb. intros H. apply andb_true_iff in H as [H Hw]. apply andb_true_iff in H as [H A].
  apply andb_true_iff in H as [W P]. apply Nat.leb_le in Hw.
  destruct (reduce_total_fuel Exec.K Exec.keqb exec_keqb_eq Exec.k1 Qcanon.Qcmult order Exec.alg_fuel e W P A Hw)
    as (e' & He). exists e'. split; [exact He|].
  destruct (reduce_structs Exec.K Exec.keqb exec_keqb_eq Exec.k1 Qcanon.Qcmult _ _ _ _ W P He) as (W' & P' & I' & O').
  destruct (reduce_params Exec.K Exec.keqb exec_keqb_eq Exec.k1 Qcanon.Qcmult _ _ _ _ W P A He) as (A' & Hw').
  repeat split; auto.
Qed.
