(* Soundness of the symbolic layer: @ (matmul), the binary rules, the scalar/identity rules, the
   scan and reduce() preserve the denoted map, for arbitrary leaf semantics satisfying `leaf_facts`. *)
From Coq Require Import List Bool Arith ZArith NArith QArith String Lia Ring.
From Furax Require Import Base.Pytree Model.Op Model.Algebra Model.Denote Lemmas.DenoteL.
Import ListNotations.
Local Close Scope Q_scope.
Local Open Scope nat_scope.

Section Sound.
  Variable K : Type.
  Variables (k0 k1 : K) (kadd kmul ksub : K -> K -> K) (kopp : K -> K).
  Hypothesis Kth : ring_theory k0 k1 kadd kmul ksub kopp (@eq K).
  Add Ring Kring2 : Kth.
  Variable keqb : K -> K -> bool.
  Hypothesis keqb_eq : forall a b, keqb a b = true -> a = b.
  Notation op := (op K).
  Notation value := (value K).
  Variable leafsem : op -> value -> option value.
  Notation denote := (denote kadd kmul leafsem).
  Notation chain := (chain kadd kmul leafsem).
  Notation vscale := (vscale kmul).
  Notation vsum := (vsum kadd).
  Notation den_le := (den_le kadd kmul leafsem).
  Notation chain_le := (chain_le kadd kmul leafsem).
  Notation denote_list := (denote_list kadd kmul leafsem).
  Notation same := (same keqb).
  Notation matmul := (matmul keqb kmul).
  Notation guard_ok := (guard_ok keqb).
  Notation apply_rule := (apply_rule keqb kmul).
  Notation fires := (fires keqb kmul).
  Notation scan := (scan keqb k1 kmul).
  Notation algebraic_reduction := (algebraic_reduction keqb k1 kmul).
  Notation reduce := (reduce keqb k1 kmul).
  Notation homothety_rule := (homothety_rule k1 kmul).

  Definition leaflike (e : op) : bool :=
    match e with Prim _ _ _ _ _ | Wrap _ _ _ => true | _ => false end.
  Definition R (i : N) (si so : struct) (a : list Q) : op := Prim i CQURotation si so (PAngles a).

  (* What the algebra needs to know about the leaf operators.  Each item is a fact of linear
     algebra about a primitive; C12, C13, C15 discharge them for the concrete primitives, and
     for opaque operators (user matrices, iterative inverses) they are the assumptions of C01. *)
  Record leaf_facts : Prop := {
    lf_hom : forall e k x, leaflike e = true ->
      leafsem e (vscale k x) = option_map (vscale k) (leafsem e x);
    lf_inv_l : forall i w e x y1 y, isinst (wcls w) [CAbstractLazyInverse] = true ->
      denote e x = Some y1 -> leafsem (Wrap i w e) y1 = Some y -> y = x;
    lf_inv_r : forall i w e x y1 y, isinst (wcls w) [CAbstractLazyInverse] = true ->
      leafsem (Wrap i w e) x = Some y1 -> denote e y1 = Some y -> y = x;
    lf_move : forall il sil sol ir sir sor s d x y1 y,
      leafsem (Prim ir CMoveAxis sir sor (PAxes s d)) x = Some y1 ->
      leafsem (Prim il CMoveAxis sil sol (PAxes d s)) y1 = Some y -> y = x;
    lf_reshape_l : forall l i w x y1 y, is_a l [CAbstractRavelOrReshape] = true ->
      subclass (wcls w) CReshapeTranspose = true ->
      leafsem (Wrap i w l) x = Some y1 -> denote l y1 = Some y -> y = x;
    lf_reshape_r : forall l i w x y1 y, is_a l [CAbstractRavelOrReshape] = true ->
      subclass (wcls w) CReshapeTranspose = true ->
      denote l x = Some y1 -> leafsem (Wrap i w l) y1 = Some y -> y = x;
    lf_pack : forall l i w x y1 y, is_a l [CPack] = true -> subclass (wcls w) CTranspose = true ->
      leafsem (Wrap i w l) x = Some y1 -> denote l y1 = Some y -> y = x;
    lf_index_unique : forall il cl si so ix i w x y1 y, subclass (wcls w) CTranspose = true ->
      leafsem (Wrap i w (Prim il cl si so (PIndex true ix))) x = Some y1 ->
      leafsem (Prim il cl si so (PIndex true ix)) y1 = Some y -> y = x;
    lf_tindex : forall ir cr si so ix i w axis rest d sh shs n x y1 y,
      subclass (wcls w) CTranspose = true ->
      indexed_axes ix = axis :: rest -> (List.length (axis :: rest) <=? 1) = true ->
      leaf_shapes si = sh :: shs -> forallb (shape_eqb sh) shs = true ->
      py_nth ix axis = Some (IArr d) -> py_nth sh axis = Some n ->
      leafsem (Prim ir cr si so (PIndex false ix)) x = Some y1 ->
      leafsem (Wrap i w (Prim ir cr si so (PIndex false ix))) y1 = Some y ->
      leafsem (Prim fresh CDiagonal si si (PDiag axis (map inject_Z (coverage_of n (norm_index n d))))) x = Some y;
    lf_index_noop : forall i c si so u ix x y, indexed_axes ix = [] ->
      leafsem (Prim i c si so (PIndex u ix)) x = Some y -> y = x;
    lf_reshape_noop : forall i c si so p x y, (c = CRavel \/ c = CReshape) ->
      leafsem (Prim i c si so p) x = Some y -> y = x;
    (* QU rotations, half-wave plate, polariser (C15) *)
    lf_rr : forall il sil sol la ir sir sor ra x y1 y,
      leafsem (R ir sir sor ra) x = Some y1 -> leafsem (R il sil sol la) y1 = Some y ->
      leafsem (R fresh sir sir (qadd la ra)) x = Some y;
    lf_rrT : forall il sil sol la ir jr sjr sojr ra x y1 y,
      leafsem (Wrap ir WQURotT (R jr sjr sojr ra)) x = Some y1 -> leafsem (R il sil sol la) y1 = Some y ->
      leafsem (R fresh sjr sjr (qsub la ra)) x = Some y;
    lf_rTr : forall il jl sjl sojl la ir sir sor ra x y1 y,
      leafsem (R ir sir sor ra) x = Some y1 -> leafsem (Wrap il WQURotT (R jl sjl sojl la)) y1 = Some y ->
      leafsem (R fresh sir sir (qsub ra la)) x = Some y;
    lf_rTrT : forall il jl sjl sojl la ir jr sjr sojr ra x y1 y,
      leafsem (Wrap ir WQURotT (R jr sjr sojr ra)) x = Some y1 ->
      leafsem (Wrap il WQURotT (R jl sjl sojl la)) y1 = Some y ->
      leafsem (R fresh sjr sjr (qsub (qneg la) ra)) x = Some y;
    lf_rot_hwp : forall il sil sol pl r x y1 y, is_a r [CHWP] = true ->
      denote r x = Some y1 -> leafsem (Prim il CQURotation sil sol pl) y1 = Some y ->
      exists y2, leafsem (Wrap fresh WQURotT (Prim il CQURotation sil sol pl)) x = Some y2 /\ denote r y2 = Some y;
    lf_rotT_hwp : forall il lx r x y1 y, is_a r [CHWP] = true ->
      denote r x = Some y1 -> leafsem (Wrap il WQURotT lx) y1 = Some y ->
      exists y2, denote lx x = Some y2 /\ denote r y2 = Some y;
    lf_pol_hwp : forall l r x y1 y, is_a l [CLinearPolarizer] = true -> is_a r [CHWP] = true ->
      denote r x = Some y1 -> denote l y1 = Some y -> denote l x = Some y
  }.

  Hypothesis LF : leaf_facts.

  (* ---------- small tools ---------- *)
  Lemma chain2 l r x y : chain [l; r] x = Some y ->
    exists y1, denote r x = Some y1 /\ denote l y1 = Some y.
  Proof.
    unfold Denote.chain; cbn. destruct (denote r x) as [y1|]; [|discriminate].
    cbn. intros H. now exists y1.
  Qed.
  Lemma chain2' l r x y1 y : denote r x = Some y1 -> denote l y1 = Some y -> chain [l; r] x = Some y.
  Proof. unfold Denote.chain; cbn. intros -> H. exact H. Qed.
  Lemma denote_leaf e x : leaflike e = true -> denote e x = leafsem e x.
  Proof. destruct e; cbn; congruence. Qed.
  Lemma same_eq' a b : same a b = true -> a = b.
  Proof. apply same_eq, keqb_eq. Qed.
  Lemma den_le_refl e : den_le e e.
  Proof. intros x y H; exact H. Qed.
  Lemma result_bind_ok A B (r : result A) (f : A -> result B) b :
    bind r f = Ok b -> exists a, r = Ok a /\ f a = Ok b.
  Proof. destruct r; cbn; [eauto|discriminate]. Qed.

  (* ---------- A @ B ---------- *)
  Lemma chain_operands b x : chain (operands b) x = denote b x.
  Proof. destruct b; try reflexivity. cbn [operands]. now rewrite denote_comp. Qed.

  Lemma base_matmul_sound a b c : base_matmul keqb a b = Ok c -> chain_le [a; b] [c].
  Proof.
    unfold base_matmul. destruct (negb (struct_eqb (in_struct a) (out_struct b))); [discriminate|].
    intros H x y Hc. rewrite chain_single.
    assert (Hdef : c = Comp fresh [a; b] -> denote c x = Some y).
    { intros ->. rewrite denote_comp. exact Hc. }
    destruct b as [ib cb sib sob pb|ib wb eb|ib sb|ib kb sb|ib lb|ib lb|ib bb tdb lb];
      cbn [lazy_inverse_of] in H; try (inversion H; subst; now apply Hdef).
    - (* b is a lazy wrapper *)
      destruct (isinst (wcls wb) [CAbstractLazyInverse]) eqn:Ei.
      + destruct (same eb a) eqn:Es.
        * inversion H; subst c. apply same_eq' in Es; subst eb.
          apply chain2 in Hc as (y1 & H1 & H2). cbn [Denote.denote] in H1.
          cbn [Denote.denote]. f_equal. symmetry. eapply (lf_inv_r LF); eauto.
        * inversion H; subst. now apply Hdef.
      + inversion H; subst. now apply Hdef.
    - (* b is a composition: CompositionOperator.__rmatmul__ *)
      inversion H; subst c. rewrite denote_comp.
      apply chain2 in Hc as (y1 & H1 & H2). rewrite denote_comp in H1.
      rewrite chain_cons, H1. exact H2.
  Qed.

  Lemma matmul_sound a b c : matmul a b = Ok c -> chain_le [a; b] [c].
  Proof.
    unfold Algebra.matmul.
    destruct a as [ia ca sia soa pa|ia wa ea|ia sa|ia ka sa|ia la|ia la|ia ba tda la];
      try apply base_matmul_sound.
    - (* lazy wrapper on the left *)
      cbn [lazy_inverse_of]. destruct (isinst (wcls wa) [CAbstractLazyInverse]) eqn:Ei; [|apply base_matmul_sound].
      destruct (same ea b) eqn:Es; [|apply base_matmul_sound].
      intros H x y Hc. inversion H; subst c. apply same_eq' in Es; subst ea.
      apply chain2 in Hc as (y1 & H1 & H2). rewrite chain_single. cbn [Denote.denote] in H2 |- *.
      f_equal. symmetry. eapply (lf_inv_l LF); eauto.
    - (* identity *)
      destruct (negb _); [discriminate|]. intros H x y Hc. inversion H; subst c.
      apply chain2 in Hc as (y1 & H1 & H2). cbn [Denote.denote] in H2. inversion H2; subst. now rewrite chain_single.
    - (* scalar *)
      destruct b as [ib cb sib sob pb|ib wb eb|ib sb|ib kb sb|ib lb|ib lb|ib bb tdb lb]; try apply base_matmul_sound.
      destruct (negb _); [discriminate|]. intros H x y Hc. inversion H; subst c.
      apply chain2 in Hc as (y1 & H1 & H2). cbn [Denote.denote] in *. inversion H1; subst. inversion H2; subst.
      rewrite chain_single. cbn [Denote.denote]. f_equal. symmetry. apply (vscale_vscale Kth).
    - (* composition on the left *)
      destruct (negb _); [discriminate|]. intros H x y Hc. inversion H; subst c.
      rewrite chain_single, denote_comp, chain_app, chain_operands.
      apply chain2 in Hc as (y1 & H1 & H2). rewrite H1. cbn [obind]. now rewrite denote_comp in H2.
  Qed.

  (* ---------- homogeneity of every operator ---------- *)
  Lemma omap2_hom (f : op -> value -> option value) k l : forall xs,
    Forall (fun e => forall x, f e (vscale k x) = option_map (vscale k) (f e x)) l ->
    omap2 f l (map (vscale k) xs) = option_map (map (vscale k)) (omap2 f l xs).
  Proof.
    induction l as [|e r IH]; intros [|x xs] HF; cbn; try reflexivity.
    inversion HF as [|? ? He Hr]; subst. rewrite He, (IH xs Hr).
    destruct (f e x); cbn; [|reflexivity]. destruct (omap2 f r xs); reflexivity.
  Qed.
  Lemma omapl_hom k l x :
    Forall (fun e => forall x, denote e (vscale k x) = option_map (vscale k) (denote e x)) l ->
    omapl (fun e => denote e (vscale k x)) l = option_map (map (vscale k)) (omapl (fun e => denote e x) l).
  Proof.
    induction 1 as [|e r He _ IH]; cbn [omapl]; [reflexivity|]. rewrite He, IH.
    destruct (denote e x) as [y|]; cbn [option_map]; [|reflexivity].
    destruct (omapl (fun e0 => denote e0 x) r) as [ys|]; reflexivity.
  Qed.

  Lemma split_vscale td k (x : value) :
    split_prefix td (vscale k x) = option_map (map (vscale k)) (split_prefix td x).
  Proof. apply split_prefix_pmap. Qed.
  Lemma build_vscale td k (d : value) ys :
    build (vscale k d) td (map (vscale k) ys) = vscale k (build d td ys).
  Proof. apply build_pmap. Qed.

  Lemma denote_hom : forall e k x, denote e (vscale k x) = option_map (vscale k) (denote e x).
  Proof.
    induction e as [i c si so p|i w e IH|i s|i k' s|i l IH|i l IH|i b td l IH] using op_ind'; intros k x.
    - apply (lf_hom LF). reflexivity.
    - apply (lf_hom LF). reflexivity.
    - reflexivity.
    - cbn [Denote.denote option_map]. f_equal. rewrite !(vscale_vscale Kth). f_equal. ring.
    - rewrite !denote_comp. induction IH as [|e r He _ IHr]; [reflexivity|].
      rewrite !chain_cons, IHr. destruct (chain r x) as [z|]; cbn; [apply He|reflexivity].
    - rewrite !denote_add. rewrite (omapl_hom k l x) by (eapply Forall_impl; [|exact IH]; auto).
      destruct (omapl (fun e => denote e x) l) as [ys|]; cbn; [|reflexivity]. apply (vsum_vscale Kth).
    - rewrite !denote_block. destruct (negb _); [reflexivity|].
      assert (HF : Forall (fun e => forall x, denote e (vscale k x) = option_map (vscale k) (denote e x)) l)
        by (eapply Forall_impl; [|exact IH]; auto).
      destruct b.
      + rewrite split_vscale. destruct (split_prefix td x) as [xs|]; cbn [option_map obind]; [|reflexivity].
        unfold DenoteL.denote_list. rewrite (omap2_hom denote k l xs HF).
        destruct (omap2 denote l xs) as [ys|]; cbn [option_map obind]; [|reflexivity]. apply (vsum_vscale Kth).
      + rewrite split_vscale. destruct (split_prefix td x) as [xs|]; cbn [option_map obind]; [|reflexivity].
        unfold DenoteL.denote_list. rewrite (omap2_hom denote k l xs HF).
        destruct (omap2 denote l xs) as [ys|]; cbn [option_map]; [|reflexivity]. f_equal. apply build_vscale.
      + rewrite (omapl_hom k l x HF).
        destruct (omapl (fun e => denote e x) l) as [ys|]; cbn [option_map]; [|reflexivity]. f_equal. apply build_vscale.
  Qed.

  Lemma chain_hom l k x : chain l (vscale k x) = option_map (vscale k) (chain l x).
  Proof.
    induction l as [|e r IH]; [reflexivity|]. rewrite !chain_cons, IH.
    destruct (chain r x); cbn; [apply denote_hom|reflexivity].
  Qed.

  (* ---------- IdentityRule and HomothetyRule ---------- *)
  Lemma identity_rule_sound ops : chain_le ops (identity_rule ops).
  Proof.
    intros x y. unfold identity_rule. induction ops as [|e r IH] in y |- *; [auto|].
    rewrite chain_cons. cbn [filter]. destruct (chain r x) as [z|] eqn:E; [|discriminate]. cbn [obind].
    destruct e; cbn [is_ident negb]; try (rewrite chain_cons, (IH _ eq_refl); cbn [obind]; auto).
    cbn [Denote.denote]. intros H; inversion H; subst. now apply IH.
  Qed.

  Fixpoint prodH (ops : list op) : K :=
    match ops with
    | [] => k1
    | Homoth _ k _ :: r => kmul k (prodH r)
    | _ :: r => prodH r
    end.
  Lemma homoth_value_prod ops : homoth_value k1 kmul ops = prodH ops.
  Proof.
    unfold homoth_value.
    assert (H : forall acc, fold_left (fun v e => match e with Homoth _ k _ => kmul v k | _ => v end) ops acc
                          = kmul acc (prodH ops)).
    { induction ops as [|e r IH]; intros acc; cbn [fold_left prodH]; [ring|].
      destruct e; rewrite IH; try reflexivity. ring. }
    rewrite H. ring.
  Qed.
  Definition others (ops : list op) : list op := filter (fun e => negb (is_homoth e)) ops.
  Lemma pull_scalars ops : forall x y, chain ops x = Some y ->
    exists y', chain (others ops) x = Some y' /\ y = vscale (prodH ops) y'.
  Proof.
    induction ops as [|e r IH]; intros x y H.
    - exists y. split; [exact H|]. cbn. symmetry. apply (vscale_one Kth).
    - rewrite chain_cons in H. destruct (chain r x) as [z|] eqn:E; [|discriminate]. cbn [obind] in H.
      destruct (IH _ _ E) as (z' & Hz' & Hz).
      assert (Hgen : is_homoth e = false -> prodH (e :: r) = prodH r ->
                exists y', chain (others (e :: r)) x = Some y' /\ y = vscale (prodH (e :: r)) y').
      { intros Hh Hp. unfold others. cbn [filter]. rewrite Hh. cbn [negb]. fold (others r).
        rewrite Hz, denote_hom in H. destruct (denote e z') as [y''|] eqn:Ed; [|discriminate].
        cbn in H. inversion H; subst y. exists y''. rewrite chain_cons, Hz'. cbn [obind]. rewrite Hp. auto. }
      destruct e; try (apply Hgen; reflexivity).
      cbn [Denote.denote] in H. inversion H; subst y. exists z'. split; [exact Hz'|].
      cbn [prodH]. rewrite Hz. apply (vscale_vscale Kth).
  Qed.

  Lemma homothety_rule_sound ops : chain_le ops (homothety_rule ops).
  Proof.
    intros x y H. unfold Algebra.homothety_rule.
    destruct ops as [|first [|second rest]]; try exact H.
    set (ops := first :: second :: rest) in *.
    destruct (Nat.eqb _ 0); [exact H|].
    match goal with |- context [if ?c then ops else _] => destruct c end; [exact H|].
    fold (others ops). rewrite homoth_value_prod.
    destruct (pull_scalars ops x y H) as (y' & Hy' & Hy).
    destruct (Nat.leb _ _).
    - rewrite chain_cons, Hy'. cbn [obind Denote.denote]. now rewrite Hy.
    - rewrite chain_app. cbn [Denote.chain fold_right obind Denote.denote].
      rewrite chain_hom, Hy'. cbn. now rewrite Hy.
  Qed.

  (* ---------- the binary rules ---------- *)
  Section Rules.
    Variable rr : op -> result op.
    Hypothesis Hrr : forall e e', rr e = Ok e' -> den_le e e'.

    Lemma mapM2_matmul ll lr prods : mapM2 matmul ll lr = Ok prods ->
      Forall2 (fun ab c => chain_le [fst ab; snd ab] [c]) (combine ll lr) prods /\
      List.length ll = List.length lr /\ List.length prods = List.length ll.
    Proof.
      revert lr prods. induction ll as [|a ll IH]; intros [|b lr] prods H; cbn in H; try discriminate.
      - inversion H; subst. cbn. auto.
      - apply result_bind_ok in H as (c & Hc & H). apply result_bind_ok in H as (cs & Hcs & H).
        inversion H; subst prods. destruct (IH _ _ Hcs) as (H1 & H2 & H3). cbn. repeat split; try lia.
        constructor; [|exact H1]. cbn. now apply matmul_sound.
    Qed.

    (* block-wise application of pairwise products *)
    Lemma products_apply ll lr prods :
      Forall2 (fun ab c => chain_le [fst ab; snd ab] [c]) (combine ll lr) prods ->
      List.length ll = List.length lr ->
      forall xs ys zs, denote_list lr xs = Some ys -> denote_list ll ys = Some zs ->
      denote_list prods xs = Some zs.
    Proof.
      unfold DenoteL.denote_list.
      revert lr prods. induction ll as [|a ll IH]; intros [|b lr] prods HF Hlen xs ys zs H1 H2; cbn in Hlen; try lia.
      - inversion HF; subst. destruct xs; [|discriminate]. cbn in H1. inversion H1; subst.
        cbn in H2. inversion H2; subst. reflexivity.
      - cbn in HF. inversion HF as [|? c ? cs Hc Hcs]; subst.
        destruct xs as [|x xs]; [discriminate|]. cbn in H1.
        destruct (denote b x) as [y|] eqn:Eb; [|discriminate].
        destruct (omap2 denote lr xs) as [ys'|] eqn:Er; [|discriminate]. inversion H1; subst ys.
        cbn in H2. destruct (denote a y) as [z|] eqn:Ea; [|discriminate].
        destruct (omap2 denote ll ys') as [zs'|] eqn:El; [|discriminate]. inversion H2; subst zs.
        cbn. cbn in Hc. rewrite <- chain_single. rewrite (Hc x z (chain2' _ _ _ _ _ Eb Ea)).
        rewrite (IH lr cs Hcs ltac:(lia) xs ys' zs' Er El). reflexivity.
    Qed.
    Lemma products_apply_col ll lr prods :
      Forall2 (fun ab c => chain_le [fst ab; snd ab] [c]) (combine ll lr) prods ->
      List.length ll = List.length lr ->
      forall x ys zs, omapl (fun e => denote e x) lr = Some ys -> denote_list ll ys = Some zs ->
      omapl (fun e => denote e x) prods = Some zs.
    Proof.
      unfold DenoteL.denote_list.
      revert lr prods. induction ll as [|a ll IH]; intros [|b lr] prods HF Hlen x ys zs H1 H2; cbn in Hlen; try lia.
      - inversion HF; subst. cbn in H1. inversion H1; subst. cbn in H2. inversion H2; subst. reflexivity.
      - cbn in HF. inversion HF as [|? c ? cs Hc Hcs]; subst. cbn in H1.
        destruct (denote b x) as [y|] eqn:Eb; [|discriminate].
        destruct (omapl (fun e => denote e x) lr) as [ys'|] eqn:Er; [|discriminate]. inversion H1; subst ys.
        cbn in H2. destruct (denote a y) as [z|] eqn:Ea; [|discriminate].
        destruct (omap2 denote ll ys') as [zs'|] eqn:El; [|discriminate]. inversion H2; subst zs.
        cbn. cbn in Hc. rewrite <- chain_single. rewrite (Hc x z (chain2' _ _ _ _ _ Eb Ea)).
        rewrite (IH lr cs Hcs ltac:(lia) x ys' zs' Er El). reflexivity.
    Qed.
    Lemma omap2_length (f : op -> value -> option value) l : forall xs ys,
      omap2 f l xs = Some ys -> List.length ys = List.length l /\ List.length xs = List.length l.
    Proof.
      induction l as [|e r IH]; intros [|x xs] ys H; cbn in H; try discriminate.
      - inversion H; auto.
      - destruct (f e x); [|discriminate]. destruct (omap2 f r xs) as [ys'|] eqn:E; [|discriminate].
        inversion H; subst. destruct (IH _ _ E). cbn. lia.
    Qed.
    Lemma omapl_length (f : op -> option value) l : forall ys,
      omapl f l = Some ys -> List.length ys = List.length l.
    Proof.
      induction l as [|e r IH]; intros ys H; cbn in H.
      - inversion H; auto.
      - destruct (f e); [|discriminate]. destruct (omapl f r) as [ys'|] eqn:E; [|discriminate].
        inversion H; subst. cbn. now rewrite (IH _ eq_refl).
    Qed.

    Lemma block_cls b c : bcls b = c ->
      match c with CBlockRow => b = BRow | CBlockDiagonal => b = BDiag | CBlockColumn => b = BCol | _ => False end.
    Proof. destruct b; intros <-; reflexivity. Qed.

    Lemma is_a_block (e : op) c : is_a e [c] = true -> (c = CBlockRow \/ c = CBlockDiagonal \/ c = CBlockColumn) ->
      forall i b td l, e = Block i b td l -> bcls b = c.
    Proof.
      intros H Hc i b td l ->. unfold is_a in H. cbn [cls_of] in H.
      destruct b, Hc as [->|[->| ->]]; cbn in H; try discriminate; reflexivity.
    Qed.

    Lemma block_rule_sound reduced l r new bl br :
      (forall i b td ll, l = Block i b td ll -> b = bl) ->
      (forall i b td lr, r = Block i b td lr -> b = br) ->
      match reduced, bl, br with
      | Some BRow, BRow, BDiag | Some BCol, BDiag, BCol | Some BDiag, BDiag, BDiag | None, BRow, BCol => True
      | _, _, _ => False
      end ->
      block_rule keqb kmul rr reduced l r = Ok (Some new) -> chain_le [l; r] new.
    Proof.
      intros Hl Hr Hkinds H. unfold block_rule in H.
      destruct l as [| | | | | |il bl' tdl ll]; try discriminate.
      destruct r as [| | | | | |ir br' tdr lr]; try discriminate.
      specialize (Hl _ _ _ _ eq_refl). specialize (Hr _ _ _ _ eq_refl). subst bl' br'.
      destruct (pt_eqb (fun _ _ : unit => true) tdl tdr) eqn:Etd; cbn [negb] in H; [|discriminate].
      apply (pt_eqb_eq _ (@unit_eqb_eq)) in Etd. subst tdr.
      apply result_bind_ok in H as (prods & Hp & H).
      apply result_bind_ok in H as (newb & Hn & H).
      apply result_bind_ok in H as (red & Hred & H). inversion H; subst new. clear H.
      destruct (mapM2_matmul _ _ _ Hp) as (HF & Hlen & Hplen).
      apply chain_le_trans with (b := [newb]); [|intros x y; rewrite !chain_single; apply (Hrr _ _ Hred)].
      intros x y Hc. apply chain2 in Hc as (y1 & H1 & H2). rewrite chain_single.
      rewrite denote_block in H1, H2.
      destruct (negb (Nat.eqb (List.length lr) (nleaves tdl))) eqn:Elr; [discriminate|].
      destruct (negb (Nat.eqb (List.length ll) (nleaves tdl))) eqn:Ell; [discriminate|].
      assert (Hpl : negb (Nat.eqb (List.length prods) (nleaves tdl)) = false) by (rewrite Hplen; exact Ell).
      apply negb_false_iff, Nat.eqb_eq in Elr, Ell.
      destruct reduced as [[| |]|], bl, br; try contradiction.
      - (* row @ diag *)
        unfold mk_block in Hn. rewrite Hpl in Hn. destruct prods as [|p0 pr] eqn:Ep; [discriminate|].
        destruct (all_eqb _); [|discriminate]. inversion Hn; subst newb. rewrite <- Ep in *.
        rewrite denote_block, Hpl.
        destruct (split_prefix tdl x) as [xs|] eqn:Ex; [|discriminate]. cbn [obind option_map] in *.
        destruct (denote_list lr xs) as [ys|] eqn:Ey; [|discriminate]. cbn in H1. inversion H1; subst y1.
        destruct (omap2_length _ _ _ _ Ey) as [Hy1 Hy2].
        rewrite split_build in H2 by exact (eq_trans Hy1 Elr). cbn [obind] in H2.
        destruct (denote_list ll ys) as [zs|] eqn:Ez; [|discriminate]. cbn [obind] in H2.
        rewrite (products_apply _ _ _ HF Hlen _ _ _ Ey Ez). exact H2.
      - (* diag @ diag *)
        unfold mk_block in Hn. rewrite Hpl in Hn. destruct prods as [|p0 pr] eqn:Ep; [discriminate|].
        inversion Hn; subst newb. rewrite <- Ep in *.
        rewrite denote_block, Hpl.
        destruct (split_prefix tdl x) as [xs|] eqn:Ex; [|discriminate]. cbn [obind option_map] in *.
        destruct (denote_list lr xs) as [ys|] eqn:Ey; [|discriminate]. cbn in H1. inversion H1; subst y1.
        destruct (omap2_length _ _ _ _ Ey) as [Hy1 Hy2].
        rewrite split_build in H2 by exact (eq_trans Hy1 Elr). cbn [obind] in H2.
        destruct (denote_list ll ys) as [zs|] eqn:Ez; [|discriminate]. cbn in H2. inversion H2; subst y.
        rewrite (products_apply _ _ _ HF Hlen _ _ _ Ey Ez). cbn. f_equal.
        destruct (omap2_length _ _ _ _ Ez) as [Hz1 Hz2]. apply build_dflt_irrelevant. apply Nat.eq_le_incl. exact (eq_sym (eq_trans Hz1 Ell)).
      - (* diag @ col *)
        unfold mk_block in Hn. rewrite Hpl in Hn. destruct prods as [|p0 pr] eqn:Ep; [discriminate|].
        destruct (all_eqb _); [|discriminate]. inversion Hn; subst newb. rewrite <- Ep in *.
        rewrite denote_block, Hpl.
        destruct (omapl (fun e => denote e x) lr) as [ys|] eqn:Ey; [|discriminate]. cbn in H1. inversion H1; subst y1.
        pose proof (omapl_length _ _ _ Ey) as Hy1.
        rewrite split_build in H2 by exact (eq_trans Hy1 Elr). cbn [obind] in H2.
        destruct (denote_list ll ys) as [zs|] eqn:Ez; [|discriminate]. cbn in H2. inversion H2; subst y.
        rewrite (products_apply_col _ _ _ HF Hlen _ _ _ Ey Ez). cbn. f_equal.
        destruct (omap2_length _ _ _ _ Ez) as [Hz1 Hz2]. apply build_dflt_irrelevant. apply Nat.eq_le_incl. exact (eq_sym (eq_trans Hz1 Ell)).
      - (* row @ col -> sum *)
        destruct prods as [|p0 pr] eqn:Ep; [discriminate|]. inversion Hn; subst newb. rewrite <- Ep in *.
        rewrite denote_add.
        destruct (omapl (fun e => denote e x) lr) as [ys|] eqn:Ey; [|discriminate]. cbn in H1. inversion H1; subst y1.
        pose proof (omapl_length _ _ _ Ey) as Hy1.
        rewrite split_build in H2 by exact (eq_trans Hy1 Elr). cbn [obind] in H2.
        destruct (denote_list ll ys) as [zs|] eqn:Ez; [|discriminate]. cbn [obind] in H2.
        rewrite (products_apply_col _ _ _ HF Hlen _ _ _ Ey Ez). exact H2.
    Qed.

    Ltac cls_cases H :=
      match type of H with
      | is_a ?e _ = true => unfold is_a in H; destruct e; cbn [cls_of] in H
      end.

    Lemma guard_parts g l r : guard_ok g l r = true ->
      (match g_any g with
       | Some cs => is_a l cs || is_a r cs
       | None => (match g_left g with Some cs => is_a l cs | None => true end) &&
                 (match g_right g with Some cs => is_a r cs | None => true end)
       end) = true /\
      (if is_exactly_transpose (g_left g) then match wrapped l with Some x => same x r | None => false end else true) = true /\
      (if is_exactly_transpose (g_right g) then match wrapped r with Some x => same x l | None => false end else true) = true.
    Proof. unfold Algebra.guard_ok. intros H. apply andb_true_iff in H as [H H3]. apply andb_true_iff in H as [H1 H2]. auto. Qed.

    Lemma rule_sound ru l r new :
      guard_ok (guard_of ru) l r = true ->
      apply_rule rr ru l r = Ok (Some new) -> chain_le [l; r] new.
    Proof.
      intros Hg Ha. apply guard_parts in Hg as (Hc & Hl & Hr).
      destruct ru; cbn [guard_of g_any g_left g_right is_exactly_transpose] in Hc, Hl, Hr;
        cbn [Algebra.apply_rule] in Ha.
      - (* InverseBinaryRule *)
        destruct (lazy_inverse_of l) as [xl|] eqn:El.
        + destruct (same xl r) eqn:Es; [|discriminate]. inversion Ha; subst new.
          apply same_eq' in Es; subst xl. destruct l as [|il wl el| | | | |]; try discriminate.
          cbn [lazy_inverse_of] in El. destruct (isinst (wcls wl) [CAbstractLazyInverse]) eqn:Ei; [|discriminate].
          inversion El; subst el. intros x y Hch. apply chain2 in Hch as (y1 & H1 & H2).
          cbn [Denote.denote] in H2. cbn. f_equal. symmetry. eapply (lf_inv_l LF); eauto.
        + destruct (lazy_inverse_of r) as [xr|] eqn:Er; [|discriminate].
          destruct (same xr l) eqn:Es; [|discriminate]. inversion Ha; subst new.
          apply same_eq' in Es; subst xr. destruct r as [|ir wr er| | | | |]; try discriminate.
          cbn [lazy_inverse_of] in Er. destruct (isinst (wcls wr) [CAbstractLazyInverse]) eqn:Ei; [|discriminate].
          inversion Er; subst er. intros x y Hch. apply chain2 in Hch as (y1 & H1 & H2).
          cbn [Denote.denote] in H1. cbn. f_equal. symmetry. eapply (lf_inv_r LF); eauto.
      - (* MoveAxisInverseRule *)
        apply andb_true_iff in Hc as [Hcl Hcr].
        destruct l as [il cl sil sol pl| | | | | |]; try discriminate.
        destruct pl as [| | | |ls ld|]; try discriminate.
        destruct r as [ir cr sir sor pr| | | | | |]; try discriminate.
        destruct pr as [| | | |rs rd|]; try discriminate.
        destruct (list_eqb Z.eqb ls rd && list_eqb Z.eqb ld rs) eqn:E; [|discriminate]. inversion Ha; subst new.
        apply andb_true_iff in E as [E1 E2].
        apply (list_eqb_eq Z.eqb) in E1; [|intros; now apply Z.eqb_eq].
        apply (list_eqb_eq Z.eqb) in E2; [|intros; now apply Z.eqb_eq]. subst ls ld.
        assert (cl = CMoveAxis) by (unfold is_a in Hcl; cbn in Hcl; destruct cl; cbn in Hcl; try discriminate; reflexivity).
        assert (cr = CMoveAxis) by (unfold is_a in Hcr; cbn in Hcr; destruct cr; cbn in Hcr; try discriminate; reflexivity).
        subst cl cr. intros x y Hch. apply chain2 in Hch as (y1 & H1 & H2). cbn [Denote.denote] in H1, H2.
        cbn. f_equal. symmetry. eapply (lf_move LF); eauto.
      - (* ReshapeInverseRule *)
        destruct (is_a l [CAbstractRavelOrReshape]) eqn:Ell.
        + destruct (is_a r [CReshapeTranspose]) eqn:Err; cbn [negb] in Ha; [|discriminate].
          destruct (wrapped r) as [xr|] eqn:Ew; [|discriminate].
          destruct (same xr l) eqn:Es; [|discriminate]. inversion Ha; subst new.
          apply same_eq' in Es; subst xr. destruct r as [|ir wr er| | | | |]; try discriminate.
          cbn in Ew. inversion Ew; subst er.
          assert (Hw : subclass (wcls wr) CReshapeTranspose = true)
            by (unfold is_a, isinst in Err; cbn in Err; now rewrite orb_false_r in Err).
          intros x y Hch. apply chain2 in Hch as (y1 & H1 & H2). cbn [Denote.denote] in H1.
          cbn. f_equal. symmetry. eapply (lf_reshape_l LF); eauto.
        + destruct (is_a l [CReshapeTranspose]) eqn:Elt; [|discriminate].
          destruct (is_a r [CAbstractRavelOrReshape]) eqn:Err; cbn [negb] in Ha; [|discriminate].
          destruct (wrapped l) as [xl|] eqn:Ew; [|discriminate].
          destruct (same xl r) eqn:Es; [|discriminate]. inversion Ha; subst new.
          apply same_eq' in Es; subst xl. destruct l as [|il wl el| | | | |]; try discriminate.
          cbn in Ew. inversion Ew; subst el.
          assert (Hw : subclass (wcls wl) CReshapeTranspose = true)
            by (unfold is_a, isinst in Elt; cbn in Elt; now rewrite orb_false_r in Elt).
          intros x y Hch. apply chain2 in Hch as (y1 & H1 & H2). cbn [Denote.denote] in H2.
          cbn. f_equal. symmetry. eapply (lf_reshape_r LF); eauto.
      - (* PackUnpackRule *)
        inversion Ha; subst new. apply andb_true_iff in Hc as [Hcl Hcr].
        destruct (wrapped r) as [xr|] eqn:Ew; [|discriminate]. apply same_eq' in Hr; subst xr.
        destruct r as [|ir wr er| | | | |]; try discriminate. cbn in Ew. inversion Ew; subst er.
        assert (Hw : subclass (wcls wr) CTranspose = true)
          by (unfold is_a, isinst in Hcr; cbn in Hcr; now rewrite orb_false_r in Hcr).
        intros x y Hch. apply chain2 in Hch as (y1 & H1 & H2). cbn [Denote.denote] in H1.
        cbn. f_equal. symmetry. eapply (lf_pack LF); eauto.
      - (* QURotationRule *)
        destruct (angles_of l) as [la|] eqn:Eal.
        + destruct l as [il cl sil sol pl| | | | | |]; try discriminate. cbn in Eal.
          destruct cl; try discriminate. destruct pl; try discriminate. inversion Eal; subst a.
          destruct (angles_of r) as [ra|] eqn:Ear.
          * destruct r as [ir cr sir sor pr| | | | | |]; try discriminate. cbn in Ear.
            destruct cr; try discriminate. destruct pr; try discriminate. inversion Ear; subst a.
            inversion Ha; subst new. intros x y Hch. apply chain2 in Hch as (y1 & H1 & H2).
            cbn [Denote.denote] in H1, H2. rewrite chain_single. cbn [Denote.denote in_struct structs fst square_cls].
            eapply (lf_rr LF); eauto.
          * destruct r as [|ir wr er| | | | |]; try discriminate. destruct wr; try discriminate.
            destruct (angles_of er) as [ra|] eqn:Eer; [|discriminate].
            destruct er as [jr cr sjr sojr pr| | | | | |]; try discriminate. cbn in Eer.
            destruct cr; try discriminate. destruct pr; try discriminate. inversion Eer; subst a.
            inversion Ha; subst new. intros x y Hch. apply chain2 in Hch as (y1 & H1 & H2).
            cbn [Denote.denote] in H1, H2. rewrite chain_single. cbn [Denote.denote in_struct structs fst snd square_cls].
            eapply (lf_rrT LF); eauto.
        + destruct l as [|il wl el| | | | |]; try discriminate. destruct wl; try discriminate.
          destruct (angles_of el) as [la|] eqn:Eel; [|discriminate].
          destruct el as [jl cl sjl sojl pl| | | | | |]; try discriminate. cbn in Eel.
          destruct cl; try discriminate. destruct pl; try discriminate. inversion Eel; subst a.
          destruct (angles_of r) as [ra|] eqn:Ear.
          * destruct r as [ir cr sir sor pr| | | | | |]; try discriminate. cbn in Ear.
            destruct cr; try discriminate. destruct pr; try discriminate. inversion Ear; subst a.
            inversion Ha; subst new. intros x y Hch. apply chain2 in Hch as (y1 & H1 & H2).
            cbn [Denote.denote] in H1, H2. rewrite chain_single. cbn [Denote.denote in_struct structs fst square_cls].
            eapply (lf_rTr LF); eauto.
          * destruct r as [|ir wr er| | | | |]; try discriminate. destruct wr; try discriminate.
            destruct (angles_of er) as [ra|] eqn:Eer; [|discriminate].
            destruct er as [jr cr sjr sojr pr| | | | | |]; try discriminate. cbn in Eer.
            destruct cr; try discriminate. destruct pr; try discriminate. inversion Eer; subst a.
            inversion Ha; subst new. intros x y Hch. apply chain2 in Hch as (y1 & H1 & H2).
            cbn [Denote.denote] in H1, H2. rewrite chain_single. cbn [Denote.denote in_struct structs fst snd square_cls].
            eapply (lf_rTrT LF); eauto.
      - (* QURotationHWPRule *)
        apply andb_true_iff in Hc as [Hcl Hcr].
        destruct l as [il cl sil sol pl|il wl el| | | | |]; try discriminate.
        + destruct cl; try discriminate. inversion Ha; subst new.
          intros x y Hch. apply chain2 in Hch as (y1 & H1 & H2). cbn [Denote.denote] in H2.
          destruct (lf_rot_hwp LF _ _ _ _ _ _ _ _ Hcr H1 H2) as (y2 & H3 & H4).
          eapply chain2'; [|exact H4]. exact H3.
        + destruct wl; try discriminate. inversion Ha; subst new.
          intros x y Hch. apply chain2 in Hch as (y1 & H1 & H2). cbn [Denote.denote] in H2.
          destruct (lf_rotT_hwp LF _ _ _ _ _ _ Hcr H1 H2) as (y2 & H3 & H4).
          eapply chain2'; [exact H3|exact H4].
      - (* LinearPolarizerHWPRule *)
        apply andb_true_iff in Hc as [Hcl Hcr]. inversion Ha; subst new.
        intros x y Hch. apply chain2 in Hch as (y1 & H1 & H2). rewrite chain_single.
        eapply (lf_pol_hwp LF); eauto.
      - (* row @ diag *)
        apply andb_true_iff in Hc as [Hcl Hcr].
        eapply (block_rule_sound (Some BRow) l r new BRow BDiag); [| |exact I|exact Ha].
        + intros i b td ll ->. pose proof (is_a_block _ _ Hcl ltac:(auto) _ _ _ _ eq_refl) as Hb. now destruct b.
        + intros i b td lr ->. pose proof (is_a_block _ _ Hcr ltac:(auto) _ _ _ _ eq_refl) as Hb. now destruct b.
      - apply andb_true_iff in Hc as [Hcl Hcr].
        eapply (block_rule_sound (Some BCol) l r new BDiag BCol); [| |exact I|exact Ha].
        + intros i b td ll ->. pose proof (is_a_block _ _ Hcl ltac:(auto) _ _ _ _ eq_refl) as Hb. now destruct b.
        + intros i b td lr ->. pose proof (is_a_block _ _ Hcr ltac:(auto) _ _ _ _ eq_refl) as Hb. now destruct b.
      - apply andb_true_iff in Hc as [Hcl Hcr].
        eapply (block_rule_sound (Some BDiag) l r new BDiag BDiag); [| |exact I|exact Ha].
        + intros i b td ll ->. pose proof (is_a_block _ _ Hcl ltac:(auto) _ _ _ _ eq_refl) as Hb. now destruct b.
        + intros i b td lr ->. pose proof (is_a_block _ _ Hcr ltac:(auto) _ _ _ _ eq_refl) as Hb. now destruct b.
      - apply andb_true_iff in Hc as [Hcl Hcr].
        eapply (block_rule_sound None l r new BRow BCol); [| |exact I|exact Ha].
        + intros i b td ll ->. pose proof (is_a_block _ _ Hcl ltac:(auto) _ _ _ _ eq_refl) as Hb. now destruct b.
        + intros i b td lr ->. pose proof (is_a_block _ _ Hcr ltac:(auto) _ _ _ _ eq_refl) as Hb. now destruct b.
      - (* IndexTransposeRule *)
        apply andb_true_iff in Hc as [Hcl Hcr].
        destruct l as [il cl sil sol pl| | | | | |]; try discriminate.
        destruct pl as [| | |uniq ix| |]; try discriminate. destruct uniq; [|discriminate].
        inversion Ha; subst new.
        destruct (wrapped r) as [xr|] eqn:Ew; [|discriminate]. apply same_eq' in Hr; subst xr.
        destruct r as [|ir wr er| | | | |]; try discriminate. cbn in Ew. inversion Ew; subst er.
        assert (Hw : subclass (wcls wr) CTranspose = true)
          by (unfold is_a, isinst in Hcr; cbn in Hcr; now rewrite orb_false_r in Hcr).
        intros x y Hch. apply chain2 in Hch as (y1 & H1 & H2). cbn [Denote.denote] in H1, H2.
        cbn. f_equal. symmetry. eapply (lf_index_unique LF); eauto.
      - (* TransposeIndexRule *)
        apply andb_true_iff in Hc as [Hcl Hcr].
        destruct r as [ir cr sir sor pr| | | | | |]; try discriminate.
        destruct pr as [| | |uniq ix| |]; try discriminate.
        destruct (Nat.ltb 1 (List.length (indexed_axes ix))) eqn:Elen; [discriminate|].
        destruct uniq; [discriminate|].
        destruct (leaf_shapes sir) as [|sh shs] eqn:Esh; [discriminate|].
        destruct (forallb (shape_eqb sh) shs) eqn:Eall; cbn [negb] in Ha; [|discriminate].
        destruct (indexed_axes ix) as [|axis rest] eqn:Eax; [discriminate|].
        destruct (py_nth ix axis) as [[| | | |d|]|] eqn:Ei; try discriminate.
        destruct (py_nth sh axis) as [n|] eqn:En; [|discriminate].
        inversion Ha; subst new.
        destruct (wrapped l) as [xl|] eqn:Ew; [|discriminate]. apply same_eq' in Hl; subst xl.
        destruct l as [|il wl el| | | | |]; try discriminate. cbn in Ew. inversion Ew; subst el.
        assert (Hw : subclass (wcls wl) CTranspose = true)
          by (unfold is_a, isinst in Hcl; cbn in Hcl; now rewrite orb_false_r in Hcl).
        intros x y Hch. apply chain2 in Hch as (y1 & H1 & H2). cbn [Denote.denote] in H1, H2.
        rewrite chain_single. cbn [Denote.denote].
        eapply (lf_tindex LF); eauto.
        apply Nat.ltb_ge in Elen. apply Nat.leb_le. exact Elen.
    Qed.

    Lemma fires_sound order l r new : fires rr order l r = Ok (Some new) -> chain_le [l; r] new.
    Proof.
      induction order as [|ru rest IH]; cbn [Algebra.fires]; [discriminate|].
      destruct (guard_ok (guard_of ru) l r) eqn:Eg; [|exact IH].
      intros H. apply result_bind_ok in H as (res & Hres & H).
      destruct res as [new'|]; [|exact (IH H)]. inversion H; subst new'.
      eapply rule_sound; eauto.
    Qed.

    Lemma nth_error_split (ops : list op) i l r :
      nth_error ops i = Some l -> nth_error ops (S i) = Some r ->
      ops = firstn i ops ++ [l; r] ++ skipn (i + 2) ops.
    Proof.
      revert i. induction ops as [|a ops IH]; intros [|i] Hl Hr; cbn in *; try discriminate.
      - inversion Hl; subst. destruct ops as [|b ops]; cbn in *; [discriminate|]. now inversion Hr; subst.
      - f_equal. now apply IH.
    Qed.

    Lemma scan_sound fuel order : forall ops index res,
      scan rr fuel order ops index = Ok res -> chain_le ops res.
    Proof.
      induction fuel as [|fuel IH]; intros ops index res H; [discriminate|].
      cbn [Algebra.scan] in H. destruct (Nat.ltb (S index) (List.length ops)).
      - destruct (nth_error ops index) as [l|] eqn:El; [|discriminate].
        destruct (nth_error ops (S index)) as [r|] eqn:Er; [|discriminate].
        apply result_bind_ok in H as (fr & Hf & H). destruct fr as [new0|].
        + pose proof (nth_error_split _ _ _ _ El Er) as Hs.
          assert (Hle : chain_le (firstn index ops ++ [l; r] ++ skipn (index + 2) ops)
                                 (firstn index ops ++ identity_rule new0 ++ skipn (index + 2) ops)).
          { apply chain_le_splice.
            eapply chain_le_trans; [eapply fires_sound; eauto|apply identity_rule_sound]. }
          rewrite <- Hs in Hle.
          destruct (existsb _ (identity_rule new0)).
          * eapply chain_le_trans; [exact Hle|]. eapply chain_le_trans; [apply homothety_rule_sound|]. eapply IH; eauto.
          * eapply chain_le_trans; [exact Hle|]. eapply IH; eauto.
        + eapply IH; eauto.
      - inversion H; subst. apply chain_le_refl.
    Qed.

    Lemma algebraic_sound fuel order ops res :
      algebraic_reduction rr fuel order ops = Ok res -> chain_le ops res.
    Proof.
      unfold Algebra.algebraic_reduction. destruct ops as [|a [|b rest]]; try (intros H; inversion H; subst; apply chain_le_refl).
      intros H. apply result_bind_ok in H as (res' & Hs & H).
      eapply chain_le_trans; [apply identity_rule_sound|].
      eapply chain_le_trans; [apply homothety_rule_sound|].
      eapply chain_le_trans; [eapply scan_sound; eauto|].
      destruct res'; inversion H; subst; [|apply chain_le_refl].
      intros x y Hc. cbn in Hc. inversion Hc; subst. reflexivity.
    Qed.
  End Rules.

  (* ---------- reduce() ---------- *)
  Lemma mapM_Forall2 (f : op -> result op) (P : op -> op -> Prop) l l' :
    (forall e e', f e = Ok e' -> P e e') -> mapM f l = Ok l' -> Forall2 P l l'.
  Proof.
    intros Hf. revert l'. induction l as [|e r IH]; intros l' H; cbn in H.
    - inversion H; constructor.
    - apply result_bind_ok in H as (e' & He & H). apply result_bind_ok in H as (r' & Hr & H).
      inversion H; subst. constructor; auto.
  Qed.
  Lemma omapl_mono l l' x ys : Forall2 den_le l l' ->
    omapl (fun e => denote e x) l = Some ys -> omapl (fun e => denote e x) l' = Some ys.
  Proof.
    intros HF. revert ys. induction HF as [|e e' r r' He _ IH]; intros ys H; cbn in *; [exact H|].
    destruct (denote e x) as [y|] eqn:E; [|discriminate].
    destruct (omapl (fun e => denote e x) r) as [ys'|]; [|discriminate].
    rewrite (He _ _ E), (IH _ eq_refl). exact H.
  Qed.
  Lemma omap2_mono l l' : Forall2 den_le l l' -> forall xs ys,
    denote_list l xs = Some ys -> denote_list l' xs = Some ys.
  Proof.
    unfold DenoteL.denote_list.
    induction 1 as [|e e' r r' He _ IH]; intros [|x xs] ys H; cbn in *; try exact H; try discriminate.
    destruct (denote e x) as [y|] eqn:E; [|discriminate].
    destruct (omap2 denote r xs) as [ys'|] eqn:E2; [|discriminate].
    rewrite (He _ _ E), (IH _ _ E2). exact H.
  Qed.
  Lemma denote_list_idents l : forallb (@is_ident K) l = true -> forall xs,
    List.length xs = List.length l -> denote_list l xs = Some xs.
  Proof.
    unfold DenoteL.denote_list.
    induction l as [|e r IH]; intros Hall [|x xs] Hlen; cbn in *; try lia; [reflexivity|].
    apply andb_true_iff in Hall as [He Hr]. destruct e; try discriminate. cbn.
    now rewrite (IH Hr xs ltac:(lia)).
  Qed.

  Theorem reduce_sound_l : forall fuel order e e', reduce fuel order e = Ok e' -> den_le e e'.
  Proof.
    induction fuel as [|f IH]; intros order e e' H; [discriminate|].
    cbn [Algebra.reduce] in H.
    destruct e as [i c si so p|i w e0|i s|i k s|i l|i l|i b td l].
    - (* leaf operators: index without indexed axis, no-op ravel/reshape *)
      destruct c; try (inversion H; subst; apply den_le_refl).
      + (* CIndex *)
        destruct p as [| | |u ix| |]; try (inversion H; subst; apply den_le_refl).
        destruct (indexed_axes ix) eqn:Eax; inversion H; subst; [|apply den_le_refl].
        intros x y Hd. cbn [Denote.denote] in *. f_equal. symmetry. eapply (lf_index_noop LF); eauto.
      + destruct (struct_eqb so si); inversion H; subst; [|apply den_le_refl].
        intros x y Hd. cbn [Denote.denote] in *. f_equal. symmetry.
        exact (lf_reshape_noop LF _ _ _ _ _ _ _ (or_introl eq_refl) Hd).
      + destruct (struct_eqb so si); inversion H; subst; [|apply den_le_refl].
        intros x y Hd. cbn [Denote.denote] in *. f_equal. symmetry.
        exact (lf_reshape_noop LF _ _ _ _ _ _ _ (or_intror eq_refl) Hd).
    - inversion H; subst; apply den_le_refl.
    - inversion H; subst; apply den_le_refl.
    - inversion H; subst; apply den_le_refl.
    - (* composition *)
      apply result_bind_ok in H as (ops & Hops & H). apply result_bind_ok in H as (ops' & Halg & H).
      assert (HF : Forall2 den_le l ops) by (eapply mapM_Forall2; [|exact Hops]; intros; eapply IH; eauto).
      assert (Hle : chain_le l ops').
      { eapply chain_le_trans; [apply chain_le_Forall2; exact HF|].
        eapply algebraic_sound; [|exact Halg]. intros; eapply IH; eauto. }
      intros x y Hd. rewrite denote_comp in Hd. specialize (Hle _ _ Hd).
      destruct ops' as [|a [|b r]]; inversion H; subst.
      + cbn in Hle. inversion Hle; subst. reflexivity.
      + exact Hle.
      + now rewrite denote_comp.
    - (* sum *)
      apply result_bind_ok in H as (ops & Hops & H).
      assert (HF : Forall2 den_le l ops) by (eapply mapM_Forall2; [|exact Hops]; intros; eapply IH; eauto).
      intros x y Hd. rewrite denote_add in Hd.
      destruct (omapl (fun e => denote e x) l) as [ys|] eqn:E; [|discriminate]. cbn [obind] in Hd.
      pose proof (omapl_mono _ _ _ _ HF E) as E'.
      destruct ops as [|a [|b r]]; injection H as <-.
      + rewrite denote_add, E'. exact Hd.
      + cbn in E'. destruct (denote a x) as [ya|]; [|discriminate]. inversion E'; subst. cbn in Hd. exact Hd.
      + rewrite denote_add, E'. exact Hd.
    - (* block operators *)
      apply result_bind_ok in H as (ops & Hops & H). apply result_bind_ok in H as (new & Hnew & H).
      assert (HF : Forall2 den_le l ops) by (eapply mapM_Forall2; [|exact Hops]; intros; eapply IH; eauto).
      assert (Hlen : List.length ops = List.length l).
      { clear - HF. induction HF; cbn; congruence. }
      assert (Hnew' : new = Block fresh b td ops).
      { unfold mk_block in Hnew. destruct (negb _); [discriminate|]. destruct ops; [discriminate|].
        destruct b; try destruct (all_eqb _); inversion Hnew; reflexivity. }
      subst new.
      assert (Hle : den_le (Block i b td l) (Block fresh b td ops)).
      { intros x y Hd. rewrite denote_block in *. rewrite Hlen. destruct (negb _); [discriminate|].
        destruct b.
        - destruct (split_prefix td x) as [xs|]; [|discriminate]. cbn [obind] in *.
          destruct (denote_list l xs) as [ys|] eqn:E; [|discriminate]. now rewrite (omap2_mono _ _ HF _ _ E).
        - destruct (split_prefix td x) as [xs|]; [|discriminate]. cbn [obind] in *.
          destruct (denote_list l xs) as [ys|] eqn:E; [|discriminate]. now rewrite (omap2_mono _ _ HF _ _ E).
        - destruct (omapl (fun e => denote e x) l) as [ys|] eqn:E; [|discriminate]. now rewrite (omapl_mono _ _ _ _ HF E). }
      destruct b; try (inversion H; subst; exact Hle).
      destruct (forallb (@is_ident K) ops) eqn:Eall; inversion H; subst; [|exact Hle].
      intros x y Hd. apply Hle in Hd. rewrite denote_block in Hd.
      destruct (negb _) eqn:En; [discriminate|]. apply negb_false_iff, Nat.eqb_eq in En.
      destruct (split_prefix td x) as [xs|] eqn:Ex; [|discriminate]. cbn [obind] in Hd.
      rewrite (denote_list_idents _ Eall xs) in Hd by exact (eq_trans (split_length _ _ Ex) (eq_sym En)).
      cbn in Hd. rewrite (build_split _ _ _ Ex) in Hd. exact Hd.
  Qed.
End Sound.
