(* Proofs about Model/StokesTree.v (C20). *)
From Coq Require Import ZArith QArith List Bool String Arith Lia.
From Furax Require Import Base.Pytree Model.StokesTree.
Import ListNotations.
Open Scope nat_scope.

(* ---------------------------------------------------------------------------------------------- *)
(* mapM / map2M                                                                                     *)

Lemma mapM_cons {X Y} (f : X -> res Y) x t :
  mapM f (x :: t) = rbind (f x) (fun y => rmap (cons y) (mapM f t)).
Proof. reflexivity. Qed.

Lemma mapM_ok {X Y} (f : X -> res Y) : forall l r,
  mapM f l = Ok r <-> Forall2 (fun x y => f x = Ok y) l r.
Proof.
  induction l as [|x t IH]; intros r.
  - cbn. split; intros H; [inversion H; constructor | inversion H; reflexivity].
  - rewrite mapM_cons. destruct (f x) as [y| |e] eqn:Ef; cbn [rbind].
    + destruct (mapM f t) as [r'| |e] eqn:Et; cbn [rmap rbind].
      * split; intros H.
        -- inversion H; subst. constructor; auto. now apply IH.
        -- inversion H; subst. rewrite Ef in H2. inversion H2; subst. apply IH in H4.
           inversion H4; reflexivity.
      * split; intros H; [discriminate|]. inversion H; subst. apply IH in H4. discriminate.
      * split; intros H; [discriminate|]. inversion H; subst. apply IH in H4. discriminate.
    + split; intros H; [discriminate|]. inversion H; subst. congruence.
    + split; intros H; [discriminate|]. inversion H; subst. congruence.
Qed.

Lemma mapM_total {X Y} (g : X -> Y) l : mapM (fun x => Ok (g x)) l = Ok (map g l).
Proof. induction l as [|x t IH]; [reflexivity|]. rewrite mapM_cons, IH. reflexivity. Qed.

Lemma mapM_app_err {X Y} (f : X -> res Y) x e l2 : forall l1 r1,
  mapM f l1 = Ok r1 -> f x = Err e -> mapM f (l1 ++ x :: l2) = Err e.
Proof.
  induction l1 as [|a l1 IH]; intros r1 H1 Hx.
  - cbn [app]. rewrite mapM_cons, Hx. reflexivity.
  - cbn [app]. rewrite mapM_cons in *. destruct (f a) as [y| |e']; cbn [rbind] in *; try discriminate.
    destruct (mapM f l1) as [r'| |e'] eqn:E; cbn [rmap rbind] in H1; try discriminate.
    rewrite (IH r' eq_refl Hx). reflexivity.
Qed.

(* the first failing leaf decides the error; the leaves before it succeeded *)
Lemma mapM_err {X Y} (f : X -> res Y) : forall l e,
  mapM f l = Err e <->
  exists l1 x l2, l = l1 ++ x :: l2 /\ f x = Err e /\ (exists r1, mapM f l1 = Ok r1).
Proof.
  intros l e. split.
  - revert e. induction l as [|x t IH]; intros e H; [discriminate|].
    rewrite mapM_cons in H. destruct (f x) as [y| |e'] eqn:Ef; cbn [rbind] in H; try discriminate.
    + destruct (mapM f t) as [r'| |e'] eqn:Et; cbn [rmap rbind] in H; try discriminate.
      inversion H; subst. destruct (IH e eq_refl) as (l1 & z & l2 & -> & Hz & r1 & H1).
      exists (x :: l1), z, l2. repeat split; auto. exists (y :: r1).
      rewrite mapM_cons, Ef, H1. reflexivity.
    + inversion H; subst. exists [], x, t. repeat split; auto. exists []. reflexivity.
  - intros (l1 & x & l2 & -> & Hx & r1 & H1). eapply mapM_app_err; eauto.
Qed.

Inductive Forall3 {X Y Z} (R : X -> Y -> Z -> Prop) : list X -> list Y -> list Z -> Prop :=
| F3nil : Forall3 R [] [] []
| F3cons x y z l m n : R x y z -> Forall3 R l m n -> Forall3 R (x :: l) (y :: m) (z :: n).

Lemma map2M_ok {X Y Z} (f : X -> Y -> res Z) : forall l m r,
  map2M f l m = Ok r <-> Forall3 (fun x y z => f x y = Ok z) l m r.
Proof.
  induction l as [|x t IH]; intros [|y u] r; cbn [map2M].
  - split; intros H; [inversion H; constructor | inversion H; reflexivity].
  - split; intros H; [discriminate | inversion H].
  - split; intros H; [discriminate | inversion H].
  - destruct (f x y) as [z| |e] eqn:Ef; cbn [rbind].
    + destruct (map2M f t u) as [r'| |e] eqn:Et; cbn [rmap rbind].
      * split; intros H.
        -- inversion H; subst. constructor; auto. now apply IH.
        -- inversion H as [|? ? z' ? ? n Hr Hf]; subst. rewrite Ef in Hr. inversion Hr; subst.
           apply IH in Hf. rewrite Et in Hf. inversion Hf; reflexivity.
      * split; intros H; [discriminate|]. inversion H as [|? ? z' ? ? n Hr Hf]; subst.
        apply IH in Hf. rewrite Et in Hf. discriminate.
      * split; intros H; [discriminate|]. inversion H as [|? ? z' ? ? n Hr Hf]; subst.
        apply IH in Hf. rewrite Et in Hf. discriminate.
    + split; intros H; [discriminate|]. inversion H; subst. congruence.
    + split; intros H; [discriminate|]. inversion H; subst. congruence.
Qed.

Lemma map2M_total {X} (g : X -> X -> X) : forall l m, List.length l = List.length m ->
  map2M (lift2 g) l m = Ok (zip_with g l m).
Proof.
  induction l as [|x t IH]; intros [|y u] H; cbn in *; try discriminate; [reflexivity|].
  rewrite IH by lia. reflexivity.
Qed.

Lemma Forall2_nth {X Y} (R : X -> Y -> Prop) l r : Forall2 R l r ->
  List.length l = List.length r /\
  forall c dx dy, c < List.length l -> R (nth c l dx) (nth c r dy).
Proof.
  induction 1 as [|x y l r Hxy _ [IHl IHn]]; cbn; split; auto; try lia.
  intros [|c] dx dy Hc; [assumption|]. apply IHn. lia.
Qed.
Lemma Forall3_nth {X Y Z} (R : X -> Y -> Z -> Prop) l m r : Forall3 R l m r ->
  List.length l = List.length m /\ List.length r = List.length l /\
  forall c dx dy dz, c < List.length l -> R (nth c l dx) (nth c m dy) (nth c r dz).
Proof.
  induction 1 as [|x y z l m r Hxyz _ (IH1 & IH2 & IHn)]; cbn; repeat split; auto; try lia.
  intros [|c] dx dy dz Hc; [assumption|]. apply IHn. lia.
Qed.
Lemma nth_zip_with {X} (g : X -> X -> X) d : forall l m c, c < List.length l -> c < List.length m ->
  nth c (zip_with g l m) d = g (nth c l d) (nth c m d).
Proof.
  induction l as [|x t IH]; intros [|y u] c H1 H2; cbn in *; try lia.
  destruct c; [reflexivity|]. apply IH; lia.
Qed.
Lemma zip_with_length {X} (g : X -> X -> X) : forall l m, List.length l = List.length m ->
  List.length (zip_with g l m) = List.length l.
Proof. induction l as [|x t IH]; intros [|y u] H; cbn in *; try discriminate; auto. Qed.

Lemma skind_eqb_eq a b : skind_eqb a b = true <-> a = b.
Proof. destruct a, b; cbn; split; intros H; try reflexivity; discriminate. Qed.
Lemma skind_eqb_refl a : skind_eqb a a = true.
Proof. now apply skind_eqb_eq. Qed.
Lemma skind_eqb_neq a b : a <> b -> skind_eqb a b = false.
Proof. intros H. destruct (skind_eqb a b) eqn:E; [|reflexivity]. apply skind_eqb_eq in E. contradiction. Qed.

(* ---------------------------------------------------------------------------------------------- *)
(* dispatch of the dunders                                                                          *)
Section DispatchL.
  Variable A : Type.
  Variable op : A -> A -> res A.

  (* general (partial) leaf operation: exact characterisation of success *)
  Lemma operation_same_ok a b r : sk a = sk b ->
    (operation op a (OS b) = Ok r <->
     sk r = sk a /\ Forall3 (fun x y z => op x y = Ok z) (comps a) (comps b) (comps r)).
  Proof.
    intros Hk. unfold operation. rewrite <- Hk, skind_eqb_refl.
    destruct (map2M op (comps a) (comps b)) as [l| |e] eqn:E; cbn.
    - apply map2M_ok in E. split.
      + intros H; inversion H; subst; cbn. auto.
      + intros [H1 H2]. destruct r as [k cs]; cbn [sk comps] in *. subst k.
        apply map2M_ok in H2. apply map2M_ok in E. congruence.
    - split; [discriminate|]. intros [_ H]. apply map2M_ok in H. congruence.
    - split; [discriminate|]. intros [_ H]. apply map2M_ok in H. congruence.
  Qed.
  Lemma roperation_same_ok a b r : sk a = sk b ->
    (roperation op b (OS a) = Ok r <->
     sk r = sk b /\ Forall3 (fun x y z => op x y = Ok z) (comps a) (comps b) (comps r)).
  Proof.
    intros Hk. unfold roperation. rewrite Hk, skind_eqb_refl.
    destruct (map2M op (comps a) (comps b)) as [l| |e] eqn:E; cbn.
    - apply map2M_ok in E. split.
      + intros H; inversion H; subst; cbn. auto.
      + intros [H1 H2]. destruct r as [k cs]; cbn [sk comps] in *. subst k.
        apply map2M_ok in H2. apply map2M_ok in E. congruence.
    - split; [discriminate|]. intros [_ H]. apply map2M_ok in H. congruence.
    - split; [discriminate|]. intros [_ H]. apply map2M_ok in H. congruence.
  Qed.
  Lemma operation_val_ok a v r :
    operation op a (OV v) = Ok r <->
    sk r = sk a /\ Forall2 (fun x z => op x v = Ok z) (comps a) (comps r).
  Proof.
    unfold operation.
    destruct (mapM (fun leaf => op leaf v) (comps a)) as [l| |e] eqn:E; cbn.
    - split.
      + intros H; inversion H; subst; cbn. split; auto. now apply mapM_ok in E.
      + intros [H1 H2]. destruct r as [k cs]; cbn [sk comps] in *. subst k. apply mapM_ok in H2. congruence.
    - split; [discriminate|]. intros [_ H]. apply mapM_ok in H. congruence.
    - split; [discriminate|]. intros [_ H]. apply mapM_ok in H. congruence.
  Qed.
  Lemma roperation_val_ok a v r :
    roperation op a (OV v) = Ok r <->
    sk r = sk a /\ Forall2 (fun x z => op v x = Ok z) (comps a) (comps r).
  Proof.
    unfold roperation.
    assert (M : forall cs, mapM (fun leaf => op v leaf) (comps a) = Ok cs <->
                           Forall2 (fun x z => op v x = Ok z) (comps a) cs)
      by (intros cs; apply (mapM_ok (fun leaf => op v leaf))).
    destruct (mapM (fun leaf => op v leaf) (comps a)) as [l| |e] eqn:E; cbn [rmap rbind].
    - split.
      + intros H; inversion H; subst; cbn [sk comps]. split; auto. now apply M.
      + intros [H1 H2]. destruct r as [k cs]; cbn [sk comps] in *. subst k. apply M in H2. congruence.
    - split; [discriminate|]. intros [_ H]. apply M in H. discriminate.
    - split; [discriminate|]. intros [_ H]. apply M in H. discriminate.
  Qed.

  (* an exception raised by the leaf operation on some component is the outcome: the first one *)
  Lemma operation_val_err a v e :
    operation op a (OV v) = Err e <->
    exists l1 x l2, comps a = l1 ++ x :: l2 /\ op x v = Err e /\
                    Forall (fun y => exists z, op y v = Ok z) l1.
  Proof.
    unfold operation.
    destruct (mapM (fun leaf => op leaf v) (comps a)) as [l| |e'] eqn:E; cbn.
    - split; [discriminate|]. intros (l1 & x & l2 & H & Hx & _).
      apply mapM_ok in E. rewrite H in E. apply Forall2_app_inv_l in E as (r1 & r2 & _ & E2 & _).
      inversion E2; subst. congruence.
    - split; [discriminate|]. intros (l1 & x & l2 & H & Hx & Hl).
      assert (mapM (fun leaf => op leaf v) (comps a) = Err e).
      { apply mapM_err. exists l1, x, l2. repeat split; auto.
        clear H. induction Hl as [|y t [z Hz] _ [r1 IH]]; [exists []; reflexivity|].
        exists (z :: r1). cbn. now rewrite Hz, IH. }
      congruence.
    - split.
      + intros H; inversion H; subst. apply mapM_err in E as (l1 & x & l2 & H1 & Hx & r1 & H2).
        exists l1, x, l2. repeat split; auto. apply mapM_ok in H2.
        clear H1. induction H2; constructor; eauto.
      + intros (l1 & x & l2 & H & Hx & Hl).
        assert (mapM (fun leaf => op leaf v) (comps a) = Err e).
        { apply mapM_err. exists l1, x, l2. repeat split; auto.
          clear H. induction Hl as [|y t [z Hz] _ [r1 IH]]; [exists []; reflexivity|].
          exists (z :: r1). cbn. now rewrite Hz, IH. }
        congruence.
  Qed.

  (* Python's protocol on top *)
  Lemma py_binop_same a b : sk a = sk b ->
    py_binop op (OS a) (OS b) = no_impl (operation op a (OS b)).
  Proof.
    intros Hk. unfold py_binop.
    destruct (operation op a (OS b)) eqn:E; cbn; try reflexivity.
    rewrite Hk, skind_eqb_refl. reflexivity.
  Qed.
  Lemma py_binop_other_kind a b : sk a <> sk b -> py_binop op (OS a) (OS b) = Err TypeError.
  Proof.
    intros Hk. unfold py_binop, operation, roperation.
    rewrite (skind_eqb_neq (sk b) (sk a)) by congruence.
    rewrite (skind_eqb_neq (sk a) (sk b)) by congruence. reflexivity.
  Qed.
  Lemma py_binop_unsupported_r a : py_binop op (OS a) OX = Err TypeError.
  Proof. reflexivity. Qed.
  Lemma py_binop_unsupported_l a : py_binop op OX (OS a) = Err TypeError.
  Proof. reflexivity. Qed.
  Lemma py_binop_val_r a v : py_binop op (OS a) (OV v) = no_impl (operation op a (OV v)).
  Proof. reflexivity. Qed.
  Lemma py_binop_val_l a v : py_binop op (OV v) (OS a) = no_impl (roperation op a (OV v)).
  Proof. reflexivity. Qed.
  Lemma no_impl_ok (x : res (stokes A)) r : no_impl x = Ok r -> x = Ok r.
  Proof. destruct x; cbn; congruence. Qed.

End DispatchL.

Section TotalL.
  Variable A : Type.
  Variable op : A -> A -> res A.
  Variable g : A -> A -> A.

  (* total leaf functions: closed forms *)
  Lemma binop_componentwise_l a b : wf a -> wf b -> sk a = sk b ->
    py_binop (lift2 g) (OS a) (OS b) = Ok (mkS (sk a) (zip_with g (comps a) (comps b))).
  Proof.
    intros Ha Hb Hk. rewrite py_binop_same by assumption. unfold operation.
    rewrite <- Hk, skind_eqb_refl. rewrite map2M_total; [reflexivity|].
    unfold wf in *. congruence.
  Qed.
  Lemma binop_scalar_l a v :
    py_binop (lift2 g) (OS a) (OV v) = Ok (mkS (sk a) (map (fun x => g x v) (comps a))).
  Proof. rewrite py_binop_val_r. unfold operation, lift2. now rewrite mapM_total. Qed.
  Lemma rbinop_scalar_l a v :
    py_binop (lift2 g) (OV v) (OS a) = Ok (mkS (sk a) (map (fun x => g v x) (comps a))).
  Proof. rewrite py_binop_val_l. unfold roperation, lift2. now rewrite mapM_total. Qed.

  Lemma binop_component_l d a b c : wf a -> wf b -> sk a = sk b -> c < arity (sk a) ->
    exists r, py_binop (lift2 g) (OS a) (OS b) = Ok r /\ wf r /\ sk r = sk a /\
              comp d r c = g (comp d a c) (comp d b c).
  Proof.
    intros Ha Hb Hk Hc. eexists. split; [apply binop_componentwise_l; assumption|].
    unfold wf, comp in *; cbn. repeat split.
    - rewrite zip_with_length; congruence.
    - apply nth_zip_with; [rewrite Ha|rewrite Hb, <- Hk]; assumption.
  Qed.

  (* independence: component c of the result is a function of components c of the operands *)
  Lemma independence_l d a a' b b' r r' c :
    sk a = sk b -> sk a' = sk b' -> c < List.length (comps a) -> c < List.length (comps a') ->
    comp d a c = comp d a' c -> comp d b c = comp d b' c ->
    py_binop op (OS a) (OS b) = Ok r -> py_binop op (OS a') (OS b') = Ok r' ->
    comp d r c = comp d r' c.
  Proof.
    intros Hk Hk' Hc Hc' Ea Eb H H'.
    rewrite py_binop_same in H, H' by assumption.
    assert (H1 : operation op a (OS b) = Ok r) by now apply no_impl_ok.
    assert (H2 : operation op a' (OS b') = Ok r') by now apply no_impl_ok.
    apply operation_same_ok in H1 as [_ F1]; [|assumption].
    apply operation_same_ok in H2 as [_ F2]; [|assumption].
    apply Forall3_nth in F1 as (_ & _ & N1). apply Forall3_nth in F2 as (_ & _ & N2).
    specialize (N1 c d d d Hc). specialize (N2 c d d d Hc').
    unfold comp in *. rewrite Ea, Eb in N1. congruence.
  Qed.
  Lemma independence_scalar_l d a a' v r r' c :
    c < List.length (comps a) -> c < List.length (comps a') -> comp d a c = comp d a' c ->
    py_binop op (OS a) (OV v) = Ok r -> py_binop op (OS a') (OV v) = Ok r' ->
    comp d r c = comp d r' c.
  Proof.
    intros Hc Hc' Ea H H'. rewrite py_binop_val_r in H, H'. apply no_impl_ok in H, H'.
    apply operation_val_ok in H as [_ F1]. apply operation_val_ok in H' as [_ F2].
    apply Forall2_nth in F1 as (_ & N1). apply Forall2_nth in F2 as (_ & N2).
    specialize (N1 c d d Hc). specialize (N2 c d d Hc'). unfold comp in *. rewrite Ea in N1. congruence.
  Qed.

  (* methods that map one function over the components *)
  Variable f : A -> res A.
  Variable h : A -> A.
  Lemma smapM_ok s r :
    smapM f s = Ok r <-> sk r = sk s /\ Forall2 (fun x z => f x = Ok z) (comps s) (comps r).
  Proof.
    unfold smapM. destruct (mapM f (comps s)) as [l| |e] eqn:E; cbn.
    - split.
      + intros H; inversion H; subst; cbn. split; auto. now apply mapM_ok in E.
      + intros [H1 H2]. destruct r as [k cs]; cbn [sk comps] in *. subst k. apply mapM_ok in H2. congruence.
    - split; [discriminate|]. intros [_ H]. apply mapM_ok in H. congruence.
    - split; [discriminate|]. intros [_ H]. apply mapM_ok in H. congruence.
  Qed.
  Lemma smapM_total s : smapM (lift1 h) s = Ok (mkS (sk s) (map h (comps s))).
  Proof. unfold smapM, lift1. now rewrite mapM_total. Qed.
  Lemma smapM_component d s r c : smapM f s = Ok r -> c < List.length (comps s) ->
    f (comp d s c) = Ok (comp d r c) /\ List.length (comps r) = List.length (comps s).
  Proof.
    intros H Hc. apply smapM_ok in H as [_ F]. apply Forall2_nth in F as [L N].
    split; [apply N; assumption | auto].
  Qed.
End TotalL.

(* ---------------------------------------------------------------------------------------------- *)
(* kinds and factories                                                                              *)

Lemma class_for_valid_l : forall k, class_for (kname k) = Ok k.
Proof. destruct k; reflexivity. Qed.
Lemma class_for_ok_inv_l s k : class_for s = Ok k -> s = kname k.
Proof.
  unfold class_for, name_kind. destruct (find _ all_kinds) as [k'|] eqn:E; intros H; inversion H; subst.
  apply find_some in E as [_ E]. apply String.eqb_eq in E. auto.
Qed.
Lemma kind_rejected_l s : ~ In s valid_names -> class_for s = Err ValueError.
Proof.
  intros H. unfold class_for, name_kind. destruct (find _ all_kinds) as [k'|] eqn:E; [|reflexivity].
  apply find_some in E as [Hin E]. apply String.eqb_eq in E. exfalso. apply H. subst.
  unfold valid_names. now apply in_map.
Qed.
Lemma class_for_cases_l s : (exists k, class_for s = Ok k /\ s = kname k) \/ class_for s = Err ValueError.
Proof.
  destruct (class_for s) as [k| |e] eqn:E.
  - left. exists k. split; auto. now apply class_for_ok_inv_l.
  - unfold class_for in E. destruct (name_kind s); discriminate.
  - right. unfold class_for in E. destruct (name_kind s); inversion E; reflexivity.
Qed.

Lemma structure_for_wf_l {A} k (leaf : A) : wf (structure_for k leaf).
Proof. unfold wf, structure_for; cbn. apply repeat_length. Qed.
Lemma structure_for_comp_l {A} k (leaf d : A) c : c < arity k -> comp d (structure_for k leaf) c = leaf.
Proof.
  intros H. unfold comp, structure_for; cbn [comps]. revert c H.
  induction (arity k) as [|n IH]; intros c H; [lia|]. destruct c; cbn; [reflexivity|]. apply IH. lia.
Qed.

Lemma factory_full_spec_l {E} x64 k shape d (fill : E) :
  factory_full x64 k shape d fill =
  Ok (mkS k (repeat (VArr (mkArr shape (mkTy (canon x64 d) false) (repeat fill (prod shape)))) (arity k))).
Proof. destruct k; reflexivity. Qed.

Lemma factory_random_spec_l x64 ds k shape d : dist_ok ds (canon x64 d) = true ->
  factory_random x64 ds k shape d = Ok (mkS k (map (fun j => (shape, canon x64 d, j)) (seq 0 (arity k)))).
Proof.
  intros H. destruct k; cbv - [dist_ok canon]; rewrite !H; reflexivity.
Qed.
Lemma factory_random_rejects_l x64 ds k shape d : dist_ok ds (canon x64 d) = false ->
  factory_random x64 ds k shape d = Err ValueError.
Proof.
  intros H. destruct k; cbv - [dist_ok canon]; rewrite !H; reflexivity.
Qed.

(* ---------------------------------------------------------------------------------------------- *)
(* from_stokes / from_iquv                                                                          *)
Section FromL.
  Variable A : Type.
  Variable P : list A -> res (list A).
  Hypothesis P_length : forall l l', P l = Ok l' -> List.length l' = List.length l.

  Lemma from_stokes_positional_l args s :
    from_stokes P args [] = Ok s <->
    exists a', P args = Ok a' /\ kind_of_arity (List.length args) = Some (sk s) /\ comps s = a'.
  Proof.
    unfold from_stokes. destruct args as [|x t].
    - cbn [rbind]. destruct (P []) as [a'| |e] eqn:E; cbn [rbind].
      + rewrite (P_length _ _ E). cbn. split; [discriminate|]. intros (? & ? & H & _). discriminate.
      + split; [discriminate|]. intros (? & H & _). discriminate.
      + split; [discriminate|]. intros (? & H & _). discriminate.
    - cbn [rbind]. destruct (P (x :: t)) as [a'| |e] eqn:E; cbn [rbind].
      + rewrite (P_length _ _ E). destruct (kind_of_arity (List.length (x :: t))) as [k|] eqn:Ek.
        * split.
          -- intros H; inversion H; subst; cbn. eauto.
          -- intros (a'' & H1 & H2 & H3). inversion H1; subst. inversion H2; subst.
             destruct s; reflexivity.
        * split; [discriminate|]. intros (? & _ & H & _). discriminate.
      + split; [discriminate|]. intros (? & H & _). discriminate.
      + split; [discriminate|]. intros (? & H & _). discriminate.
  Qed.

  Lemma kind_of_arity_spec n k : kind_of_arity n = Some k <-> (arity k = n /\ 1 <= n <= 4).
  Proof.
    split.
    - destruct n as [|[|[|[|[|n]]]]]; cbn; intros H; inversion H; subst; cbn; lia.
    - intros [H1 H2]. destruct k; cbn in H1; subst; reflexivity.
  Qed.

  Lemma from_stokes_arity_l args s : from_stokes P args [] = Ok s ->
    wf s /\ arity (sk s) = List.length args /\ 1 <= List.length args <= 4 /\ P args = Ok (comps s).
  Proof.
    intros H. apply from_stokes_positional_l in H as (a' & H1 & H2 & H3). subst a'.
    apply kind_of_arity_spec in H2 as [H2 H4]. unfold wf. rewrite (P_length _ _ H1). auto.
  Qed.
  Lemma from_stokes_too_many_l args s : 4 < List.length args -> from_stokes P args [] <> Ok s.
  Proof. intros H E. apply from_stokes_arity_l in E. lia. Qed.
  Lemma from_stokes_both_l x args k kw : from_stokes P (x :: args) (k :: kw) = Err TypeError.
  Proof. reflexivity. Qed.
  Lemma from_stokes_bad_keywords_l k kw :
    name_kind (String.concat "" (sort_str (map fst (k :: kw)))) = None ->
    from_stokes P [] (k :: kw) = Err TypeError.
  Proof. intros H. unfold from_stokes. rewrite H. reflexivity. Qed.
  Lemma from_stokes_keywords_l k kw name kd chosen :
    String.concat "" (sort_str (map fst (k :: kw))) = name -> name_kind name = Some kd ->
    lookups (chars name) (k :: kw) = Ok chosen ->
    from_stokes P [] (k :: kw) = from_stokes P chosen [] \/ chosen = [].
  Proof.
    intros H1 H2 H3. unfold from_stokes. rewrite H1, H2, H3. cbn [rbind].
    destruct chosen; [right; reflexivity | left; reflexivity].
  Qed.

  Lemma from_iquv_spec_l k i q u v :
    from_iquv P k i q u v =
    match k with
    | SI => Ok (mkS SI [i])
    | SQU => rmap (mkS SQU) (P [q; u])
    | SIQU => rmap (mkS SIQU) (P [i; q; u])
    | SIQUV => rmap (mkS SIQUV) (P [i; q; u; v])
    end.
  Proof. destruct k; reflexivity. Qed.
End FromL.

Lemma from_stokes_nothing_fixed_l {E} x64 :
  from_stokes (@promote_list E true x64) [] [] = Err TypeError.
Proof. reflexivity. Qed.
Lemma from_stokes_nothing_pinned_l {E} x64 :
  from_stokes (@promote_list E false x64) [] [] = Err ValueError.
Proof. reflexivity. Qed.

(* ---------------------------------------------------------------------------------------------- *)
(* the promotion lattice (finite: decided by computation over all nodes)                            *)

Lemma nle_refl_l a : nle a a = true.
Proof. destruct a; reflexivity. Qed.
Lemma nle_antisym_l a b : nle a b = true -> nle b a = true -> a = b.
Proof. destruct a, b; vm_compute; intros H1 H2; try reflexivity; discriminate. Qed.
Lemma nle_trans_l a b c : nle a b = true -> nle b c = true -> nle a c = true.
Proof. destruct a, b, c; vm_compute; intros H1 H2; try reflexivity; discriminate. Qed.
Lemma join_ub_l a b : nle a (join a b) = true /\ nle b (join a b) = true.
Proof. destruct a, b; vm_compute; auto. Qed.
Lemma join_least_l a b c : nle a c = true -> nle b c = true -> nle (join a b) c = true.
Proof. destruct a, b, c; vm_compute; intros H1 H2; try reflexivity; discriminate. Qed.
Lemma join_comm_l a b : join a b = join b a.
Proof. destruct a, b; reflexivity. Qed.
Lemma join_assoc_l a b c : join a (join b c) = join (join a b) c.
Proof. destruct a, b, c; reflexivity. Qed.
Lemma join_idem_l a : join a a = a.
Proof. destruct a; reflexivity. Qed.
Lemma edges_sound_l a b : In b (edges a) -> nle a b = true /\ a <> b.
Proof. destruct a; cbn; intros H; repeat (destruct H as [H|H]; [subst; split; [reflexivity|discriminate]|]); contradiction. Qed.

(* n-ary: the result node is an upper bound of every argument and the least one *)
Lemma join_all_ub_l : forall l n, nle n (join_all n l) = true /\ forall m, In m l -> nle m (join_all n l) = true.
Proof.
  unfold join_all. induction l as [|x t IH]; intros n; cbn.
  - split; [apply nle_refl_l | contradiction].
  - destruct (IH (join n x)) as [H1 H2]. destruct (join_ub_l n x) as [Hn Hx]. split.
    + exact (nle_trans_l _ _ _ Hn H1).
    + intros m [Hm|Hm]; [subst m; exact (nle_trans_l _ _ _ Hx H1) | exact (H2 m Hm)].
Qed.
Lemma join_all_least_l : forall l n c, nle n c = true -> (forall m, In m l -> nle m c = true) ->
  nle (join_all n l) c = true.
Proof.
  unfold join_all. induction l as [|x t IH]; intros n c Hn Hl; cbn; [assumption|].
  apply IH; [apply join_least_l; auto; apply Hl; now left | intros m Hm; apply Hl; now right].
Qed.
Lemma canon_idem_l x64 d : canon x64 (canon x64 d) = canon x64 d.
Proof. destruct x64, d; reflexivity. Qed.

(* ---------------------------------------------------------------------------------------------- *)
(* pytree helpers                                                                                   *)

Lemma pmapM_ok {A B} (f : A -> res B) : forall t t', pmapM f t = Ok t' ->
  shape_of t' = shape_of t /\ Forall2 (fun x y => f x = Ok y) (flatten t) (flatten t').
Proof.
  induction t as [a|k cs IH] using pt_ind'; intros t' H.
  - cbn in H. destruct (f a) as [b| |e] eqn:E; cbn in H; inversion H; subst. cbn. split; auto.
  - cbn [pmapM] in H. destruct (mapM (pmapM f) cs) as [cs'| |e] eqn:E; cbn in H; inversion H; subst.
    apply mapM_ok in E. unfold shape_of. cbn [pmap flatten].
    assert (G : map (pmap (fun _ : B => tt)) cs' = map (pmap (fun _ : A => tt)) cs /\
                Forall2 (fun x y => f x = Ok y) (flat_map flatten cs) (flat_map flatten cs')).
    { clear H. induction E as [|x y l r Hxy _ IHE]; cbn; [split; constructor|].
      inversion IH as [|? ? Hx Hl]; subst. destruct (Hx _ Hxy) as [S1 F1]. destruct (IHE Hl) as [S2 F2].
      unfold shape_of in S1. split; [congruence | now apply Forall2_app]. }
    destruct G as [G1 G2]. split; [congruence | assumption].
Qed.

Lemma Forall2_length' {X Y} (R : X -> Y -> Prop) l r : Forall2 R l r -> List.length l = List.length r.
Proof. induction 1; cbn; auto. Qed.

(* full_like / zeros_like / ones_like *)
Lemma full_val_spec_l {E} x64 (fill : E) x y : full_val x64 fill x = Ok y ->
  exists d, val_dt x = Some d /\
  y = VArr (mkArr (val_shape x) (mkTy (canon x64 d) false) (repeat fill (prod (val_shape x)))).
Proof. destruct x as [a|s d w|]; cbn; intros H; inversion H; subst; eauto. Qed.
Lemma full_like_spec_l {E} x64 (fill : E) t t' : full_like x64 fill t = Ok t' ->
  shape_of t' = shape_of t /\
  Forall2 (fun x y => exists d, val_dt x = Some d /\
             y = VArr (mkArr (val_shape x) (mkTy (canon x64 d) false) (repeat fill (prod (val_shape x)))))
          (flatten t) (flatten t').
Proof.
  intros H. apply pmapM_ok in H as [S F]. split; [assumption|].
  induction F; constructor; auto. now apply full_val_spec_l.
Qed.
Lemma as_structure_spec_l {E} x64 (t t' : pt (val E)) : as_structure x64 t = Ok t' ->
  shape_of t' = shape_of t /\
  Forall2 (fun x y => exists d w, val_dt x = Some d /\ y = VSds (val_shape x) (canon x64 d) w)
          (flatten t) (flatten t').
Proof.
  intros H. apply pmapM_ok in H as [S F]. split; [assumption|].
  induction F as [|x y l r Hxy _ IH]; constructor; auto.
  destruct x as [a|s d w|]; cbn in Hxy; inversion Hxy; subst; cbn; eauto.
Qed.

(* as_promoted_dtype *)
Lemma cast_val_spec_l {E} r (x y : val E) : cast_val r x = Ok y ->
  val_shape y = val_shape x /\ val_dt y = Some (tdt r) /\ val_ty y = Some (mkTy (tdt r) false) /\
  match x, y with
  | VArr a, VArr b => adata b = adata a
  | VSds _ _ _, VSds _ _ _ => True
  | _, _ => False
  end.
Proof. destruct x as [a|s d w|]; cbn; intros H; inversion H; subst; cbn; auto. Qed.

Lemma all_some_map {X Y} (f : X -> option Y) : forall l tys, all_some (map f l) = Some tys ->
  Forall2 (fun x t => f x = Some t) l tys.
Proof.
  induction l as [|x l IH]; intros tys H; cbn in H.
  - inversion H; constructor.
  - destruct (f x) as [t|] eqn:E; [|discriminate].
    destruct (all_some (map f l)) as [ts|] eqn:El; cbn in H; inversion H; subst.
    constructor; auto.
Qed.

Lemma promoted_spec_l {E} eo x64 (t t' : pt (val E)) : flatten t <> [] ->
  as_promoted_dtype eo x64 t = Ok t' ->
  exists tys r,
    Forall2 (fun x ty_ => val_ty x = Some ty_) (flatten t) tys /\
    result_ty x64 tys = Some r /\
    shape_of t' = shape_of t /\
    Forall2 (fun x y => val_shape y = val_shape x /\ val_dt y = Some (tdt r)) (flatten t) (flatten t').
Proof.
  intros Hne H. unfold as_promoted_dtype in H.
  destruct (all_some (map val_ty (flatten t))) as [tys|] eqn:Ea; [|discriminate].
  apply all_some_map in Ea.
  destruct (result_ty x64 tys) as [r|] eqn:Er.
  - exists tys, r. apply pmapM_ok in H as [S F].
    assert (G : Forall2 (fun x y => val_shape y = val_shape x /\ val_dt y = Some (tdt r)) (flatten t) (flatten t')).
    { clear - F. induction F as [|x y l l' Hxy _ IH]; constructor; auto.
      apply cast_val_spec_l in Hxy as (H1 & H2 & _). auto. }
    auto.
  - exfalso. unfold result_ty in Er. destruct tys; [|discriminate]. inversion Ea as [E0|]; subst.
    apply Hne. congruence.
Qed.

(* the promoted type is the least upper bound of the leaf types in the lattice *)
Lemma result_ty_lub_l x64 t ts r : result_ty x64 (t :: ts) = Some r ->
  exists n, r = node_ty x64 n /\
    (forall u, In u (t :: ts) -> nle (node_of u) n = true) /\
    (forall c, (forall u, In u (t :: ts) -> nle (node_of u) c = true) -> nle n c = true).
Proof.
  cbn. intros H; inversion H; subst. eexists; split; [reflexivity|]. split.
  - intros u [Hu|Hu].
    + subst u. exact (proj1 (join_all_ub_l (map node_of ts) (node_of t))).
    + apply (proj2 (join_all_ub_l (map node_of ts) (node_of t))). now apply in_map.
  - intros c Hc. apply join_all_least_l; [apply Hc; now left|].
    intros m Hm. apply in_map_iff in Hm as (u & <- & Hu). apply Hc. now right.
Qed.

Lemma promoted_empty_fixed_l {E} x64 (t : pt (val E)) : flatten t = [] ->
  as_promoted_dtype true x64 t = Ok t.
Proof. intros H. unfold as_promoted_dtype. rewrite H. reflexivity. Qed.
Lemma promoted_empty_pinned_l {E} x64 (t : pt (val E)) : flatten t = [] ->
  as_promoted_dtype false x64 t = Err ValueError.
Proof. intros H. unfold as_promoted_dtype. rewrite H. reflexivity. Qed.

Lemma is_leaf_spec_l {A} (t : pt A) :
  is_leaf t = true <-> (exists a, t = Leaf a) \/ (exists k, t = Node k []).
Proof.
  destruct t as [a|k [|c cs]]; cbn; split; intros H; eauto; try discriminate.
  destruct H as [[a H]|[k' H]]; discriminate.
Qed.

(* ---------------------------------------------------------------------------------------------- *)
(* dot: Hermitian sum over a commutative ring with an involution                                    *)
Require Import Ring.
Section DotL.
  Variable K : Type.
  Variables (zero one : K) (add mul sub : K -> K -> K) (opp : K -> K) (conj : K -> K).
  Hypothesis Rth : ring_theory zero one add mul sub opp (@eq K).
  Hypothesis conj_add : forall a b, conj (add a b) = add (conj a) (conj b).
  Hypothesis conj_mul : forall a b, conj (mul a b) = mul (conj a) (conj b).
  Hypothesis conj_inv : forall a, conj (conj a) = a.
  Add Ring Kr : Rth.
  Notation vd := (vdot K zero add mul conj).

  Lemma conj_zero : conj zero = zero.
  Proof.
    assert (H : add (conj zero) (conj zero) = conj zero) by (rewrite <- conj_add; f_equal; ring).
    transitivity (sub (add (conj zero) (conj zero)) (conj zero)); [ring | rewrite H; ring].
  Qed.

  (* vdot is the sum of conj(x_i) * y_i *)
  Lemma vdot_cons a x b y : vd (a :: x) (b :: y) = add (mul (conj a) b) (vd x y).
  Proof. reflexivity. Qed.
  Lemma vdot_add_r : forall x y y', List.length y = List.length y' ->
    vd x (zip_with add y y') = add (vd x y) (vd x y').
  Proof.
    induction x as [|a x IH]; intros [|b y] [|b' y'] H; cbn in *; try discriminate; try ring.
    rewrite IH by lia. ring.
  Qed.
  Lemma vdot_add_l : forall x x' y, List.length x = List.length x' ->
    vd (zip_with add x x') y = add (vd x y) (vd x' y).
  Proof.
    induction x as [|a x IH]; intros [|a' x'] [|b y] H; cbn in *; try discriminate; try ring.
    rewrite IH by lia. rewrite conj_add. ring.
  Qed.
  Lemma vdot_scale_r c : forall x y, vd x (map (mul c) y) = mul c (vd x y).
  Proof. induction x as [|a x IH]; intros [|b y]; cbn; try ring. rewrite IH. ring. Qed.
  (* conjugate-linear in the FIRST argument *)
  Lemma vdot_scale_l c : forall x y, vd (map (mul c) x) y = mul (conj c) (vd x y).
  Proof. induction x as [|a x IH]; intros [|b y]; cbn; try ring. rewrite IH, conj_mul. ring. Qed.
  Lemma vdot_hermitian : forall x y, vd y x = conj (vd x y).
  Proof.
    induction x as [|a x IH]; intros [|b y]; cbn; try (symmetry; apply conj_zero).
    rewrite IH, conj_add, conj_mul, conj_inv. ring.
  Qed.

  (* the tree level: same structure, leaf-wise vdot, summed from 0 in leaf order *)
  Notation vl := (vdot_leaf K zero add mul conj).
  Lemma pmap2M_flat {A B C} (f : A -> B -> res C) : forall x y t, pmap2M f x y = Ok t ->
    shape_of x = shape_of y /\ shape_of t = shape_of x /\
    Forall3 (fun a b c => f a b = Ok c) (flatten x) (flatten y) (flatten t).
  Proof.
    induction x as [a|k cs IH] using pt_ind'; intros [b|k' ds] t H; cbn [pmap2M] in H; try discriminate.
    - destruct (f a b) as [c| |e] eqn:E; cbn in H; inversion H; subst. cbn. repeat split. constructor; auto. constructor.
    - destruct (ckind_eqb k k') eqn:Ek; [|discriminate]. apply ckind_eqb_eq in Ek; subst k'.
      match type of H with rmap _ ?G = _ => destruct G as [cs'| |e] eqn:E end; cbn in H; inversion H; subst.
      unfold shape_of. cbn [pmap flatten].
      assert (G : map (pmap (fun _ : A => tt)) cs = map (pmap (fun _ : B => tt)) ds /\
                  map (pmap (fun _ : C => tt)) cs' = map (pmap (fun _ : A => tt)) cs /\
                  Forall3 (fun a b c => f a b = Ok c) (flat_map flatten cs) (flat_map flatten ds) (flat_map flatten cs')).
      { clear H. revert ds cs' E. induction IH as [|x l Hx _ IHl]; intros [|d ds] cs' E; try discriminate.
        - inversion E; subst. cbn. repeat split; constructor.
        - destruct (pmap2M f x d) as [c| |e] eqn:Ec; cbn in E; try discriminate.
          match type of E with rmap _ ?G = _ => destruct G as [r| |e] eqn:Er end; cbn in E; inversion E; subst.
          destruct (Hx _ _ Ec) as (S1 & S2 & F1). destruct (IHl _ _ Er) as (T1 & T2 & F2).
          unfold shape_of in *. cbn. repeat split; try congruence.
          clear - F1 F2. induction F1; cbn; [assumption | constructor; auto]. }
      destruct G as (G1 & G2 & G3). repeat split; congruence || assumption.
  Qed.

  Fixpoint sum_vdots (xs ys : list (list K)) : K :=
    match xs, ys with
    | x :: xs', y :: ys' => add (vd x y) (sum_vdots xs' ys')
    | _, _ => zero
    end.
  Lemma sum_from_shift : forall l z, sum_from K add z l = add z (sum_from K add zero l).
  Proof.
    unfold sum_from. induction l as [|a l IH]; intros z; cbn; [ring|].
    rewrite (IH (add z a)), (IH (add zero a)). ring.
  Qed.
  Lemma dot_hermitian_sum_l x y v : tree_dot K zero add mul conj x y = Ok v ->
    shape_of x = shape_of y /\
    Forall2 (fun a b => List.length a = List.length b) (flatten x) (flatten y) /\
    v = sum_vdots (flatten x) (flatten y).
  Proof.
    unfold tree_dot. destruct (pmap2M vl x y) as [t| |e] eqn:E; cbn; intros H; inversion H; subst; clear H.
    apply pmap2M_flat in E as (S1 & _ & F). split; [assumption|].
    induction F as [|a b c l m n Habc _ [IH1 IH2]]; cbn.
    - split; [constructor | reflexivity].
    - unfold vdot_leaf in Habc. destruct (Nat.eqb (List.length a) (List.length b)) eqn:El; inversion Habc; subst.
      apply Nat.eqb_eq in El. split; [constructor; assumption|].
      unfold sum_from in *. cbn. fold (sum_from K add (add zero (vd a b)) n).
      rewrite sum_from_shift. unfold sum_from. rewrite IH2. ring.
  Qed.
End DotL.

(* the Gaussian integers are such a ring (the instance the correspondence runs) *)
Lemma gz_ring_l : ring_theory gz0 gz1 gz_add gz_mul gz_sub gz_opp (@eq gz).
Proof.
  constructor; intros; unfold gz0, gz1, gz_sub, gz_add, gz_mul, gz_opp;
    repeat match goal with x : gz |- _ => destruct x end; cbn [fst snd]; f_equal; try ring.
Qed.
Lemma gz_conj_add_l a b : gz_conj (gz_add a b) = gz_add (gz_conj a) (gz_conj b).
Proof. destruct a, b; unfold gz_conj, gz_add; cbn [fst snd]; f_equal; ring. Qed.
Lemma gz_conj_mul_l a b : gz_conj (gz_mul a b) = gz_mul (gz_conj a) (gz_conj b).
Proof. destruct a, b; unfold gz_conj, gz_mul; cbn [fst snd]; f_equal; ring. Qed.
Lemma gz_conj_inv_l a : gz_conj (gz_conj a) = a.
Proof. destruct a; unfold gz_conj; cbn [fst snd]; f_equal; ring. Qed.
