(* C05 - proofs: declared structures are honest (values: tree and leaf sizes; abstract evaluation:
   tree, leaf shapes and dtypes), definedness inside well-formed composites, structures of
   transposes / inverses / reduced operators, sizes, promoted dtypes. *)
From Coq Require Import List Bool Arith ZArith NArith QArith String Lia.
From Furax Require Import Base.Pytree Model.Op Model.Algebra Model.Denote Model.Wf Model.Structs
  Lemmas.DenoteL Lemmas.BuildL Lemmas.Sound.
From Furax Require Model.StokesTree Lemmas.StokesTreeL.
Import ListNotations.
Local Close Scope Q_scope.
Local Open Scope nat_scope.

(* ---------- lists ---------- *)
Lemma Forall2_app_split A B (R : A -> B -> Prop) : forall a a' b b',
  List.length a = List.length a' -> Forall2 R (a ++ b) (a' ++ b') -> Forall2 R a a' /\ Forall2 R b b'.
Proof.
  induction a as [|x a IH]; intros [|x' a'] b b' Hl H; cbn in *; try discriminate.
  - split; [constructor|exact H].
  - inversion H; subst. destruct (IH a' b b' ltac:(lia) H5) as [H1 H2]. split; [constructor; auto|auto].
Qed.
Lemma Forall2_length' A B (R : A -> B -> Prop) l l' : Forall2 R l l' -> List.length l = List.length l'.
Proof. induction 1; cbn; congruence. Qed.
Lemma Forall2_map_r A B C (R : A -> C -> Prop) (f : B -> C) l l' :
  Forall2 (fun a b => R a (f b)) l l' <-> Forall2 R l (map f l').
Proof.
  split.
  - induction 1; cbn; constructor; auto.
  - revert l. induction l' as [|b l' IH]; intros l H; inversion H; subst; constructor; auto.
Qed.
Lemma all_eqb_spec (ss : list struct) s r : ss = s :: r -> all_eqb ss = true -> forall t, In t ss -> t = s.
Proof.
  intros -> H t [<-|Hin]; [reflexivity|]. cbn in H. rewrite forallb_forall in H.
  symmetry. apply struct_eqb_eq. now apply H.
Qed.

Section StructsL.
  Variable K : Type.
  Notation op := (op K).
  Notation value := (value K).
  Notation V := (fun (a : value) (b : struct) => vhas a b = true).

  (* ---------- `vhas` on nodes ---------- *)
  Lemma vhas_node k cs k' ss :
    vhas (Node k cs : value) (Node k' ss) = true <-> k = k' /\ Forall2 V cs ss.
  Proof.
    cbn [vhas]. rewrite andb_true_iff. split.
    - intros [Hk H]. apply ckind_eqb_eq in Hk. split; [exact Hk|]. clear Hk.
      revert ss H. induction cs as [|c cs IH]; intros [|s ss] H; try discriminate; [constructor|].
      apply andb_true_iff in H as [H1 H2]. constructor; auto.
    - intros [-> H]. split; [apply ckind_eqb_refl|].
      induction H as [|c s cs ss H1 _ IH]; [reflexivity|]. now rewrite H1, IH.
  Qed.
  Lemma vhas_leaf_node d k ss : vhas (Leaf d : value) (Node k ss) = false.
  Proof. reflexivity. Qed.
  Lemma vhas_node_leaf k cs sd : vhas (Node k cs : value) (Leaf sd) = false.
  Proof. reflexivity. Qed.

  (* the subtrees of a value at the leaves of a prefix of its structure have the sub-structures *)
  Lemma vhas_split : forall td (x : value) s ss, split_prefix td s = Some ss -> vhas x s = true ->
    exists xs, split_prefix td x = Some xs /\ Forall2 V xs ss.
  Proof.
    induction td as [u|k cs IH] using pt_ind'; intros x s ss Hs Hx.
    - cbn in Hs. inversion Hs; subst. exists [x]. split; [reflexivity|constructor; [exact Hx|constructor]].
    - cbn [split_prefix] in Hs. destruct s as [sd|k' ss0]; [discriminate|].
      destruct (ckind_eqb k k') eqn:Ek; [|discriminate]. apply ckind_eqb_eq in Ek; subst k'.
      destruct x as [d|k'' cs0]; [discriminate|]. apply vhas_node in Hx as [-> HF].
      cbn [split_prefix]. rewrite ckind_eqb_refl.
      revert ss0 ss cs0 Hs HF. induction IH as [|c cs' Hc _ IHl]; intros ss0 ss cs0 Hs HF.
      + destruct ss0; [|discriminate]. cbn in Hs. inversion Hs; subst. inversion HF; subst.
        exists []. split; [reflexivity|constructor].
      + destruct ss0 as [|s0 ss1]; [discriminate|]. cbn [split_list] in Hs.
        destruct (split_prefix c s0) as [a|] eqn:Ea; [|discriminate].
        destruct (split_list (@split_prefix sds) cs' ss1) as [b|] eqn:Eb; [|discriminate].
        inversion Hs; subst ss. inversion HF as [|x0 ? xs1 ? Hx0 Hxs]; subst.
        destruct (Hc _ _ _ Ea Hx0) as (xa & Hxa & HFa).
        destruct (IHl _ _ _ Eb Hxs) as (xb & Hxb & HFb).
        exists (xa ++ xb). cbn [split_list]. rewrite Hxa, Hxb. split; [reflexivity|]. now apply Forall2_app.
  Qed.

  (* conversely: two trees with a common prefix whose pieces match *)
  Lemma vhas_join : forall td (y : value) s ys ss, split_prefix td y = Some ys -> split_prefix td s = Some ss ->
    Forall2 V ys ss -> vhas y s = true.
  Proof.
    induction td as [u|k cs IH] using pt_ind'; intros y s ys ss Hy Hs HF.
    - cbn in Hy, Hs. inversion Hy; inversion Hs; subst. now inversion HF.
    - cbn [split_prefix] in Hy, Hs. destruct y as [d|k1 ycs]; [discriminate|]. destruct s as [sd|k2 scs]; [discriminate|].
      destruct (ckind_eqb k k1) eqn:E1; [|discriminate]. destruct (ckind_eqb k k2) eqn:E2; [|discriminate].
      apply ckind_eqb_eq in E1, E2. subst k1 k2. apply vhas_node. split; [reflexivity|].
      revert ycs scs ys ss Hy Hs HF. induction IH as [|c cs' Hc _ IHl]; intros ycs scs ys ss Hy Hs HF.
      + destruct ycs; [|discriminate]. destruct scs; [|discriminate]. constructor.
      + destruct ycs as [|yc ycr]; [discriminate|]. destruct scs as [|sc scr]; [discriminate|].
        cbn [split_list] in Hy, Hs.
        destruct (split_prefix c yc) as [a|] eqn:Ea; [|discriminate].
        destruct (split_list (@split_prefix (list K)) cs' ycr) as [b|] eqn:Eb; [|discriminate].
        destruct (split_prefix c sc) as [a'|] eqn:Ea'; [|discriminate].
        destruct (split_list (@split_prefix sds) cs' scr) as [b'|] eqn:Eb'; [|discriminate].
        inversion Hy; inversion Hs; subst ys ss.
        apply Forall2_app_split in HF as [H1 H2];
          [|rewrite (split_length _ _ Ea), (split_length _ _ Ea'); reflexivity].
        constructor; [eapply Hc; eauto|eapply IHl; eauto].
  Qed.

  Lemma vhas_build td (dv : value) ds ys ss : List.length ys = nleaves td -> List.length ss = nleaves td ->
    Forall2 V ys ss -> vhas (build dv td ys) (build ds td ss) = true.
  Proof.
    intros Hy Hs HF. eapply vhas_join; [apply split_build; exact Hy|apply split_build; exact Hs|exact HF].
  Qed.

  (* ---------- scaling, adding, summing values of one structure ---------- *)
  Variables (kadd kmul : K -> K -> K).
  Notation vscale := (vscale kmul).
  Notation vadd := (vadd kadd).
  Notation vsum := (vsum kadd).

  Lemma vhas_vscale k : forall (x : value) s, vhas (vscale k x) s = vhas x s.
  Proof.
    unfold Denote.vscale. induction x as [d|kd cs IH] using pt_ind'; intros [sd|k' ss]; cbn; try reflexivity.
    - now rewrite map_length.
    - f_equal. revert ss. induction IH as [|c r Hc _ IHr]; intros [|s ss]; cbn; try reflexivity.
      now rewrite Hc, IHr.
  Qed.

  Lemma vadd_has : forall (a b : value) s, vhas a s = true -> vhas b s = true ->
    exists c, vadd a b = Some c /\ vhas c s = true.
  Proof.
    induction a as [u|kd cs IH] using pt_ind'; intros b s Ha Hb.
    - destruct s as [sd|? ?]; [|discriminate]. destruct b as [v|? ?]; [|discriminate].
      cbn in Ha, Hb. apply Nat.eqb_eq in Ha, Hb. cbn [Denote.vadd].
      rewrite (proj2 (Nat.eqb_eq _ _) (eq_trans Ha (eq_sym Hb))).
      eexists. split; [reflexivity|]. cbn. rewrite map_length, combine_length, Ha, Hb, Nat.min_id. apply Nat.eqb_refl.
    - destruct s as [?|ks ss]; [discriminate|]. destruct b as [?|kb cb]; [discriminate|].
      apply vhas_node in Ha as [-> HFa]. apply vhas_node in Hb as [-> HFb].
      cbn [Denote.vadd]. rewrite ckind_eqb_refl.
      assert (Hl : exists lc,
        (fix go (l l' : list value) : option (list value) :=
           match l, l' with
           | [], [] => Some []
           | x :: xs, y :: ys =>
               match Denote.vadd kadd x y, go xs ys with
               | Some z, Some zs => Some (z :: zs)
               | _, _ => None
               end
           | _, _ => None
           end) cs cb = Some lc /\ Forall2 V lc ss).
      { revert cb ss HFa HFb. induction IH as [|c r Hc _ IHr]; intros cb ss HFa HFb.
        - inversion HFa; subst. inversion HFb; subst. exists []. split; [reflexivity|constructor].
        - inversion HFa as [|? s0 ? ss0 H1 H2]; subst. inversion HFb as [|b0 ? cb0 ? H3 H4]; subst.
          destruct (Hc _ _ H1 H3) as (z & Hz & Hzs). destruct (IHr _ _ H2 H4) as (zs & Hzs1 & Hzs2).
          exists (z :: zs). rewrite Hz, Hzs1. split; [reflexivity|constructor; auto]. }
      destruct Hl as (lc & Hl1 & Hl2). rewrite Hl1. cbn. eexists. split; [reflexivity|].
      apply vhas_node. auto.
  Qed.

  Lemma vsum_has : forall ys s, ys <> [] -> Forall (fun y => vhas y s = true) ys ->
    exists c, vsum ys = Some c /\ vhas c s = true.
  Proof.
    intros [|y r] s Hne HF; [congruence|]. inversion HF as [|? ? Hy Hr]; subst. cbn [Denote.vsum].
    clear Hne HF. revert y Hy. induction r as [|z r IH]; intros y Hy; cbn [fold_left].
    - exists y. auto.
    - inversion Hr as [|? ? Hz Hr']; subst. destruct (vadd_has y z s Hy Hz) as (c & Hc & Hcs).
      cbn [obind]. rewrite Hc. apply IH; auto.
  Qed.

  (* ---------- the theorem on values ---------- *)
  Variable leafsem : op -> value -> option value.
  Notation denote := (denote kadd kmul leafsem).
  Notation chain := (chain kadd kmul leafsem).
  Notation denote_list := (denote_list kadd kmul leafsem).

  (* the leaf facts: a leaf operator applied to a value of its declared input structure returns a
     value of its declared output structure / returns something *)
  Definition leaf_honest (e : op) : Prop :=
    forall x y, vhas x (in_struct e) = true -> leafsem e x = Some y -> vhas y (out_struct e) = true.
  Definition leaf_defined (e : op) : Prop :=
    forall x, vhas x (in_struct e) = true -> exists y, leafsem e x = Some y.
  Definition honest_at (e : op) : Prop :=
    forall x, vhas x (in_struct e) = true ->
      (forall y, denote e x = Some y -> vhas y (out_struct e) = true) /\
      (Forall leaf_defined (leaves e) -> exists y, denote e x = Some y).

  Lemma allwf_Forall l : allwf K l = true <-> Forall (fun e : op => wfo e = true) l.
  Proof.
    induction l as [|a l IH]; cbn; [split; [constructor|reflexivity]|].
    rewrite andb_true_iff, IH. split; [intros [? ?]; constructor; auto|intros H; inversion H; auto].
  Qed.
  Lemma wfo_add i (l : list op) : wfo (AddOp i l) = negb (Nat.eqb (List.length l) 0) && sum_ok l && allwf K l.
  Proof. reflexivity. Qed.
  Lemma wfo_block i b td (l : list op) :
    wfo (Block i b td l) =
    negb (Nat.eqb (List.length l) 0) && Nat.eqb (List.length l) (nleaves td) &&
    match b with
    | BRow => all_eqb (map (@out_struct K) l)
    | BCol => all_eqb (map (@in_struct K) l)
    | BDiag => true
    end && allwf K l.
  Proof. reflexivity. Qed.

  Lemma chain_honest : forall (l : list op) d, l <> [] -> chain_ok l = true -> Forall honest_at l ->
    forall x, vhas x (in_struct (last l d)) = true ->
    (forall y, chain l x = Some y -> vhas y (out_struct (hd d l)) = true) /\
    (Forall leaf_defined (flat_map (@leaves K) l) -> exists y, chain l x = Some y).
  Proof.
    induction l as [|a l IH]; intros d Hne Hc HF x Hx; [congruence|].
    inversion HF as [|? ? Ha Hl]; subst. destruct l as [|b r].
    - cbn [last hd] in *. destruct (Ha x Hx) as [H1 H2]. split.
      + intros y Hy. apply H1. exact Hy.
      + intros HD. cbn [flat_map] in HD. rewrite app_nil_r in HD. destruct (H2 HD) as (y & Hy). exists y. exact Hy.
    - change (chain_ok (a :: b :: r)) with (struct_eqb (in_struct a) (out_struct b) && chain_ok (b :: r)) in Hc.
      apply andb_true_iff in Hc as [Hab Hc]. apply struct_eqb_eq in Hab.
      change (last (a :: b :: r) d) with (last (b :: r) d) in Hx.
      destruct (IH d ltac:(discriminate) Hc Hl x Hx) as [I1 I2]. cbn [hd] in *.
      split.
      + intros y Hy. rewrite chain_cons in Hy. destruct (chain (b :: r) x) as [y1|] eqn:E; [|discriminate].
        cbn [obind] in Hy. specialize (I1 _ eq_refl). rewrite <- Hab in I1.
        destruct (Ha y1 I1) as [H1 _]. now apply H1.
      + intros HD. cbn [flat_map] in HD. apply Forall_app in HD as [HDa HDl].
        destruct (I2 HDl) as (y1 & Hy1). rewrite chain_cons, Hy1. cbn [obind].
        pose proof (I1 _ Hy1) as I1'. rewrite <- Hab in I1'. destruct (Ha y1 I1') as [_ H2]. now apply H2.
  Qed.

  (* every operator applied to ONE input of the common input structure *)
  Lemma omapl_honest sin : forall (l : list op),
    Forall (fun e => honest_at e /\ in_struct e = sin) l ->
    forall x, vhas x sin = true ->
    (forall ys, omapl (fun e => denote e x) l = Some ys -> Forall2 V ys (map (@out_struct K) l)) /\
    (Forall leaf_defined (flat_map (@leaves K) l) -> exists ys, omapl (fun e => denote e x) l = Some ys).
  Proof.
    induction l as [|a l IH]; intros HF x Hx.
    - split; [intros ys H; inversion H; constructor|intros _; exists []; reflexivity].
    - inversion HF as [|? ? [Ha Hin] Hl]; subst. destruct (IH Hl x Hx) as [I1 I2].
      destruct (Ha x Hx) as [H1 H2]. split.
      + intros ys H. cbn [omapl] in H. destruct (denote a x) as [y|] eqn:Ey; [|discriminate].
        destruct (omapl _ l) as [ys'|] eqn:El; [|discriminate]. inversion H; subst. cbn [map].
        constructor; [now apply H1|now apply I1].
      + intros HD. cbn [flat_map] in HD. apply Forall_app in HD as [HDa HDl].
        destruct (H2 HDa) as (y & Hy). destruct (I2 HDl) as (ys & Hys). exists (y :: ys).
        cbn [omapl]. now rewrite Hy, Hys.
  Qed.

  (* operator i applied to input i *)
  Lemma omap2_honest : forall (l : list op), Forall honest_at l ->
    forall xs, Forall2 V xs (map (@in_struct K) l) ->
    (forall ys, denote_list l xs = Some ys -> Forall2 V ys (map (@out_struct K) l)) /\
    (Forall leaf_defined (flat_map (@leaves K) l) -> exists ys, denote_list l xs = Some ys).
  Proof.
    unfold DenoteL.denote_list.
    induction l as [|a l IH]; intros HF xs Hxs.
    - inversion Hxs; subst. split; [intros ys H; inversion H; constructor|intros _; exists []; reflexivity].
    - inversion HF as [|? ? Ha Hl]; subst. cbn [map] in Hxs. inversion Hxs as [|x ? xr ? Hx Hxr]; subst.
      destruct (IH Hl xr Hxr) as [I1 I2]. destruct (Ha x Hx) as [H1 H2]. split.
      + intros ys H. cbn [omap2] in H. destruct (denote a x) as [y|] eqn:Ey; [|discriminate].
        destruct (omap2 _ l xr) as [ys'|] eqn:El; [|discriminate]. inversion H; subst. cbn [map].
        constructor; [now apply H1|now apply I1].
      + intros HD. cbn [flat_map] in HD. apply Forall_app in HD as [HDa HDl].
        destruct (H2 HDa) as (y & Hy). destruct (I2 HDl) as (ys & Hys). exists (y :: ys).
        cbn [omap2]. now rewrite Hy, Hys.
  Qed.

  Lemma Forall2_const_r (ys : list value) (ss : list struct) s :
    Forall2 V ys ss -> (forall t, In t ss -> t = s) -> Forall (fun y => vhas y s = true) ys.
  Proof.
    induction 1 as [|y t ys ss Hy _ IH]; intros Hall; constructor.
    - rewrite <- (Hall t (or_introl eq_refl)). exact Hy.
    - apply IH. intros t' Ht'. apply Hall. now right.
  Qed.

  Lemma honest_IH (l : list op) :
    Forall (fun e => wfo e = true -> Forall leaf_honest (leaves e) -> honest_at e) l ->
    allwf K l = true -> Forall leaf_honest (flat_map (@leaves K) l) -> Forall honest_at l.
  Proof.
    intros IH Hw HL. apply allwf_Forall in Hw. apply Forall_flat_map in HL.
    induction IH as [|e l He _ IHl]; [constructor|].
    inversion Hw; subst. inversion HL; subst. constructor; auto.
  Qed.

  Theorem honest_all : forall e : op, wfo e = true -> Forall leaf_honest (leaves e) -> honest_at e.
  Proof.
    induction e as [i c si so p|i w e IH|i s|i k s|i l IH|i l IH|i b td l IH] using op_ind'; intros Hw HL.
    - (* primitive *)
      inversion HL as [|? ? H _]; subst. intros x Hx. split.
      + intros y Hy. exact (H x y Hx Hy).
      + intros HD. inversion HD as [|? ? Hd _]; subst. exact (Hd x Hx).
    - (* lazy wrapper *)
      inversion HL as [|? ? H _]; subst. intros x Hx. split.
      + intros y Hy. exact (H x y Hx Hy).
      + intros HD. inversion HD as [|? ? Hd _]; subst. exact (Hd x Hx).
    - (* identity *)
      intros x Hx. split; [intros y Hy; inversion Hy; subst; exact Hx|intros _; now exists x].
    - (* scalar *)
      intros x Hx. split.
      + intros y Hy. inversion Hy; subst. change (out_struct (Homoth i k s)) with s.
        rewrite vhas_vscale. exact Hx.
      + intros _. eexists. reflexivity.
    - (* composition *)
      rewrite wfo_comp in Hw. apply andb_true_iff in Hw as [Hw Hall]. apply andb_true_iff in Hw as [Hne Hc].
      assert (Hl : l <> []) by (destruct l; [discriminate|discriminate]).
      pose proof (honest_IH l IH Hall HL) as HF.
      intros x Hx. rewrite (in_struct_comp K i l (Ident 0%N dummy_struct) Hl) in Hx.
      destruct (chain_honest l (Ident 0%N dummy_struct) Hl Hc HF x Hx) as [H1 H2].
      rewrite (out_struct_comp K i l (Ident 0%N dummy_struct) Hl). split.
      + intros y Hy. rewrite denote_comp in Hy. now apply H1.
      + intros HD. rewrite denote_comp. now apply H2.
    - (* sum *)
      rewrite wfo_add in Hw. apply andb_true_iff in Hw as [Hw Hall]. apply andb_true_iff in Hw as [Hne Hs].
      unfold sum_ok in Hs. apply andb_true_iff in Hs as [Hsi Hso].
      destruct l as [|a r]; [discriminate|].
      pose proof (honest_IH _ IH Hall HL) as HF.
      assert (Hin : forall e, In e (a :: r) -> in_struct e = in_struct a).
      { intros e He. apply (all_eqb_spec (map (@in_struct K) (a :: r)) (in_struct a) (map (@in_struct K) r) eq_refl Hsi).
        now apply in_map. }
      assert (Hout : forall t, In t (map (@out_struct K) (a :: r)) -> t = out_struct a).
      { exact (all_eqb_spec (map (@out_struct K) (a :: r)) (out_struct a) (map (@out_struct K) r) eq_refl Hso). }
      assert (HF' : Forall (fun e => honest_at e /\ in_struct e = in_struct a) (a :: r)).
      { apply Forall_forall. intros e He. split; [exact (proj1 (Forall_forall _ _) HF e He)|now apply Hin]. }
      intros x Hx. change (in_struct (AddOp i (a :: r))) with (in_struct a) in Hx.
      change (out_struct (AddOp i (a :: r))) with (out_struct a).
      destruct (omapl_honest (in_struct a) (a :: r) HF' x Hx) as [H1 H2]. split.
      + intros y Hy. rewrite denote_add in Hy.
        destruct (omapl _ (a :: r)) as [ys|] eqn:E; [|discriminate]. cbn [obind] in Hy.
        pose proof (Forall2_const_r _ _ _ (H1 _ eq_refl) Hout) as Hys.
        assert (Hne' : ys <> []).
        { apply omapl_length in E. destruct ys; [discriminate|discriminate]. }
        destruct (vsum_has ys _ Hne' Hys) as (c & Hc & Hcs). rewrite Hc in Hy. inversion Hy; subst. exact Hcs.
      + intros HD. destruct (H2 HD) as (ys & Hys). rewrite denote_add, Hys. cbn [obind].
        pose proof (Forall2_const_r _ _ _ (H1 _ Hys) Hout) as Hys'.
        assert (Hne' : ys <> []).
        { apply omapl_length in Hys. destruct ys; [discriminate|discriminate]. }
        destruct (vsum_has ys _ Hne' Hys') as (c & Hc & _). now exists c.
    - (* block operators *)
      rewrite wfo_block in Hw. apply andb_true_iff in Hw as [Hw Hall]. apply andb_true_iff in Hw as [Hw Hkind].
      apply andb_true_iff in Hw as [Hne Hlen]. apply Nat.eqb_eq in Hlen.
      pose proof (honest_IH _ IH Hall HL) as HF.
      assert (Hl : l <> []) by (destruct l; [discriminate|discriminate]).
      assert (Hlin : List.length (map (@in_struct K) l) = nleaves td) by (now rewrite map_length).
      assert (Hlout : List.length (map (@out_struct K) l) = nleaves td) by (now rewrite map_length).
      intros x Hx. rewrite denote_block, Hlen, Nat.eqb_refl. cbn [negb].
      destruct b.
      + (* row *)
        change (in_struct (Block i BRow td l)) with (build dummy_struct td (map (@in_struct K) l)) in Hx.
        change (out_struct (Block i BRow td l)) with (hd dummy_struct (map (@out_struct K) l)).
        destruct (vhas_split td x _ _ (split_build dummy_struct td _ Hlin) Hx) as (xs & Hxs & HFx).
        rewrite Hxs. cbn [obind]. destruct (omap2_honest l HF xs HFx) as [H1 H2].
        destruct l as [|a r]; [congruence|].
        assert (Hout : forall t, In t (map (@out_struct K) (a :: r)) -> t = out_struct a).
        { exact (all_eqb_spec (map (@out_struct K) (a :: r)) (out_struct a) (map (@out_struct K) r) eq_refl Hkind). }
        cbn [map hd]. split.
        * intros y Hy. destruct (denote_list (a :: r) xs) as [ys|] eqn:E; [|discriminate]. cbn [obind] in Hy.
          pose proof (Forall2_const_r _ _ _ (H1 _ eq_refl) Hout) as Hys.
          assert (Hne' : ys <> []).
          { apply omap2_length in E as [E _]. destruct ys; [discriminate|discriminate]. }
          destruct (vsum_has ys _ Hne' Hys) as (c & Hc & Hcs). rewrite Hc in Hy. inversion Hy; subst. exact Hcs.
        * intros HD. destruct (H2 HD) as (ys & Hys). rewrite Hys. cbn [obind].
          pose proof (Forall2_const_r _ _ _ (H1 _ Hys) Hout) as Hys'.
          assert (Hne' : ys <> []).
          { apply omap2_length in Hys as [E _]. destruct ys; [discriminate|discriminate]. }
          destruct (vsum_has ys _ Hne' Hys') as (c & Hc & _). now exists c.
      + (* diagonal *)
        change (in_struct (Block i BDiag td l)) with (build dummy_struct td (map (@in_struct K) l)) in Hx.
        change (out_struct (Block i BDiag td l)) with (build dummy_struct td (map (@out_struct K) l)).
        destruct (vhas_split td x _ _ (split_build dummy_struct td _ Hlin) Hx) as (xs & Hxs & HFx).
        rewrite Hxs. cbn [obind]. destruct (omap2_honest l HF xs HFx) as [H1 H2]. split.
        * intros y Hy. destruct (denote_list l xs) as [ys|] eqn:E; [|discriminate]. cbn in Hy. inversion Hy; subst.
          apply vhas_build; [|exact Hlout|now apply H1].
          apply omap2_length in E as [E _]. congruence.
        * intros HD. destruct (H2 HD) as (ys & Hys). rewrite Hys. cbn. eexists; reflexivity.
      + (* column *)
        change (in_struct (Block i BCol td l)) with (hd dummy_struct (map (@in_struct K) l)) in Hx.
        change (out_struct (Block i BCol td l)) with (build dummy_struct td (map (@out_struct K) l)).
        destruct l as [|a r]; [congruence|]. cbn [map hd] in Hx.
        assert (Hin : forall e, In e (a :: r) -> in_struct e = in_struct a).
        { intros e He. apply (all_eqb_spec (map (@in_struct K) (a :: r)) (in_struct a) (map (@in_struct K) r) eq_refl Hkind).
          now apply in_map. }
        assert (HF' : Forall (fun e => honest_at e /\ in_struct e = in_struct a) (a :: r)).
        { apply Forall_forall. intros e He. split; [exact (proj1 (Forall_forall _ _) HF e He)|now apply Hin]. }
        destruct (omapl_honest (in_struct a) (a :: r) HF' x Hx) as [H1 H2]. split.
        * intros y Hy. destruct (omapl _ (a :: r)) as [ys|] eqn:E; [|discriminate]. cbn in Hy. inversion Hy; subst.
          apply vhas_build; [|exact Hlout|now apply H1].
          apply omapl_length in E. congruence.
        * intros HD. destruct (H2 HD) as (ys & Hys). rewrite Hys. cbn. eexists; reflexivity.
  Qed.

  Theorem out_structure_honest_l : forall e : op, wfo e = true -> Forall leaf_honest (leaves e) ->
    forall x y, vhas x (in_struct e) = true -> denote e x = Some y -> vhas y (out_struct e) = true.
  Proof. intros e Hw HL x y Hx Hy. exact (proj1 (honest_all e Hw HL x Hx) y Hy). Qed.

  Theorem denote_defined_l : forall e : op, wfo e = true ->
    Forall leaf_honest (leaves e) -> Forall leaf_defined (leaves e) ->
    forall x, vhas x (in_struct e) = true -> exists y, denote e x = Some y.
  Proof. intros e Hw HL HD x Hx. exact (proj2 (honest_all e Hw HL x Hx) HD). Qed.
End StructsL.

(* ====================================================================================== *)
(* Abstract evaluation (tree, leaf shapes, leaf dtypes)                                     *)

Lemma id_of_dt_of_id n d : dt_of_id n = Some d -> id_of_dt d = n.
Proof.
  do 9 (destruct n as [|n]; [cbn; intros H; inversion H; reflexivity|]). discriminate.
Qed.
Lemma dt_eqb_eq a b : ST.dt_eqb a b = true -> a = b.
Proof. destruct a, b; cbn; congruence. Qed.
Lemma dt_eqb_refl a : ST.dt_eqb a a = true.
Proof. destruct a; reflexivity. Qed.
Lemma ty_eqb_eq a b : ty_eqb a b = true -> a = b.
Proof.
  destruct a as [da wa], b as [db wb]. unfold ty_eqb; cbn. intros H. apply andb_true_iff in H as [H1 H2].
  apply dt_eqb_eq in H1. apply Bool.eqb_prop in H2. now subst.
Qed.

Lemma bshape_rev_refl a : ST.bshape_rev a a = Some a.
Proof. induction a as [|x a IH]; cbn; [reflexivity|]. now rewrite IH, Nat.eqb_refl. Qed.
Lemma bshape_refl a : ST.bshape a a = Some a.
Proof. unfold ST.bshape. rewrite bshape_rev_refl. cbn. now rewrite rev_involutive. Qed.

(* promoting an available strongly typed dtype with itself gives it back *)
Lemma promote2_refl x64 d : dt_avail x64 d = true ->
  ST.promote2 x64 (ST.mkTy d false) (ST.mkTy d false) = ST.mkTy d false.
Proof. destruct d, x64; cbn; try discriminate; intros _; vm_compute; reflexivity. Qed.

Lemma list_eqb_nat_eq a b : list_eqb Nat.eqb a b = true -> a = b.
Proof. apply list_eqb_eq. intros; now apply Nat.eqb_eq. Qed.
Lemma list_eqb_nat_refl a : list_eqb Nat.eqb a a = true.
Proof. induction a; cbn; auto. now rewrite Nat.eqb_refl. Qed.

Lemma sd_eta sd d : sd_dt sd = Some d -> mkSds (s_shape sd) (id_of_dt d) = sd.
Proof. destruct sd as [sh n]. unfold sd_dt; cbn. intros H. now rewrite (id_of_dt_of_id _ _ H). Qed.

Lemma sd_add_refl x64 sd : sd_avail x64 sd = true -> sd_add x64 sd sd = Some sd.
Proof.
  unfold sd_avail, sd_add, sd_ty. destruct (sd_dt sd) as [d|] eqn:Ed; [|discriminate]. intros Ha. cbn [option_map].
  rewrite bshape_refl, (promote2_refl x64 d Ha). cbn [ST.tdt]. now rewrite (sd_eta sd _ Ed).
Qed.

Lemma sd_mul_absorbs x64 t sd : absorbs x64 t sd = true -> sd_mul x64 t sd = Some sd.
Proof.
  unfold absorbs, sd_mul, sd_ty. destruct (sd_dt sd) as [d|] eqn:Ed; [|discriminate]. cbn [option_map].
  intros H. apply ty_eqb_eq in H. rewrite H. unfold retype. cbn [ST.tdt]. now rewrite (sd_eta sd _ Ed).
Qed.
Lemma sd_mulb_absorbs x64 t psh sd : absorbs x64 t sd = true -> shape_absorbs psh sd = true ->
  sd_mulb x64 t psh sd = Some sd.
Proof.
  unfold absorbs, shape_absorbs, sd_mulb, sd_ty. destruct (sd_dt sd) as [d|] eqn:Ed; [|discriminate]. cbn [option_map].
  destruct (ST.bshape (s_shape sd) psh) as [sh|]; [|discriminate]. intros H Hs.
  apply ty_eqb_eq in H. apply list_eqb_nat_eq in Hs. subst sh. rewrite H. cbn [ST.tdt]. now rewrite (sd_eta sd _ Ed).
Qed.

Lemma avail_node x64 k cs : avail x64 (Node k cs) = true -> Forall (fun c => avail x64 c = true) cs.
Proof.
  unfold avail. cbn [flatten]. induction cs as [|c cs IH]; [constructor|]. cbn [flat_map]. rewrite forallb_app.
  intros H. apply andb_true_iff in H as [H1 H2]. constructor; auto.
Qed.

Lemma sadd_refl x64 : forall s, avail x64 s = true -> sadd x64 s s = Some s.
Proof.
  induction s as [sd|k cs IH] using pt_ind'; intros Ha.
  - cbn. unfold avail in Ha. cbn in Ha. rewrite andb_true_r in Ha. now rewrite (sd_add_refl x64 sd Ha).
  - apply avail_node in Ha. cbn [sadd]. rewrite ckind_eqb_refl.
    match goal with |- option_map _ ?G = _ => assert (HG : G = Some cs) end.
    { induction IH as [|c r Hc _ IHr]; [reflexivity|]. inversion Ha; subst. now rewrite Hc, IHr. }
    now rewrite HG.
Qed.

Lemma ssum_same x64 s : avail x64 s = true -> forall ys, ys <> [] -> (forall y, In y ys -> y = s) -> ssum x64 ys = Some s.
Proof.
  intros Ha [|y r] Hne Hall; [congruence|]. cbn [ssum]. rewrite (Hall y (or_introl eq_refl)).
  assert (Hr : forall z, In z r -> z = s) by (intros z Hz; apply Hall; now right). clear Hall Hne.
  induction r as [|z r IH]; [reflexivity|]. cbn [fold_left obind]. rewrite (Hr z (or_introl eq_refl)), (sadd_refl x64 s Ha).
  apply IH. intros z' Hz'. apply Hr. now right.
Qed.

Lemma pmapo_id A (f : A -> option A) : forall t, Forall (fun a => f a = Some a) (flatten t) -> pmapo f t = Some t.
Proof.
  induction t as [a|k cs IH] using pt_ind'; intros HF.
  - cbn in *. inversion HF; subst. now rewrite H1.
  - cbn [pmapo]. cbn [flatten] in HF.
    match goal with |- option_map _ ?G = _ => assert (HG : G = Some cs) end.
    { induction IH as [|c r Hc _ IHr]; [reflexivity|]. cbn [flat_map] in HF. apply Forall_app in HF as [H1 H2].
      now rewrite (Hc H1), (IHr H2). }
    now rewrite HG.
Qed.

Lemma same_shapes_refl s : same_shapes s s = true.
Proof. unfold same_shapes. apply pt_eqb_refl. apply list_eqb_nat_refl. Qed.

Section SEvalL.
  Variable K : Type.
  Variable x64 : bool.
  Notation op := (op K).
  Variable leafeval : op -> struct -> option struct.
  Notation seval := (seval x64 leafeval).
  Notation HON := (fun e : op => seval e (in_struct e) = Some (out_struct e)).

  Lemma dtypes_available_node (e : op) : dtypes_available x64 e = true ->
    avail x64 (in_struct e) = true /\ avail x64 (out_struct e) = true.
  Proof.
    unfold dtypes_available. destruct e; cbn [subterms forallb]; intros H; apply andb_true_iff in H as [H _];
      apply andb_true_iff in H; exact H.
  Qed.
  Lemma dtypes_available_children (l : list op) :
    forallb (fun a : op => avail x64 (in_struct a) && avail x64 (out_struct a)) (flat_map (@subterms K) l) = true ->
    Forall (fun c => dtypes_available x64 c = true) l.
  Proof.
    induction l as [|a l IH]; [constructor|]. cbn [flat_map]. rewrite forallb_app. intros H.
    apply andb_true_iff in H as [H1 H2]. constructor; auto.
  Qed.
  Lemma dtypes_available_comp i (l : list op) : dtypes_available x64 (Comp i l) = true -> Forall (fun c => dtypes_available x64 c = true) l.
  Proof. unfold dtypes_available at 1. cbn [subterms forallb]. intros H. apply andb_true_iff in H as [_ H]. now apply dtypes_available_children. Qed.
  Lemma dtypes_available_add i (l : list op) : dtypes_available x64 (AddOp i l) = true -> Forall (fun c => dtypes_available x64 c = true) l.
  Proof. unfold dtypes_available at 1. cbn [subterms forallb]. intros H. apply andb_true_iff in H as [_ H]. now apply dtypes_available_children. Qed.
  Lemma dtypes_available_block i b td (l : list op) : dtypes_available x64 (Block i b td l) = true -> Forall (fun c => dtypes_available x64 c = true) l.
  Proof. unfold dtypes_available at 1. cbn [subterms forallb]. intros H. apply andb_true_iff in H as [_ H]. now apply dtypes_available_children. Qed.
  Lemma dtypes_available_wrap i w (x : op) : dtypes_available x64 (Wrap i w x) = true -> dtypes_available x64 x = true.
  Proof. unfold dtypes_available at 1. cbn [subterms forallb]. intros H. apply andb_true_iff in H as [_ H]. exact H. Qed.

  (* unfolding equations *)
  Definition seval_each (l : list op) (s : struct) : option (list struct) := omapl (fun e => seval e s) l.
  Definition seval_zip (l : list op) (xs : list struct) : option (list struct) := omap2 seval l xs.
  Lemma seval_comp i l s : seval (Comp i l) s = schain x64 leafeval l s.
  Proof. cbn [Structs.seval]. unfold schain. induction l as [|e r IH]; cbn; [reflexivity|]. now rewrite IH. Qed.
  Lemma seval_add i l s : seval (AddOp i l) s = obind (seval_each l s) (ssum x64).
  Proof. cbn [Structs.seval]. f_equal. unfold seval_each. induction l as [|e r IH]; cbn; [reflexivity|]. now rewrite IH. Qed.
  Lemma seval_block i b td l s :
    seval (Block i b td l) s =
    if negb (Nat.eqb (List.length l) (nleaves td)) then None else
    match b with
    | BDiag => obind (split_prefix td s) (fun xs => option_map (fun ys => build s td ys) (seval_zip l xs))
    | BCol => option_map (fun ys => build s td ys) (seval_each l s)
    | BRow => obind (split_prefix td s) (fun xs => obind (seval_zip l xs) (ssum x64))
    end.
  Proof.
    cbn [Structs.seval]. destruct (negb (Nat.eqb (List.length l) (nleaves td))); [reflexivity|].
    destruct b.
    - destruct (split_prefix td s) as [xs|]; [|reflexivity]. cbn [obind]. f_equal.
      unfold seval_zip. revert xs. induction l as [|e r IH]; intros [|y ys]; cbn; try reflexivity. now rewrite IH.
    - destruct (split_prefix td s) as [xs|]; [|reflexivity]. cbn [obind]. f_equal.
      unfold seval_zip. revert xs. induction l as [|e r IH]; intros [|y ys]; cbn; try reflexivity. now rewrite IH.
    - f_equal. unfold seval_each. induction l as [|e r IH]; cbn; [reflexivity|]. now rewrite IH.
  Qed.

  (* one level: the children are honest -> the composite is *)
  Lemma schain_honest : forall (l : list op) d, l <> [] -> chain_ok l = true -> Forall HON l ->
    schain x64 leafeval l (in_struct (last l d)) = Some (out_struct (hd d l)).
  Proof.
    induction l as [|a l IH]; intros d Hne Hc HF; [congruence|]. inversion HF as [|? ? Ha Hl]; subst.
    destruct l as [|b r]; [cbn; exact Ha|].
    change (chain_ok (a :: b :: r)) with (struct_eqb (in_struct a) (out_struct b) && chain_ok (b :: r)) in Hc.
    apply andb_true_iff in Hc as [Hab Hc]. apply struct_eqb_eq in Hab.
    change (last (a :: b :: r) d) with (last (b :: r) d).
    change (schain x64 leafeval (a :: b :: r) (in_struct (last (b :: r) d)))
      with (obind (schain x64 leafeval (b :: r) (in_struct (last (b :: r) d))) (seval a)).
    rewrite (IH d ltac:(discriminate) Hc Hl). cbn [obind hd]. rewrite <- Hab. exact Ha.
  Qed.
  Lemma seval_each_honest sin : forall l : list op, Forall (fun e => HON e /\ in_struct e = sin) l ->
    seval_each l sin = Some (map (@out_struct K) l).
  Proof.
    unfold seval_each. induction l as [|a l IH]; intros HF; [reflexivity|]. inversion HF as [|? ? [Ha Hin] Hl]; subst.
    cbn [omapl map]. now rewrite Ha, (IH Hl).
  Qed.
  Lemma seval_zip_honest : forall l : list op, Forall HON l -> seval_zip l (map (@in_struct K) l) = Some (map (@out_struct K) l).
  Proof.
    unfold seval_zip. induction l as [|a l IH]; intros HF; [reflexivity|]. inversion HF as [|? ? Ha Hl]; subst.
    cbn [omap2 map]. now rewrite Ha, (IH Hl).
  Qed.

  Lemma seval_comp_step i (l : list op) : wfo (Comp i l) = true -> Forall HON l -> HON (Comp i l).
  Proof.
    intros Hw HF. rewrite wfo_comp in Hw. apply andb_true_iff in Hw as [Hw _]. apply andb_true_iff in Hw as [Hne Hc].
    assert (Hl : l <> []) by (destruct l; [discriminate|discriminate]).
    rewrite seval_comp, (in_struct_comp K i l (Ident 0%N dummy_struct) Hl), (out_struct_comp K i l (Ident 0%N dummy_struct) Hl).
    now apply schain_honest.
  Qed.
  Lemma seval_add_step i (l : list op) : wfo (AddOp i l) = true -> avail x64 (out_struct (AddOp i l)) = true ->
    Forall HON l -> HON (AddOp i l).
  Proof.
    intros Hw Hav HF. rewrite wfo_add in Hw. apply andb_true_iff in Hw as [Hw _]. apply andb_true_iff in Hw as [Hne Hs].
    unfold sum_ok in Hs. apply andb_true_iff in Hs as [Hsi Hso]. destruct l as [|a r]; [discriminate|].
    assert (HF' : Forall (fun e => HON e /\ in_struct e = in_struct a) (a :: r)).
    { apply Forall_forall. intros e He. split; [exact (proj1 (Forall_forall _ _) HF e He)|].
      apply (all_eqb_spec (map (@in_struct K) (a :: r)) (in_struct a) (map (@in_struct K) r) eq_refl Hsi). now apply in_map. }
    rewrite seval_add. change (in_struct (AddOp i (a :: r))) with (in_struct a).
    change (out_struct (AddOp i (a :: r))) with (out_struct a) in *.
    rewrite (seval_each_honest (in_struct a) (a :: r) HF'). cbn [obind].
    apply ssum_same; [exact Hav|discriminate|].
    exact (all_eqb_spec (map (@out_struct K) (a :: r)) (out_struct a) (map (@out_struct K) r) eq_refl Hso).
  Qed.
  Lemma seval_block_step i b td (l : list op) : wfo (Block i b td l) = true ->
    avail x64 (out_struct (Block i b td l)) = true -> Forall HON l -> HON (Block i b td l).
  Proof.
    intros Hw Hav HF. rewrite wfo_block in Hw. apply andb_true_iff in Hw as [Hw _]. apply andb_true_iff in Hw as [Hw Hkind].
    apply andb_true_iff in Hw as [Hne Hlen]. apply Nat.eqb_eq in Hlen.
    assert (Hl : l <> []) by (destruct l; [discriminate|discriminate]).
    assert (Hlin : List.length (map (@in_struct K) l) = nleaves td) by (now rewrite map_length).
    assert (Hlout : List.length (map (@out_struct K) l) = nleaves td) by (now rewrite map_length).
    rewrite seval_block, Hlen, Nat.eqb_refl. cbn [negb]. destruct b.
    - change (in_struct (Block i BRow td l)) with (build dummy_struct td (map (@in_struct K) l)).
      change (out_struct (Block i BRow td l)) with (hd dummy_struct (map (@out_struct K) l)) in *.
      rewrite (split_build dummy_struct td _ Hlin). cbn [obind]. rewrite (seval_zip_honest l HF). cbn [obind].
      destruct l as [|a r]; [congruence|]. cbn [map hd] in *.
      apply ssum_same; [exact Hav|discriminate|].
      exact (all_eqb_spec (map (@out_struct K) (a :: r)) (out_struct a) (map (@out_struct K) r) eq_refl Hkind).
    - change (in_struct (Block i BDiag td l)) with (build dummy_struct td (map (@in_struct K) l)).
      change (out_struct (Block i BDiag td l)) with (build dummy_struct td (map (@out_struct K) l)).
      rewrite (split_build dummy_struct td _ Hlin). cbn [obind]. rewrite (seval_zip_honest l HF). cbn [option_map].
      f_equal. apply build_dflt_irrelevant. apply Nat.eq_le_incl. symmetry. exact Hlout.
    - change (in_struct (Block i BCol td l)) with (hd dummy_struct (map (@in_struct K) l)).
      change (out_struct (Block i BCol td l)) with (build dummy_struct td (map (@out_struct K) l)).
      destruct l as [|a r]; [congruence|]. cbn [map hd].
      assert (HF' : Forall (fun e => HON e /\ in_struct e = in_struct a) (a :: r)).
      { apply Forall_forall. intros e He. split; [exact (proj1 (Forall_forall _ _) HF e He)|].
        apply (all_eqb_spec (map (@in_struct K) (a :: r)) (in_struct a) (map (@in_struct K) r) eq_refl Hkind). now apply in_map. }
      rewrite (seval_each_honest (in_struct a) (a :: r) HF'). cbn [option_map]. f_equal.
      apply build_dflt_irrelevant. apply Nat.eq_le_incl. symmetry. exact Hlout.
  Qed.

  (* the theorem over abstract leaf rules *)
  Definition sleaf_honest (e : op) : Prop := leafeval e (in_struct e) = Some (out_struct e).
  Lemma HON_IH (l : list op) :
    Forall (fun e => wfo e = true -> dtypes_available x64 e = true -> Forall sleaf_honest (sleaves e) -> HON e) l ->
    allwf K l = true -> Forall (fun c => dtypes_available x64 c = true) l ->
    Forall sleaf_honest (flat_map (@sleaves K) l) -> Forall HON l.
  Proof.
    intros IH Hw Hd HL. apply allwf_Forall in Hw. apply Forall_flat_map in HL.
    induction IH as [|e l He _ IHl]; [constructor|].
    inversion Hw; subst. inversion HL; subst. inversion Hd; subst. constructor; auto.
  Qed.
  Theorem seval_honest_l : forall e : op, wfo e = true -> dtypes_available x64 e = true ->
    Forall sleaf_honest (sleaves e) -> seval e (in_struct e) = Some (out_struct e).
  Proof.
    induction e as [i c si so p|i w e IH|i s|i k s|i l IH|i l IH|i b td l IH] using op_ind'; intros Hw Hd HL.
    - inversion HL; subst. assumption.
    - inversion HL; subst. assumption.
    - reflexivity.
    - inversion HL; subst. assumption.
    - apply seval_comp_step; [exact Hw|]. rewrite wfo_comp in Hw. apply andb_true_iff in Hw as [_ Hall].
      apply (HON_IH l IH Hall (dtypes_available_comp i l Hd) HL).
    - apply seval_add_step; [exact Hw|exact (proj2 (dtypes_available_node _ Hd))|].
      rewrite wfo_add in Hw. apply andb_true_iff in Hw as [_ Hall].
      apply (HON_IH l IH Hall (dtypes_available_add i l Hd) HL).
    - apply seval_block_step; [exact Hw|exact (proj2 (dtypes_available_node _ Hd))|].
      rewrite wfo_block in Hw. apply andb_true_iff in Hw as [_ Hall].
      apply (HON_IH l IH Hall (dtypes_available_block i b td l Hd) HL).
  Qed.
End SEvalL.

(* ====================================================================================== *)
(* The executable leaf rules satisfy the leaf fact under the property's guard               *)
Section XEvalL.
  Variable K : Type.
  Variable x64 : bool.
  Variable info : infos.
  Notation op := (op K).
  Notation xeval := (xeval x64 info).
  Notation pnw := (params_not_wider x64 info).

  Lemma prim_in i c si so p : in_struct (Prim i c si so p : op) = si.
  Proof. unfold in_struct. cbn [structs]. now destruct (square_cls c). Qed.
  Lemma prim_out i c si so p : out_struct (Prim i c si so p : op) = if square_cls c then si else so.
  Proof. unfold out_struct. cbn [structs]. now destruct (square_cls c). Qed.

  (* xeval is the abstract evaluation over its own leaf rules *)
  Lemma xeval_seval : forall (e : op) s, xeval e s = seval x64 xeval e s.
  Proof.
    induction e as [i c si so p|i w e IH|i s0|i k s0|i l IH|i l IH|i b td l IH] using op_ind'; intros s; try reflexivity.
    - cbn [Structs.xeval Structs.seval]. revert s. induction IH as [|e r He _ IHr]; intros s; [reflexivity|].
      rewrite IHr. destruct ((fix go (l : list op) (s : struct) : option struct :=
        match l with [] => Some s | e :: r => obind (go r s) (seval x64 xeval e) end) r s); cbn [obind]; [apply He|reflexivity].
    - cbn [Structs.xeval Structs.seval]. f_equal. induction IH as [|e r He _ IHr]; [reflexivity|]. now rewrite He, IHr.
    - cbn [Structs.xeval Structs.seval]. destruct (negb (Nat.eqb (List.length l) (nleaves td))); [reflexivity|].
      destruct b.
      + destruct (split_prefix td s) as [xs|]; [|reflexivity]. cbn [obind]. f_equal.
        revert xs. induction IH as [|e r He _ IHr]; intros [|y ys]; try reflexivity. now rewrite He, IHr.
      + destruct (split_prefix td s) as [xs|]; [|reflexivity]. cbn [obind]. f_equal.
        revert xs. induction IH as [|e r He _ IHr]; intros [|y ys]; try reflexivity. now rewrite He, IHr.
      + f_equal. induction IH as [|e r He _ IHr]; [reflexivity|]. now rewrite He, IHr.
  Qed.

  Lemma scal_ok_eval i s p : ilookup info i = Some p -> forallb (absorbs x64 (pi_ty p)) (flatten s) = true ->
    pmapo (sd_mul x64 (pi_ty p)) s = Some s.
  Proof.
    intros _ H. apply pmapo_id. rewrite forallb_forall in H. apply Forall_forall. intros sd Hin.
    apply sd_mul_absorbs. now apply H.
  Qed.

  (* a DiagonalOperator whose constructor check passed and whose values are absorbed by the leaf dtype *)
  Lemma diag_leaf_ok p sd : absorbs x64 (pi_ty p) sd = true ->
    match diag_leaf_shape (pi_shape p) (pi_axes p) (s_shape sd) with
    | Some r => list_eqb Nat.eqb r (s_shape sd) | None => false end = true ->
    diag_leaf x64 p sd = Some sd.
  Proof.
    unfold absorbs, diag_leaf, sd_ty. destruct (sd_dt sd) as [d|] eqn:Ed; [|discriminate]. cbn [option_map].
    destruct (diag_leaf_shape (pi_shape p) (pi_axes p) (s_shape sd)) as [sh|]; [|discriminate]. intros H Hs.
    apply ty_eqb_eq in H. apply list_eqb_nat_eq in Hs. subst sh. rewrite H. cbn [ST.tdt]. now rewrite (sd_eta sd _ Ed).
  Qed.
  Lemma diag_ok_eval p s : forallb (absorbs x64 (pi_ty p)) (flatten s) = true -> diag_ok p s = true ->
    pmapo (diag_leaf x64 p) s = Some s.
  Proof.
    unfold diag_ok. intros Ha Hs. apply pmapo_id. rewrite forallb_forall in Ha, Hs. apply Forall_forall. intros sd Hin.
    apply diag_leaf_ok; [now apply Ha|now apply Hs].
  Qed.

  Lemma rot_leaf_ok t ash q u :
    sds_eqb q u && absorbs x64 t q && shape_absorbs ash q && sd_avail x64 q = true ->
    u = q /\ rot_leaf x64 t ash q u = Some q.
  Proof.
    intros H. apply andb_true_iff in H as [H Hav]. apply andb_true_iff in H as [H Hsh]. apply andb_true_iff in H as [Hqu Hab].
    apply sds_eqb_eq in Hqu. subst u. split; [reflexivity|]. unfold rot_leaf.
    rewrite (sd_mulb_absorbs x64 t ash q Hab Hsh). now apply sd_add_refl.
  Qed.
  Lemma rot_ok_eval p s : rot_ok x64 p s = true -> rot_eval x64 p s = Some s.
  Proof.
    unfold rot_ok, rot_eval.
    destruct s as [|[| |ks|[|[|[|[|[|n]]]]]|] cs]; try discriminate.
    - destruct cs as [|[a|] [|]]; try discriminate. reflexivity.
    - destruct cs as [|[q|] [|[u|] [|]]]; try discriminate. intros H.
      destruct (rot_leaf_ok _ _ _ _ H) as [-> ->]. reflexivity.
    - destruct cs as [|[a|] [|[q|] [|[u|] [|]]]]; try discriminate. intros H.
      destruct (rot_leaf_ok _ _ _ _ H) as [-> ->]. reflexivity.
    - destruct cs as [|[a|] [|[q|] [|[u|] [|[v|] [|]]]]]; try discriminate. intros H.
      destruct (rot_leaf_ok _ _ _ _ H) as [-> ->]. reflexivity.
  Qed.

  (* the factors of a rotation are cast to the dtype of inexact data: their type is then that of the data, whatever
     the type t of cos (2 * angles) *)
  Lemma rot_ty_inexact t t' q : sd_inexact q = true -> rot_ty x64 t q = rot_ty x64 t' q.
  Proof. unfold sd_inexact, rot_ty. destruct (sd_dt q) as [d|]; [|discriminate]. now intros ->. Qed.
  Lemma rot_ty_exact t q : sd_inexact q = false -> rot_ty x64 t q = t.
  Proof. unfold sd_inexact, rot_ty. destruct (sd_dt q) as [d|]; [|reflexivity]. now intros ->. Qed.
  Lemma rot_ty_absorbs t q : sd_inexact q = true -> sd_avail x64 q = true -> absorbs x64 (rot_ty x64 t q) q = true.
  Proof.
    unfold sd_inexact, sd_avail, absorbs, rot_ty, sd_ty. destruct (sd_dt q) as [d|]; [|discriminate].
    cbn [option_map]. intros -> Hav. revert Hav. destruct d, x64; try discriminate; reflexivity.
  Qed.
  (* ... so that the dtype of the ANGLES matters neither to the evaluation nor to the guard *)
  Lemma rot_eval_angle_ty p p' s : pi_shape p = pi_shape p' -> forallb sd_inexact (flatten s) = true ->
    rot_eval x64 p s = rot_eval x64 p' s.
  Proof.
    intros Hsh. unfold rot_eval. rewrite Hsh.
    destruct s as [|[| |ks|[|[|[|[|[|n]]]]]|] cs]; try reflexivity.
    - destruct cs as [|[q|] [|[u|] [|]]]; try reflexivity. cbn. intros H. apply andb_true_iff in H as [Hq _].
      now rewrite (rot_ty_inexact (trig_ty x64 (pi_ty p)) (trig_ty x64 (pi_ty p')) q Hq).
    - destruct cs as [|[a|] [|[q|] [|[u|] [|]]]]; try reflexivity. cbn. intros H.
      apply andb_true_iff in H as [_ H]. apply andb_true_iff in H as [Hq _].
      now rewrite (rot_ty_inexact (trig_ty x64 (pi_ty p)) (trig_ty x64 (pi_ty p')) q Hq).
    - destruct cs as [|[a|] [|[q|] [|[u|] [|[v|] [|]]]]]; try reflexivity. cbn. intros H.
      apply andb_true_iff in H as [_ H]. apply andb_true_iff in H as [Hq _].
      now rewrite (rot_ty_inexact (trig_ty x64 (pi_ty p)) (trig_ty x64 (pi_ty p')) q Hq).
  Qed.
  Lemma rot_ok_angle_ty p p' s : pi_shape p = pi_shape p' -> forallb sd_inexact (flatten s) = true ->
    rot_ok x64 p s = rot_ok x64 p' s.
  Proof.
    intros Hsh. unfold rot_ok. rewrite Hsh.
    destruct s as [|[| |ks|[|[|[|[|[|n]]]]]|] cs]; try reflexivity.
    - destruct cs as [|[q|] [|[u|] [|]]]; try reflexivity. cbn. intros H. apply andb_true_iff in H as [Hq _].
      now rewrite (rot_ty_inexact (trig_ty x64 (pi_ty p)) (trig_ty x64 (pi_ty p')) q Hq).
    - destruct cs as [|[a|] [|[q|] [|[u|] [|]]]]; try reflexivity. cbn. intros H.
      apply andb_true_iff in H as [_ H]. apply andb_true_iff in H as [Hq _].
      now rewrite (rot_ty_inexact (trig_ty x64 (pi_ty p)) (trig_ty x64 (pi_ty p')) q Hq).
    - destruct cs as [|[a|] [|[q|] [|[u|] [|[v|] [|]]]]]; try reflexivity. cbn. intros H.
      apply andb_true_iff in H as [_ H]. apply andb_true_iff in H as [Hq _].
      now rewrite (rot_ty_inexact (trig_ty x64 (pi_ty p)) (trig_ty x64 (pi_ty p')) q Hq).
  Qed.
  Lemma rot_angle_ty_irrelevant p p' s : pi_shape p = pi_shape p' -> forallb sd_inexact (flatten s) = true ->
    rot_eval x64 p s = rot_eval x64 p' s /\ rot_ok x64 p s = rot_ok x64 p' s.
  Proof. intros H1 H2. split; [now apply rot_eval_angle_ty|now apply rot_ok_angle_ty]. Qed.
  (* on inexact data the guard of a rotation is about shapes (and the mode) only *)
  Lemma rot_ok_inexact p q : sd_inexact q = true ->
    rot_ok x64 p (Node (KStokes 2) [Leaf q; Leaf q]) = shape_absorbs (pi_shape p) q && sd_avail x64 q.
  Proof.
    intros Hq. unfold rot_ok. rewrite sds_eqb_refl. cbn [andb].
    destruct (sd_avail x64 q) eqn:Hav; [|now rewrite !andb_false_r].
    now rewrite (rot_ty_absorbs _ q Hq Hav).
  Qed.

  Lemma removelast_last_nat (l : list nat) : l <> [] -> removelast l ++ [last l 0] = l.
  Proof. intros H. symmetry. now apply app_removelast_last. Qed.
  Lemma toep_ok_eval p s : toep_ok x64 p s = true -> toep_eval x64 p s = Some s.
  Proof.
    unfold toep_ok, toep_eval. destruct s as [sd|]; [|discriminate].
    destruct (s_shape sd) as [|n sh] eqn:Esh; [discriminate|]. destruct (pi_shape p) as [|m psh] eqn:Ep; [discriminate|].
    intros H. apply andb_true_iff in H as [Hab Hb]. unfold absorbs, sd_ty in Hab.
    destruct (sd_dt sd) as [d|] eqn:Ed; [|discriminate]. cbn [option_map] in Hab. apply ty_eqb_eq in Hab.
    unfold sd_ty. rewrite Ed. cbn [option_map].
    destruct (ST.bshape (removelast (n :: sh)) (removelast (m :: psh))) as [batch|]; [|discriminate].
    apply list_eqb_nat_eq in Hb. subst batch. rewrite Hab. cbn [ST.tdt].
    rewrite removelast_last_nat by discriminate. rewrite <- Esh. now rewrite (sd_eta sd _ Ed).
  Qed.

  Lemma forallb_Forall A (f : A -> bool) l : forallb f l = true -> Forall (fun a => f a = true) l.
  Proof. intros H. apply Forall_forall. now apply forallb_forall. Qed.

  Lemma wrap_in i w (x : op) : in_struct (Wrap i w x) = out_struct x.
  Proof. exact (proj1 (wrap_structs K i w x)). Qed.
  Lemma wrap_out i w (x : op) : out_struct (Wrap i w x) = in_struct x.
  Proof. exact (proj2 (wrap_structs K i w x)). Qed.

  (* THE STAGE-2 THEOREM: under the guards the computed evaluation is the declared structure *)
  Theorem xeval_honest_l : forall e : op, wfo e = true -> ctor_checked x64 info e = true -> pnw e = true ->
    dtypes_available x64 e = true -> xeval e (in_struct e) = Some (out_struct e).
  Proof.
    induction e as [i c si so p|i w e IH|i s|i k s|i l IH|i l IH|i b td l IH] using op_ind'; intros Hw Hc Hg Hd.
    - (* primitives *)
      rewrite prim_in, prim_out. cbn [Structs.xeval]. cbn [Structs.params_not_wider] in Hg.
      cbn [Structs.ctor_checked] in Hc. unfold prim_eval.
      destruct c; cbn [square_cls]; try (now rewrite struct_eqb_refl).
      + (* broadcast diagonal: the declared structure is the traced one *)
        destruct (ilookup info i) as [pp|]; [|discriminate].
        destruct (pmapo (diag_leaf x64 pp) si) as [s'|]; [|discriminate]. apply struct_eqb_eq in Hc. now subst.
      + (* diagonal *) unfold scal_ok in Hg. destruct (ilookup info i) as [pp|] eqn:El; [|discriminate].
        now apply diag_ok_eval.
      + (* rotation *) destruct (ilookup info i) as [pp|]; [|discriminate]. now apply rot_ok_eval.
      + (* HWP *) now rewrite Hg.
      + (* polariser *) apply andb_true_iff in Hg as [_ Hg].
        destruct (pol_eval x64 si) as [s'|]; [|discriminate]. apply struct_eqb_eq in Hg. now subst.
      + (* Toeplitz *) destruct (ilookup info i) as [pp|]; [|discriminate]. now apply toep_ok_eval.
    - (* lazy wrappers *)
      rewrite wrap_in, wrap_out. cbn [Structs.params_not_wider] in Hg. apply andb_true_iff in Hg as [Hgx Hgw].
      cbn [Structs.ctor_checked] in Hc. apply andb_true_iff in Hc as [Hcx Hcw].
      cbn [Wf.wfo] in Hw. apply andb_true_iff in Hw as [Hwx Hsq].
      pose proof (IH Hwx Hcx Hgx (dtypes_available_wrap K x64 i w e Hd)) as Hx.
      cbn [Structs.xeval]. destruct w.
      + rewrite Hx, struct_eqb_refl, Hgw. reflexivity.
      + rewrite Hx, struct_eqb_refl. reflexivity.
      + (* diagonal inverse: a lazy inverse, hence of a square operator *)
        cbn in Hsq. unfold is_square in Hsq. apply struct_eqb_eq in Hsq.
        unfold scal_ok in Hgw. destruct (ilookup info i) as [pp|] eqn:El; [|discriminate].
        rewrite <- Hsq. now apply diag_ok_eval.
      + (* rotation transpose *)
        destruct e as [j c sj soj pj| | | | | |]; try discriminate. destruct c; try discriminate.
        cbn [Structs.params_not_wider] in Hgx. rewrite prim_in, prim_out. cbn [square_cls].
        destruct (ilookup info j) as [pp|]; [|discriminate]. now apply rot_ok_eval.
      + destruct (reshape_to (out_struct e) (in_struct e)) as [s'|]; [|discriminate]. apply struct_eqb_eq in Hgw. now subst.
      + rewrite Hx, struct_eqb_refl, Hgw. reflexivity.
    - reflexivity.
    - (* scalar *)
      cbn [Structs.params_not_wider] in Hg. unfold scal_ok in Hg. cbn [Structs.xeval].
      destruct (ilookup info i) as [pp|] eqn:El; [|discriminate].
      change (in_struct (Homoth i k s)) with s. change (out_struct (Homoth i k s)) with s. now apply (scal_ok_eval i s pp El).
    - (* composition *)
      rewrite xeval_seval. apply seval_comp_step; [exact Hw|].
      rewrite wfo_comp in Hw. apply andb_true_iff in Hw as [_ Hall]. apply allwf_Forall in Hall.
      cbn [Structs.params_not_wider] in Hg. apply forallb_Forall in Hg. pose proof (dtypes_available_comp K x64 i l Hd) as Hdl.
      cbn [Structs.ctor_checked] in Hc. apply forallb_Forall in Hc.
      clear Hd. induction IH as [|e r He _ IHr]; [constructor|]. inversion Hall; inversion Hg; inversion Hdl; inversion Hc; subst.
      constructor; [rewrite <- xeval_seval; auto|auto].
    - (* sum *)
      rewrite xeval_seval. apply seval_add_step; [exact Hw|exact (proj2 (dtypes_available_node K x64 _ Hd))|].
      rewrite wfo_add in Hw. apply andb_true_iff in Hw as [_ Hall]. apply allwf_Forall in Hall.
      cbn [Structs.params_not_wider] in Hg. apply forallb_Forall in Hg. pose proof (dtypes_available_add K x64 i l Hd) as Hdl.
      cbn [Structs.ctor_checked] in Hc. apply forallb_Forall in Hc.
      clear Hd. induction IH as [|e r He _ IHr]; [constructor|]. inversion Hall; inversion Hg; inversion Hdl; inversion Hc; subst.
      constructor; [rewrite <- xeval_seval; auto|auto].
    - (* blocks *)
      rewrite xeval_seval. apply seval_block_step; [exact Hw|exact (proj2 (dtypes_available_node K x64 _ Hd))|].
      rewrite wfo_block in Hw. apply andb_true_iff in Hw as [_ Hall]. apply allwf_Forall in Hall.
      cbn [Structs.params_not_wider] in Hg. apply forallb_Forall in Hg. pose proof (dtypes_available_block K x64 i b td l Hd) as Hdl.
      cbn [Structs.ctor_checked] in Hc. apply forallb_Forall in Hc.
      clear Hd. induction IH as [|e r He _ IHr]; [constructor|]. inversion Hall; inversion Hg; inversion Hdl; inversion Hc; subst.
      constructor; [rewrite <- xeval_seval; auto|auto].
  Qed.
End XEvalL.

(* ====================================================================================== *)
(* The scalar construction paths: k * A, A * k, -A, A - B (and A / k)                      *)
Section ScaledL.
  Variable K : Type.
  Variable x64 : bool.
  Variable info : infos.
  Notation op := (op K).
  Notation xeval := (xeval x64 info).

  Lemma xeval_comp_cons j j' (h : op) l s : xeval (Comp j (h :: l)) s = obind (xeval (Comp j' l) s) (xeval h).
  Proof. reflexivity. Qed.

  Lemma xeval_homoth i (k : K) s0 s p : ilookup info i = Some p -> forallb (absorbs x64 (pi_ty p)) (flatten s) = true ->
    xeval (Homoth i k s0) s = Some s.
  Proof. intros El H. cbn [Structs.xeval]. rewrite El. now apply (scal_ok_eval x64 info i s p El). Qed.

  (* HomothetyOperator(value, A.out_structure()) @ A for an operator A that is not itself a composition *)
  Theorem scaled_honest_l i j (k : K) p (e : op) :
    ilookup info i = Some p -> xeval e (in_struct e) = Some (out_struct e) ->
    forallb (absorbs x64 (pi_ty p)) (flatten (out_struct e)) = true ->
    let r := Comp j [Homoth i k (out_struct e); e] in
    in_struct r = in_struct e /\ out_struct r = out_struct e /\ xeval r (in_struct r) = Some (out_struct r).
  Proof.
    intros El He Ha r.
    assert (Hi : in_struct r = in_struct e) by reflexivity.
    assert (Ho : out_struct r = out_struct e) by reflexivity.
    split; [exact Hi|]. split; [exact Ho|]. rewrite Hi, Ho. unfold r.
    rewrite (xeval_comp_cons j j (Homoth i k (out_struct e)) [e]).
    change (xeval (Comp j [e]) (in_struct e)) with (obind (Some (in_struct e)) (xeval e)). cbn [obind]. rewrite He. cbn [obind].
    now apply (xeval_homoth i k (out_struct e) (out_struct e) p).
  Qed.

  (* ... and for a composition A = A1 @ ... @ An: the scalar operator is PREPENDED to the operands *)
  Theorem scaled_comp_honest_l i j j' (k : K) p (l : list op) : l <> [] ->
    ilookup info i = Some p ->
    let e := Comp j' l in
    xeval e (in_struct e) = Some (out_struct e) ->
    forallb (absorbs x64 (pi_ty p)) (flatten (out_struct e)) = true ->
    let r := Comp j (Homoth i k (out_struct e) :: l) in
    in_struct r = in_struct e /\ out_struct r = out_struct e /\ xeval r (in_struct r) = Some (out_struct r).
  Proof.
    intros Hl El e He Ha r.
    assert (Hi : in_struct r = in_struct e).
    { unfold r, e, in_struct. cbn [structs fst map]. destruct l as [|a l']; [congruence|]. reflexivity. }
    assert (Ho : out_struct r = out_struct e) by reflexivity.
    split; [exact Hi|]. split; [exact Ho|]. rewrite Hi, Ho. unfold r.
    rewrite (xeval_comp_cons j j' (Homoth i k (out_struct e)) l). fold e. rewrite He. cbn [obind].
    now apply (xeval_homoth i k (out_struct e) (out_struct e) p).
  Qed.
End ScaledL.

(* ====================================================================================== *)
(* The constructors of the diagonal classes                                                *)
(* DiagonalOperator accepted => mv keeps the shape of every leaf (the square declaration is honest) *)
Lemma diag_leaf_checked_strict dsh axes lsh r : diag_leaf_checked true dsh axes lsh = Some r -> r = lsh.
Proof.
  unfold diag_leaf_checked. destruct (diag_leaf_shape dsh axes lsh) as [r'|]; [|discriminate]. cbn [andb].
  destruct (list_eqb Nat.eqb r' lsh) eqn:E; cbn [negb]; [|discriminate]. intros H. inversion H; subst.
  now apply list_eqb_nat_eq.
Qed.
Lemma diag_ctor_strict_l dsh spec leaves axes outs :
  diag_ctor true dsh spec leaves = Some (axes, outs) -> outs = leaves /\ axes = spec_axes spec (List.length dsh).
Proof.
  unfold diag_ctor. destruct dsh as [|d0 dsh]; [discriminate|]. set (ax := spec_axes spec _).
  destruct (ST.all_some (map (diag_leaf_checked true (d0 :: dsh) ax) leaves)) as [o|] eqn:E; [|discriminate].
  cbn [option_map]. intros H. inversion H; subst. split; [|reflexivity]. clear H.
  revert outs E. induction leaves as [|l ls IH]; intros outs E; cbn in E; [now inversion E|].
  destruct (diag_leaf_checked true (d0 :: dsh) ax l) as [r|] eqn:El; [|discriminate].
  destruct (ST.all_some (map (diag_leaf_checked true (d0 :: dsh) ax) ls)) as [o|]; [|discriminate].
  cbn in E. inversion E; subst. rewrite (diag_leaf_checked_strict _ _ _ _ El), (IH o eq_refl). reflexivity.
Qed.
(* every operator DiagonalOperator accepts is accepted by BroadcastDiagonalOperator, with the same result *)
Lemma diag_ctor_strict_broadcast_l dsh spec leaves r :
  diag_ctor true dsh spec leaves = Some r -> diag_ctor false dsh spec leaves = Some r.
Proof.
  unfold diag_ctor. destruct dsh as [|d0 dsh]; [discriminate|]. set (ax := spec_axes spec _).
  assert (H : forall o, ST.all_some (map (diag_leaf_checked true (d0 :: dsh) ax) leaves) = Some o ->
                        ST.all_some (map (diag_leaf_checked false (d0 :: dsh) ax) leaves) = Some o).
  { induction leaves as [|l ls IH]; intros o E; cbn in *; [exact E|].
    unfold diag_leaf_checked in E at 1. unfold diag_leaf_checked at 1.
    destruct (diag_leaf_shape (d0 :: dsh) ax l) as [r'|]; [|discriminate]. cbn [andb] in *.
    destruct (negb (list_eqb Nat.eqb r' l)); [discriminate|].
    destruct (ST.all_some (map (diag_leaf_checked true (d0 :: dsh) ax) ls)) as [o'|]; [|discriminate].
    now rewrite (IH o' eq_refl). }
  destruct (ST.all_some (map (diag_leaf_checked true (d0 :: dsh) ax) leaves)) as [o|]; [|discriminate].
  intros E. now rewrite (H o eq_refl).
Qed.

(* ====================================================================================== *)
(* Sizes and promoted dtypes                                                                *)
Definition sumn (l : list nat) : nat := fold_right Nat.add 0 l.
Lemma sumn_app a b : sumn (a ++ b) = sumn a + sumn b.
Proof. unfold sumn. induction a; cbn; [reflexivity|]. rewrite IHa. lia. Qed.
Lemma struct_size_sumn s : struct_size s = sumn (map leaf_size (flatten s)).
Proof. reflexivity. Qed.

(* the number of elements of a value that has a structure is the size of the structure:
   in_size()/out_size() count what mv receives/returns *)
Lemma vhas_size K : forall (x : value K) s, vhas x s = true -> vsize x = struct_size s.
Proof.
  unfold vsize. induction x as [d|k cs IH] using pt_ind'; intros [sd|k' ss] H; try discriminate.
  - cbn in *. apply Nat.eqb_eq in H. rewrite app_nil_r. unfold struct_size. cbn. lia.
  - apply vhas_node in H as [_ HF]. rewrite struct_size_sumn. cbn [flatten].
    revert ss HF. induction IH as [|c r Hc _ IHr]; intros ss HF; inversion HF; subst; [reflexivity|].
    cbn [flat_map]. rewrite concat_app, app_length, map_app, sumn_app. rewrite (Hc _ H1), (IHr _ H3).
    now rewrite struct_size_sumn.
Qed.

(* the leaves of a tree are those of the subtrees standing at the leaves of a prefix *)
Lemma split_flatten A : forall td (s : pt A) ss, split_prefix td s = Some ss -> flatten s = flat_map flatten ss.
Proof.
  induction td as [u|k cs IH] using pt_ind'; intros s ss H.
  - cbn in H. inversion H; subst. cbn. now rewrite app_nil_r.
  - cbn [split_prefix] in H. destruct s as [a|k' xs]; [discriminate|]. destruct (ckind_eqb k k'); [|discriminate].
    cbn [flatten]. revert xs ss H. induction IH as [|c cs' Hc _ IHl]; intros xs ss H.
    + destruct xs; [|discriminate]. cbn in H. inversion H; reflexivity.
    + destruct xs as [|x0 xs1]; [discriminate|]. cbn [split_list] in H.
      destruct (split_prefix c x0) as [a|] eqn:Ea; [|discriminate].
      destruct (split_list (@split_prefix A) cs' xs1) as [b|] eqn:Eb; [|discriminate].
      inversion H; subst ss. cbn [flat_map]. rewrite flat_map_app, (Hc _ _ Ea), (IHl _ _ Eb). reflexivity.
Qed.
Lemma build_size td (ss : list struct) d : List.length ss = nleaves td ->
  struct_size (build d td ss) = sumn (map struct_size ss).
Proof.
  intros H. rewrite struct_size_sumn, (split_flatten _ td _ ss (split_build d td ss H)).
  clear H. induction ss as [|s ss IH]; [reflexivity|]. cbn [flat_map map]. rewrite map_app, sumn_app, IH.
  now rewrite struct_size_sumn.
Qed.

Section SizesL.
  Variable K : Type.
  Notation op := (op K).
  (* sizes of the composites from those of their parts *)
  Theorem block_sizes_l i b td (l : list op) : wfo (Block i b td l) = true ->
    match b with
    | BDiag => in_size (Block i b td l) = sumn (map (@in_size K) l) /\ out_size (Block i b td l) = sumn (map (@out_size K) l)
    | BRow => in_size (Block i b td l) = sumn (map (@in_size K) l) /\ out_size (Block i b td l) = out_size (hd (Ident 0%N dummy_struct) l)
    | BCol => in_size (Block i b td l) = in_size (hd (Ident 0%N dummy_struct) l) /\ out_size (Block i b td l) = sumn (map (@out_size K) l)
    end.
  Proof.
    intros Hw. rewrite wfo_block in Hw. apply andb_true_iff in Hw as [Hw _]. apply andb_true_iff in Hw as [Hw _].
    apply andb_true_iff in Hw as [Hne Hlen]. apply Nat.eqb_eq in Hlen.
    assert (Hi : List.length (map (@in_struct K) l) = nleaves td) by now rewrite map_length.
    assert (Ho : List.length (map (@out_struct K) l) = nleaves td) by now rewrite map_length.
    unfold in_size, out_size. destruct b.
    - change (in_struct (Block i BRow td l)) with (build dummy_struct td (map (@in_struct K) l)).
      rewrite (build_size td _ dummy_struct Hi), map_map. split; [reflexivity|]. destruct l; [discriminate|reflexivity].
    - change (in_struct (Block i BDiag td l)) with (build dummy_struct td (map (@in_struct K) l)).
      change (out_struct (Block i BDiag td l)) with (build dummy_struct td (map (@out_struct K) l)).
      rewrite (build_size td _ dummy_struct Hi), (build_size td _ dummy_struct Ho), !map_map. split; reflexivity.
    - change (out_struct (Block i BCol td l)) with (build dummy_struct td (map (@out_struct K) l)).
      rewrite (build_size td _ dummy_struct Ho), map_map. split; [|reflexivity]. destruct l; [discriminate|reflexivity].
  Qed.
End SizesL.

(* in_promoted_dtype / out_promoted_dtype: the least upper bound of the leaf dtypes in the lattice *)
Lemma promoted_is_join x64 s r : promoted x64 s = Some r ->
  exists ts n, map sd_ty (flatten s) = map Some ts /\ r = ST.node_ty x64 n /\
    (forall u, In u ts -> ST.nle (ST.node_of u) n = true) /\
    (forall c, (forall u, In u ts -> ST.nle (ST.node_of u) c = true) -> ST.nle n c = true).
Proof.
  unfold promoted. destruct (ST.all_some (map sd_ty (flatten s))) as [ts|] eqn:Ea; [|discriminate].
  intros H. assert (Hm : map sd_ty (flatten s) = map Some ts).
  { clear H. revert ts Ea. generalize (map sd_ty (flatten s)). induction l as [|[x|] l IH]; intros ts Ea; cbn in Ea; try discriminate.
    - inversion Ea; reflexivity.
    - destruct (ST.all_some l) as [ts'|]; [|discriminate]. cbn in Ea. inversion Ea; subst. cbn. f_equal. now apply IH. }
  destruct ts as [|t ts]; [discriminate|].
  destruct (StokesTreeL.result_ty_lub_l x64 t ts r H) as (n & Hn & Hub & Hl). exists (t :: ts), n. auto.
Qed.

(* ====================================================================================== *)
(* Structures of transposes                                                                 *)
Section TransposeL.
  Variable K : Type.
  Notation op := (op K).
  Notation T := (@transpose K).
  Notation SW := (fun e : op => in_struct (T e) = out_struct e /\ out_struct (T e) = in_struct e).

  Lemma last_rev_hd A (l : list A) d : last (rev l) d = hd d l.
  Proof. destruct l as [|a l]; [reflexivity|]. cbn [rev hd]. apply last_last. Qed.
  Lemma hd_rev_last A (l : list A) d : hd d (rev l) = last l d.
  Proof.
    induction l as [|a l IH]; [reflexivity|]. cbn [rev]. destruct l as [|b l]; [reflexivity|].
    change (last (a :: b :: l) d) with (last (b :: l) d). rewrite <- IH.
    destruct (rev (b :: l)) eqn:E; [|reflexivity]. apply (f_equal (@List.length A)) in E. rewrite rev_length in E. discriminate.
  Qed.
  Lemma map_in_T (l : list op) : Forall SW l -> map (@in_struct K) (map T l) = map (@out_struct K) l.
  Proof. induction 1 as [|e l [H1 H2] _ IH]; cbn; [reflexivity|]. now rewrite H1, IH. Qed.
  Lemma map_out_T (l : list op) : Forall SW l -> map (@out_struct K) (map T l) = map (@in_struct K) l.
  Proof. induction 1 as [|e l [H1 H2] _ IH]; cbn; [reflexivity|]. now rewrite H2, IH. Qed.
  Lemma SW_IH (l : list op) :
    Forall (fun e => wfo e = true -> prims_sane e = true -> SW e) l -> allwf K l = true -> forallb (@prims_sane K) l = true ->
    Forall SW l.
  Proof.
    intros IH Hw Hs. apply allwf_Forall in Hw. rewrite forallb_forall in Hs.
    induction IH as [|e l He _ IHl]; [constructor|]. inversion Hw; subst. constructor.
    - apply He; [assumption|]. apply Hs. now left.
    - apply IHl; [assumption|]. intros x Hx. apply Hs. now right.
  Qed.

  Theorem transpose_structs_l : forall e : op, wfo e = true -> prims_sane e = true ->
    in_struct (transpose e) = out_struct e /\ out_struct (transpose e) = in_struct e.
  Proof.
    induction e as [i c si so p|i w e IH|i s|i k s|i l IH|i l IH|i b td l IH] using op_ind'; intros Hw Hs.
    - cbn [prims_sane] in Hs. cbn [transpose].
      destruct (returns_self_on_transpose c) eqn:Er.
      + cbn [negb orb] in Hs. unfold in_struct, out_struct. cbn [structs]. rewrite Hs. cbn. auto.
      + destruct c; try discriminate; destruct p; unfold in_struct, out_struct; cbn; auto.
    - cbn [Wf.wfo] in Hw. apply andb_true_iff in Hw as [Hwx Hsq].
      destruct (wrap_structs K i w e) as [W1 W2].
      destruct w; cbn [transpose]; try (rewrite W1, W2; split; reflexivity).
      + destruct (wrap_structs K fresh WTranspose (Wrap i WInverse e)) as [V1 V2]. rewrite V1, V2. auto.
      + cbn in Hsq. unfold is_square in Hsq. apply struct_eqb_eq in Hsq. rewrite W1, W2. auto.
    - split; reflexivity.
    - split; reflexivity.
    - rewrite wfo_comp in Hw. apply andb_true_iff in Hw as [Hw Hall]. apply andb_true_iff in Hw as [Hne Hc].
      cbn [prims_sane] in Hs. pose proof (SW_IH l IH Hall Hs) as HF.
      assert (Hl : l <> []) by (destruct l; [discriminate|discriminate]).
      assert (Hl' : rev (map T l) <> []).
      { intros E. apply (f_equal (@List.length op)) in E. rewrite rev_length, map_length in E. destruct l; [congruence|discriminate]. }
      cbn [transpose]. set (d := Ident 0%N dummy_struct : op).
      rewrite (in_struct_comp K fresh _ d Hl'), (out_struct_comp K fresh _ d Hl'), last_rev_hd, hd_rev_last.
      rewrite (in_struct_comp K i l d Hl), (out_struct_comp K i l d Hl).
      destruct l as [|a r]; [congruence|]. inversion HF as [|? ? [Ha1 Ha2] Hr]; subst. cbn [map hd]. split; [exact Ha1|].
      (* last of the mapped list *)
      clear - HF. change (T a :: map T r) with (map T (a :: r)). generalize dependent (a :: r). intros l0 HF.
      induction HF as [|e l1 [H1 H2] Hl1 IHl]; [reflexivity|]. destruct l1 as [|b l1]; [exact H2|].
      change (map T (e :: b :: l1)) with (T e :: map T (b :: l1)).
      change (last (T e :: map T (b :: l1)) d) with (last (map T (b :: l1)) d).
      change (last (e :: b :: l1) d) with (last (b :: l1) d). exact IHl.
    - rewrite wfo_add in Hw. apply andb_true_iff in Hw as [Hw Hall]. apply andb_true_iff in Hw as [Hne _].
      cbn [prims_sane] in Hs. pose proof (SW_IH l IH Hall Hs) as HF.
      destruct l as [|a r]; [discriminate|]. inversion HF as [|? ? [Ha1 Ha2] Hr]; subst. cbn [transpose map].
      split; [exact Ha1|exact Ha2].
    - rewrite wfo_block in Hw. apply andb_true_iff in Hw as [Hw Hall]. apply andb_true_iff in Hw as [Hw _].
      apply andb_true_iff in Hw as [Hne _]. cbn [prims_sane] in Hs. pose proof (SW_IH l IH Hall Hs) as HF.
      cbn [transpose]. unfold in_struct, out_struct. destruct b; cbn [structs fst snd];
        fold (@in_struct K); fold (@out_struct K);
        rewrite ?map_map;
        change (map (fun x => fst (structs (T x))) l) with (map (fun x => in_struct (T x)) l);
        change (map (fun x => snd (structs (T x))) l) with (map (fun x => out_struct (T x)) l);
        change (map (fun x : op => fst (structs x)) l) with (map (@in_struct K) l);
        change (map (fun x : op => snd (structs x)) l) with (map (@out_struct K) l);
        rewrite <- ?(map_map T (@in_struct K)), <- ?(map_map T (@out_struct K)), ?(map_in_T l HF), ?(map_out_T l HF); auto.
  Qed.
End TransposeL.

(* ====================================================================================== *)
(* Second stage on values: the executable leaf semantics of Model/Exec.v (dense matrices measured
   on the real objects) returns values of the declared output structure                        *)
From Furax Require Import Model.Exec.

Lemma has_struct_vhas : forall (x : xvalue) s, has_struct x s = vhas x s.
Proof.
  induction x as [d|k cs IH] using pt_ind'; intros [sd|k' ss]; reflexivity.
Qed.

Lemma unflatten_has : forall s (v : list K), struct_size s <= List.length v ->
  vhas (fst (unflatten s v)) s = true /\ List.length (snd (unflatten s v)) = List.length v - struct_size s.
Proof.
  induction s as [sd|k ss IH] using pt_ind'; intros v Hv.
  - cbn [unflatten fst snd vhas]. unfold struct_size in Hv. cbn in Hv. rewrite Nat.add_0_r in Hv.
    rewrite firstn_length, skipn_length. split; [apply Nat.eqb_eq; lia|]. unfold struct_size. cbn. lia.
  - cbn [unflatten].
    assert (Hl : forall v, sumn (map struct_size ss) <= List.length v ->
      let r := (fix go (ss : list struct) (v : list K) : list xvalue * list K :=
                  match ss with
                  | [] => ([], v)
                  | s :: ss' => let '(c, r1) := unflatten s v in let '(cs, r2) := go ss' r1 in (c :: cs, r2)
                  end) ss v in
      Forall2 (fun (a : xvalue) b => vhas a b = true) (fst r) ss /\
      List.length (snd r) = List.length v - sumn (map struct_size ss)).
    { clear v Hv. induction IH as [|s r Hs _ IHr]; intros v Hv.
      - cbn. split; [constructor|lia].
      - cbn [map] in Hv. unfold sumn in Hv; cbn [fold_right] in Hv; fold (sumn (map struct_size r)) in Hv.
        destruct (Hs v ltac:(lia)) as [H1 H2]. destruct (unflatten s v) as [c r1]. cbn [fst snd] in H1, H2.
        destruct (IHr r1 ltac:(lia)) as [H3 H4].
        cbn zeta in H3, H4.
        destruct ((fix go (ss : list struct) (v : list K) : list xvalue * list K :=
                  match ss with
                  | [] => ([], v)
                  | s :: ss' => let '(c, r1) := unflatten s v in let '(cs, r2) := go ss' r1 in (c :: cs, r2)
                  end) r r1) as [cs r2]. cbn [fst snd] in *. split; [constructor; auto|].
        cbn [map]. unfold sumn; cbn [fold_right]; fold (sumn (map struct_size r)). lia. }
    assert (Hsz : struct_size (Node k ss) = sumn (map struct_size ss)).
    { rewrite struct_size_sumn. cbn [flatten]. clear. induction ss as [|s ss IHs]; [reflexivity|].
      cbn [flat_map map]. rewrite map_app, sumn_app, IHs. unfold sumn at 3. cbn [fold_right]. now rewrite struct_size_sumn. }
    rewrite Hsz in *. destruct (Hl v Hv) as [H1 H2]. cbn zeta in H1, H2.
    destruct ((fix go (ss : list struct) (v : list K) : list xvalue * list K :=
                  match ss with
                  | [] => ([], v)
                  | s :: ss' => let '(c, r1) := unflatten s v in let '(cs, r2) := go ss' r1 in (c :: cs, r2)
                  end) ss v) as [cs r]. cbn [fst snd] in *. split; [|exact H2].
    apply (vhas_node K). auto.
Qed.

(* a measured matrix with one row per output element gives values of the output structure *)
Lemma apply_matrix_honest m si so (x y : xvalue) : struct_size so <= List.length m ->
  apply_matrix m si so x = Some y -> vhas y so = true.
Proof.
  unfold apply_matrix. destruct (has_struct x si); [|discriminate]. intros Hm H. inversion H; subst.
  apply unflatten_has. unfold matvec. now rewrite map_length.
Qed.

(* every leaf operator whose action the executable model takes from a matrix measured on the real
   object (one row per element of the declared output structure) satisfies the leaf fact of
   out_structure_honest; so the hypothesis of the theorem is met by the real semantics *)
Theorem exec_leaf_honest_measured tb (e : xop) m : leaflike K e = true -> oid e <> 0%N ->
  lookup tb (2 * oid e)%N = Some m -> struct_size (out_struct e) <= List.length m ->
  leaf_honest K (leafsem tb) e.
Proof.
  intros Hl Hi Hm Hrows x y Hx Hy. unfold leafsem in Hy.
  destruct (negb (has_struct x (in_struct e))); [discriminate|].
  destruct e as [i c si so p|i w inner| | | | |]; try discriminate; cbn [oid] in Hi, Hm;
    rewrite (proj2 (N.eqb_neq i 0%N) Hi), Hm in Hy; eapply apply_matrix_honest; eauto.
Qed.
Theorem exec_leaf_defined_measured tb (e : xop) m : leaflike K e = true -> oid e <> 0%N ->
  lookup tb (2 * oid e)%N = Some m -> leaf_defined K (leafsem tb) e.
Proof.
  intros Hl Hi Hm x Hx. unfold leafsem. rewrite has_struct_vhas, Hx. cbn [negb].
  destruct e as [i c si so p|i w inner| | | | |]; try discriminate; cbn [oid] in Hi, Hm;
    rewrite (proj2 (N.eqb_neq i 0%N) Hi), Hm; unfold apply_matrix; rewrite has_struct_vhas, Hx; eexists; reflexivity.
Qed.

(* ---------- statements of Props/C05.v proved here ---------- *)
Lemma sizes_agree_l (K0 : Type) (kadd kmul : K0 -> K0 -> K0) (leafsem : op K0 -> value K0 -> option (value K0)) (e : op K0) :
  wfo e = true -> Forall (leaf_honest K0 leafsem) (leaves e) ->
  forall x y, vhas x (in_struct e) = true -> denote kadd kmul leafsem e x = Some y ->
  vsize x = in_size e /\ vsize y = out_size e.
Proof.
  intros Hw HL x y Hx Hy. split; [exact (vhas_size K0 x _ Hx)|].
  exact (vhas_size K0 y _ (out_structure_honest_l K0 kadd kmul leafsem e Hw HL x y Hx Hy)).
Qed.
Lemma composite_structs_l (K0 : Type) (i : N) :
  (forall (l : list (op K0)) d, l <> [] -> in_struct (Comp i l) = in_struct (last l d) /\ out_struct (Comp i l) = out_struct (hd d l)) /\
  (forall (l : list (op K0)) d, l <> [] -> in_struct (AddOp i l) = in_struct (hd d l) /\ out_struct (AddOp i l) = out_struct (hd d l)) /\
  (forall td (l : list (op K0)),
     in_struct (Block i BDiag td l) = build dummy_struct td (map (@in_struct K0) l) /\
     out_struct (Block i BDiag td l) = build dummy_struct td (map (@out_struct K0) l) /\
     in_struct (Block i BRow td l) = build dummy_struct td (map (@in_struct K0) l) /\
     out_struct (Block i BRow td l) = hd dummy_struct (map (@out_struct K0) l) /\
     in_struct (Block i BCol td l) = hd dummy_struct (map (@in_struct K0) l) /\
     out_struct (Block i BCol td l) = build dummy_struct td (map (@out_struct K0) l)) /\
  (forall w (x : op K0), in_struct (Wrap i w x) = out_struct x /\ out_struct (Wrap i w x) = in_struct x).
Proof.
  split; [|split; [|split]].
  - intros l d Hl. split; [apply BuildL.in_struct_comp|apply BuildL.out_struct_comp]; exact Hl.
  - intros [|a l] d Hl; [congruence|]. split; reflexivity.
  - intros td l. repeat split; reflexivity.
  - intros w x. apply BuildL.wrap_structs.
Qed.
