(* Comparison functions used to tie the regenerated tables (Gen/Tables.v) to the model. *)
From Coq Require Import List Bool String.
From Furax Require Import Model.Op Model.Algebra.
Import ListNotations.

Definition ocls_eqb (a b : option (list cls)) : bool :=
  match a, b with
  | None, None => true
  | Some x, Some y => list_eqb cls_eqb x y
  | _, _ => false
  end.
Definition guard_eqb (a b : guard) : bool :=
  ocls_eqb (g_any a) (g_any b) && ocls_eqb (g_left a) (g_left b) && ocls_eqb (g_right a) (g_right b).
Definition rule_eq_dec (a b : rule_id) : {a = b} + {a <> b}.
Proof. decide equality. Defined.
Definition rule_eqb (a b : rule_id) : bool := if rule_eq_dec a b then true else false.
Definition guards_as_modelled (t : list (rule_id * guard)) : bool :=
  forallb (fun p => guard_eqb (guard_of (fst p)) (snd p)) t.
Definition subclass_as_modelled (classes : list cls) (t : list (cls * list cls)) : bool :=
  forallb (fun p => forallb (fun d => Bool.eqb (subclass (fst p) d) (existsb (cls_eqb d) (snd p))) classes) t
  && list_eqb cls_eqb (map fst t) classes.
Definition all_registered (order : list rule_id) : bool :=
  forallb (fun r => existsb (rule_eqb r) order) default_order
  && forallb (fun r => Nat.eqb (List.length (filter (rule_eqb r) order)) 1) order.

(* ---------- AbstractBinaryRule.check: the primitives the translated body (Gen/Tables.v gen_generic_check) is
   written in, and the lemmas relating them to Model/Algebra.v guard_ok ---------- *)
Section CheckPrims.
  Variable K : Type.
  Variable keqb : K -> K -> bool.
  (* self.<attr> is not None *)
  Definition attr_set (a : option (list cls)) : bool := match a with Some _ => true | None => false end.
  (* self.<attr> is <class>: the attribute is that very class (not a tuple, not a subclass) *)
  Definition attr_is (a : option (list cls)) (c : cls) : bool :=
    match a with Some [c'] => cls_eqb c' c | _ => false end.
  (* isinstance(e, self.<attr>); the translator refuses an occurrence where the attribute may be None *)
  Definition py_isinstance (e : op K) (a : option (list cls)) : bool :=
    match a with Some cs => is_a e cs | None => false end.
  (* w.operator is x; the translator refuses an occurrence not guarded by "the class attribute of w's side is a lazy
     wrapper class" *)
  Definition operator_is (w x : op K) : bool :=
    match wrapped w with Some y => same keqb y x | None => false end.

  Lemma attr_is_transpose : forall a, attr_is a CTranspose = is_exactly_transpose a.
  Proof.
    intros [[|c [|c' l]]|]; simpl; try reflexivity; destruct c; reflexivity.
  Qed.
End CheckPrims.
Arguments py_isinstance {K} e a.
Arguments operator_is {K} keqb w x.

(* which class defines the check() a registered rule resolves to, as the model assumes: every rule goes through the
   generic check; InverseBinaryRule adds its identity test (modelled in apply_rule RInverse) *)
Definition modelled_check_owner (r : rule_id) : string :=
  match r with RInverse => "InverseBinaryRule"%string | _ => "AbstractBinaryRule"%string end.
Definition check_owners_as_modelled (t : list (rule_id * string)) : bool :=
  forallb (fun p => String.eqb (snd p) (modelled_check_owner (fst p))) t.
(* InverseBinaryRule.check as it was when apply_rule RInverse was written (tools/translate/tables.py normalised_source) *)
Definition pinned_inverse_check_src : string := "def check(self, left, right): Expr(Call(Attribute(Call(Name('super', Load()), [], []), 'check', Load()), [Name('left', Load()), Name('right', Load())], [])); If(Call(Name('isinstance', Load()), [Name('left', Load()), Attribute(Name('self', Load()), 'operator_class', Load())], []), [If(Compare(Attribute(Name('left', Load()), 'operator', Load()), [IsNot()], [Name('right', Load())]), [Raise(Name('NoReduction', Load()))], [])], [Assert(Call(Name('isinstance', Load()), [Name('right', Load()), Attribute(Name('self', Load()), 'operator_class', Load())], [])), If(Compare(Attribute(Name('right', Load()), 'operator', Load()), [IsNot()], [Name('left', Load())]), [Raise(Name('NoReduction', Load()))], [])])"%string.
