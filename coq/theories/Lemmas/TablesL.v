(* Comparison functions used to tie the regenerated tables (Gen/Tables.v) to the model. *)
From Coq Require Import List Bool String.
From Furax Require Import Model.Op Model.Algebra.
Import ListNotations.

Definition ocls_eqb (a b : option (list cls)) : bool :=
  match a, b with
  | None, None => true
  | Some x, Some y => list_eqb cls_eqb x y
  | _, _ => false
  end.
Definition guard_eqb (a b : guard) : bool :=
  ocls_eqb (g_any a) (g_any b) && ocls_eqb (g_left a) (g_left b) && ocls_eqb (g_right a) (g_right b).
Definition rule_eq_dec (a b : rule_id) : {a = b} + {a <> b}.
Proof. decide equality. Defined.
Definition rule_eqb (a b : rule_id) : bool := if rule_eq_dec a b then true else false.
Definition guards_as_modelled (t : list (rule_id * guard)) : bool :=
  forallb (fun p => guard_eqb (guard_of (fst p)) (snd p)) t.
Definition subclass_as_modelled (classes : list cls) (t : list (cls * list cls)) : bool :=
  forallb (fun p => forallb (fun d => Bool.eqb (subclass (fst p) d) (existsb (cls_eqb d) (snd p))) classes) t
  && list_eqb cls_eqb (map fst t) classes.
Definition all_registered (order : list rule_id) : bool :=
  forallb (fun r => existsb (rule_eqb r) order) default_order
  && forallb (fun r => Nat.eqb (List.length (filter (rule_eqb r) order)) 1) order.
