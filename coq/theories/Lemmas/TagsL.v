(* C08 - proofs about Model/Tags.v: every (class, query) pair of `proved` holds for ALL legal
   parameters of the class, over any commutative ring. *)
From Coq Require Import ZArith List Bool String Lia Ring.
From Furax Require Import Model.Op Model.Toeplitz Model.Tags Lemmas.ToeplitzL.
Import ListNotations.
Open Scope Z_scope.

(* ------------------------------------------------------------------------------------------ *)
(* shapes *)
Lemma shape_eqb_eq a : forall b, shape_eqb a b = true -> a = b.
Proof.
  induction a as [|x a IH]; intros [|y b] H; cbn in H; try discriminate; [reflexivity|].
  apply andb_true_iff in H. destruct H as [H1 H2]. apply Z.eqb_eq in H1. f_equal; auto.
Qed.
Lemma shape_eqb_refl a : shape_eqb a a = true.
Proof. induction a; cbn; [reflexivity|]. rewrite Z.eqb_refl. exact IHa. Qed.

Lemma not_wider_bcast sx sp : not_wider sx sp = true -> broadcast_shapes sx sp = Some sx.
Proof.
  unfold not_wider. destruct (broadcast_shapes sx sp) as [r|]; [|discriminate].
  intros H. apply shape_eqb_eq in H. rewrite H. reflexivity.
Qed.

(* a 0-d factor leaves every shape as it is *)
Lemma bcast_nil_l sh : broadcast_shapes [] sh = Some sh.
Proof. unfold broadcast_shapes. cbn. rewrite rev_involutive. reflexivity. Qed.
Lemma bcast_nil_struct st : oseq (map (fun leaf => broadcast_shapes [] leaf) st) = Some st.
Proof. induction st as [|sh st IH]; cbn [map oseq]; [reflexivity|]. rewrite bcast_nil_l, IH. reflexivity. Qed.
(* the scalar check of __rmul__ / __truediv__ accepts exactly the 0-d factors *)
Lemma scale_ctor_iff v : scale_ctor v = CtorOk <-> v = [].
Proof. destruct v; cbn; split; intros H; try reflexivity; discriminate. Qed.

(* flat index = leaf * N + pixel *)
Lemma flat_div l N t : 0 <= t < N -> (l * N + t) / N = l.
Proof. intros. rewrite Z.div_add_l by lia. rewrite Z.div_small by lia. lia. Qed.
Lemma flat_mod l N t : 0 <= t < N -> (l * N + t) mod N = t.
Proof. intros. rewrite Z.add_comm, Z.mod_add by lia. apply Z.mod_small. lia. Qed.
Lemma flat_eqb l N t q : 0 <= t < N -> (l * N + t =? q) = (l =? q / N) && (t =? q mod N).
Proof.
  intros Ht. pose proof (Z.div_mod q N ltac:(lia)). pose proof (Z.mod_pos_bound q N ltac:(lia)).
  destruct (Z.eqb_spec (l * N + t) q) as [E|E].
  - subst q. rewrite flat_div, flat_mod by lia. rewrite !Z.eqb_refl. reflexivity.
  - symmetry. apply andb_false_iff.
    destruct (Z.eqb_spec l (q / N)) as [E1|E1]; [|now left].
    destruct (Z.eqb_spec t (q mod N)) as [E2|E2]; [|now right].
    exfalso. apply E. subst. lia.
Qed.
Lemma eqb_divmod p q N : 0 < N -> (p =? q) = (p / N =? q / N) && (p mod N =? q mod N).
Proof.
  intros HN. pose proof (Z.div_mod p N ltac:(lia)). pose proof (Z.mod_pos_bound p N HN).
  rewrite H at 1. rewrite (Z.mul_comm N). apply flat_eqb. lia.
Qed.
Lemma flat_range L N p : 0 < N -> 0 <= p < L * N -> 0 <= p / N < L /\ 0 <= p mod N < N.
Proof.
  intros HN Hp. pose proof (Z.div_mod p N ltac:(lia)). pose proof (Z.mod_pos_bound p N HN).
  split; [|lia]. split; [apply Z.div_pos; lia|]. apply Z.div_lt_upper_bound; lia.
Qed.

Section L.
  Variable K : Type.
  Variables (k0 k1 : K) (kadd kmul ksub : K -> K -> K) (kopp : K -> K).
  Variable kinv : K -> K.
  Variable kle : K -> K -> Prop.
  Hypothesis Kth : ring_theory k0 k1 kadd kmul ksub kopp (@eq K).
  Add Ring Kr : Kth.
  Infix "+k" := kadd (at level 50, left associativity).
  Infix "*k" := kmul (at level 40, left associativity).

  Notation sumZ := (Toeplitz.sumZ K k0 kadd).
  Notation mat := (mat K).
  Notation vec := (vec K).
  Notation basis := (basis K k0 k1).
  Notation delta := (delta K k0 k1).
  Notation matrix_of := (matrix_of K k0 k1).
  Notation m_square := (m_square K).
  Notation m_symmetric := (m_symmetric K).
  Notation m_diagonal := (m_diagonal K k0).
  Notation m_lower := (m_lower K k0).
  Notation m_upper := (m_upper K k0).
  Notation m_tridiagonal := (m_tridiagonal K k0).
  Notation m_orthogonal := (m_orthogonal K k0 k1 kadd kmul).
  Notation mtranspose := (mtranspose K).
  Notation holds := (holds K k0 k1 kadd kmul kle).
  Notation sem_cm := (sem_cm K k0 k1 kadd kmul kle).
  Notation sem := (sem K k0 k1 kadd kmul ksub kopp kinv kle).
  Notation sumZ_ext := (sumZ_ext K k0 kadd).
  Notation sumZ_zero := (sumZ_zero K k0 k1 kadd kmul ksub kopp Kth).
  Notation sumZ_app := (sumZ_app K k0 k1 kadd kmul ksub kopp Kth).
  Notation sumZ_shift := (sumZ_shift K k0 kadd).
  Notation sumZ_snoc := (sumZ_snoc K k0 k1 kadd kmul ksub kopp Kth).
  Notation sumZ_restrict := (sumZ_restrict K k0 k1 kadd kmul ksub kopp Kth).

  (* ---------------------------------------------------------------------------------------- *)
  (* finite sums *)
  (* a sum whose terms vanish except at a *)
  Lemma sum_single g n a : 0 <= a < n ->
    (forall i, 0 <= i < n -> i <> a -> g i = k0) -> sumZ g 0 (Z.to_nat n) = g a.
  Proof.
    intros Ha Hz. rewrite (sumZ_restrict g 0 (Z.to_nat n) a 1%nat); try lia.
    - cbn. ring.
    - intros i Hi Hn. apply Hz; lia.
  Qed.
  (* a sum over leaf * N + pixel is a double sum *)
  Lemma sum_blocks f (N : nat) : forall L : nat,
    sumZ f 0 (L * N) = sumZ (fun l => sumZ (fun x => f (l * Z.of_nat N + x)) 0 N) 0 L.
  Proof.
    induction L as [|L IH]; [reflexivity|].
    rewrite sumZ_snoc, <- IH. replace (S L * N)%nat with (L * N + N)%nat by lia.
    rewrite sumZ_app. f_equal. rewrite Z.add_0_l.
    replace (Z.of_nat (L * N)) with (0 + Z.of_nat (L * N)) by lia. rewrite sumZ_shift.
    apply sumZ_ext. intros i _. f_equal. lia.
  Qed.

  (* ---------------------------------------------------------------------------------------- *)
  (* a diagonal matrix is symmetric and lower/upper triangular and tridiagonal *)
  Lemma diag_sym M : m_diagonal M -> m_symmetric M.
  Proof.
    intros [Hs Hd]. split; [exact Hs|]. intros i j Hi Hj.
    destruct (Z.eq_dec i j) as [->|Hn]; [reflexivity|].
    rewrite (Hd i j Hi Hj Hn), (Hd j i Hj Hi); auto.
  Qed.
  Lemma diag_lower M : m_diagonal M -> m_lower M.
  Proof. intros [Hs Hd]. split; [exact Hs|]. intros i j Hi Hj Hlt. apply Hd; auto; lia. Qed.
  Lemma diag_upper M : m_diagonal M -> m_upper M.
  Proof. intros [Hs Hd]. split; [exact Hs|]. intros i j Hi Hj Hlt. apply Hd; auto; lia. Qed.
  Lemma diag_tri M : m_diagonal M -> m_tridiagonal M.
  Proof. intros [Hs Hd]. split; [exact Hs|]. intros i j Hi Hj Hlt. apply Hd; auto; lia. Qed.

  (* an operator that multiplies every component by a factor has a diagonal matrix *)
  Lemma scaled_diag (mv : vec -> vec) (f : vec) n :
    (forall x p, inr n p -> mv x p = f p *k x p) -> m_diagonal (matrix_of mv n n).
  Proof.
    intros Hmv. split; [reflexivity|]. cbn. intros i j Hi Hj Hn. rewrite (Hmv _ _ Hi).
    unfold Tags.basis. destruct (Z.eqb_spec i j); [contradiction|]. ring.
  Qed.
  (* ... and is orthogonal when the factors square to one *)
  Lemma scaled_orth (mv : vec -> vec) (f : vec) n :
    (forall x p, inr n p -> mv x p = f p *k x p) -> (forall p, inr n p -> f p *k f p = k1) ->
    m_orthogonal (matrix_of mv n n).
  Proof.
    intros Hmv Hf. split; [reflexivity|]. cbn. intros i j Hi Hj. unfold inr in *. split.
    - rewrite (sum_single _ n i Hi).
      + rewrite !Hmv by exact Hi. unfold Tags.basis, Tags.delta. rewrite Z.eqb_refl.
        destruct (Z.eqb_spec i j); [transitivity (f i *k f i); [ring | exact (Hf i Hi)] | ring].
      + intros k Hk Hne. rewrite !Hmv by exact Hk. unfold Tags.basis.
        destruct (Z.eqb_spec k i); [contradiction|]. ring.
    - rewrite (sum_single _ n i Hi).
      + rewrite !Hmv by assumption. unfold Tags.basis, Tags.delta. rewrite Z.eqb_refl.
        rewrite (Z.eqb_sym j i). destruct (Z.eqb_spec i j) as [->|]; [transitivity (f j *k f j); [ring | exact (Hf j Hj)] | ring].
      + intros k Hk Hne. rewrite !Hmv by assumption. unfold Tags.basis.
        destruct (Z.eqb_spec i k) as [E|E]; [exfalso; apply Hne; symmetry; exact E|]. ring.
  Qed.

  (* the factor of each class *)
  Lemma id_factor x p : id_mv K x p = k1 *k x p.
  Proof. unfold id_mv. ring. Qed.
  Definition hwp_factor (s : stokes) (N : Z) : vec := fun p =>
    let l := p / N in
    match s with
    | SI => k1
    | SQU => if l =? 0 then k1 else kopp k1
    | SIQU | SIQUV => if l <? 2 then k1 else kopp k1
    end.
  Lemma hwp_is_factor s N x p : hwp_mv K kopp s N x p = hwp_factor s N p *k x p.
  Proof.
    unfold hwp_mv, hwp_factor. destruct s; try ring;
      match goal with |- context [if ?b then _ else _] => destruct b end; ring.
  Qed.
  Lemma hwp_factor_sq s N p : hwp_factor s N p *k hwp_factor s N p = k1.
  Proof.
    unfold hwp_factor. destruct s; try ring;
      match goal with |- context [if ?b then _ else _] => destruct b end; ring.
  Qed.

  (* ---------------------------------------------------------------------------------------- *)
  (* relabellings (MoveAxisOperator) *)
  Lemma gather_orth p : pm_legal p ->
    m_orthogonal (matrix_of (gather_mv K (pm_tau p)) (pm_n p) (pm_n p)).
  Proof.
    intros [Ht Hs]. split; [reflexivity|]. cbn. unfold gather_mv, Tags.basis, Tags.delta, inr in *.
    intros i j Hi Hj. split.
    - destruct (Hs i Hi) as [Hr Hts]. rewrite (sum_single _ (pm_n p) (pm_sigma p i) Hr).
      + rewrite Hts, Z.eqb_refl. destruct (Z.eqb_spec i j); ring.
      + intros k Hk Hne. destruct (Z.eqb_spec (pm_tau p k) i) as [E|E]; [|ring].
        exfalso. apply Hne. rewrite <- E. symmetry. apply Ht. exact Hk.
    - destruct (Ht i Hi) as [Hr Hst]. rewrite (sum_single _ (pm_n p) (pm_tau p i) Hr).
      + rewrite Z.eqb_refl. destruct (Z.eqb_spec i j) as [->|Hne].
        * rewrite Z.eqb_refl. ring.
        * destruct (Z.eqb_spec (pm_tau p j) (pm_tau p i)) as [E|E]; [|ring].
          exfalso. apply Hne. rewrite <- Hst, <- E. apply Ht. exact Hj.
      + intros k Hk Hne. destruct (Z.eqb_spec (pm_tau p i) k) as [E|E]; [exfalso; apply Hne; symmetry; exact E|]. ring.
  Qed.

  (* ---------------------------------------------------------------------------------------- *)
  (* transposes *)
  Lemma orth_transpose M : m_orthogonal M -> m_orthogonal (mtranspose M).
  Proof.
    intros [Hs Ho]. unfold Tags.m_square in Hs. split; [unfold Tags.m_square; cbn; symmetry; exact Hs|]. cbn.
    rewrite <- Hs. intros i j Hi Hj. destruct (Ho i j Hi Hj) as [H1 H2]. split; assumption.
  Qed.
  (* two matrices with the same entries on the index range *)
  Definition mat_eq (A B : mat) : Prop :=
    mrows A = mrows B /\ mcols A = mcols B /\
    forall i j, inr (mrows A) i -> inr (mcols A) j -> ment A i j = ment B i j.
  Lemma orth_ext A B : mat_eq A B -> m_orthogonal A -> m_orthogonal B.
  Proof.
    intros (Hr & Hc & He) [Hs Ho]. unfold Tags.m_square in *. split; [congruence|].
    rewrite <- Hr. intros i j Hi Hj. destruct (Ho i j Hi Hj) as [H1 H2]. split.
    - rewrite <- H1. apply sumZ_ext. intros k Hk. rewrite !He; auto; unfold inr in *; lia.
    - rewrite <- H2. apply sumZ_ext. intros k Hk. rewrite !He; auto; unfold inr in *; lia.
  Qed.

  (* MoveAxisOperator(dst, src) - what .T and .I of MoveAxisOperator(src, dst) return - relabels by
     the inverse permutation: its matrix is the transposed matrix *)
  Lemma gather_transpose p : pm_legal p ->
    mat_eq (matrix_of (gather_mv K (pm_sigma p)) (pm_n p) (pm_n p))
           (mtranspose (matrix_of (gather_mv K (pm_tau p)) (pm_n p) (pm_n p))).
  Proof.
    intros [Ht Hs]. split; [reflexivity|]. split; [reflexivity|]. cbn.
    unfold gather_mv, Tags.basis. intros i j Hi Hj.
    destruct (Z.eqb_spec (pm_sigma p i) j) as [E|E]; destruct (Z.eqb_spec (pm_tau p j) i) as [F|F];
      try reflexivity; exfalso.
    - apply F. rewrite <- E. apply Hs. exact Hi.
    - apply E. rewrite <- F. apply Ht. exact Hj.
  Qed.

  (* ---------------------------------------------------------------------------------------- *)
  (* matrices made of one small block per pixel (Stokes operators):
       M[p, q] = B t (p / N) (q / N) when p and q are the same pixel t, and 0 otherwise *)
  Definition block_form (M : mat) (L N : Z) (B : Z -> Z -> Z -> K) : Prop :=
    mrows M = L * N /\ mcols M = L * N /\
    forall p q, inr (L * N) p -> inr (L * N) q ->
      ment M p q = if p mod N =? q mod N then B (p mod N) (p / N) (q / N) else k0.

  Lemma block_form_T M L N B : block_form M L N B ->
    block_form (mtranspose M) L N (fun t l l' => B t l' l).
  Proof.
    intros (Hr & Hc & He). split; [exact Hc|]. split; [exact Hr|]. cbn. intros p q Hp Hq.
    rewrite (He q p Hq Hp), (Z.eqb_sym (p mod N)).
    destruct (Z.eqb_spec (q mod N) (p mod N)) as [->|]; reflexivity.
  Qed.

  Lemma block_gram M L N B : 0 < N -> 0 <= L -> block_form M L N B ->
    forall i j, inr (L * N) i -> inr (L * N) j ->
      sumZ (fun k => ment M k i *k ment M k j) 0 (Z.to_nat (L * N)) =
      if i mod N =? j mod N
      then sumZ (fun l => B (i mod N) l (i / N) *k B (i mod N) l (j / N)) 0 (Z.to_nat L)
      else k0.
  Proof.
    intros HN HL (Hr & Hc & He) i j Hi Hj. unfold inr in *.
    rewrite Z2Nat.inj_mul by lia. rewrite sum_blocks. rewrite Z2Nat.id by lia.
    destruct (flat_range L N i HN Hi) as [Hli Hti]. destruct (flat_range L N j HN Hj) as [Hlj Htj].
    assert (Hin : forall l, 0 <= l < L ->
      sumZ (fun x => ment M (l * N + x) i *k ment M (l * N + x) j) 0 (Z.to_nat N) =
      B (i mod N) l (i / N) *k (if i mod N =? j mod N then B (i mod N) l (j / N) else k0)).
    { intros l Hl. rewrite (sum_single _ N (i mod N) Hti).
      - assert (Hk : 0 <= l * N + i mod N < L * N) by nia.
        rewrite (He _ _ Hk Hi), (He _ _ Hk Hj). rewrite flat_mod, flat_div by lia.
        rewrite Z.eqb_refl. reflexivity.
      - intros x Hx Hne. assert (Hk : 0 <= l * N + x < L * N) by nia.
        rewrite (He _ _ Hk Hi). rewrite flat_mod by lia.
        destruct (Z.eqb_spec x (i mod N)); [contradiction|]. ring. }
    rewrite (sumZ_ext _ (fun l => B (i mod N) l (i / N) *k
                           (if i mod N =? j mod N then B (i mod N) l (j / N) else k0))).
    2:{ intros l Hl. apply Hin. lia. }
    destruct (i mod N =? j mod N); [reflexivity|].
    apply sumZ_zero. intros. ring.
  Qed.

  (* per-pixel orthogonality of the blocks gives orthogonality of the whole matrix *)
  Lemma block_orth M L N B : 0 < N -> 0 <= L -> block_form M L N B ->
    (forall t a b, inr N t -> inr L a -> inr L b ->
       sumZ (fun l => B t l a *k B t l b) 0 (Z.to_nat L) = delta a b /\
       sumZ (fun l => B t a l *k B t b l) 0 (Z.to_nat L) = delta a b) ->
    m_orthogonal M.
  Proof.
    intros HN HL HB Ho. pose proof HB as (Hr & Hc & _).
    split; [unfold Tags.m_square; congruence|]. rewrite Hr. intros i j Hi Hj.
    destruct (flat_range L N i HN Hi) as [Hli Hti]. destruct (flat_range L N j HN Hj) as [Hlj Htj].
    assert (Hd : delta i j = if i mod N =? j mod N then delta (i / N) (j / N) else k0).
    { unfold Tags.delta. rewrite (eqb_divmod i j N HN).
      destruct (i / N =? j / N), (i mod N =? j mod N); reflexivity. }
    split.
    - rewrite (block_gram M L N B HN HL HB i j Hi Hj), Hd.
      destruct (i mod N =? j mod N); [|reflexivity]. apply Ho; assumption.
    - pose proof (block_gram _ L N _ HN HL (block_form_T _ _ _ _ HB) i j Hi Hj) as Hg.
      cbn in Hg. rewrite Hg, Hd. destruct (i mod N =? j mod N); [|reflexivity].
      apply Ho; assumption.
  Qed.

  (* ---------------------------------------------------------------------------------------- *)
  (* QU rotations: the blocks *)
  Notation qurot_mv := (qurot_mv K kadd kmul ksub).
  Notation qurotT_mv := (qurotT_mv K kadd kmul kopp).
  (* the block of pixel t: rows/columns = leaves; (c, s) = (cos 2a, sin 2a) of the pixel *)
  Definition rotB (s : stokes) (c sn : K) (l l' : Z) : K :=
    match s with
    | SI => delta l l'
    | _ =>
        if l =? qleaf s then (if l' =? qleaf s then c else if l' =? qleaf s + 1 then kopp sn else k0)
        else if l =? qleaf s + 1 then (if l' =? qleaf s then sn else if l' =? qleaf s + 1 then c else k0)
        else delta l l'
    end.
  Definition rotBT (s : stokes) (c sn : K) (l l' : Z) : K := rotB s c sn l' l.

  Lemma basis_flat N q l t : 0 <= t < N ->
    basis q (l * N + t) = if (l =? q / N) && (t =? q mod N) then k1 else k0.
  Proof. intros Ht. unfold Tags.basis. rewrite flat_eqb by exact Ht. reflexivity. Qed.
  Lemma basis_pq N p q : 0 < N ->
    basis q p = if (p / N =? q / N) && (p mod N =? q mod N) then k1 else k0.
  Proof. intros HN. unfold Tags.basis. rewrite (eqb_divmod p q N HN). reflexivity. Qed.

  Ltac eqb_cases :=
    repeat match goal with
           | |- context [Z.eqb ?a ?b] => destruct (Z.eqb_spec a b); try lia; cbn [andb]
           end.

  Lemma qurot_block s N c sn : 0 < N ->
    block_form (matrix_of (qurot_mv s N c sn) (nleaves s * N) (nleaves s * N)) (nleaves s) N
               (fun t => rotB s (c t) (sn t)).
  Proof.
    intros HN. split; [reflexivity|]. split; [reflexivity|]. cbn [ment Tags.matrix_of].
    intros p q Hp Hq. destruct (flat_range _ N p HN Hp) as [Hlp Htp].
    destruct (flat_range _ N q HN Hq) as [Hlq Htq].
    unfold Tags.qurot_mv, rotB. rewrite !(basis_flat N q _ (p mod N) Htp), (basis_pq N p q HN).
    unfold Tags.delta.
    destruct s; cbn [qleaf nleaves] in *; eqb_cases; try ring.
  Qed.
  Lemma qurotT_block s N c sn : 0 < N ->
    block_form (matrix_of (qurotT_mv s N c sn) (nleaves s * N) (nleaves s * N)) (nleaves s) N
               (fun t => rotBT s (c t) (sn t)).
  Proof.
    intros HN. split; [reflexivity|]. split; [reflexivity|]. cbn [ment Tags.matrix_of].
    intros p q Hp Hq. destruct (flat_range _ N p HN Hp) as [Hlp Htp].
    destruct (flat_range _ N q HN Hq) as [Hlq Htq].
    unfold Tags.qurotT_mv, rotBT, rotB. rewrite !(basis_flat N q _ (p mod N) Htp), (basis_pq N p q HN).
    unfold Tags.delta.
    destruct s; cbn [qleaf nleaves] in *; eqb_cases; try ring.
  Qed.

  (* one pixel: R^T R = I and R R^T = I, from c^2 + s^2 = 1 *)
  Lemma rotB_orth s c sn a b : c *k c +k sn *k sn = k1 -> inr (nleaves s) a -> inr (nleaves s) b ->
    sumZ (fun l => rotB s c sn l a *k rotB s c sn l b) 0 (Z.to_nat (nleaves s)) = delta a b /\
    sumZ (fun l => rotB s c sn a l *k rotB s c sn b l) 0 (Z.to_nat (nleaves s)) = delta a b.
  Proof.
    intros H Ha Hb. unfold inr in *.
    assert (Hc : c *k c = k1 +k kopp (sn *k sn)) by (rewrite <- H; ring).
    destruct s; cbn [nleaves] in *;
      [change (Z.to_nat 1) with 1%nat | change (Z.to_nat 2) with 2%nat
      | change (Z.to_nat 3) with 3%nat | change (Z.to_nat 4) with 4%nat].
    - assert (a = 0) by lia. assert (b = 0) by lia. subst. cbn. split; ring.
    - assert (Ea : a = 0 \/ a = 1) by lia. assert (Eb : b = 0 \/ b = 1) by lia.
      destruct Ea, Eb; subst; cbn; split; ring [Hc].
    - assert (Ea : a = 0 \/ a = 1 \/ a = 2) by lia. assert (Eb : b = 0 \/ b = 1 \/ b = 2) by lia.
      destruct Ea as [|[|]], Eb as [|[|]]; subst; cbn; split; ring [Hc].
    - assert (Ea : a = 0 \/ a = 1 \/ a = 2 \/ a = 3) by lia.
      assert (Eb : b = 0 \/ b = 1 \/ b = 2 \/ b = 3) by lia.
      destruct Ea as [|[|[|]]], Eb as [|[|[|]]]; subst; cbn; split; ring [Hc].
  Qed.

  (* ---------------------------------------------------------------------------------------- *)
  (* the classes *)
  Notation cm_identity := (cm_identity K k0 k1).
  Notation cm_homothety := (cm_homothety K k0 k1 kmul).
  Notation cm_diagonal := (cm_diagonal K k0 k1 kmul).
  Notation cm_diagonal_inverse := (cm_diagonal_inverse K k0 k1 kmul kinv).
  Notation cm_hwp := (cm_hwp K k0 k1 kopp).
  Notation cm_toeplitz := (cm_toeplitz K k0).
  Notation cm_qurot := (cm_qurot K k0 k1 kadd kmul ksub).
  Notation cm_qurotT := (cm_qurotT K k0 k1 kadd kmul kopp).
  Notation cm_lazy_inv_orth := (cm_lazy_inv_orth K k0 k1 kadd kmul).
  Notation cm_moveaxis := (cm_moveaxis K k0 k1).
  Notation cm_obs_matrix := (cm_obs_matrix K).
  Notation class_model := (class_model K).

  Lemma sem_cm_intro q (m : class_model) : q <> QSquare ->
    (forall p, cm_legal K m p -> holds q (cm_mat K m p)) -> sem_cm q m.
  Proof. intros Hq H p Hp. split; [apply H; exact Hp | intros E; contradiction]. Qed.
  Lemma sem_cm_square (m : class_model) :
    (forall p, cm_legal K m p -> m_square (cm_mat K m p) /\ cm_out K m p = Some (cm_in K m p)) ->
    sem_cm QSquare m.
  Proof. intros H p Hp. destruct (H p Hp). split; [assumption | intros _; assumption]. Qed.

  Definition diag_queries : list tagq := [QDiagonal; QLower; QUpper; QTridiagonal; QSymmetric; QSelfT].
  Lemma holds_of_diag q M : In q diag_queries -> m_diagonal M -> holds q M.
  Proof.
    intros Hq Hd. cbn in Hq.
    destruct Hq as [<-|[<-|[<-|[<-|[<-|[<-|[]]]]]]]; cbn;
      auto using diag_sym, diag_lower, diag_upper, diag_tri.
  Qed.
  Lemma diag_queries_not_square q : In q diag_queries -> q <> QSquare.
  Proof. cbn. intros [<-|[<-|[<-|[<-|[<-|[<-|[]]]]]]]; discriminate. Qed.

  (* diagonal family *)
  Lemma identity_diagonal st : m_diagonal (cm_mat K cm_identity st).
  Proof. apply (scaled_diag _ (fun _ => k1)). intros. apply id_factor. Qed.
  Lemma homothety_diagonal p : m_diagonal (cm_mat K cm_homothety p).
  Proof. apply (scaled_diag _ (fun _ => hm_value K p)). intros. reflexivity. Qed.
  Lemma diagonal_diagonal p : m_diagonal (cm_mat K cm_diagonal p).
  Proof. apply (scaled_diag _ (dg_vals K p)). intros. reflexivity. Qed.
  Lemma diagonal_inverse_diagonal p : m_diagonal (cm_mat K cm_diagonal_inverse p).
  Proof. apply (scaled_diag _ (fun i => kinv (dg_vals K p i))). intros. reflexivity. Qed.
  Lemma hwp_diagonal p : m_diagonal (cm_mat K cm_hwp p).
  Proof. apply (scaled_diag _ (hwp_factor (fst p) (zprod (snd p)))). intros. apply hwp_is_factor. Qed.

  (* orthogonal classes *)
  Lemma identity_orthogonal st : m_orthogonal (cm_mat K cm_identity st).
  Proof. apply (scaled_orth _ (fun _ => k1)); intros; [apply id_factor | ring]. Qed.
  Lemma hwp_orthogonal p : m_orthogonal (cm_mat K cm_hwp p).
  Proof.
    apply (scaled_orth _ (hwp_factor (fst p) (zprod (snd p)))); intros;
      [apply hwp_is_factor | apply hwp_factor_sq].
  Qed.
  Lemma empty_orthogonal (M : mat) : m_square M -> mrows M <= 0 -> m_orthogonal M.
  Proof. intros Hs Hn. split; [exact Hs|]. intros i j Hi. unfold inr in Hi. lia. Qed.
  Lemma nleaves_pos s : 0 < nleaves s.
  Proof. destruct s; reflexivity. Qed.
  Lemma qurot_orthogonal p : cm_legal K cm_qurot p -> m_orthogonal (cm_mat K cm_qurot p).
  Proof.
    intros [_ Hcs]. cbn [cm_mat Tags.cm_qurot].
    destruct (Z_lt_le_dec 0 (qr_N K p)) as [HN|HN].
    - apply (block_orth _ (nleaves (qr_kind K p)) (qr_N K p)
               (fun t => rotB (qr_kind K p) (qr_c K p t) (qr_s K p t)) HN).
      + pose proof (nleaves_pos (qr_kind K p)). lia.
      + apply qurot_block. exact HN.
      + intros t a b Ht Ha Hb. apply rotB_orth; auto.
    - apply empty_orthogonal; [reflexivity|]. cbn. pose proof (nleaves_pos (qr_kind K p)). nia.
  Qed.
  Lemma rotBT_orth s c sn a b : c *k c +k sn *k sn = k1 -> inr (nleaves s) a -> inr (nleaves s) b ->
    sumZ (fun l => rotBT s c sn l a *k rotBT s c sn l b) 0 (Z.to_nat (nleaves s)) = delta a b /\
    sumZ (fun l => rotBT s c sn a l *k rotBT s c sn b l) 0 (Z.to_nat (nleaves s)) = delta a b.
  Proof. intros H Ha Hb. unfold rotBT. destruct (rotB_orth s c sn a b H Ha Hb). split; assumption. Qed.
  Lemma qurotT_orthogonal p : cm_legal K cm_qurotT p -> m_orthogonal (cm_mat K cm_qurotT p).
  Proof.
    intros [_ Hcs]. cbn [cm_mat Tags.cm_qurotT].
    destruct (Z_lt_le_dec 0 (qr_N K p)) as [HN|HN].
    - apply (block_orth _ (nleaves (qr_kind K p)) (qr_N K p)
               (fun t => rotBT (qr_kind K p) (qr_c K p t) (qr_s K p t)) HN).
      + pose proof (nleaves_pos (qr_kind K p)). lia.
      + apply qurotT_block. exact HN.
      + intros t a b Ht Ha Hb. apply rotBT_orth; auto.
    - apply empty_orthogonal; [reflexivity|]. cbn. pose proof (nleaves_pos (qr_kind K p)). nia.
  Qed.
  (* the matrix of QURotationTransposeOperator(R) is the transpose of the matrix of R *)
  Lemma qurotT_is_transpose p :
    mat_eq (cm_mat K cm_qurotT p) (mtranspose (cm_mat K cm_qurot p)).
  Proof.
    split; [reflexivity|]. split; [reflexivity|]. cbn [cm_mat Tags.cm_qurotT Tags.cm_qurot mrows mcols Tags.matrix_of].
    intros i j Hi Hj. destruct (Z_lt_le_dec 0 (qr_N K p)) as [HN|HN].
    - destruct (qurotT_block (qr_kind K p) (qr_N K p) (qr_c K p) (qr_s K p) HN) as (_ & _ & HT).
      destruct (qurot_block (qr_kind K p) (qr_N K p) (qr_c K p) (qr_s K p) HN) as (_ & _ & HR).
      cbn [ment Tags.matrix_of Tags.mtranspose] in *. rewrite (HT i j Hi Hj), (HR j i Hj Hi).
      rewrite (Z.eqb_sym (j mod _)). unfold rotBT.
      destruct (Z.eqb_spec (i mod qr_N K p) (j mod qr_N K p)) as [->|]; reflexivity.
    - exfalso. unfold inr in Hi. pose proof (nleaves_pos (qr_kind K p)). nia.
  Qed.

  (* Toeplitz *)
  Lemma toeplitz_symmetric n bands : m_symmetric (Tags.mat_toeplitz K k0 n bands).
  Proof.
    split; [reflexivity|]. cbn. intros i j _ _. apply as_matrix_sym_l. intros b x y.
    destruct (Nat.lt_ge_cases b (List.length bands)) as [Hb|Hb].
    - rewrite (nth_indep _ _ (Tm K k0 (Toeplitz.zeros K k0 0))) by (rewrite map_length; exact Hb).
      rewrite map_nth. apply T_symmetric_l.
    - rewrite nth_overflow by (rewrite map_length; exact Hb). reflexivity.
  Qed.

  (* squares: what mv returns has the declared input structure *)
  Lemma dg_square_list ls : forallb dg_leaf_ok ls = true ->
    oseq (map dg_leaf_out ls) = Some (map (fun l : shape * shape * shape => snd l) ls).
  Proof.
    induction ls as [|l ls IH]; cbn; [reflexivity|]. intros H. apply andb_true_iff in H.
    destruct H as [H1 H2]. unfold dg_leaf_ok in H1. destruct (dg_leaf_out l) as [r|]; [|discriminate].
    apply shape_eqb_eq in H1. rewrite (IH H2), H1. reflexivity.
  Qed.
  Lemma dg_square p : diag_ctor K p = CtorOk -> dg_out K p = Some (dg_in K p).
  Proof.
    unfold diag_ctor, dg_out, dg_in. destruct (forallb dg_leaf_ok (dg_leaves K p)) eqn:E; [|discriminate].
    intros _. apply dg_square_list. exact E.
  Qed.
  Lemma qr_square p : not_wider (qr_shape K p) (qr_ashape K p) = true ->
    qr_out K p = Some (stokes_struct (qr_kind K p) (qr_shape K p)).
  Proof.
    intros H. apply not_wider_bcast in H. unfold qr_out, stokes_struct.
    destruct (qr_kind K p); cbn; rewrite ?H; reflexivity.
  Qed.

  (* ---------------------------------------------------------------------------------------- *)
  (* every pair of `proved` holds *)
  Theorem proved_sound c q : proved c q = true -> sem q c.
  Proof.
    assert (Hdf : forall (m : class_model) q, In q diag_queries ->
              (forall p, m_diagonal (cm_mat K m p)) -> sem_cm q m).
    { intros m q' Hq Hd. apply sem_cm_intro; [apply diag_queries_not_square; exact Hq|].
      intros p _. apply holds_of_diag; auto. }
    destruct c; destruct q; cbn [proved diag_family orb]; try discriminate; intros _;
      unfold Tags.sem; cbn [model_of];
      try (apply Hdf; [cbn; tauto|]; first [exact identity_diagonal | exact homothety_diagonal
            | exact diagonal_diagonal | exact diagonal_inverse_diagonal | exact hwp_diagonal]);
      try (apply sem_cm_intro; [discriminate|]; cbn [holds]).
    (* CAbstractLazyInverseOrthogonal *)
    - intros p [Ho _]. apply orth_transpose. exact Ho.
    - apply sem_cm_square. intros p [[Hs _] He]. split.
      + unfold Tags.m_square in *. cbn. symmetry. exact Hs.
      + cbn. rewrite He. reflexivity.
    (* CIdentity *)
    - intros p _. apply identity_orthogonal.
    - apply sem_cm_square. intros p _. split; reflexivity.
    (* CHomothety *)
    - apply sem_cm_square. intros p Hp. split; [reflexivity|]. cbn in *. unfold hm_out. rewrite Hp.
      apply bcast_nil_struct.
    (* CDiagonal *)
    - apply sem_cm_square. intros p Hp. split; [reflexivity|]. apply dg_square. exact Hp.
    (* CDiagonalInverse *)
    - apply sem_cm_square. intros p Hp. split; [reflexivity|]. apply dg_square. exact Hp.
    (* CMoveAxis *)
    - intros p Hp. apply gather_orth. exact Hp.
    (* CQURotation *)
    - intros p Hp. apply qurot_orthogonal. exact Hp.
    - apply sem_cm_square. intros p [Hw _]. split; [reflexivity|]. apply qr_square. exact Hw.
    (* CQURotationTranspose *)
    - intros p Hp. apply qurotT_orthogonal. exact Hp.
    - apply sem_cm_square. intros p [Hw _]. split; [reflexivity|]. apply qr_square. exact Hw.
    (* CHWP *)
    - intros p _. apply hwp_orthogonal.
    - apply sem_cm_square. intros p _. split; reflexivity.
    (* CToeplitz *)
    - intros p _. apply toeplitz_symmetric.
    - intros p _. apply toeplitz_symmetric.
    - apply sem_cm_square. intros p Hp. split; [reflexivity|]. cbn in *.
      rewrite (not_wider_bcast _ _ Hp). reflexivity.
    (* CObsMatrix *)
    - apply sem_cm_square. intros M HM. cbn in *. unfold obs_ctor in HM.
      destruct (Z.eqb_spec (mrows M) (mcols M)) as [E|E]; [|discriminate]. split; [exact E|].
      rewrite <- E, Z.eqb_refl. reflexivity.
  Qed.

  Lemma tagqs_complete q : In q tagqs.
  Proof. destruct q; cbn; tauto. Qed.

  (* the decision over a (regenerated) table *)
  Theorem table_truthful t : table_ok t = true ->
    forall c row q, In (c, row) t -> row_get row q = true -> sem q c.
  Proof.
    intros Ht c row q Hin Hq. unfold table_ok in Ht. rewrite forallb_forall in Ht.
    specialize (Ht _ Hin). unfold row_ok in Ht. apply andb_true_iff in Ht. destruct Ht as [_ Ht].
    rewrite forallb_forall in Ht. specialize (Ht q (tagqs_complete q)). cbn [fst snd] in Ht.
    rewrite Hq in Ht. apply proved_sound. exact Ht.
  Qed.
  (* read contrapositively: a query that can fail for some legal parameters of a class is false in
     the table *)
  Theorem table_never_overtagged t : table_ok t = true ->
    forall c row q, In (c, row) t -> ~ sem q c -> row_get row q = false.
  Proof.
    intros Ht c row q Hin Hn. destruct (row_get row q) eqn:E; [|reflexivity].
    exfalso. apply Hn. exact (table_truthful t Ht c row q Hin E).
  Qed.

  (* ---------------------------------------------------------------------------------------- *)
  (* what a decorator does on top of its own tag is implied by the property it declares *)
  Lemma holds_square q M : holds q M -> m_square M.
  Proof. destruct q; cbn; intros H; try exact (proj1 H); try exact H; exact (proj1 (proj1 H)). Qed.
  Theorem implies_sound p q M : implies_ok p q = true -> holds p M -> holds q M.
  Proof.
    destruct p, q; cbn; try discriminate; intros _ H; try exact H;
      try exact (holds_square _ _ H);
      try (apply diag_sym; exact H); try (apply diag_lower; exact H);
      try (apply diag_upper; exact H); try (apply diag_tri; exact H);
      try exact (proj1 H); try exact (proj1 (proj1 H)).
  Qed.
  Theorem decorators_sound ds : decorators_ok ds = true ->
    forall e p qs, In e ds -> deco_primary (fst e) = Some p -> deco_closure 6 ds (fst e) = Some qs ->
    forall q M, In q qs -> holds p M -> holds q M.
  Proof.
    intros Hd e p qs He Hp Hq q M Hin. unfold decorators_ok in Hd. rewrite forallb_forall in Hd.
    specialize (Hd e He). rewrite Hp, Hq in Hd. rewrite forallb_forall in Hd.
    apply implies_sound. apply Hd. exact Hin.
  Qed.
End L.

(* ------------------------------------------------------------------------------------------ *)
(* `A.T is A` is claimed exactly when symmetric is *)
Lemma selfT_is_symmetric K k0 k1 kadd kmul ksub kopp kinv kle c :
  sem K k0 k1 kadd kmul ksub kopp kinv kle QSelfT c -> sem K k0 k1 kadd kmul ksub kopp kinv kle QSymmetric c.
Proof.
  unfold sem. destruct (model_of K k0 k1 kadd kmul ksub kopp kinv c) as [m|]; [|exact (fun f => f)].
  intros H p Hp. destruct (H p Hp) as [Hh _]. split; [exact Hh | discriminate].
Qed.

(* ------------------------------------------------------------------------------------------ *)
(* the integers: the guards are satisfiable, are needed, and untagged queries really can fail *)
From Coq Require Import InitialRing.
Definition semZ := sem Z 0 1 Z.add Z.mul Z.sub Z.opp (fun x => x) Z.le.
Definition Zring : ring_theory 0 1 Z.add Z.mul Z.sub Z.opp (@eq Z) := Zth.

(* a legal rotation: one pixel, (cos 2a, sin 2a) = (0, 1), on QU *)
Definition rotZ : qurot_params Z := mkQr Z SQU [1] [1] (fun _ => 0) (fun _ => 1).
Lemma rotZ_legal : qr_legal Z 1 Z.add Z.mul rotZ.
Proof. split; [reflexivity | intros; reflexivity]. Qed.
Lemma rotation_not_symmetric : ~ semZ QSymmetric CQURotation.
Proof.
  intros H. destruct (H rotZ rotZ_legal) as [[_ Hs] _].
  specialize (Hs 0 1 ltac:(unfold inr; vm_compute; split; [discriminate | reflexivity]) ltac:(unfold inr; vm_compute; split; [discriminate | reflexivity])). cbn in Hs. discriminate.
Qed.
Lemma rotation_not_diagonal : ~ semZ QDiagonal CQURotation.
Proof.
  intros H. destruct (H rotZ rotZ_legal) as [[_ Hs] _].
  specialize (Hs 0 1 ltac:(unfold inr; vm_compute; split; [discriminate | reflexivity]) ltac:(unfold inr; vm_compute; split; [discriminate | reflexivity]) ltac:(lia)). cbn in Hs. discriminate.
Qed.
Definition toepZ : toep_params Z := mkTp Z [] 2 [] [arr_of Z 0 [1; 1]].
Lemma toeplitz_not_diagonal : ~ semZ QDiagonal CToeplitz.
Proof.
  intros H. destruct (H toepZ eq_refl) as [[_ Hs] _].
  specialize (Hs 0 1 ltac:(unfold inr; vm_compute; split; [discriminate | reflexivity]) ltac:(unfold inr; vm_compute; split; [discriminate | reflexivity]) ltac:(lia)). cbn in Hs. discriminate.
Qed.
Lemma toeplitz_not_orthogonal : ~ semZ QInvIsT CToeplitz.
Proof.
  intros H. destruct (H toepZ eq_refl) as [[_ Hs] _].
  destruct (Hs 0 0 ltac:(unfold inr; vm_compute; split; [discriminate | reflexivity]) ltac:(unfold inr; vm_compute; split; [discriminate | reflexivity])) as [H1 _]. cbn in H1. discriminate.
Qed.
Lemma homothety_not_orthogonal : ~ semZ QInvIsT CHomothety.
Proof.
  intros H. destruct (H (mkHm Z 2 [] [[1]]) eq_refl) as [[_ Hs] _].
  destruct (Hs 0 0 ltac:(unfold inr; vm_compute; split; [discriminate | reflexivity]) ltac:(unfold inr; vm_compute; split; [discriminate | reflexivity])) as [H1 _]. cbn in H1. discriminate.
Qed.
(* a relabelling that is not an involution is not symmetric: the 3-cycle *)
Definition cyc3 : perm_params := mkPm 3 (fun i => (i + 1) mod 3) (fun i => (i + 2) mod 3).
Lemma cyc3_legal : pm_legal cyc3.
Proof.
  split; intros i Hi; unfold inr in *; cbn in *;
    (assert (E : i = 0 \/ i = 1 \/ i = 2) by lia; destruct E as [|[|]]; subst; vm_compute;
     repeat split; discriminate).
Qed.
Lemma moveaxis_not_symmetric : ~ semZ QSymmetric CMoveAxis.
Proof.
  intros H. destruct (H cyc3 cyc3_legal) as [[_ Hs] _].
  specialize (Hs 0 1 ltac:(unfold inr; vm_compute; split; [discriminate | reflexivity]) ltac:(unfold inr; vm_compute; split; [discriminate | reflexivity])). cbn in Hs. discriminate.
Qed.

(* the guard of the two classes whose constructor does not check the parameter shapes is needed:
   band values / angles WIDER than the input make mv return a structure that is not in_structure *)
Lemma toeplitz_square_needs_guard :
  let p := mkTp Z [] 3 [2] [arr_of Z 0 [1]; arr_of Z 0 [1]] in
  not_wider (tp_xbatch Z p) (tp_bbatch Z p) = false /\
  cm_in Z (cm_toeplitz Z 0) p = [[3]] /\ cm_out Z (cm_toeplitz Z 0) p = Some [[2; 3]].
Proof. repeat split. Qed.
Lemma qurot_square_needs_guard :
  let p := mkQr Z SQU [3] [2; 3] (fun _ => 1) (fun _ => 0) in
  not_wider (qr_shape Z p) (qr_ashape Z p) = false /\
  cm_in Z (cm_qurot Z 0 1 Z.add Z.mul Z.sub) p = [[3]; [3]] /\
  cm_out Z (cm_qurot Z 0 1 Z.add Z.mul Z.sub) p = Some [[2; 3]; [2; 3]].
Proof. repeat split. Qed.
(* HomothetyOperator: a value that is not 0-d makes mv return leaves of another shape (a (1,) factor
   on a 0-d leaf, a (1, 1) factor on a 1-d leaf) - the guard is needed, and the scalar check of the
   public construction paths is what provides it *)
Lemma homothety_square_needs_guard :
  let p := mkHm Z 2 [1] [[]; [2; 3]] in
  let q := mkHm Z 2 [1; 1] [[3]] in
  cm_in Z (cm_homothety Z 0 1 Z.mul) p = [[]; [2; 3]] /\
  cm_out Z (cm_homothety Z 0 1 Z.mul) p = Some [[1]; [2; 3]] /\
  cm_in Z (cm_homothety Z 0 1 Z.mul) q = [[3]] /\
  cm_out Z (cm_homothety Z 0 1 Z.mul) q = Some [[1; 3]].
Proof. repeat split. Qed.
Lemma scaled_homothety_legal (K : Type) (k0 k1 : K) kmul v :
  scale_ctor v = CtorOk -> forall k st, cm_legal K (cm_homothety K k0 k1 kmul) (mkHm K k v st).
Proof. intros H k st. cbn. apply scale_ctor_iff. exact H. Qed.
Lemma scale_ctor_rejects_arrays :
  scale_ctor [] = CtorOk /\ scale_ctor [1] = CtorValueError /\ scale_ctor [1; 1] = CtorValueError /\
  scale_ctor [2] = CtorValueError.
Proof. repeat split. Qed.
(* the constructor checks of DiagonalOperator and of the observation matrix reject exactly that *)
Lemma diagonal_ctor_rejects_wider :
  diag_ctor Z (mkDg Z (fun _ => 1) [([2; 3], [3], [3])]) = CtorValueError /\
  diag_ctor Z (mkDg Z (fun _ => 1) [([3], [2; 3], [2; 3])]) = CtorOk.
Proof. split; reflexivity. Qed.
Lemma obs_ctor_iff (K : Type) (M : mat K) : obs_ctor K M = CtorOk <-> mrows M = mcols M.
Proof. unfold obs_ctor. destruct (Z.eqb_spec (mrows M) (mcols M)); split; intros; congruence. Qed.
