(* Proofs about Model/Toeplitz.v: every evaluation method of SymmetricBandToeplitzOperator computes the
   banded Toeplitz product, over an arbitrary commutative ring. *)
From Coq Require Import ZArith List Bool Lia Ring String ZifyBool.
From Furax Require Import Model.Toeplitz.
Import ListNotations.
Open Scope Z_scope.

(* ------------------------------------------------------------------------------------------ *)
(* integer facts *)

Lemma cdiv_spec a b : 0 < b -> a <= b * cdiv a b < a + b.
Proof.
  intros Hb. unfold cdiv.
  pose proof (Z.div_mod (- a) b ltac:(lia)) as E.
  pose proof (Z.mod_pos_bound (- a) b Hb) as B.
  set (q := (- a) / b) in *. set (r := (- a) mod b) in *.
  replace (b * - q) with (- (b * q)) by ring. lia.
Qed.

Lemma decomp_unique n i a t b :
  0 < n -> 0 <= a < n -> 0 <= b < n -> i * n + a = t * n + b -> i = t /\ a = b.
Proof.
  intros Hn Ha Hb E.
  assert (i = t).
  { assert (Ei : (i * n + a) / n = i) by (rewrite Z.div_add_l by lia; rewrite Z.div_small by lia; lia).
    assert (Et : (t * n + b) / n = t) by (rewrite Z.div_add_l by lia; rewrite Z.div_small by lia; lia).
    rewrite E in Ei. congruence. }
  subst. split; [reflexivity | lia].
Qed.

Lemma zrange_In lo n k : In k (zrange lo n) <-> lo <= k < lo + Z.of_nat n.
Proof.
  unfold zrange. rewrite in_map_iff. split.
  - intros (m & E & Hm). apply in_seq in Hm. lia.
  - intros H. exists (Z.to_nat (k - lo)). split; [lia | apply in_seq; lia].
Qed.

Lemma existsb_zrange f lo n :
  existsb f (zrange lo n) = true <-> exists k, lo <= k < lo + Z.of_nat n /\ f k = true.
Proof.
  rewrite existsb_exists. split; intros (k & H1 & H2); exists k.
  - apply zrange_In in H1. tauto.
  - split; [apply zrange_In|]; tauto.
Qed.

Lemma existsb_false_iff {A} (f : A -> bool) l : existsb f l = false <-> forall a, In a l -> f a = false.
Proof.
  induction l as [|a l IH]; cbn; [tauto|].
  rewrite orb_false_iff, IH. split.
  - intros [H1 H2] b [<-|Hb]; auto.
  - intros H. split; [apply H; auto | intros b Hb; apply H; auto].
Qed.

Lemma clog2_spec b : 1 <= b -> b <= 2 ^ clog2 b /\ 0 <= clog2 b.
Proof.
  intros Hb. unfold clog2. split; [|apply Z.log2_up_nonneg].
  destruct (Z.eq_dec b 1) as [->|Hne]; [cbn; lia|].
  apply (Z.log2_up_spec b). lia.
Qed.

(* What the proof of overlap-save needs from the integer quantities (n = input length, h = half band
   width, F = FFT size, nb = number of blocks).  Weaker than the formulas of the pinned source: any
   block count with  n + h <= nb * (F - 2h)  whose reads and writes stay inside the arrays will do. *)
Definition os_sem (q : os_q) (n h F nb : Z) : Prop :=
  o_H_len q = F /\ o_xb_size q = F /\ o_keep_start q = 2 * h /\ o_keep_size q = F - 2 * h /\
  o_pad_lo q = 2 * h /\ 0 <= o_pad_hi q /\ o_loop_lo q = 0 /\ o_loop_hi q = nb /\ 0 <= nb /\
  (forall ib, 0 <= ib < nb ->
     o_xb_start q ib = ib * (F - 2 * h) /\ o_write_pos q ib = ib * (F - 2 * h)) /\
  nb * (F - 2 * h) <= o_y_len q /\                       (* no write is clamped *)
  (nb - 1) * (F - 2 * h) + F <= 2 * h + n + o_pad_hi q /\  (* no read is clamped *)
  n + h <= nb * (F - 2 * h) /\                           (* the blocks cover the returned slice *)
  o_out_lo q = h /\ o_out_hi q = h + n.

Section L.
  Variable K : Type.
  Variables (k0 k1 : K) (kadd kmul ksub : K -> K -> K) (kopp : K -> K).
  Hypothesis Kth : ring_theory k0 k1 kadd kmul ksub kopp (@eq K).
  Add Ring Kring : Kth.
  Infix "+k" := kadd (at level 50, left associativity).
  Infix "*k" := kmul (at level 40, left associativity).

  Notation arr := (arr K).
  Notation sumZ := (sumZ K k0 kadd).
  Notation pad := (pad K k0).
  Notation zeros := (zeros K k0).
  Notation slice := (slice K).
  Notation slice_rev := (slice_rev K).
  Notation concat := (concat K).
  Notation get_kernel := (get_kernel K).
  Notation resize := (resize K k0).
  Notation circ_conv := (circ_conv K k0 kadd kmul).
  Notation conv_valid := (conv_valid K k0 kadd kmul).
  Notation conv_valid1 := (conv_valid1 K k0 kadd kmul).
  Notation dyn_slice := (dyn_slice K).
  Notation dyn_update := (dyn_update K).
  Notation scatter_set := (scatter_set K).
  Notation fori := (fori K).
  Notation fori_n := (fori_n K).
  Notation dense_step := (dense_step K).
  Notation dense_flat := (dense_flat K k0).
  Notation dense := (dense K k0).
  Notation apply_dense := (apply_dense K k0 kadd kmul).
  Notation apply_direct := (apply_direct K k0 kadd kmul).
  Notation apply_fft := (apply_fft K k0 kadd kmul).
  Notation apply_overlap_save := (apply_overlap_save K k0 kadd kmul).
  Notation os_body := (os_body K k0 kadd kmul).
  Notation Tm := (Tm K k0).
  Notation Tx := (Tx K k0 kadd kmul).

  (* ---------------------------------------------------------------------------------------- *)
  (* finite sums *)
  Lemma sumZ_ext f g lo n :
    (forall i, lo <= i < lo + Z.of_nat n -> f i = g i) -> sumZ f lo n = sumZ g lo n.
  Proof.
    revert lo; induction n as [|n IH]; intros lo H; cbn [Toeplitz.sumZ]; [reflexivity|].
    rewrite H by lia. rewrite (IH (lo + 1)); [reflexivity|]. intros; apply H; lia.
  Qed.
  Lemma sumZ_zero f lo n : (forall i, lo <= i < lo + Z.of_nat n -> f i = k0) -> sumZ f lo n = k0.
  Proof.
    revert lo; induction n as [|n IH]; intros lo H; cbn [Toeplitz.sumZ]; [reflexivity|].
    rewrite H by lia. rewrite IH; [ring|]. intros; apply H; lia.
  Qed.
  Lemma sumZ_app f lo a b : sumZ f lo (a + b) = sumZ f lo a +k sumZ f (lo + Z.of_nat a) b.
  Proof.
    revert lo; induction a as [|a IH]; intros lo; cbn [Toeplitz.sumZ Nat.add].
    - replace (lo + Z.of_nat 0) with lo by lia. ring.
    - rewrite IH. replace (lo + 1 + Z.of_nat a) with (lo + Z.of_nat (S a)) by lia. ring.
  Qed.
  Lemma sumZ_shift f lo d n : sumZ f (lo + d) n = sumZ (fun i => f (i + d)) lo n.
  Proof.
    revert lo; induction n as [|n IH]; intros lo; cbn [Toeplitz.sumZ]; [reflexivity|].
    replace (lo + d + 1) with (lo + 1 + d) by lia. rewrite IH. reflexivity.
  Qed.
  Lemma sumZ_snoc f lo n : sumZ f lo (S n) = sumZ f lo n +k f (lo + Z.of_nat n).
  Proof. replace (S n) with (n + 1)%nat by lia. rewrite sumZ_app. cbn [Toeplitz.sumZ]. ring. Qed.
  Lemma sumZ_rev f lo n : sumZ f lo n = sumZ (fun i => f (lo + lo + Z.of_nat n - 1 - i)) lo n.
  Proof.
    revert lo f; induction n as [|n IH]; intros lo f; [reflexivity|].
    rewrite (sumZ_snoc f). cbn [Toeplitz.sumZ]. rewrite (sumZ_shift _ lo 1 n). rewrite (IH lo f).
    rewrite (sumZ_ext (fun i => f (lo + lo + Z.of_nat (S n) - 1 - (i + 1)))
               (fun i => f (lo + lo + Z.of_nat n - 1 - i))) by (intros; f_equal; lia).
    replace (lo + lo + Z.of_nat (S n) - 1 - lo) with (lo + Z.of_nat n) by lia. ring.
  Qed.
  (* restriction to a sub-interval outside which g vanishes *)
  Lemma sumZ_restrict g lo n a m :
    lo <= a -> a + Z.of_nat m <= lo + Z.of_nat n ->
    (forall i, lo <= i < lo + Z.of_nat n -> ~ (a <= i < a + Z.of_nat m) -> g i = k0) ->
    sumZ g lo n = sumZ g a m.
  Proof.
    intros H1 H2 Hz.
    replace n with (Z.to_nat (a - lo) + (m + Z.to_nat (lo + Z.of_nat n - a - Z.of_nat m)))%nat by lia.
    rewrite !sumZ_app. rewrite (sumZ_zero g lo) by (intros; apply Hz; lia).
    replace (lo + Z.of_nat (Z.to_nat (a - lo))) with a by lia.
    rewrite (sumZ_zero g (a + Z.of_nat m)) by (intros; apply Hz; lia). ring.
  Qed.

  (* ---------------------------------------------------------------------------------------- *)
  (* the kernel [b_h .. b_1 b_0 b_1 .. b_h] *)
  Lemma nir_m1 len : 1 <= len -> norm_idx_rev len (-1) = len - 1.
  Proof. intros. unfold norm_idx_rev. change (-1 <? 0) with true. cbv iota. lia. Qed.
  Lemma nir_0 len : 1 <= len -> norm_idx_rev len 0 = 0.
  Proof. intros. unfold norm_idx_rev. change (0 <? 0) with false. cbv iota. lia. Qed.
  Section Kernel.
    Variable band : arr.
    Hypothesis HK : 1 <= alen band.
    Let h := alen band - 1.

    Lemma kernel_len : alen (get_kernel band) = 2 * h + 1.
    Proof.
      unfold Toeplitz.get_kernel, Toeplitz.concat, Toeplitz.slice_rev. cbn [alen aget].
      rewrite nir_m1, nir_0 by lia. subst h. lia.
    Qed.

    Lemma kernel_get s : 0 <= s < 2 * h + 1 -> aget (get_kernel band) s = aget band (Z.abs (s - h)).
    Proof.
      intros Hs. unfold Toeplitz.get_kernel, Toeplitz.concat, Toeplitz.slice_rev. cbn [alen aget].
      rewrite nir_m1, nir_0 by lia.
      subst h. destruct (s <? _) eqn:E; f_equal; lia.
    Qed.

    (* jnp.convolve flips its second argument; the kernel is a palindrome, so this is immaterial *)
    Lemma kernel_palindrome s :
      0 <= s < 2 * h + 1 -> aget (get_kernel band) s = aget (get_kernel band) (2 * h - s).
    Proof. intros Hs. rewrite !kernel_get by lia. f_equal. lia. Qed.
  End Kernel.

  (* ---------------------------------------------------------------------------------------- *)
  (* linear convolution with the kernel = banded Toeplitz product (spikes/ToeplitzCore.v) *)
  Definition xz (x : arr) (i : Z) : K := if inb 0 (alen x) i then aget x i else k0.
  Definition linconv (band x : arr) (p : Z) : K :=
    sumZ (fun s => aget (get_kernel band) s *k xz x (p - s)) 0 (Z.to_nat (2 * (alen band - 1) + 1)).

  Lemma xz_in x i : 0 <= i < alen x -> xz x i = aget x i.
  Proof. intros H. unfold xz, inb. destruct (_ && _) eqn:E; [reflexivity | lia]. Qed.
  Lemma xz_out x i : ~ (0 <= i < alen x) -> xz x i = k0.
  Proof. intros H. unfold xz, inb. destruct (_ && _) eqn:E; [lia | reflexivity]. Qed.

  Lemma linconv_is_T band x i :
    1 <= alen band -> 1 <= alen x -> 0 <= i < alen x -> linconv band x (i + (alen band - 1)) = Tx band x i.
  Proof.
    intros HK Hn Hi. unfold linconv, Toeplitz.Tx.
    set (h := alen band - 1). set (n := alen x).
    set (g := fun j => Tm band i j *k xz x j).
    transitivity (sumZ g 0 (Z.to_nat n)).
    2:{ apply sumZ_ext. intros j Hj. unfold g. rewrite xz_in by lia. reflexivity. }
    rewrite sumZ_rev.
    transitivity (sumZ g (i - h) (Z.to_nat (2 * h + 1))).
    { replace (i - h) with (0 + (i - h)) by lia. rewrite sumZ_shift. apply sumZ_ext. intros s Hs.
      rewrite kernel_get by (fold h; lia). fold h.
      unfold g, Toeplitz.Tm.
      replace (i + h - (0 + 0 + Z.of_nat (Z.to_nat (2 * h + 1)) - 1 - s)) with (s + (i - h)) by lia.
      replace (0 + 0 + Z.of_nat (Z.to_nat (2 * h + 1)) - 1 - s - h) with (i - (s + (i - h))) by lia.
      destruct (Z.abs (i - (s + (i - h))) <? alen band) eqn:E; [reflexivity | lia]. }
    set (lo := Z.min 0 (i - h)). set (hi := Z.max n (i + h + 1)).
    transitivity (sumZ g lo (Z.to_nat (hi - lo))).
    - symmetry. apply sumZ_restrict; try lia. intros j Hj Hnot. unfold g, Toeplitz.Tm.
      destruct (Z.abs (i - j) <? alen band) eqn:E; [lia | ring].
    - apply sumZ_restrict; try lia. intros j Hj Hnot. unfold g. rewrite xz_out by lia. ring.
  Qed.

  Lemma T_symmetric_l band i j : Tm band i j = Tm band j i.
  Proof. unfold Toeplitz.Tm. replace (Z.abs (j - i)) with (Z.abs (i - j)) by lia. reflexivity. Qed.

  (* what "the method returns T x" means for an optional result *)
  Definition is_Tx (band x : arr) (o : option arr) : Prop :=
    match o with
    | Some y => alen y = alen x /\ forall i, 0 <= i < alen x -> aget y i = Tx band x i
    | None => False
    end.

  (* ---------------------------------------------------------------------------------------- *)
  (* dense_symmetric_band_toeplitz *)
  (* does the diagonal j of the loop write the flat position p of an array of length len? *)
  Definition hits (len n j p : Z) : bool :=
    existsb (fun t => scat_idx len ((if 0 <=? j then (fun t => j + t * (n + 1))
                                     else (fun t => - n * j + t * (n + 1))) t) =? p)
      (zrange 0 (Z.to_nat (n - j))).

  Lemma dense_step_get n band out j p :
    aget (dense_step n band out j) p =
    if inb 0 (alen out) p && hits (alen out) n j p then aget band (Z.abs j) else aget out p.
  Proof. reflexivity. Qed.

  Lemma fold_dense_len n band js : forall out, alen (fold_left (dense_step n band) js out) = alen out.
  Proof. induction js as [|a js IH]; intros out; cbn [fold_left]; [reflexivity|]. rewrite IH. reflexivity. Qed.

  (* position (i, c) of the n x n matrix is written by the diagonal c - i and by no other one;
     for j < 0 the code asks for m = n - j > n - |j| entries: the surplus indices are >= n^2 and
     are dropped by the scatter *)
  Lemma hits_iff n i c j :
    1 <= n -> 0 <= i < n -> 0 <= c < n -> (hits (n * n) n j (i * n + c) = true <-> j = c - i).
  Proof.
    intros Hn Hi Hc. unfold hits. rewrite existsb_zrange. split.
    - intros (t & Ht & E). apply Z.eqb_eq in E. unfold scat_idx in E.
      destruct (0 <=? j) eqn:Ej.
      + destruct (j + t * (n + 1) <? 0) eqn:E0; [lia|].
        destruct (decomp_unique n i c t (t + j)); lia.
      + assert (Hp : 0 <= - n * j + t * (n + 1)) by nia.
        destruct (- n * j + t * (n + 1) <? 0) eqn:E0; [lia|].
        destruct (Z_lt_le_dec t n) as [Hlt|Hge].
        * destruct (decomp_unique n i c (t - j) t); lia.
        * exfalso. assert ((n + 1) * n <= (t - j) * n) by nia. assert (i * n <= (n - 1) * n) by nia. lia.
    - intros ->. unfold scat_idx. destruct (0 <=? c - i) eqn:Ej.
      + exists i. split; [lia|]. destruct (_ <? 0) eqn:E0; lia.
      + exists c. split; [lia|]. assert (0 <= - n * (c - i)) by nia. destruct (_ <? 0) eqn:E0; lia.
  Qed.

  Lemma fold_dense n band p d js : forall out,
    alen out = n * n -> 0 <= p < n * n -> (forall j, hits (n * n) n j p = true <-> j = d) ->
    aget (fold_left (dense_step n band) js out) p =
    if existsb (Z.eqb d) js then aget band (Z.abs d) else aget out p.
  Proof.
    induction js as [|a js IH]; intros out Hlen Hp Hh; cbn [fold_left existsb]; [reflexivity|].
    rewrite IH by auto. rewrite dense_step_get, Hlen.
    destruct (Z.eq_dec a d) as [->|Hne].
    - rewrite Z.eqb_refl. cbn [orb]. replace (hits (n * n) n d p) with true by (symmetry; apply Hh; reflexivity).
      replace (inb 0 (n * n) p) with true by (unfold inb; lia). cbn [andb].
      destruct (existsb _ js); reflexivity.
    - replace (d =? a) with false by lia. cbn [orb].
      replace (hits (n * n) n a p) with false.
      2:{ destruct (hits (n * n) n a p) eqn:E; [|reflexivity]. apply Hh in E. congruence. }
      rewrite andb_false_r. reflexivity.
  Qed.

  (* entry (i, c) of the dense matrix, for any number of bands (alen band > n included) *)
  Lemma dense_spec_l n band i c :
    1 <= n -> 1 <= alen band -> 0 <= i < n -> 0 <= c < n -> dense n band i c = Tm band i c.
  Proof.
    intros Hn HK Hi Hc. unfold Toeplitz.dense, Toeplitz.dense_flat.
    assert (Hp : 0 <= i * n + c < n * n) by nia.
    rewrite (fold_dense n band (i * n + c) (c - i)).
    - unfold Toeplitz.Tm. cbn [aget Toeplitz.zeros].
      destruct (existsb _ _) eqn:E.
      + apply existsb_zrange in E as (k & Hk & Ek). apply Z.eqb_eq in Ek.
        destruct (Z.abs (i - c) <? alen band) eqn:E2; [f_equal; lia | lia].
      + destruct (Z.abs (i - c) <? alen band) eqn:E2; [|reflexivity]. exfalso.
        rewrite existsb_false_iff in E. specialize (E (c - i)). rewrite Z.eqb_refl in E.
        assert (true = false); [apply E; apply zrange_In; lia | discriminate].
    - cbn [alen Toeplitz.zeros]. apply Z.pow_2_r.
    - exact Hp.
    - intros j. apply hits_iff; lia.
  Qed.

  Lemma apply_dense_l band x :
    1 <= alen x -> 1 <= alen band -> is_Tx band x (apply_dense x band).
  Proof.
    intros Hn HK. unfold Toeplitz.apply_dense, is_Tx. cbn [alen aget]. split; [reflexivity|].
    intros i Hi. unfold Toeplitz.Tx. apply sumZ_ext. intros j Hj.
    rewrite dense_spec_l by lia. reflexivity.
  Qed.

  (* ---------------------------------------------------------------------------------------- *)
  (* _apply_direct *)
  Lemma pad_get lo hi x i : aget (pad lo hi x) i = xz x (i - lo).
  Proof.
    unfold Toeplitz.pad, xz, inb. cbn [aget].
    destruct ((lo <=? i) && (i <? lo + alen x)) eqn:E1; destruct ((0 <=? i - lo) && (i - lo <? alen x)) eqn:E2;
      try reflexivity; lia.
  Qed.

  Lemma pad_len lo hi x : alen (pad lo hi x) = lo + alen x + hi.
  Proof. reflexivity. Qed.

  Lemma apply_direct_l q band x :
    1 <= alen x -> 1 <= alen band ->
    d_pad_lo q = alen band - 1 -> d_pad_hi q = alen band - 1 ->
    is_Tx band x (apply_direct q x band).
  Proof.
    intros Hn HK Hlo Hhi. unfold Toeplitz.apply_direct. rewrite Hlo, Hhi.
    set (h := alen band - 1).
    replace ((0 <=? h) && (0 <=? h)) with true by lia.
    unfold Toeplitz.conv_valid. rewrite kernel_len, pad_len by lia. fold h.
    replace (h + alen x + h <? 2 * h + 1) with false by lia.
    unfold is_Tx, Toeplitz.conv_valid1. rewrite kernel_len, pad_len by lia. fold h. cbn [alen aget].
    split; [lia|]. intros i Hi.
    rewrite <- linconv_is_T by lia. unfold linconv. fold h.
    apply sumZ_ext. intros s Hs. rewrite pad_get. do 2 f_equal. lia.
  Qed.

  (* ---------------------------------------------------------------------------------------- *)
  (* circular convolution with the zero-padded kernel *)
  Lemma mod_wrap a L : 0 < L -> - L <= a < 0 -> a mod L = a + L.
  Proof. intros HL Ha. symmetry. apply Z.mod_unique with (q := -1); lia. Qed.

  Lemma circ_resize L band xb t :
    1 <= alen band -> 2 * (alen band - 1) + 1 <= L ->
    aget (circ_conv L (resize L (get_kernel band)) xb) t =
    sumZ (fun s => aget (get_kernel band) s *k aget xb ((t - s) mod L)) 0 (Z.to_nat (2 * (alen band - 1) + 1)).
  Proof.
    intros HK HL. set (h := alen band - 1) in *. cbn [aget Toeplitz.circ_conv].
    rewrite (sumZ_restrict _ 0 (Z.to_nat L) 0 (Z.to_nat (2 * h + 1))); try lia.
    - apply sumZ_ext. intros s Hs. cbn [aget Toeplitz.resize]. rewrite kernel_len by lia. fold h.
      unfold inb. destruct (_ && _) eqn:E; [reflexivity | lia].
    - intros s Hs Hnot. cbn [aget Toeplitz.resize]. rewrite kernel_len by lia. fold h.
      unfold inb. destruct (_ && _) eqn:E; [lia | ring].
  Qed.

  (* _apply_fft *)
  Lemma apply_fft_l q band x :
    1 <= alen x -> 1 <= alen band ->
    f_H_len q = alen x + 2 * (alen band - 1) -> f_pad_lo q = 0 -> f_pad_hi q = 2 * (alen band - 1) ->
    f_whole q = (alen band - 1 =? 0) -> f_lo q = alen band - 1 -> f_hi q = - (alen band - 1) ->
    is_Tx band x (apply_fft q x band).
  Proof.
    intros Hn HK HH Hlo Hhi Hw Hsl Hsh. unfold Toeplitz.apply_fft. rewrite HH, Hlo, Hhi, Hw, Hsl, Hsh.
    set (h := alen band - 1). set (n := alen x). cbn [alen Toeplitz.pad Toeplitz.resize].
    fold n. replace (0 + n + 2 * h) with (n + 2 * h) by lia. set (L := n + 2 * h).
    replace ((0 <=? 0) && (0 <=? 2 * h) && (L =? L) && (1 <=? L)) with true by lia.
    set (Y := circ_conv L (resize L (get_kernel band)) (pad 0 (2 * h) x)).
    assert (HY : forall t, h <= t < n + h -> aget Y t = linconv band x t).
    { intros t Ht. unfold Y. rewrite circ_resize by (fold h; lia). unfold linconv. fold h.
      apply sumZ_ext. intros s Hs. f_equal. rewrite pad_get.
      destruct (Z_lt_le_dec (t - s) 0) as [Hneg|Hpos].
      - rewrite mod_wrap by lia. rewrite !xz_out by (fold n; lia). reflexivity.
      - rewrite Z.mod_small by lia. f_equal. lia. }
    assert (HYl : alen Y = L) by reflexivity.
    destruct (h =? 0) eqn:Eh.
    - unfold is_Tx. split; [lia|]. intros i Hi. rewrite HY by lia.
      rewrite <- linconv_is_T by lia. f_equal. lia.
    - unfold is_Tx, Toeplitz.slice, norm_idx. rewrite HYl. cbn [alen aget].
      replace (h <? 0) with false by lia. replace (- h <? 0) with true by lia.
      split; [lia|]. intros i Hi.
      replace (Z.max 0 (Z.min L h) + i) with (i + h) by lia.
      rewrite HY by lia. apply linconv_is_T; lia.
  Qed.

  (* ---------------------------------------------------------------------------------------- *)
  (* _apply_overlap_save *)
  Notation os_checks := (os_checks K).
  Lemma dyn_start_id len size start :
    0 <= start -> start + size <= len -> dyn_start len size start = start.
  Proof. intros. unfold dyn_start. destruct (start <? 0) eqn:E; lia. Qed.

  Section OverlapSave.
    Variables (q : os_q) (band x : arr) (F nb : Z).
    Let n := alen x.
    Let h := alen band - 1.
    Let step := F - 2 * h.
    Hypothesis Hn : 1 <= n.
    Hypothesis HK : 1 <= alen band.
    Hypothesis HF : 2 * h + 1 <= F.
    Hypothesis Hsem : os_sem q n h F nb.

    Let H := resize (o_H_len q) (get_kernel band).
    Let xp := pad (o_pad_lo q) (o_pad_hi q) x.

    Lemma os_nb_pos : 1 <= nb.
    Proof. destruct Hsem as (_&_&_&_&_&_&_&_&_&_&_&_&Hcov&_). fold step in Hcov. subst step. nia. Qed.

    Lemma os_checks_true : os_checks q x = true.
    Proof.
      pose proof os_nb_pos as Hnb.
      destruct Hsem as (E1&E2&E3&E4&E5&E6&E7&E8&E9&E10&E11&E12&E13&E14&E15).
      fold step in E4, E11, E12, E13. fold n.
      assert (step <= nb * step) by (subst step; nia).
      assert (0 <= (nb - 1) * step) by (subst step; nia).
      unfold os_checks. rewrite E1, E2, E4, E5. fold n. lia.
    Qed.

    (* one block: the window of y written by block ib receives the linear convolution, the rest of
       y is unchanged; none of the three dynamic start indices is clamped *)
    Lemma os_body_get ib y :
      0 <= ib < nb -> alen y = o_y_len q ->
      alen (os_body q H xp ib y) = o_y_len q /\
      forall p, aget (os_body q H xp ib y) p =
                if inb (ib * step) (ib * step + step) p then linconv band x p else aget y p.
    Proof.
      intros Hib Hy.
      destruct Hsem as (E1&E2&E3&E4&E5&E6&E7&E8&E9&E10&E11&E12&E13&E14&E15).
      fold step in E4, E10, E11, E12, E13.
      destruct (E10 ib Hib) as [Exb Ewp].
      assert (Hs1 : 0 <= ib * step) by (subst step; nia).
      assert (Hs2 : ib * step + step <= nb * step) by (subst step; nia).
      assert (Hs3 : ib * step + F <= (nb - 1) * step + F) by (subst step; nia).
      unfold Toeplitz.os_body. rewrite Exb, Ewp, E2, E3, E4.
      unfold Toeplitz.dyn_update, Toeplitz.dyn_slice. cbn [alen aget Toeplitz.circ_conv].
      split; [exact Hy|]. intros p.
      rewrite Hy. rewrite (dyn_start_id (o_y_len q)) by lia.
      destruct (inb (ib * step) (ib * step + step) p) eqn:Ein; [|reflexivity].
      unfold inb in Ein.
      rewrite (dyn_start_id F step (2 * h)) by lia.
      subst xp. rewrite pad_len, E5. fold n. rewrite (dyn_start_id (2 * h + n + o_pad_hi q)) by lia.
      subst H. rewrite E1.
      change (sumZ _ 0 (Z.to_nat F)) with
        (aget (circ_conv F (resize F (get_kernel band))
                 (mkArr F (fun i => aget (pad (2 * h) (o_pad_hi q) x) (ib * step + i))))
              (2 * h + (p - ib * step))).
      rewrite circ_resize by (fold h; lia). unfold linconv. fold h. cbn [aget].
      apply sumZ_ext. intros s Hs. f_equal.
      rewrite Z.mod_small by lia. rewrite pad_get. f_equal. lia.
    Qed.

    Lemma os_loop cnt : forall i0 y,
      0 <= i0 -> i0 + Z.of_nat cnt <= nb -> alen y = o_y_len q ->
      alen (fori_n cnt i0 (os_body q H xp) y) = o_y_len q /\
      forall p, aget (fori_n cnt i0 (os_body q H xp) y) p =
                if inb (i0 * step) ((i0 + Z.of_nat cnt) * step) p then linconv band x p else aget y p.
    Proof.
      induction cnt as [|c IH]; intros i0 y Hi0 Hle Hy; cbn [Toeplitz.fori_n].
      - split; [exact Hy|]. intros p. unfold inb. destruct (_ && _) eqn:E; [lia | reflexivity].
      - destruct (os_body_get i0 y ltac:(lia) Hy) as [Hl Hg].
        destruct (IH (i0 + 1) _ ltac:(lia) ltac:(lia) Hl) as [Hl2 Hg2].
        split; [exact Hl2|]. intros p. rewrite Hg2, Hg.
        assert (0 < step) by (subst step; lia).
        unfold inb.
        destruct ((((i0 + 1) * step <=? p) && (p <? (i0 + 1 + Z.of_nat c) * step))) eqn:A;
        destruct ((i0 * step <=? p) && (p <? i0 * step + step)) eqn:B;
        destruct ((i0 * step <=? p) && (p <? (i0 + Z.of_nat (S c)) * step)) eqn:C; try reflexivity; exfalso; nia.
    Qed.

    Lemma apply_overlap_save_l : is_Tx band x (apply_overlap_save q x band).
    Proof.
      pose proof os_nb_pos as Hnb.
      unfold Toeplitz.apply_overlap_save. rewrite os_checks_true. fold H xp.
      destruct Hsem as (E1&E2&E3&E4&E5&E6&E7&E8&E9&E10&E11&E12&E13&E14&E15).
      fold step in E4, E10, E11, E12, E13.
      unfold Toeplitz.fori. rewrite E7, E8.
      destruct (os_loop (Z.to_nat (nb - 0)) 0 (zeros (o_y_len q)) ltac:(lia) ltac:(lia) eq_refl) as [Hl Hg].
      set (y := fori_n _ _ _ _) in *.
      unfold is_Tx, Toeplitz.slice, norm_idx. rewrite Hl, E14, E15. cbn [alen aget]. fold n.
      replace (h <? 0) with false by lia. replace (h + n <? 0) with false by lia.
      split; [lia|]. intros i Hi.
      replace (Z.max 0 (Z.min (o_y_len q) h) + i) with (i + h) by lia.
      rewrite Hg. unfold inb.
      destruct (_ && _) eqn:E; [apply linconv_is_T; lia | exfalso; lia].
    Qed.
  End OverlapSave.

  (* ---------------------------------------------------------------------------------------- *)
  (* batching: jnp.vectorize applies the kernel to each broadcast row independently *)
  Notation vectorize := (vectorize K k0).
  Notation brow := (brow K k0).

  Lemma nth_zrange_map {A} (f : Z -> A) (m : nat) (r : Z) (d : A) :
    0 <= r < Z.of_nat m -> nth (Z.to_nat r) (map f (zrange 0 m)) d = f r.
  Proof.
    intros Hr. unfold zrange. rewrite map_map.
    rewrite (nth_indep _ d (f (0 + Z.of_nat 0))) by (rewrite map_length, seq_length; lia).
    rewrite (map_nth (fun k => f (0 + Z.of_nat k)) (seq 0 m) 0%nat).
    rewrite seq_nth by lia. f_equal. lia.
  Qed.

  Lemma vectorize_rows {A} (f : arr -> arr -> A) x band out rows :
    vectorize f x band = Ok (out, rows) ->
    broadcast_shapes (bshape x) (bshape band) = Some out /\
    Z.of_nat (List.length rows) = Z.max 0 (zprod out) /\
    forall r d, 0 <= r < zprod out ->
      nth (Z.to_nat r) rows d = f (brow x (bidx out (bshape x) r)) (brow band (bidx out (bshape band) r)).
  Proof.
    unfold Toeplitz.vectorize. destruct (broadcast_shapes _ _) as [o|]; [|discriminate].
    intros E. injection E as <- <-. split; [reflexivity|]. split.
    - unfold zrange. rewrite !map_length, seq_length. lia.
    - intros r d Hr.
      apply (nth_zrange_map (fun r => f (brow x (bidx o (bshape x) r)) (brow band (bidx o (bshape band) r)))). lia.
  Qed.

  (* ---------------------------------------------------------------------------------------- *)
  (* as_matrix: block diagonal over the flattened batch; its product with the flattened input is
     the row-wise product *)
  Notation as_matrix_entry := (as_matrix_entry K k0).

  Lemma as_matrix_blockdiag_l n blocks p q :
    as_matrix_entry n blocks p q =
    if (p / n) =? (q / n) then nth (Z.to_nat (p / n)) blocks (fun _ _ => k0) (p mod n) (q mod n) else k0.
  Proof. reflexivity. Qed.

  Lemma as_matrix_mv_l n B blocks (xflat : Z -> K) r i :
    1 <= n -> 0 <= r < B -> 0 <= i < n ->
    sumZ (fun q => as_matrix_entry n blocks (r * n + i) q *k xflat q) 0 (Z.to_nat (B * n)) =
    sumZ (fun j => nth (Z.to_nat r) blocks (fun _ _ => k0) i j *k xflat (r * n + j)) 0 (Z.to_nat n).
  Proof.
    intros Hn Hr Hi.
    assert (Hpd : (r * n + i) / n = r) by (rewrite Z.div_add_l by lia; rewrite Z.div_small by lia; lia).
    assert (Hpm : (r * n + i) mod n = i) by (rewrite Z.add_comm, Z.mod_add by lia; apply Z.mod_small; lia).
    assert (0 <= r * n) by nia. assert (r * n + n <= B * n) by nia.
    rewrite (sumZ_restrict _ 0 (Z.to_nat (B * n)) (r * n) (Z.to_nat n)); try lia.
    - replace (r * n) with (0 + r * n) at 1 by lia. rewrite sumZ_shift. apply sumZ_ext. intros j Hj.
      unfold Toeplitz.as_matrix_entry. rewrite Hpd, Hpm.
      assert (Hqd : (j + r * n) / n = r) by (rewrite Z.div_add by lia; rewrite Z.div_small by lia; lia).
      assert (Hqm : (j + r * n) mod n = j) by (rewrite Z.mod_add by lia; apply Z.mod_small; lia).
      rewrite Hqd, Hqm, Z.eqb_refl. do 2 f_equal. lia.
    - intros c Hc Hnot. unfold Toeplitz.as_matrix_entry. rewrite Hpd.
      destruct (r =? c / n) eqn:E; [|ring]. exfalso. apply Z.eqb_eq in E.
      pose proof (Z.div_mod c n ltac:(lia)). pose proof (Z.mod_pos_bound c n ltac:(lia)). nia.
  Qed.

  (* symmetric: the block-diagonal matrix of symmetric blocks *)
  Lemma as_matrix_sym_l n blocks p q :
    (forall b i j, nth b blocks (fun _ _ => k0) i j = nth b blocks (fun _ _ => k0) j i) ->
    as_matrix_entry n blocks p q = as_matrix_entry n blocks q p.
  Proof.
    intros Hs. unfold Toeplitz.as_matrix_entry. rewrite (Z.eqb_sym (q / n)).
    destruct (p / n =? q / n) eqn:E; [|reflexivity]. apply Z.eqb_eq in E. rewrite <- E. apply Hs.
  Qed.
End L.

(* ------------------------------------------------------------------------------------------ *)
(* facts that do not depend on the ring *)

Lemma cdiv_pos a b : 0 < b -> 0 < a -> 1 <= cdiv a b.
Proof. intros Hb Ha. pose proof (cdiv_spec a b Hb). nia. Qed.

(* the default FFT size 2^(a + ceil(log2 b)) is a power of two not smaller than b *)
Lemma pow_clog2 a b :
  1 <= b -> 0 <= a -> b <= 2 ^ (a + clog2 b) /\ exists e, 0 <= e /\ 2 ^ (a + clog2 b) = 2 ^ e.
Proof.
  intros Hb Ha. destruct (clog2_spec b Hb) as [H1 H2]. split.
  - rewrite Z.pow_add_r by lia. assert (1 <= 2 ^ a) by (apply Z.lt_pred_le, Z.pow_pos_nonneg; lia). nia.
  - exists (a + clog2 b). split; [lia | reflexivity].
Qed.

(* dtype of the result = dtype of the data whenever the band values are not wider than the data
   and y is allocated with the result (or data) dtype; both x64 modes, every method name *)
Lemma dtype_preserved_l yd x64 method xd bd :
  yd = YResult \/ yd = YData -> dt_le bd xd = true -> dtype_out yd x64 method xd bd = Ok xd.
Proof.
  intros Hy Hle. unfold dtype_out. destruct (String.eqb method "overlap_save");
    destruct Hy as [-> | ->]; destruct xd, bd; try discriminate Hle; reflexivity.
Qed.

(* with the default dtype for y the clause fails: float32 data and bands under x64 *)
Lemma dtype_default_refuted :
  dtype_out YDefault true "overlap_save" F32 F32 = Err TypeError.
Proof. reflexivity. Qed.

(* band-value batch shapes that broadcast TO the batch shape of the input leave it unchanged *)
Fixpoint fits_rev (b a : list Z) : Prop :=
  match b, a with
  | [], _ => True
  | y :: b', x :: a' => (y = x \/ y = 1) /\ fits_rev b' a'
  | _ :: _, [] => False
  end.

Lemma bcast_fits a : forall b, fits_rev b a -> bcast_rev a b = Some a.
Proof.
  induction a as [|x a IH]; intros [|y b] Hf; cbn in *; try reflexivity; try contradiction.
  destruct Hf as [Hy Hf]. rewrite (IH b Hf).
  destruct (x =? y) eqn:E1; [reflexivity|].
  destruct (x =? 1) eqn:E2; [exfalso; lia|].
  destruct (y =? 1) eqn:E3; [reflexivity | exfalso; lia].
Qed.

Lemma broadcast_to_l sx sb : fits_rev (rev sb) (rev sx) -> broadcast_shapes sx sb = Some sx.
Proof. intros Hf. unfold broadcast_shapes. rewrite (bcast_fits _ _ Hf), rev_involutive. reflexivity. Qed.

Lemma half_odd h : (2 * h + 1) / 2 = h.
Proof. symmetry. apply Z.div_unique with (r := 1); lia. Qed.

(* the four method names, decoded from the boolean membership test *)
Lemma str_in_cases s l : str_in s l = true -> In s l.
Proof.
  unfold str_in. rewrite existsb_exists. intros (y & Hy & E). apply String.eqb_eq in E. subst. exact Hy.
Qed.
Lemma str_in_false s l : str_in s l = false -> ~ In s l.
Proof.
  unfold str_in. intros E Hin. rewrite existsb_false_iff in E. specialize (E s Hin).
  rewrite String.eqb_refl in E. discriminate.
Qed.

(* ------------------------------------------------------------------------------------------ *)
(* as_matrix: block (r, r') of the result is the Toeplitz matrix of band row r on the diagonal and
   zero elsewhere *)
Section AsMatrix.
  Variable K : Type.
  Variable k0 : K.

  Lemma divmod_block n r i : 1 <= n -> 0 <= i < n -> (r * n + i) / n = r /\ (r * n + i) mod n = i.
  Proof.
    intros Hn Hi. split.
    - rewrite Z.div_add_l by lia. rewrite Z.div_small by lia. lia.
    - rewrite Z.add_comm, Z.mod_add by lia. apply Z.mod_small; lia.
  Qed.

  Lemma as_matrix_spec_l xbatch n (band : barr K) size M :
    1 <= n -> as_matrix K k0 xbatch n band = Ok (size, M) ->
    exists out, broadcast_shapes xbatch (bshape band) = Some out /\ size = zprod out * n /\
      forall r r' i j, 0 <= r < zprod out -> 0 <= r' < zprod out -> 0 <= i < n -> 0 <= j < n ->
        1 <= alen (brow K k0 band (bidx out (bshape band) r)) ->
        M (r * n + i) (r' * n + j) =
        if r =? r' then Tm K k0 (brow K k0 band (bidx out (bshape band) r)) i j else k0.
  Proof.
    intros Hn. unfold as_matrix.
    destruct (vectorize K k0 _ _ band) as [[out blocks]|e] eqn:E; [|discriminate].
    intros E2. injection E2 as <- <-.
    apply vectorize_rows in E as (Hb & Hlen & Hrows). cbn [bshape] in Hb.
    exists out. split; [exact Hb|]. split; [reflexivity|].
    intros r r' i j Hr Hr' Hi Hj HK. unfold as_matrix_entry.
    destruct (divmod_block n r i Hn Hi) as [-> ->]. destruct (divmod_block n r' j Hn Hj) as [-> ->].
    destruct (r =? r') eqn:Er; [|reflexivity].
    rewrite Hrows by lia. apply dense_spec_l; lia.
  Qed.
End AsMatrix.

(* ------------------------------------------------------------------------------------------ *)
(* mv: if the kernel of the method computes T x on single rows, mv computes it on every broadcast
   row and the core-dimension check of jnp.vectorize passes *)
Section Mv.
  Variable K : Type.
  Variables (k0 : K) (kadd kmul : K -> K -> K).
  Notation is_Tx := (is_Tx K k0 kadd kmul).
  Notation brow := (brow K k0).

  Lemma check_row_Tx (f : arr K -> arr K -> option (arr K)) xr br :
    is_Tx br xr (f xr br) ->
    row_bad K (check_row K f xr br) = false /\ row_out K (check_row K f xr br) = f xr br.
  Proof.
    unfold is_Tx, check_row. destruct (f xr br) as [y|]; [|contradiction].
    intros [Hl _]. rewrite Hl, Z.eqb_refl. split; reflexivity.
  Qed.

  Lemma mv_rows_l dq fq oq method stored f (x band : barr K) out n Kb :
    get_func K k0 kadd kmul dq fq oq method stored = Some f ->
    (forall xr br, alen xr = n -> alen br = Kb -> is_Tx br xr (f xr br)) ->
    broadcast_shapes (bshape x) (bshape band) = Some out ->
    (forall r, 0 <= r < zprod out ->
       alen (brow x (bidx out (bshape x) r)) = n /\ alen (brow band (bidx out (bshape band) r)) = Kb) ->
    exists rows, mv K k0 kadd kmul dq fq oq method stored x band = Ok (out, rows) /\
      forall r, 0 <= r < zprod out ->
        is_Tx (brow band (bidx out (bshape band) r)) (brow x (bidx out (bshape x) r))
              (nth (Z.to_nat r) rows None).
  Proof.
    intros Hget Hf Hb Hlen. unfold mv. rewrite Hget. unfold vectorize. rewrite Hb.
    set (g := fun r => check_row K f (brow x (bidx out (bshape x) r)) (brow band (bidx out (bshape band) r))).
    assert (Hg : forall r, 0 <= r < zprod out ->
              row_bad K (g r) = false /\
              row_out K (g r) = f (brow x (bidx out (bshape x) r)) (brow band (bidx out (bshape band) r))).
    { intros r Hr. apply check_row_Tx. destruct (Hlen r Hr). apply Hf; assumption. }
    replace (existsb (row_bad K) (map g (zrange 0 (Z.to_nat (zprod out))))) with false.
    2:{ symmetry. apply existsb_false_iff. intros a Ha. apply in_map_iff in Ha as (r & <- & Hr).
        apply zrange_In in Hr. apply Hg. lia. }
    eexists. split; [reflexivity|]. intros r Hr. rewrite map_map.
    rewrite (nth_zrange_map (fun r => row_out K (g r))) by lia.
    destruct (Hg r Hr) as [_ ->]. destruct (Hlen r Hr). apply Hf; assumption.
  Qed.
End Mv.

(* ------------------------------------------------------------------------------------------ *)
(* broadcasting selects existing rows: for well-formed batched arrays the row picked for any row
   of the broadcast batch exists, hence has the common row length *)
Lemma zprod_cons x l : zprod (x :: l) = x * zprod l.
Proof. reflexivity. Qed.
Lemma zprod_app l a : zprod (l ++ [a]) = zprod l * a.
Proof.
  induction l as [|x l IH]; [change (a * 1 = 1 * a); ring|].
  cbn [app]. rewrite !zprod_cons, IH. ring.
Qed.
Lemma zprod_rev l : zprod (rev l) = zprod l.
Proof. induction l as [|x l IH]; [reflexivity|]. cbn [rev]. rewrite zprod_app, zprod_cons, IH. ring. Qed.
Lemma zprod_pos l : Forall (fun d => 1 <= d) l -> 1 <= zprod l.
Proof. induction 1 as [|x l Hx Hl IH]; [change (1 <= 1); lia|]. rewrite zprod_cons. nia. Qed.

Lemma bcast_rev_pos a : forall b o,
  bcast_rev a b = Some o -> Forall (fun d => 1 <= d) a -> Forall (fun d => 1 <= d) b -> Forall (fun d => 1 <= d) o.
Proof.
  induction a as [|x a IH]; intros [|y b] o E Ha Hb; cbn in E; try (injection E as <-; assumption).
  destruct (bcast_rev a b) as [r|] eqn:Er; [|discriminate].
  inversion Ha; inversion Hb; subst.
  specialize (IH b r Er ltac:(assumption) ltac:(assumption)).
  destruct (x =? y); [injection E as <-; constructor; assumption|].
  destruct (x =? 1); [injection E as <-; constructor; assumption|].
  destruct (y =? 1); [injection E as <-; constructor; assumption | discriminate].
Qed.

Lemma unravel_range o : forall r,
  Forall (fun d => 1 <= d) o -> 0 <= r -> Forall2 (fun d i => 0 <= i < d) o (unravel_rev o r).
Proof.
  induction o as [|d o IH]; intros r Ho Hr; cbn; [constructor|].
  inversion Ho; subst. constructor.
  - apply Z.mod_pos_bound. lia.
  - apply IH; [assumption | apply Z.div_pos; lia].
Qed.

Lemma ravel_bcast_range a : forall b o ri,
  bcast_rev a b = Some o -> Forall (fun d => 1 <= d) a ->
  Forall2 (fun d i => 0 <= i < d) o ri -> 0 <= ravel_bcast_rev a ri < zprod a.
Proof.
  induction a as [|x a IH]; intros b o ri E Ha Hri; [cbn; lia|].
  inversion Ha as [|? ? Hx Ha']; subst.
  assert (Hstep : forall i is_ d r' b', bcast_rev a b' = Some r' -> 0 <= i < d -> (x = 1 \/ d = x) ->
            Forall2 (fun d i => 0 <= i < d) r' is_ ->
            0 <= ravel_bcast_rev (x :: a) (i :: is_) < zprod (x :: a)).
  { intros i is_ d r' b' Er Hi Hd Hr'. cbn [ravel_bcast_rev]. rewrite zprod_cons.
    specialize (IH b' r' is_ Er Ha' Hr').
    destruct (x =? 1) eqn:E1; nia. }
  destruct b as [|y b]; cbn in E.
  - injection E as <-. inversion Hri as [|d i o' is_ Hi Hr']; subst.
    apply (Hstep i is_ x a []); auto. destruct a; reflexivity.
  - destruct (bcast_rev a b) as [r'|] eqn:Er; [|discriminate].
    destruct (x =? y) eqn:E1.
    + injection E as <-. inversion Hri; subst. eapply Hstep; eauto.
    + destruct (x =? 1) eqn:E2.
      * injection E as <-. inversion Hri; subst. eapply Hstep; eauto. left; lia.
      * destruct (y =? 1) eqn:E3; [|discriminate].
        injection E as <-. inversion Hri; subst. eapply Hstep; eauto.
Qed.

Lemma bcast_rev_sym a : forall b, bcast_rev a b = bcast_rev b a.
Proof.
  induction a as [|x a IH]; intros [|y b]; cbn; try reflexivity.
  rewrite IH. destruct (bcast_rev b a); [|reflexivity].
  rewrite (Z.eqb_sym y x). destruct (x =? y) eqn:E; [apply Z.eqb_eq in E; subst; reflexivity|].
  destruct (x =? 1) eqn:E1; destruct (y =? 1) eqn:E2; try reflexivity. exfalso; lia.
Qed.

Lemma bidx_range sx sb out r :
  broadcast_shapes sx sb = Some out ->
  Forall (fun d => 1 <= d) sx -> Forall (fun d => 1 <= d) sb -> 0 <= r ->
  0 <= bidx out sx r < zprod sx /\ 0 <= bidx out sb r < zprod sb.
Proof.
  unfold broadcast_shapes, bidx. destruct (bcast_rev (rev sx) (rev sb)) as [o|] eqn:E; [|discriminate].
  intros Ho Hx Hb Hr. injection Ho as <-. rewrite rev_involutive.
  assert (Hx' : Forall (fun d => 1 <= d) (rev sx)) by (apply Forall_rev; assumption).
  assert (Hb' : Forall (fun d => 1 <= d) (rev sb)) by (apply Forall_rev; assumption).
  pose proof (unravel_range o r (bcast_rev_pos _ _ _ E Hx' Hb') Hr) as Hri.
  rewrite <- (zprod_rev sx), <- (zprod_rev sb). split.
  - eapply ravel_bcast_range; eassumption.
  - rewrite bcast_rev_sym in E. eapply ravel_bcast_range; eassumption.
Qed.

(* a batched array all of whose rows have length n *)
Definition wf_barr {K} (b : barr K) (n : Z) : Prop :=
  Forall (fun d => 1 <= d) (bshape b) /\ Z.of_nat (List.length (brows b)) = zprod (bshape b) /\
  Forall (fun a => alen a = n) (brows b).

Lemma wf_brow {K} (k0 : K) (b : barr K) n i : wf_barr b n -> 0 <= i < zprod (bshape b) -> alen (brow K k0 b i) = n.
Proof.
  intros (_ & Hl & Hr) Hi. unfold brow. rewrite Forall_forall in Hr. apply Hr. apply nth_In. lia.
Qed.

Lemma wf_rows {K} (k0 : K) (x band : barr K) n Kb out r :
  wf_barr x n -> wf_barr band Kb -> broadcast_shapes (bshape x) (bshape band) = Some out -> 0 <= r ->
  alen (brow K k0 x (bidx out (bshape x) r)) = n /\ alen (brow K k0 band (bidx out (bshape band) r)) = Kb.
Proof.
  intros Hx Hb Ho Hr.
  destruct (bidx_range _ _ _ r Ho ltac:(apply Hx) ltac:(apply Hb) Hr) as [H1 H2].
  split; eapply wf_brow; eassumption.
Qed.
