(* C03, second stage - the executable leaf semantics of Model/Exec.v satisfies the facts about leaf
   operators that Lemmas/TransposeL.v assumes (Model/Adjoint.v `adj_facts`).
   Part 1: the table-free semantics (`leafsem []`: QU rotation and its transpose, half-wave plate,
   1-d diagonal; every other leaf class has no action without a measured matrix) satisfies ALL of
   adj_facts, hence transposition is the exact adjoint for every expression built from those classes,
   identity and scalars, unconditionally.
   Part 2: table-backed leaves: <M x, y> = <x, M^T y> for `matvec` / `transpose_m`, lifted through
   flatten/unflatten to `apply_matrix`, and from there to the lazy transposes that transpose()
   creates around a primitive that acts through a table matrix. *)
From Coq Require Import List Bool Arith NArith ZArith QArith Qcanon Lia Ring.
From Furax Require Import Base.Pytree Model.Op Model.Algebra Model.Denote Model.Wf Model.Exec Model.Adjoint
  Lemmas.DenoteL Lemmas.TransposeL Lemmas.MuellerExecL.
Import ListNotations.
Local Close Scope Q_scope.
Local Close Scope Qc_scope.
Local Open Scope nat_scope.

Notation xdot := (dotl k0 Qcplus Qcmult).
Notation xinners := (inners k0 Qcplus Qcmult).
Notation xadjoint := (adjoint k0 Qcplus Qcmult).

Lemma xinner_node k cs k' cs' : xinner (Node k cs) (Node k' cs') = xinners cs cs'.
Proof. apply inner_node. Qed.
Lemma xinners_cons a r b r' : xinners (a :: r) (b :: r') = Qcplus (xinner a b) (xinners r r').
Proof. reflexivity. Qed.
Lemma xinner_leaf u v : xinner (Leaf u) (Leaf v) = xdot u v.
Proof. reflexivity. Qed.
Lemma xdot_cons a u b v : xdot (a :: u) (b :: v) = Qcplus (Qcmult a b) (xdot u v).
Proof. reflexivity. Qed.
Lemma addmid (B C D F : K) : Qcplus B C = Qcplus D F -> forall X, Qcplus B (Qcplus C X) = Qcplus D (Qcplus F X).
Proof. intros H X. rewrite !Qcplus_assoc, H. reflexivity. Qed.

(* ---------- values of one structure have the same shape ---------- *)
Lemma has_struct_node k cs s : has_struct (Node k cs) s = true -> exists ss, s = Node k ss.
Proof.
  destruct s as [sd|k' ss]; [discriminate|]. cbn [has_struct]. intros H. apply andb_true_iff in H as [H _].
  apply ckind_eqb_eq in H. subst. eauto.
Qed.
Lemma has_struct_same_kind k cs k' cs' s :
  has_struct (Node k cs) s = true -> has_struct (Node k' cs') s = true -> k = k'.
Proof.
  intros H1 H2. destruct (has_struct_node _ _ _ H1) as (ss & ->). destruct (has_struct_node _ _ _ H2) as (ss' & E).
  congruence.
Qed.

(* ---------- QU rotation: R(a).T is the adjoint of R(a) ---------- *)
Lemma rot_lists_adjoint a : forall q u q1 u1 q' u' q2 u2,
  rot_lists false a q u = Some (q1, u1) -> rot_lists true a q' u' = Some (q2, u2) ->
  Qcplus (xdot q1 q') (xdot u1 u') = Qcplus (xdot q q2) (xdot u u2).
Proof.
  induction a as [|an a IH]; intros q u q1 u1 q' u' q2 u2 H1 H2.
  - destruct q, u; cbn in H1; try discriminate. injection H1 as <- <-. reflexivity.
  - destruct q as [|qn q], u as [|un u]; cbn [rot_lists] in H1; try discriminate.
    destruct q' as [|qn' q'], u' as [|un' u']; cbn [rot_lists] in H2; try discriminate.
    destruct (cs2 an) as [[c s]|]; [|discriminate].
    destruct (rot_lists false a q u) as [[qs us]|] eqn:R1; [|discriminate].
    destruct (rot_lists true a q' u') as [[qs' us']|] eqn:R2; [|discriminate].
    injection H1 as <- <-. injection H2 as <- <-. rewrite !xdot_cons.
    pose proof (IH _ _ _ _ _ _ _ _ R1 R2) as E.
    transitivity (Qcplus (Qcplus (Qcmult (Qcminus (Qcmult qn c) (Qcmult un s)) qn') (Qcmult (Qcplus (Qcmult qn s) (Qcmult un c)) un'))
                         (Qcplus (xdot qs q') (xdot us u'))); [ring|].
    rewrite E. ring.
Qed.

Lemma rot_value_adjoint a s x y fx gy :
  has_struct x s = true -> has_struct y s = true ->
  rot_value false a x = Some fx -> rot_value true a y = Some gy -> xinner fx y = xinner x gy.
Proof.
  intros Hx Hy H1 H2. unfold rot_value in H1, H2. split_match H1; split_match H2;
    try (pose proof (has_struct_same_kind _ _ _ _ _ Hx Hy) as Ek; discriminate Ek).
  - injection H1 as <-. injection H2 as <-. reflexivity.
  - destruct (rot_lists false a a0 a1) as [[q1 u1]|] eqn:R1; [|discriminate]. injection H1 as <-.
    destruct (rot_lists true a a2 a3) as [[q2 u2]|] eqn:R2; [|discriminate]. injection H2 as <-.
    rewrite !xinner_node, !xinners_cons, !xinner_leaf. apply addmid. eapply rot_lists_adjoint; eauto.
  - destruct (rot_lists false a a1 a2) as [[q1 u1]|] eqn:R1; [|discriminate]. injection H1 as <-.
    destruct (rot_lists true a a4 a5) as [[q2 u2]|] eqn:R2; [|discriminate]. injection H2 as <-.
    rewrite !xinner_node, !xinners_cons, !xinner_leaf. f_equal. apply addmid. eapply rot_lists_adjoint; eauto.
  - destruct (rot_lists false a a1 a2) as [[q1 u1]|] eqn:R1; [|discriminate]. injection H1 as <-.
    destruct (rot_lists true a a5 a6) as [[q2 u2]|] eqn:R2; [|discriminate]. injection H2 as <-.
    rewrite !xinner_node, !xinners_cons, !xinner_leaf. f_equal. apply addmid. eapply rot_lists_adjoint; eauto.
Qed.

(* ---------- half-wave plate: symmetric ---------- *)
Lemma xdot_negl u : forall v, xdot (negl u) v = xdot u (negl v).
Proof.
  unfold negl. induction u as [|a u IH]; intros [|b v]; try reflexivity. cbn [map]. rewrite !xdot_cons, IH. change K with Qc. ring.
Qed.
Lemma hwp_value_symmetric s x y fx gy :
  has_struct x s = true -> has_struct y s = true ->
  hwp_value x = Some fx -> hwp_value y = Some gy -> xinner fx y = xinner x gy.
Proof.
  intros Hx Hy H1 H2. unfold hwp_value in H1, H2. split_match H1; split_match H2;
    try (pose proof (has_struct_same_kind _ _ _ _ _ Hx Hy) as Ek; discriminate Ek);
    injection H1 as <-; injection H2 as <-; try reflexivity;
    rewrite !xinner_node, !xinners_cons, !xinner_leaf, ?xdot_negl; reflexivity.
Qed.

(* ---------- 1-d diagonal: symmetric ---------- *)
Lemma xdot_diag (c : nat -> K) : forall n u v,
  xdot (map (fun p => Qcmult (c (fst p)) (snd p)) (combine (seq n (List.length u)) u)) v =
  xdot u (map (fun p => Qcmult (c (fst p)) (snd p)) (combine (seq n (List.length v)) v)).
Proof.
  intros n u. revert n. induction u as [|a u IH]; intros n [|b v]; try reflexivity.
  cbn [List.length seq combine map fst snd]. rewrite !xdot_cons, IH. change K with Qc. ring.
Qed.
Lemma diag_leaf_symmetric axis v sd d d' : xdot (diag_leaf axis v sd d) d' = xdot d (diag_leaf axis v sd d').
Proof. unfold diag_leaf. apply (xdot_diag (fun i => Q2Qc (nth ((i / _) mod _) v 0%Q))). Qed.

Lemma diag_value_symmetric axis v : forall s x y,
  xinner (diag_value axis v s x) y = xinner x (diag_value axis v s y).
Proof.
  induction s as [sd|k ss IH] using pt_ind'; intros [d|kx cs] [d'|ky cs']; cbn [diag_value]; try reflexivity.
  - rewrite !xinner_leaf. apply diag_leaf_symmetric.
  - rewrite !xinner_node. revert cs cs'. induction IH as [|s0 ss Hs _ IHs]; intros cs cs'.
    + destruct cs, cs'; reflexivity.
    + destruct cs as [|c cs]; [reflexivity|]. destruct cs' as [|c' cs']; [destruct (diag_value axis v s0 c :: _); reflexivity|].
      rewrite !xinners_cons, Hs, IHs. reflexivity.
Qed.

(* ---------- the table-free leaf semantics ---------- *)
Lemma lsem_wrap_none i w x0 y : w <> WQURotT -> lsem (Wrap i w x0) y = None.
Proof.
  intros Hw. unfold lsem, leafsem. destruct (negb _); [reflexivity|]. rewrite lookup_nil_if.
  destruct w; try congruence; destruct x0; reflexivity.
Qed.
Lemma lsem_prim_cases i c si so p x y : lsem (Prim i c si so p) x = Some y ->
  has_struct x (in_struct (Prim i c si so p : xop)) = true /\
  ((exists a, c = CQURotation /\ p = PAngles a /\ rot_value false a x = Some y) \/
   (c = CHWP /\ hwp_value x = Some y) \/ (c = CLinearPolarizer /\ pol_value x = Some y) \/
   (exists axis v, c = CDiagonal /\ p = PDiag axis v /\ y = diag_value axis v (in_struct (Prim i c si so p : xop)) x)).
Proof.
  unfold lsem, leafsem. destruct (has_struct x _) eqn:Hs; cbn [negb]; [|discriminate]. rewrite lookup_nil_if.
  intros H. split; [reflexivity|].
  destruct c; destruct p; cbn [lookup] in H; try discriminate H.
  all: try (right; right; right; injection H as <-; eauto 6; fail).
  all: try (left; eauto 6; fail).
  all: try (right; left; auto; fail).
  all: right; right; left; auto.
Qed.

Theorem exec_adj_facts_empty : adj_facts k0 Qcplus Qcmult lsem.
Proof.
  constructor.
  - (* generic lazy transpose: needs a measured matrix *)
    intros i x0 _ x y fx gy _ H. rewrite lsem_wrap_none in H by discriminate. discriminate.
  - (* QURotationTransposeOperator *)
    intros i x0 _ x y fx gy H1 H2. destruct (lsem_rotT_inner _ _ _ _ H2) as (j & sj & soj & a & ->).
    cbn [denote] in H1. fold lsem in H1. rewrite lsem_R in H1. rewrite lsem_RT in H2.
    destruct (has_struct x sj) eqn:Hx; cbn [negb] in H1; [|discriminate].
    destruct (has_struct y sj) eqn:Hy; cbn [negb] in H2; [|discriminate].
    eapply rot_value_adjoint; eauto.
  - intros i x0 _ x y fx gy _ H. rewrite lsem_wrap_none in H by discriminate. discriminate.
  - intros i x0 _ x y fx gy _ H. rewrite lsem_wrap_none in H by discriminate. discriminate.
  - (* @symmetric classes *)
    intros i c si so p Hc x y fx gy H1 H2.
    destruct (lsem_prim_cases _ _ _ _ _ _ _ H1) as [Hx [(a & -> & _)|[(-> & V1)|[(-> & _)|(ax & v & -> & -> & ->)]]]]; try discriminate Hc;
    destruct (lsem_prim_cases _ _ _ _ _ _ _ H2) as [Hy [(a' & Ec & _)|[(Ec & V2)|[(Ec & _)|(ax' & v' & Ec & E & ->)]]]]; try discriminate Ec.
    + eapply hwp_value_symmetric; eauto.
    + injection E as <- <-. apply diag_value_symmetric.
  - intros i x0 x y fx gy _ H. rewrite lsem_wrap_none in H by discriminate. discriminate.
  - intros i si so k x y fx gy H _. apply lsem_prim_cases in H as [_ [(a & E & _)|[(E & _)|[(E & _)|(ax & v & E & _)]]]]; discriminate E.
  - intros i si so s d x y fx gy H _. apply lsem_prim_cases in H as [_ [(a & E & _)|[(E & _)|[(E & _)|(ax & v & E & _)]]]]; discriminate E.
Qed.

(* transposition is the exact adjoint for the table-free executable semantics, unconditionally *)
Theorem exec_transpose_adjoint : forall e : xop, no_inverse e = true ->
  forall x y ex ety, xden e x = Some ex -> xden (x_transpose e) y = Some ety -> xinner ex y = xinner x ety.
Proof. exact (transpose_adjoint_l K k0 k1 Qcplus Qcmult Qcminus Qcopp Qcrt lsem exec_adj_facts_empty). Qed.

(* ... and the hypothesis of the A.T.T theorem holds for it as well *)
Theorem exec_oid_facts_empty : oid_facts lsem.
Proof.
  constructor.
  - intros i si so k x. unfold lsem, leafsem, in_struct, out_struct. cbn [structs square_cls fst snd].
    destruct (negb _); [reflexivity|]. rewrite !lookup_nil_if. reflexivity.
  - intros i si so s d x. unfold lsem, leafsem, in_struct, out_struct. cbn [structs square_cls fst snd].
    destruct (negb _); [reflexivity|]. rewrite !lookup_nil_if. reflexivity.
  - intros i w x0 Hw x. unfold lsem, leafsem, in_struct, out_struct. cbn [structs fst snd].
    destruct (negb _); [reflexivity|]. rewrite !lookup_nil_if. reflexivity.
Qed.

(* ---------- Part 2: table-backed leaves ---------- *)
(* <M x, y> = <x, M^T y> for the matrix-vector product of Model/Exec.v and its `transpose_m`
   (the matrix the model gives to a lazy transpose created by transpose()) *)
Definition rows_ok (n : nat) (m : matrix) : Prop := Forall (fun r => List.length r = n) m.

Lemma dot_is_xdot u v : dot u v = xdot u v.
Proof. reflexivity. Qed.
Lemma xdot_nil_r u : xdot u [] = k0.
Proof. destruct u; reflexivity. Qed.
Lemma xdot_app a1 : forall b1 a2 b2, List.length a1 = List.length b1 ->
  xdot (a1 ++ a2) (b1 ++ b2) = Qcplus (xdot a1 b1) (xdot a2 b2).
Proof.
  induction a1 as [|a a1 IH]; intros [|b b1] a2 b2 H; cbn in H; try discriminate.
  - cbn [app]. change (xdot [] []) with k0. change K with Qc. unfold k0. ring.
  - cbn [app]. rewrite !xdot_cons, IH by lia. change K with Qc. ring.
Qed.
Lemma matvec_length m x : List.length (matvec m x) = List.length m.
Proof. unfold matvec. apply map_length. Qed.
Lemma transpose_m_length m n : List.length (transpose_m m n) = n.
Proof. revert m. induction n as [|n IH]; intros m; cbn [transpose_m]; [reflexivity|]. rewrite app_length, IH. cbn. lia. Qed.
Lemma snoc_split (A : Type) (d : A) (l : list A) n : List.length l = S n ->
  l = removelast l ++ [last l d] /\ List.length (removelast l) = n.
Proof.
  intros H. assert (Hn : l <> []) by (destruct l; [discriminate|congruence]).
  split; [now apply app_removelast_last|]. pose proof (app_removelast_last d Hn) as E.
  apply (f_equal (@List.length A)) in E. rewrite app_length in E. cbn in E. lia.
Qed.
Lemma rows_ok_removelast n m : rows_ok (S n) m -> rows_ok n (map (fun r => removelast r) m).
Proof.
  unfold rows_ok. intros H. apply Forall_map. eapply Forall_impl; [|exact H]. intros r Hr.
  exact (proj2 (snoc_split K k0 r n Hr)).
Qed.

(* sum_i y_i (f_i + c_i * t) = sum_i y_i f_i + t * sum_i y_i c_i *)
Lemma xdot_map_affine (f c : list K -> K) t m : forall y,
  xdot (map (fun r => Qcplus (f r) (Qcmult (c r) t)) m) y =
  Qcplus (xdot (map f m) y) (Qcmult t (xdot (map c m) y)).
Proof.
  induction m as [|r m IH]; intros [|b y]; cbn [map]; try (change K with Qc; unfold Adjoint.dotl; cbn; unfold k0; ring).
  rewrite !xdot_cons, IH. change K with Qc. ring.
Qed.

Theorem matvec_transpose_adjoint : forall n m x y, rows_ok n m -> List.length x = n ->
  xdot (matvec m x) y = xdot x (matvec (transpose_m m n) y).
Proof.
  induction n as [|n IH]; intros m x y Hm Hx.
  - destruct x; [|discriminate]. cbn [transpose_m matvec map]. rewrite xdot_nil_r.
    assert (E : matvec m [] = map (fun _ => k0) m).
    { unfold matvec. apply map_ext. intros r. destruct r; reflexivity. }
    rewrite E. clear. revert y. induction m as [|r m IH]; intros [|b y]; try reflexivity.
    cbn [map]. rewrite xdot_cons, IH. unfold k0. rewrite Qcmult_0_l, Qcplus_0_r. reflexivity.
  - destruct (snoc_split K k0 x n Hx) as [Ex Hx']. set (x' := removelast x) in *. set (xl := last x k0) in *.
    cbn [transpose_m]. unfold matvec at 2. rewrite map_app. cbn [map]. fold (matvec (transpose_m (map (fun r => removelast r) m) n) y).
    rewrite Ex, xdot_app by (rewrite matvec_length, transpose_m_length; exact Hx').
    rewrite <- (IH (map (fun r => removelast r) m) x' y (rows_ok_removelast n m Hm) Hx').
    rewrite xdot_cons. change (xdot [] []) with k0.
    assert (E : matvec m (x' ++ [xl]) = map (fun r => Qcplus (xdot (removelast r) x') (Qcmult (last r k0) xl)) m).
    { unfold matvec. apply map_ext_in. intros r Hr. unfold rows_ok in Hm. rewrite Forall_forall in Hm.
      destruct (snoc_split K k0 r n (Hm r Hr)) as [Er Hr']. rewrite Er at 1. change dot with xdot. rewrite xdot_app by congruence.
      rewrite xdot_cons. change (xdot [] []) with k0. change K with Qc. unfold k0. ring. }
    rewrite E, (xdot_map_affine (fun r => xdot (removelast r) x') (fun r => last r k0) xl m y).
    unfold matvec. rewrite map_map. change dot with xdot. change K with Qc. unfold k0. ring.
Qed.

(* ---------- lifting through flatten / unflatten ---------- *)
Lemma fold_add_app a b : fold_right Nat.add 0 (a ++ b) = fold_right Nat.add 0 a + fold_right Nat.add 0 b.
Proof. induction a as [|x a IH]; cbn; [reflexivity|]. rewrite IH. lia. Qed.
Lemma struct_size_cons k s ss : struct_size (Node k (s :: ss)) = struct_size s + struct_size (Node k ss).
Proof. unfold struct_size. cbn [flatten flat_map]. now rewrite map_app, fold_add_app. Qed.
Lemma struct_size_nil k : struct_size (Node k []) = 0.
Proof. reflexivity. Qed.
Lemma vflatten_cons k c cs : vflatten (Node k (c :: cs)) = vflatten c ++ vflatten (Node k cs).
Proof. unfold vflatten. cbn [flatten flat_map]. apply concat_app. Qed.
Lemma firstn_add (A : Type) n m (l : list A) : firstn (n + m) l = firstn n l ++ firstn m (skipn n l).
Proof. revert l. induction n as [|n IH]; intros [|a l]; cbn; try reflexivity; [now rewrite firstn_nil|]. now rewrite IH. Qed.

Lemma skipn_add (A : Type) m n (l : list A) : skipn n (skipn m l) = skipn (m + n) l.
Proof. revert l. induction m as [|m IH]; intros [|a l]; cbn; try reflexivity; [now rewrite skipn_nil|apply IH]. Qed.

Lemma vflatten_length : forall s y, has_struct y s = true -> List.length (vflatten y) = struct_size s.
Proof.
  induction s as [sd|k ss IH] using pt_ind'; intros [d|k' cs] H; cbn [has_struct] in H; try discriminate.
  - unfold leaf_ok in H. apply Nat.eqb_eq in H. unfold vflatten, struct_size. cbn. rewrite app_nil_r. lia.
  - apply andb_true_iff in H as [_ H]. revert cs H.
    induction IH as [|s0 ss Hs _ IHs]; intros [|c cs] H; try discriminate; [reflexivity|].
    apply andb_true_iff in H as [H1 H2]. rewrite vflatten_cons, struct_size_cons, app_length, (Hs _ H1).
    f_equal. exact (IHs cs H2).
Qed.

Lemma inner_unflatten : forall s v y, has_struct y s = true -> struct_size s <= List.length v ->
  xinner (fst (unflatten s v)) y = xdot (firstn (struct_size s) v) (vflatten y) /\
  snd (unflatten s v) = skipn (struct_size s) v.
Proof.
  induction s as [sd|k ss IH] using pt_ind'; intros v [d|k' cs] H Hv; cbn [has_struct] in H; try discriminate.
  - cbn [unflatten fst snd]. unfold struct_size in *. cbn [flatten map fold_right] in *. rewrite Nat.add_0_r in *.
    unfold vflatten. cbn [flatten concat]. rewrite app_nil_r. split; reflexivity.
  - apply andb_true_iff in H as [_ H]. cbn [unflatten].
    assert (Hl : forall v0 cs0,
      (fix go (l : list xvalue) (l' : list struct) : bool :=
         match l, l' with [] , [] => true | a :: r, b :: r' => has_struct a b && go r r' | _, _ => false end) cs0 ss = true ->
      struct_size (Node k ss) <= List.length v0 ->
      let p := (fix go (ss : list struct) (v : list K) : list xvalue * list K :=
           match ss with
           | [] => ([], v)
           | s :: ss' => let '(c, r1) := unflatten s v in let '(cs, r2) := go ss' r1 in (c :: cs, r2)
           end) ss v0 in
      xinners (fst p) cs0 = xdot (firstn (struct_size (Node k ss)) v0) (vflatten (Node k' cs0)) /\
      snd p = skipn (struct_size (Node k ss)) v0).
    { clear v cs H Hv. induction IH as [|s0 ss Hs _ IHs]; intros v [|c cs] H Hv; cbn zeta; try discriminate.
      - cbn. split; reflexivity.
      - apply andb_true_iff in H as [H1 H2]. rewrite struct_size_cons in Hv |- *.
        destruct (Hs v c H1 ltac:(lia)) as [E1 E2]. cbn zeta.
        destruct (unflatten s0 v) as [c0 r1]. cbn [fst snd] in E1, E2. subst r1.
        assert (Hv' : struct_size (Node k ss) <= List.length (skipn (struct_size s0) v)) by (rewrite skipn_length; lia).
        destruct (IHs (skipn (struct_size s0) v) cs H2 Hv') as [E3 E4]. cbn zeta in E3, E4.
        match goal with |- context [match ?G with pair _ _ => _ end] => destruct G as [cs1 r2] end.
        cbn [fst snd] in *. subst r2. split.
        + rewrite xinners_cons, E1, E3, vflatten_cons, firstn_add. symmetry. apply xdot_app.
          rewrite firstn_length, (vflatten_length _ _ H1). lia.
        + apply skipn_add. }
    specialize (Hl v cs H Hv). cbn zeta in Hl.
    match goal with |- context [match ?G with pair _ _ => _ end] => destruct G as [cs1 r] end.
    cbn [fst snd] in *. rewrite xinner_node. exact Hl.
Qed.

Lemma xinner_comm x y : xinner x y = xinner y x.
Proof. apply (inner_comm K k0 k1 Qcplus Qcmult Qcminus Qcopp Qcrt). Qed.
Lemma xdot_comm u v : xdot u v = xdot v u.
Proof. apply (dotl_comm K k0 k1 Qcplus Qcmult Qcminus Qcopp Qcrt). Qed.

Definition matrix_ok (si so : struct) (m : matrix) : Prop :=
  rows_ok (struct_size si) m /\ List.length m = struct_size so.

(* a leaf acting through the matrix m and a leaf acting through transpose_m m are adjoint *)
Theorem apply_matrix_adjoint m si so x y fx gy : matrix_ok si so m ->
  apply_matrix m si so x = Some fx -> apply_matrix (transpose_m m (struct_size si)) so si y = Some gy ->
  xinner fx y = xinner x gy.
Proof.
  intros [Hr Hl] H1 H2. unfold apply_matrix in H1, H2.
  destruct (has_struct x si) eqn:Hx; [|discriminate]. destruct (has_struct y so) eqn:Hy; [|discriminate].
  injection H1 as <-. injection H2 as <-.
  pose proof (vflatten_length _ _ Hx) as Lx. pose proof (vflatten_length _ _ Hy) as Ly.
  destruct (inner_unflatten so (matvec m (vflatten x)) y Hy) as [E1 _]; [rewrite matvec_length; lia|].
  destruct (inner_unflatten si (matvec (transpose_m m (struct_size si)) (vflatten y)) x Hx) as [E2 _];
    [rewrite matvec_length, transpose_m_length; lia|].
  rewrite E1, (xinner_comm x), E2.
  rewrite !firstn_all2 by (rewrite matvec_length, ?transpose_m_length; lia).
  rewrite (xdot_comm (matvec (transpose_m m (struct_size si)) (vflatten y))).
  apply matvec_transpose_adjoint; assumption.
Qed.

(* the lazy transposes that transpose() creates around a primitive acting through a table matrix:
   the model gives them transpose_m of that matrix, which is the adjoint *)
Definition wrap_key (j : N) (p : par) : N := match p with PKey k => k | _ => (2 * j)%N end.
Theorem exec_fresh_lazy_transpose_adjoint tb w j c si so p m :
  (w = WTranspose \/ w = WReshapeT \/ w = WObsT) ->
  lookup tb (wrap_key j p) = Some m ->
  matrix_ok (in_struct (Prim j c si so p : xop)) (out_struct (Prim j c si so p : xop)) m ->
  (forall x, leafsem tb (Prim j c si so p) x =
             apply_matrix m (in_struct (Prim j c si so p : xop)) (out_struct (Prim j c si so p : xop)) x) ->
  xadjoint (leafsem tb (Prim j c si so p)) (leafsem tb (Wrap fresh w (Prim j c si so p))).
Proof.
  intros Hw Hk Hm Hp x y fx gy H1 H2. rewrite Hp in H1.
  assert (E : leafsem tb (Wrap fresh w (Prim j c si so p)) y =
              apply_matrix (transpose_m m (struct_size (in_struct (Prim j c si so p : xop))))
                (out_struct (Prim j c si so p : xop)) (in_struct (Prim j c si so p : xop)) y).
  { unfold leafsem at 1. unfold wrap_key in Hk.
    assert (Ei : in_struct (Wrap fresh w (Prim j c si so p) : xop) = out_struct (Prim j c si so p : xop))
      by (unfold in_struct, out_struct; cbn [structs]; destruct (square_cls c); reflexivity).
    assert (Eo : out_struct (Wrap fresh w (Prim j c si so p) : xop) = in_struct (Prim j c si so p : xop))
      by (unfold in_struct, out_struct; cbn [structs]; destruct (square_cls c); reflexivity).
    rewrite Ei, Eo.
    destruct (has_struct y (out_struct (Prim j c si so p : xop))) eqn:Hy; cbn [negb]; [|unfold apply_matrix; rewrite Hy; reflexivity].
    change (fresh =? 0)%N with true. cbv iota.
    destruct Hw as [->|[->| ->]]; rewrite Hk; reflexivity. }
  rewrite E in H2. eapply apply_matrix_adjoint; eauto.
Qed.
