(* C03: transpose() returns the exact adjoint of every operator expression - by induction on the
   expression from the facts about leaves (Model/Adjoint.v `adj_facts`) and closure lemmas:
   compositions reverse, sums and block operators transpose operand-wise (row <-> column), over
   containers of any nesting.  Structures are swapped; A.T.T denotes A. *)
From Coq Require Import List Bool Arith ZArith NArith QArith String Lia Ring.
From Furax Require Import Base.Pytree Model.Op Model.Algebra Model.Denote Model.Wf Model.Adjoint Lemmas.DenoteL.
Import ListNotations.
Local Close Scope Q_scope.
Local Open Scope nat_scope.

Section TransposeL.
  Variable K : Type.
  Variables (k0 k1 : K) (kadd kmul ksub : K -> K -> K) (kopp : K -> K).
  Hypothesis Kth : ring_theory k0 k1 kadd kmul ksub kopp (@eq K).
  Add Ring KringT : Kth.
  Notation op := (op K).
  Notation value := (value K).
  Variable leafsem : op -> value -> option value.
  Notation denote := (denote kadd kmul leafsem).
  Notation chain := (chain kadd kmul leafsem).
  Notation vadd := (vadd kadd).
  Notation vsum := (vsum kadd).
  Notation vscale := (vscale kmul).
  Notation dotl := (dotl k0 kadd kmul).
  Notation inner := (inner k0 kadd kmul).
  Notation inners := (inners k0 kadd kmul).
  Notation sumk := (sumk k0 kadd).
  Notation adjoint := (adjoint k0 kadd kmul).
  Notation T := (@transpose K).

  (* ---------- the inner product ---------- *)
  Lemma dotl_nil_l v : dotl [] v = k0.
  Proof. reflexivity. Qed.
  Lemma dotl_cons a u b v : dotl (a :: u) (b :: v) = kadd (kmul a b) (dotl u v).
  Proof. reflexivity. Qed.
  Lemma dotl_comm u : forall v, dotl u v = dotl v u.
  Proof.
    induction u as [|a u IH]; intros [|b v]; try reflexivity.
    rewrite !dotl_cons, IH. ring.
  Qed.
  Lemma dotl_scale_l k u : forall v, dotl (map (kmul k) u) v = kmul k (dotl u v).
  Proof.
    induction u as [|a u IH]; intros [|b v]; cbn [map]; rewrite ?dotl_nil_l; try (unfold Adjoint.dotl; cbn; ring).
    rewrite !dotl_cons, IH. ring.
  Qed.
  Lemma dotl_zipadd u : forall v t, List.length u = List.length v ->
    dotl (map (fun p => kadd (fst p) (snd p)) (combine u v)) t = kadd (dotl u t) (dotl v t).
  Proof.
    induction u as [|a u IH]; intros [|b v] [|c t] H; cbn in H; try discriminate;
      cbn [combine map fst snd]; rewrite ?dotl_nil_l; try (unfold Adjoint.dotl; cbn; ring).
    rewrite !dotl_cons, IH by lia. ring.
  Qed.

  Lemma inner_node k cs k' cs' : inner (Node k cs) (Node k' cs') = inners cs cs'.
  Proof.
    cbn [Adjoint.inner]. unfold Adjoint.inners. revert cs'.
    induction cs as [|a r IH]; intros [|b r']; try reflexivity. cbn [combine fold_right fst snd]. now rewrite IH.
  Qed.
  Lemma inners_cons a r b r' : inners (a :: r) (b :: r') = kadd (inner a b) (inners r r').
  Proof. reflexivity. Qed.
  Lemma inners_nil_l ys : inners [] ys = k0.
  Proof. reflexivity. Qed.
  Lemma inners_nil_r xs : inners xs [] = k0.
  Proof. destruct xs; reflexivity. Qed.
  Lemma inners_app a1 : forall b1 a2 b2, List.length a1 = List.length b1 ->
    inners (a1 ++ a2) (b1 ++ b2) = kadd (inners a1 b1) (inners a2 b2).
  Proof.
    induction a1 as [|a a1 IH]; intros [|b b1] a2 b2 H; cbn in H; try discriminate.
    - cbn [app]. rewrite inners_nil_l. ring.
    - cbn [app]. rewrite !inners_cons, IH by lia. ring.
  Qed.

  Lemma inner_comm x : forall y, inner x y = inner y x.
  Proof.
    induction x as [u|k cs IH] using pt_ind'; intros [v|k' cs']; try reflexivity.
    - apply dotl_comm.
    - rewrite !inner_node. revert cs'. induction IH as [|c r Hc _ IHr]; intros [|c' r'];
        rewrite ?inners_nil_l, ?inners_nil_r; try reflexivity.
      rewrite !inners_cons, Hc, IHr. reflexivity.
  Qed.

  Lemma inner_vscale_l k x : forall y, inner (vscale k x) y = kmul k (inner x y).
  Proof.
    unfold Denote.vscale. induction x as [u|kd cs IH] using pt_ind'; intros [v|kd' cs']; cbn [pmap];
      try (cbn [Adjoint.inner]; ring).
    - cbn [Adjoint.inner]. apply dotl_scale_l.
    - rewrite !inner_node. revert cs'. induction IH as [|c r Hc _ IHr]; intros [|c' r']; cbn [map];
        rewrite ?inners_nil_l, ?inners_nil_r; try ring.
      rewrite !inners_cons, Hc, IHr. ring.
  Qed.
  Lemma inner_vscale_r k x y : inner x (vscale k y) = kmul k (inner x y).
  Proof. rewrite inner_comm, inner_vscale_l, inner_comm. reflexivity. Qed.

  Lemma inner_vadd_l a : forall b c y, vadd a b = Some c -> inner c y = kadd (inner a y) (inner b y).
  Proof.
    induction a as [u|kd cs IH] using pt_ind'; intros [v|kd' cs'] c y H; cbn [Denote.vadd] in H; try discriminate.
    - destruct (Nat.eqb (List.length u) (List.length v)) eqn:E; [|discriminate]. apply Nat.eqb_eq in E.
      injection H as <-. destruct y as [t|? ?]; cbn [Adjoint.inner]; [|ring]. now apply dotl_zipadd.
    - destruct (ckind_eqb kd kd'); [|discriminate].
      match type of H with option_map _ ?G = _ => destruct G as [zs|] eqn:Ez; [|discriminate] end.
      cbn in H. injection H as <-. destruct y as [t|ky ys]; [cbn [Adjoint.inner]; ring|].
      rewrite !inner_node. revert cs' zs ys Ez.
      induction IH as [|x r Hx _ IHr]; intros [|x' r'] zs ys Ez; try discriminate.
      + injection Ez as <-. rewrite !inners_nil_l. ring.
      + destruct (Denote.vadd kadd x x') as [z|] eqn:E1; [|discriminate].
        match type of Ez with match ?G with _ => _ end = _ => destruct G as [zs'|] eqn:E2; [|discriminate] end.
        injection Ez as <-. destruct ys as [|y0 ys]; [rewrite !inners_nil_r; ring|].
        rewrite !inners_cons, (Hx _ _ _ E1), (IHr _ _ _ E2). ring.
  Qed.

  Definition fstep := (fun (acc : option value) (z : value) => obind acc (fun a => vadd a z)).
  Lemma fold_none l : fold_left fstep l None = None.
  Proof. induction l; cbn; auto. Qed.
  Lemma inner_fold_l y r : forall a s, fold_left fstep r (Some a) = Some s ->
    inner s y = kadd (inner a y) (sumk (map (fun z => inner z y) r)).
  Proof.
    induction r as [|z r IH]; intros a s H; cbn [fold_left map Adjoint.sumk fold_right] in *.
    - injection H as <-. ring.
    - unfold fstep at 2 in H. cbn [obind] in H. destruct (vadd a z) as [az|] eqn:E; [|rewrite fold_none in H; discriminate].
      rewrite (IH _ _ H), (inner_vadd_l _ _ _ y E). fold (sumk (map (fun z0 => inner z0 y) r)). ring.
  Qed.
  Lemma inner_vsum_l ys s y : vsum ys = Some s -> inner s y = sumk (map (fun z => inner z y) ys).
  Proof.
    destruct ys as [|y0 r]; [discriminate|]. unfold Denote.vsum. intros H.
    rewrite (inner_fold_l y r y0 s H). reflexivity.
  Qed.
  Lemma inner_vsum_r ys s x : vsum ys = Some s -> inner x s = sumk (map (fun z => inner x z) ys).
  Proof.
    intros H. rewrite inner_comm, (inner_vsum_l _ _ x H). f_equal. apply map_ext. intros; apply inner_comm.
  Qed.

  (* the inner product of two trees with a common prefix is the sum over the subtrees *)
  Lemma inner_split td : forall a b xs ys,
    split_prefix td a = Some xs -> split_prefix td b = Some ys -> inner a b = inners xs ys.
  Proof.
    induction td as [u|k cs IH] using pt_ind'; intros a b xs ys Ha Hb.
    - cbn in Ha, Hb. injection Ha as <-. injection Hb as <-. rewrite inners_cons, inners_nil_l. ring.
    - cbn [split_prefix] in Ha, Hb. destruct a as [?|ka ca]; [discriminate|]. destruct b as [?|kb cb]; [discriminate|].
      destruct (ckind_eqb k ka); [|discriminate]. destruct (ckind_eqb k kb); [|discriminate].
      rewrite inner_node. revert ca cb xs ys Ha Hb.
      induction IH as [|c r Hc _ IHr]; intros ca cb xs ys Ha Hb.
      + destruct ca; [|discriminate]. destruct cb; [|discriminate]. injection Ha as <-. reflexivity.
      + destruct ca as [|a0 ca]; [discriminate|]. destruct cb as [|b0 cb]; [discriminate|].
        cbn [split_list] in Ha, Hb.
        destruct (split_prefix c a0) as [x1|] eqn:E1; [|discriminate].
        destruct (split_list (@split_prefix (list K)) r ca) as [x2|] eqn:E2; [|discriminate].
        destruct (split_prefix c b0) as [y1|] eqn:E3; [|discriminate].
        destruct (split_list (@split_prefix (list K)) r cb) as [y2|] eqn:E4; [|discriminate].
        injection Ha as <-. injection Hb as <-.
        rewrite inners_cons, (Hc _ _ _ _ E1 E3), (IHr _ _ _ _ E2 E4).
        symmetry. apply inners_app. transitivity (nleaves c); [exact (split_length _ _ E1)|symmetry; exact (split_length _ _ E3)].
  Qed.

  (* ---------- adjoint pairs ---------- *)
  Lemma adjoint_sym f g : adjoint f g -> adjoint g f.
  Proof. intros H x y gx fy Hg Hf. rewrite inner_comm, (inner_comm x). symmetry. eapply H; eauto. Qed.
  Lemma adjoint_id : adjoint (fun x => Some x) (fun x => Some x).
  Proof. intros x y fx gy H1 H2. injection H1 as <-. injection H2 as <-. reflexivity. Qed.
  Lemma adjoint_scale k : adjoint (fun x => Some (vscale k x)) (fun x => Some (vscale k x)).
  Proof. intros x y fx gy H1 H2. injection H1 as <-. injection H2 as <-. now rewrite inner_vscale_l, inner_vscale_r. Qed.
  (* (f o g)* = g* o f* *)
  Lemma adjoint_comp f f' g g' : adjoint f f' -> adjoint g g' ->
    adjoint (fun x => obind (g x) f) (fun y => obind (f' y) g').
  Proof.
    intros Hf Hg x y fx gy H1 H2. destruct (g x) as [x1|] eqn:E1; [|discriminate].
    destruct (f' y) as [y1|] eqn:E2; [|discriminate]. cbn [obind] in *.
    rewrite (Hf _ _ _ _ H1 E2). eapply Hg; eauto.
  Qed.

  Definition adjT (e : op) : Prop := adjoint (denote e) (denote (T e)).

  Lemma chain_adjoint l : Forall adjT l -> adjoint (chain l) (chain (rev (map T l))).
  Proof.
    induction 1 as [|e r He _ IH]; [apply adjoint_id|].
    cbn [map rev]. intros x y fx gy H1 H2.
    rewrite chain_cons in H1. rewrite chain_app, chain_single in H2.
    exact (adjoint_comp _ _ _ _ He IH x y fx gy H1 H2).
  Qed.

  Lemma omapl_map (f : op -> option value) (g : op -> op) l : omapl f (map g l) = omapl (fun e => f (g e)) l.
  Proof. induction l as [|e r IH]; cbn; [reflexivity|]. now rewrite IH. Qed.
  Lemma omap2_map (f : op -> value -> option value) (g : op -> op) l : forall xs,
    omap2 f (map g l) xs = omap2 (fun e => f (g e)) l xs.
  Proof. induction l as [|e r IH]; intros [|x xs]; cbn; try reflexivity. now rewrite IH. Qed.
  Lemma omap2_length (f : op -> value -> option value) l : forall xs ys,
    omap2 f l xs = Some ys -> List.length ys = List.length l /\ List.length xs = List.length l.
  Proof.
    induction l as [|e r IH]; intros [|x xs] ys H; cbn in H; try discriminate.
    - injection H as <-; auto.
    - destruct (f e x); [|discriminate]. destruct (omap2 f r xs) as [ys'|] eqn:E; [|discriminate].
      injection H as <-. destruct (IH _ _ E). cbn. lia.
  Qed.
  Lemma omapl_length (f : op -> option value) l : forall ys, omapl f l = Some ys -> List.length ys = List.length l.
  Proof.
    induction l as [|e r IH]; intros ys H; cbn in H.
    - injection H as <-; auto.
    - destruct (f e); [|discriminate]. destruct (omapl f r) as [ys'|] eqn:E; [|discriminate].
      injection H as <-. cbn. now rewrite (IH _ eq_refl).
  Qed.

  (* sums: (sum_i f_i)* = sum_i f_i* *)
  Lemma omapl_adjoint l x y : Forall adjT l -> forall zs ws,
    omapl (fun e => denote e x) l = Some zs -> omapl (fun e => denote (T e) y) l = Some ws ->
    sumk (map (fun z => inner z y) zs) = sumk (map (fun w => inner x w) ws).
  Proof.
    induction 1 as [|e r He _ IH]; intros zs ws H1 H2; cbn [omapl] in H1, H2.
    - injection H1 as <-. injection H2 as <-. reflexivity.
    - destruct (denote e x) as [z|] eqn:E1; [|discriminate].
      destruct (omapl (fun e0 => denote e0 x) r) as [zs'|] eqn:E2; [|discriminate].
      destruct (denote (T e) y) as [w|] eqn:E3; [|discriminate].
      destruct (omapl (fun e0 => denote (T e0) y) r) as [ws'|] eqn:E4; [|discriminate].
      injection H1 as <-. injection H2 as <-. cbn [map Adjoint.sumk fold_right].
      rewrite (He _ _ _ _ E1 E3). f_equal. now apply IH.
  Qed.
  (* block diagonal: blockwise *)
  Lemma omap2_adjoint l : Forall adjT l -> forall xs ys ys' ws,
    omap2 denote l xs = Some ys -> omap2 (fun e => denote (T e)) l ys' = Some ws ->
    inners ys ys' = inners xs ws.
  Proof.
    induction 1 as [|e r He _ IH]; intros [|x xs] ys [|y' ys'] ws H1 H2; cbn [omap2] in H1, H2; try discriminate.
    - injection H1 as <-. injection H2 as <-. reflexivity.
    - destruct (denote e x) as [z|] eqn:E1; [|discriminate].
      destruct (omap2 denote r xs) as [zs|] eqn:E2; [|discriminate].
      destruct (denote (T e) y') as [w|] eqn:E3; [|discriminate].
      destruct (omap2 (fun e0 => denote (T e0)) r ys') as [ws'|] eqn:E4; [|discriminate].
      injection H1 as <-. injection H2 as <-. rewrite !inners_cons, (He _ _ _ _ E1 E3). f_equal. eapply IH; eauto.
  Qed.
  (* block row vs block column *)
  Lemma row_col_adjoint l y : Forall adjT l -> forall xs ys ws,
    omap2 denote l xs = Some ys -> omapl (fun e => denote (T e) y) l = Some ws ->
    sumk (map (fun z => inner z y) ys) = inners xs ws.
  Proof.
    induction 1 as [|e r He _ IH]; intros [|x xs] ys ws H1 H2; cbn [omap2 omapl] in H1, H2; try discriminate.
    - injection H1 as <-. injection H2 as <-. reflexivity.
    - destruct (denote e x) as [z|] eqn:E1; [|discriminate].
      destruct (omap2 denote r xs) as [zs|] eqn:E2; [|discriminate].
      destruct (denote (T e) y) as [w|] eqn:E3; [|discriminate].
      destruct (omapl (fun e0 => denote (T e0) y) r) as [ws'|] eqn:E4; [|discriminate].
      injection H1 as <-. injection H2 as <-. cbn [map Adjoint.sumk fold_right]. rewrite inners_cons, (He _ _ _ _ E1 E3).
      f_equal. eapply IH; eauto.
  Qed.
  Lemma col_row_adjoint l x : Forall adjT l -> forall ys ys' ws,
    omapl (fun e => denote e x) l = Some ys -> omap2 (fun e => denote (T e)) l ys' = Some ws ->
    inners ys ys' = sumk (map (fun w => inner x w) ws).
  Proof.
    induction 1 as [|e r He _ IH]; intros ys [|y' ys'] ws H1 H2; cbn [omap2 omapl] in H1, H2; try discriminate.
    - injection H1 as <-. injection H2 as <-. reflexivity.
    - destruct (denote e x) as [z|] eqn:E1; [|discriminate].
      destruct (omapl (fun e0 => denote e0 x) r) as [zs|] eqn:E2; [|discriminate].
      destruct (denote (T e) y') as [w|] eqn:E3; [|discriminate].
      destruct (omap2 (fun e0 => denote (T e0)) r ys') as [ws'|] eqn:E4; [|discriminate].
      injection H1 as <-. injection H2 as <-. cbn [map Adjoint.sumk fold_right]. rewrite inners_cons, (He _ _ _ _ E1 E3).
      f_equal. eapply IH; eauto.
  Qed.

  (* ---------- what transpose() returns for a leaf ---------- *)
  Lemma transpose_prim_cases i c si so p : returns_self_on_transpose c = false ->
    (exists k, c = CDense /\ p = PKey k /\ T (Prim i c si so p) = Prim fresh CDense so si (PKey (tkey k))) \/
    (exists s d, c = CMoveAxis /\ p = PAxes s d /\ T (Prim i c si so p) = Prim fresh CMoveAxis so si (PAxes d s)) \/
    (exists w, lazyT w = true /\ T (Prim i c si so p) = Wrap fresh w (Prim i c si so p)).
  Proof.
    intros H. cbn [transpose]. rewrite H.
    destruct c; try discriminate H; destruct p;
      try (right; right; eexists; split; [|reflexivity]; reflexivity);
      try (left; eexists; repeat split; reflexivity);
      try (right; left; do 2 eexists; repeat split; reflexivity).
  Qed.

  Lemma all_Forall (f : op -> bool) l :
    (fix all (l : list op) : bool := match l with [] => true | x :: xs => f x && all xs end) l = true ->
    Forall (fun e => f e = true) l.
  Proof.
    induction l as [|e r IH]; intros H; constructor; apply andb_true_iff in H as [H1 H2]; auto.
  Qed.
  Lemma Forall_mp (P Q : op -> Prop) l : Forall (fun e => P e -> Q e) l -> Forall P l -> Forall Q l.
  Proof. induction 1; intros H'; inversion H'; subst; constructor; auto. Qed.

  Section Adjoint.
    Hypothesis AF : adj_facts k0 kadd kmul leafsem.

    Lemma af_lazy i w x0 : lazyT w = true -> no_inverse x0 = true -> adjoint (denote x0) (leafsem (Wrap i w x0)).
    Proof.
      destruct w; try discriminate; intros _ H.
      - now apply (af_linear_transpose AF). - now apply (af_rotT AF). - now apply (af_reshapeT AF). - now apply (af_obsT AF).
    Qed.

    (* THE theorem: for every expression (any depth, any container nesting) not containing the
       iterative-solver inverse, <e x, y> = <x, e.T y> wherever both sides are defined *)
    Theorem transpose_adjoint_l : forall e, no_inverse e = true -> adjT e.
    Proof.
      unfold adjT.
      induction e as [i c si so p|i w e IH|i s|i k s|i l IH|i l IH|i b td l IH] using op_ind'; intros G.
      - (* primitive classes *)
        destruct (returns_self_on_transpose c) eqn:Es.
        + cbn [transpose]. rewrite Es. cbn [Denote.denote]. now apply (af_self AF).
        + destruct (transpose_prim_cases i c si so p Es) as [(k & -> & -> & ->)|[(s & d & -> & -> & ->)|(w & Hw & ->)]];
            cbn [Denote.denote].
          * apply (af_dense AF).
          * apply (af_move AF).
          * exact (af_lazy fresh w (Prim i c si so p) Hw eq_refl).
      - (* lazy wrappers *)
        destruct w; cbn [transpose]; cbn [no_inverse] in G; try discriminate G.
        + apply adjoint_sym. now apply (af_lazy i WTranspose e).
        + cbn [Denote.denote]. apply (af_dinv AF).
        + apply adjoint_sym. now apply (af_lazy i WQURotT e).
        + apply adjoint_sym. now apply (af_lazy i WReshapeT e).
        + apply adjoint_sym. now apply (af_lazy i WObsT e).
      - apply adjoint_id.
      - apply adjoint_scale.
      - (* composition: reversed *)
        cbn [transpose]. cbn [no_inverse] in G. apply all_Forall in G.
        pose proof (chain_adjoint l (Forall_mp _ _ l IH G)) as H.
        intros x y fx gy H1 H2. rewrite denote_comp in H1, H2. eapply H; eauto.
      - (* sum: operand-wise *)
        cbn [transpose]. cbn [no_inverse] in G. apply all_Forall in G.
        pose proof (Forall_mp _ _ l IH G) as HF.
        intros x y fx gy H1 H2. rewrite denote_add in H1, H2. rewrite omapl_map in H2.
        destruct (omapl (fun e => denote e x) l) as [zs|] eqn:E1; [|discriminate].
        destruct (omapl (fun e => denote (T e) y) l) as [ws|] eqn:E2; [|discriminate]. cbn [obind] in H1, H2.
        rewrite (inner_vsum_l _ _ y H1), (inner_vsum_r _ _ x H2). eapply omapl_adjoint; eauto.
      - (* block operators: row <-> column, diagonal block-wise *)
        cbn [no_inverse] in G. apply all_Forall in G. pose proof (Forall_mp _ _ l IH G) as HF.
        intros x y fx gy H1 H2. cbn [transpose] in H2. rewrite denote_block in H1, H2. rewrite map_length in H2.
        destruct (negb (Nat.eqb (List.length l) (nleaves td))) eqn:El; [discriminate|].
        apply negb_false_iff, Nat.eqb_eq in El.
        destruct b.
        + (* row -> column *)
          destruct (split_prefix td x) as [xs|] eqn:Ex; [|discriminate]. cbn [obind] in H1.
          unfold denote_list in H1. destruct (omap2 denote l xs) as [ys|] eqn:Ey; [|discriminate]. cbn [obind] in H1.
          rewrite omapl_map in H2. destruct (omapl (fun e => denote (T e) y) l) as [ws|] eqn:Ew; [|discriminate].
          cbn [option_map] in H2. injection H2 as <-.
          assert (Hs : split_prefix td (build y td ws) = Some ws)
            by (apply split_build; exact (eq_trans (omapl_length _ _ _ Ew) El)).
          rewrite (inner_vsum_l _ _ y H1), (inner_split _ _ _ _ _ Ex Hs). eapply row_col_adjoint; eauto.
        + (* diagonal *)
          destruct (split_prefix td x) as [xs|] eqn:Ex; [|discriminate]. cbn [obind] in H1.
          destruct (split_prefix td y) as [ys'|] eqn:Ey'; [|discriminate]. cbn [obind] in H2.
          unfold denote_list in H1, H2. rewrite omap2_map in H2.
          destruct (omap2 denote l xs) as [ys|] eqn:Ey; [|discriminate].
          destruct (omap2 (fun e => denote (T e)) l ys') as [ws|] eqn:Ew; [|discriminate].
          cbn [option_map] in H1, H2. injection H1 as <-. injection H2 as <-.
          assert (Hs1 : split_prefix td (build x td ys) = Some ys)
            by (apply split_build; exact (eq_trans (proj1 (omap2_length _ _ _ _ Ey)) El)).
          assert (Hs2 : split_prefix td (build y td ws) = Some ws)
            by (apply split_build; exact (eq_trans (proj1 (omap2_length _ _ _ _ Ew)) El)).
          rewrite (inner_split _ _ _ _ _ Hs1 Ey'), (inner_split _ _ _ _ _ Ex Hs2). eapply omap2_adjoint; eauto.
        + (* column -> row *)
          destruct (omapl (fun e => denote e x) l) as [ys|] eqn:Ey; [|discriminate].
          cbn [option_map] in H1. injection H1 as <-.
          destruct (split_prefix td y) as [ys'|] eqn:Ey'; [|discriminate]. cbn [obind] in H2.
          unfold denote_list in H2. rewrite omap2_map in H2.
          destruct (omap2 (fun e => denote (T e)) l ys') as [ws|] eqn:Ew; [|discriminate]. cbn [obind] in H2.
          assert (Hs : split_prefix td (build x td ys) = Some ys)
            by (apply split_build; exact (eq_trans (omapl_length _ _ _ Ey) El)).
          rewrite (inner_vsum_r _ _ x H2), (inner_split _ _ _ _ _ Hs Ey'). eapply col_row_adjoint; eauto.
    Qed.
  End Adjoint.

  (* ---------- structures: in/out swapped; the transpose is again well formed ---------- *)
  Notation structs := (@structs K).
  Notation wfo := (@wfo K).
  Notation sym_square := (@sym_square K).

  Lemma struct_eqb_true a b : struct_eqb a b = true <-> a = b.
  Proof. split; [apply struct_eqb_eq|intros ->; apply struct_eqb_refl]. Qed.

  Lemma wfo_all (l : list op) :
    (fix all (l : list op) : bool := match l with [] => true | x :: xs => wfo x && all xs end) l = true ->
    Forall (fun e => wfo e = true) l.
  Proof. apply (all_Forall (fun e => wfo e)). Qed.

  Definition swapped (e : op) : Prop := structs (T e) = swap (structs e).

  Lemma map_fst_T l : Forall swapped l ->
    map (fun x => fst (structs x)) (map T l) = map (fun x => snd (structs x)) l /\
    map (fun x => snd (structs x)) (map T l) = map (fun x => fst (structs x)) l.
  Proof.
    induction 1 as [|e r He _ [IH1 IH2]]; [split; reflexivity|]. cbn [map]. unfold swapped in He.
    rewrite He, IH1, IH2. split; reflexivity.
  Qed.
  Lemma last_rev_hd (A : Type) (l : list A) d : last (rev l) d = hd d l.
  Proof. destruct l as [|a l]; [reflexivity|]. cbn [rev hd]. apply last_last. Qed.
  Lemma hd_rev_last (A : Type) (l : list A) d : hd d (rev l) = last l d.
  Proof. rewrite <- (rev_involutive l) at 2. now rewrite last_rev_hd. Qed.

  Theorem transpose_structs_l : forall e, wfo e = true -> sym_square e = true -> swapped e.
  Proof.
    unfold swapped.
    induction e as [i c si so p|i w e IH|i s|i k s|i l IH|i l IH|i b td l IH] using op_ind'; intros W S.
    - cbn [Adjoint.sym_square] in S. destruct (returns_self_on_transpose c) eqn:Es.
      + cbn [transpose]. rewrite Es. cbn [Algebra.structs]. destruct (square_cls c); [reflexivity|].
        cbn [orb] in S. apply struct_eqb_true in S. now subst.
      + destruct (transpose_prim_cases i c si so p Es) as [(k & -> & -> & ->)|[(s & d & -> & -> & ->)|(w & Hw & ->)]].
        * reflexivity.
        * reflexivity.
        * cbn [Algebra.structs]. destruct (square_cls c); reflexivity.
    - cbn [Wf.wfo] in W. apply andb_true_iff in W as [W1 W2]. cbn [Adjoint.sym_square] in S.
      destruct w; cbn [transpose Algebra.structs]; try (destruct (structs e); reflexivity).
      (* DiagonalInverseOperator returns itself: its operand is square *)
      cbn in W2. unfold is_square, in_struct, out_struct in W2. apply struct_eqb_true in W2.
      destruct (structs e) as [a b]. cbn [fst snd] in *. now subst.
    - reflexivity.
    - reflexivity.
    - cbn [Wf.wfo] in W. apply andb_true_iff in W as [_ W]. apply wfo_all in W.
      cbn [Adjoint.sym_square] in S. apply (all_Forall (fun e => sym_square e)) in S.
      pose proof (Forall_mp _ _ l (Forall_mp _ _ l IH W) S) as HF.
      cbn [transpose Algebra.structs]. rewrite !map_rev. destruct (map_fst_T _ HF) as [H1 H2].
      rewrite H1, H2, last_rev_hd, hd_rev_last. reflexivity.
    - cbn [Wf.wfo] in W. apply andb_true_iff in W as [_ W]. apply wfo_all in W.
      cbn [Adjoint.sym_square] in S. apply (all_Forall (fun e => sym_square e)) in S.
      pose proof (Forall_mp _ _ l (Forall_mp _ _ l IH W) S) as HF.
      cbn [transpose Algebra.structs]. destruct (map_fst_T _ HF) as [H1 H2]. rewrite H1, H2. reflexivity.
    - cbn [Wf.wfo] in W. apply andb_true_iff in W as [_ W]. apply wfo_all in W.
      cbn [Adjoint.sym_square] in S. apply (all_Forall (fun e => sym_square e)) in S.
      pose proof (Forall_mp _ _ l (Forall_mp _ _ l IH W) S) as HF.
      cbn [transpose Algebra.structs]. destruct (map_fst_T _ HF) as [H1 H2]. rewrite H1, H2.
      destruct b; reflexivity.
  Qed.

  (* ---------- A.T.T ---------- *)
  Notation agree := (@agree K).
  Notation canonical := (@canonical K).

  (* where the code returns the operand itself *)
  Lemma transpose_wrap_operand i w x : lazyT w = true -> T (Wrap i w x) = x.
  Proof. destruct w; try discriminate; reflexivity. Qed.
  Lemma transpose_symmetric_self i c si so p : returns_self_on_transpose c = true -> T (Prim i c si so p) = Prim i c si so p.
  Proof. intros H. cbn [transpose]. now rewrite H. Qed.
  Lemma transpose_lazy_involutive i c si so p w :
    T (Prim i c si so p) = Wrap fresh w (Prim i c si so p) -> T (T (Prim i c si so p)) = Prim i c si so p.
  Proof.
    intros H. rewrite H. destruct (returns_self_on_transpose c) eqn:Es.
    - cbn [transpose] in H. rewrite Es in H. discriminate.
    - destruct (transpose_prim_cases i c si so p Es) as [(k & -> & -> & H')|[(s & d & -> & -> & H')|(w' & Hw & H')]];
        rewrite H' in H; try discriminate. injection H as <-. now apply transpose_wrap_operand.
  Qed.
  Lemma tkey_involutive k : tkey (tkey k) = k.
  Proof. unfold tkey. rewrite N.lxor_assoc. cbn. apply N.lxor_0_r. Qed.

  Lemma agree_refl f : agree f f.
  Proof. intros x; reflexivity. Qed.

  Definition agreeTT (e : op) : Prop := agree (denote (T (T e))) (denote e).

  Lemma chain_agree l l' : Forall2 (fun a b => agree (denote a) (denote b)) l l' -> agree (chain l) (chain l').
  Proof.
    induction 1 as [|a b r r' Hab _ IH]; intros x; [reflexivity|].
    rewrite !chain_cons, IH. destruct (chain r' x); cbn [obind]; [apply Hab|reflexivity].
  Qed.
  Lemma omapl_agree l l' x : Forall2 (fun a b => agree (denote a) (denote b)) l l' ->
    omapl (fun e => denote e x) l = omapl (fun e => denote e x) l'.
  Proof. induction 1 as [|a b r r' Hab _ IH]; [reflexivity|]. cbn [omapl]. now rewrite Hab, IH. Qed.
  Lemma omap2_agree l l' : Forall2 (fun a b => agree (denote a) (denote b)) l l' -> forall xs,
    omap2 denote l xs = omap2 denote l' xs.
  Proof. induction 1 as [|a b r r' Hab _ IH]; intros [|x xs]; try reflexivity. cbn [omap2]. now rewrite Hab, IH. Qed.
  Lemma Forall2_length (A B : Type) (P : A -> B -> Prop) l l' : Forall2 P l l' -> List.length l = List.length l'.
  Proof. induction 1; cbn; congruence. Qed.
  Lemma Forall2_TT l : Forall agreeTT l -> Forall2 (fun a b => agree (denote a) (denote b)) (map (fun e => T (T e)) l) l.
  Proof. induction 1; cbn [map]; constructor; auto. Qed.

  Section Involutive.
    Hypothesis OF : oid_facts leafsem.

    Theorem transpose_involutive_l : forall e, canonical e = true -> agreeTT e.
    Proof.
      unfold agreeTT.
      induction e as [i c si so p|i w e IH|i s|i k s|i l IH|i l IH|i b td l IH] using op_ind'; intros C.
      - destruct (returns_self_on_transpose c) eqn:Es.
        + rewrite !(transpose_symmetric_self i c si so p Es). apply agree_refl.
        + destruct (transpose_prim_cases i c si so p Es) as [(k & -> & -> & H)|[(s & d & -> & -> & H)|(w & Hw & H)]].
          * rewrite H. cbn [transpose returns_self_on_transpose]. rewrite tkey_involutive. cbn [Denote.denote].
            apply (of_dense OF).
          * rewrite H. cbn [transpose returns_self_on_transpose Denote.denote]. apply (of_move OF).
          * rewrite (transpose_lazy_involutive i c si so p w H). apply agree_refl.
      - destruct w; cbn [Adjoint.canonical lazyT] in C.
        + (* TransposeOperator(x0): .T is x0, .T.T is x0.T, a wrapper like the original *)
          cbn [transpose]. destruct e as [j c sj soj pj| | | | | |]; try discriminate C.
          unfold twrap in C. destruct (T (Prim j c sj soj pj)) as [|j' w' x'| | | | |] eqn:ET; try discriminate C.
          apply wkind_eqb_eq in C. subst w'.
          destruct (returns_self_on_transpose c) eqn:Es; [rewrite (transpose_symmetric_self j c sj soj pj Es) in ET; discriminate|].
          destruct (transpose_prim_cases j c sj soj pj Es) as [(k & -> & -> & H)|[(s & d & -> & -> & H)|(w & Hw & H)]];
            rewrite H in ET; try discriminate. injection ET as <- <- <-. cbn [Denote.denote]. now apply (of_wrap OF).
        + cbn [transpose]. apply agree_refl.
        + cbn [transpose]. apply agree_refl.
        + cbn [transpose]. destruct e as [j c sj soj pj| | | | | |]; try discriminate C.
          unfold twrap in C. destruct (T (Prim j c sj soj pj)) as [|j' w' x'| | | | |] eqn:ET; try discriminate C.
          apply wkind_eqb_eq in C. subst w'.
          destruct (returns_self_on_transpose c) eqn:Es; [rewrite (transpose_symmetric_self j c sj soj pj Es) in ET; discriminate|].
          destruct (transpose_prim_cases j c sj soj pj Es) as [(k & -> & -> & H)|[(s & d & -> & -> & H)|(w & Hw & H)]];
            rewrite H in ET; try discriminate. injection ET as <- <- <-. cbn [Denote.denote]. now apply (of_wrap OF).
        + cbn [transpose]. destruct e as [j c sj soj pj| | | | | |]; try discriminate C.
          unfold twrap in C. destruct (T (Prim j c sj soj pj)) as [|j' w' x'| | | | |] eqn:ET; try discriminate C.
          apply wkind_eqb_eq in C. subst w'.
          destruct (returns_self_on_transpose c) eqn:Es; [rewrite (transpose_symmetric_self j c sj soj pj Es) in ET; discriminate|].
          destruct (transpose_prim_cases j c sj soj pj Es) as [(k & -> & -> & H)|[(s & d & -> & -> & H)|(w & Hw & H)]];
            rewrite H in ET; try discriminate. injection ET as <- <- <-. cbn [Denote.denote]. now apply (of_wrap OF).
        + cbn [transpose]. destruct e as [j c sj soj pj| | | | | |]; try discriminate C.
          unfold twrap in C. destruct (T (Prim j c sj soj pj)) as [|j' w' x'| | | | |] eqn:ET; try discriminate C.
          apply wkind_eqb_eq in C. subst w'.
          destruct (returns_self_on_transpose c) eqn:Es; [rewrite (transpose_symmetric_self j c sj soj pj Es) in ET; discriminate|].
          destruct (transpose_prim_cases j c sj soj pj Es) as [(k & -> & -> & H)|[(s & d & -> & -> & H)|(w & Hw & H)]];
            rewrite H in ET; try discriminate. injection ET as <- <- <-. cbn [Denote.denote]. now apply (of_wrap OF).
      - apply agree_refl.
      - apply agree_refl.
      - cbn [Adjoint.canonical] in C. apply (all_Forall (fun e => canonical e)) in C.
        pose proof (Forall2_TT l (Forall_mp _ _ l IH C)) as HF.
        cbn [transpose]. rewrite <- map_rev, rev_involutive, map_map.
        intros x. rewrite !denote_comp. now apply chain_agree.
      - cbn [Adjoint.canonical] in C. apply (all_Forall (fun e => canonical e)) in C.
        pose proof (Forall2_TT l (Forall_mp _ _ l IH C)) as HF.
        cbn [transpose]. rewrite map_map. intros x. rewrite !denote_add. now rewrite (omapl_agree _ _ x HF).
      - cbn [Adjoint.canonical] in C. apply (all_Forall (fun e => canonical e)) in C.
        pose proof (Forall2_TT l (Forall_mp _ _ l IH C)) as HF.
        cbn [transpose]. rewrite map_map. intros x. rewrite !denote_block, map_length.
        destruct (negb _); [reflexivity|].
        destruct b; cbn [negb]; unfold denote_list.
        + destruct (split_prefix td x) as [xs|]; [|reflexivity]. cbn [obind]. now rewrite (omap2_agree _ _ HF).
        + destruct (split_prefix td x) as [xs|]; [|reflexivity]. cbn [obind]. now rewrite (omap2_agree _ _ HF).
        + now rewrite (omapl_agree _ _ x HF).
    Qed.
  End Involutive.
  (* ---------- the guard is preserved; the unsupported case ---------- *)
  Notation no_inverse := (@no_inverse K).
  Lemma Forall_all (f : op -> bool) l : Forall (fun e => f e = true) l ->
    (fix all (l : list op) : bool := match l with [] => true | x :: xs => f x && all xs end) l = true.
  Proof. induction 1 as [|e r He _ IH]; [reflexivity|]. now rewrite He, IH. Qed.

  Theorem transpose_no_inverse_l : forall e, no_inverse e = true -> no_inverse (T e) = true.
  Proof.
    induction e as [i c si so p|i w e IH|i s|i k s|i l IH|i l IH|i b td l IH] using op_ind'; intros G.
    - destruct (returns_self_on_transpose c) eqn:Es.
      + now rewrite (transpose_symmetric_self i c si so p Es).
      + destruct (transpose_prim_cases i c si so p Es) as [(k & -> & -> & ->)|[(s & d & -> & -> & ->)|(w & Hw & ->)]];
          try reflexivity. destruct w; try discriminate Hw; reflexivity.
    - destruct w; cbn [transpose]; cbn [Adjoint.no_inverse] in G; try discriminate G; auto.
    - exact G.
    - exact G.
    - cbn [Adjoint.no_inverse] in G. apply (all_Forall (fun e => no_inverse e)) in G.
      cbn [transpose Adjoint.no_inverse]. apply (Forall_all (fun e => no_inverse e)).
      apply Forall_rev. apply Forall_map. exact (Forall_mp _ _ l IH G).
    - cbn [Adjoint.no_inverse] in G. apply (all_Forall (fun e => no_inverse e)) in G.
      cbn [transpose Adjoint.no_inverse]. apply (Forall_all (fun e => no_inverse e)).
      apply Forall_map. exact (Forall_mp _ _ l IH G).
    - cbn [Adjoint.no_inverse] in G. apply (all_Forall (fun e => no_inverse e)) in G.
      cbn [transpose Adjoint.no_inverse]. apply (Forall_all (fun e => no_inverse e)).
      apply Forall_map. exact (Forall_mp _ _ l IH G).
  Qed.

  (* InverseOperator.transpose() is the default lazy TransposeOperator (whose mv the library cannot
     evaluate): such expressions are outside the guard *)
  Lemma transpose_inverse_unsupported i x :
    T (Wrap i WInverse x) = Wrap fresh WTranspose (Wrap i WInverse x) /\ no_inverse (Wrap i WInverse x) = false /\
    no_inverse (T (Wrap i WInverse x)) = false.
  Proof. repeat split. Qed.

  (* the code's structural transposes, as the model computes them *)
  Lemma transpose_comp i l : T (Comp i l) = Comp fresh (rev (map T l)).
  Proof. reflexivity. Qed.
  Lemma transpose_add i l : T (AddOp i l) = AddOp fresh (map T l).
  Proof. reflexivity. Qed.
  Lemma transpose_block i b td l :
    T (Block i b td l) = Block fresh (match b with BRow => BCol | BDiag => BDiag | BCol => BRow end) td (map T l).
  Proof. reflexivity. Qed.
End TransposeL.

From Furax Require Import Lemmas.BuildL.
(* ---------- the transpose of a well-formed operator is well formed ---------- *)
Section TransposeWf.
  Variable K : Type.
  Notation op := (op K).
  Notation T := (@transpose K).
  Notation wfo := (@wfo K).
  Notation swapped := (swapped K).

  Lemma swapped_in e : swapped e -> in_struct (T e) = out_struct e.
  Proof. unfold swapped, in_struct, out_struct. intros ->. reflexivity. Qed.
  Lemma swapped_out e : swapped e -> out_struct (T e) = in_struct e.
  Proof. unfold swapped, in_struct, out_struct. intros ->. reflexivity. Qed.

  Lemma chain_ok_tail (a : op) r : chain_ok (a :: r) = true -> chain_ok r = true.
  Proof. destruct r as [|b r]; [reflexivity|]. cbn [chain_ok]. intros H. apply andb_true_iff in H as [_ H]. exact H. Qed.

  Lemma chain_ok_rev_T (l : list op) : chain_ok l = true -> Forall swapped l -> chain_ok (rev (map T l)) = true.
  Proof.
    induction l as [|a r IH]; intros Hc HF; [reflexivity|]. inversion HF as [|? ? Ha Hr]; subst.
    cbn [map rev]. apply (chain_ok_app K _ _ a).
    - apply IH; [eapply chain_ok_tail; eauto|exact Hr].
    - reflexivity.
    - intros Hne _. destruct r as [|b r]; [exfalso; now apply Hne|]. cbn [hd]. rewrite last_rev_hd. cbn [map hd].
      inversion Hr as [|? ? Hb _]; subst. rewrite (swapped_in b Hb), (swapped_out a Ha).
      cbn [chain_ok] in Hc. apply andb_true_iff in Hc as [Hc _]. apply struct_eqb_eq in Hc. congruence.
  Qed.

  Lemma map_in_T (l : list op) : Forall swapped l -> map (@in_struct K) (map T l) = map (@out_struct K) l.
  Proof. induction 1 as [|e r He _ IH]; [reflexivity|]. cbn [map]. now rewrite IH, (swapped_in e He). Qed.
  Lemma map_out_T (l : list op) : Forall swapped l -> map (@out_struct K) (map T l) = map (@in_struct K) l.
  Proof. induction 1 as [|e r He _ IH]; [reflexivity|]. cbn [map]. now rewrite IH, (swapped_out e He). Qed.

  Lemma Forall_and (P Q : op -> Prop) l : Forall P l -> Forall Q l -> Forall (fun e => P e /\ Q e) l.
  Proof. induction 1; intros H'; inversion H'; subst; constructor; auto. Qed.

  Theorem transpose_wf_l : forall e : op, wfo e = true -> sym_square e = true -> wfo (T e) = true.
  Proof.
    induction e as [i c si so p|i w e IH|i s|i k s|i l IH|i l IH|i b td l IH] using op_ind'; intros W S.
    - destruct (returns_self_on_transpose c) eqn:Es.
      + now rewrite (transpose_symmetric_self K i c si so p Es).
      + destruct (transpose_prim_cases K i c si so p Es) as [(k & -> & -> & ->)|[(s & d & -> & -> & ->)|(w & Hw & E)]];
          try reflexivity. rewrite E. cbn [Wf.wfo andb].
        destruct w; try discriminate Hw; try reflexivity.
        (* QURotationTransposeOperator is a lazy inverse: QURotationOperator is square *)
        cbn [transpose] in E. rewrite Es in E. destruct c; try discriminate E; destruct p; try discriminate E;
          cbn; unfold is_square, in_struct, out_struct; cbn; apply struct_eqb_refl.
    - cbn [Wf.wfo] in W. apply andb_true_iff in W as [W1 W2]. cbn [Adjoint.sym_square] in S.
      destruct w; cbn [transpose]; auto.
      + cbn [Wf.wfo]. rewrite W1, W2. reflexivity.
      + cbn [Wf.wfo]. rewrite W1, W2. reflexivity.
    - reflexivity.
    - reflexivity.
    - pose proof W as W0. rewrite wfo_comp in W. apply andb_true_iff in W as [W W3]. apply andb_true_iff in W as [W1 W2].
      cbn [Wf.wfo] in W0. apply andb_true_iff in W0 as [_ W0]. apply (wfo_all K) in W0.
      cbn [Adjoint.sym_square] in S. apply (all_Forall K (fun e => sym_square e)) in S.
      pose proof (Forall_mp K _ _ l (Forall_mp K _ _ l IH W0) S) as HW.
      assert (HS : Forall swapped l).
      { eapply Forall_impl; [|exact (Forall_and _ _ l W0 S)]. intros e [H1 H2]. now apply transpose_structs_l. }
      cbn [transpose]. rewrite wfo_comp. rewrite rev_length, map_length, W1. cbn [andb].
      rewrite (chain_ok_rev_T l W2 HS). cbn [andb].
      assert (HA : forall l' : list op, Forall (fun e => wfo e = true) l' -> allwf K l' = true).
      { induction 1 as [|x xs Hx _ IHx]; cbn; [reflexivity|]. now rewrite Hx, IHx. }
      apply HA. apply Forall_rev. apply Forall_map. exact HW.
    - cbn [Wf.wfo] in W. apply andb_true_iff in W as [W W0]. apply andb_true_iff in W as [W1 W2]. apply (wfo_all K) in W0.
      cbn [Adjoint.sym_square] in S. apply (all_Forall K (fun e => sym_square e)) in S.
      pose proof (Forall_mp K _ _ l (Forall_mp K _ _ l IH W0) S) as HW.
      assert (HS : Forall swapped l).
      { eapply Forall_impl; [|exact (Forall_and _ _ l W0 S)]. intros e [H1 H2]. now apply transpose_structs_l. }
      cbn [transpose Wf.wfo]. rewrite map_length, W1. cbn [andb].
      unfold sum_ok in *. rewrite (map_in_T l HS), (map_out_T l HS). apply andb_true_iff in W2 as [W2 W2'].
      rewrite W2, W2'. cbn [andb]. apply (Forall_all K (fun e => wfo e)). apply Forall_map. exact HW.
    - cbn [Wf.wfo] in W. apply andb_true_iff in W as [W W0]. apply andb_true_iff in W as [W W3]. apply andb_true_iff in W as [W1 W2].
      apply (wfo_all K) in W0.
      cbn [Adjoint.sym_square] in S. apply (all_Forall K (fun e => sym_square e)) in S.
      pose proof (Forall_mp K _ _ l (Forall_mp K _ _ l IH W0) S) as HW.
      assert (HS : Forall swapped l).
      { eapply Forall_impl; [|exact (Forall_and _ _ l W0 S)]. intros e [H1 H2]. now apply transpose_structs_l. }
      cbn [transpose Wf.wfo]. rewrite map_length, W1, W2. cbn [andb].
      rewrite (Forall_all K (fun e => wfo e) _ (proj2 (Forall_map _ _ _) HW)), andb_true_r.
      destruct b; [rewrite (map_in_T l HS)|reflexivity|rewrite (map_out_T l HS)]; exact W3.
  Qed.
End TransposeWf.
