(* C03, matrix form - the dense matrix of e.T is the transpose of the dense matrix of e, for the executable
   model over Qc (`Exec.mat tb`, the matrix the correspondence harness compares; and `Adjoint.matT tb pt`, the
   variant the C03 harness uses for e.T), for an ARBITRARY table of measured matrices.
   Route: (1) adjointness of an expression from adjointness of its LEAVES only: the induction of
   Lemmas/TransposeL.v transpose_adjoint_l relativised to the leaves that occur in e (adj_from_leaves), and
   the same induction for the adjoint identity restricted to values of the declared structures
   (adjS_from_leaves: needed for explicit lazy transposes around composite operands; uses C05 honesty for the
   intermediate values of compositions and the pieces of block inputs);
   (2) the adjoint identity <e x_j, y_i> = <x_j, e.T y_i> at the basis vectors, through inner_flat and
   <v, e_i> = v_i, gives entry (i, j) of mat e = entry (j, i) of mat e.T (transpose_matrix_generic) - this
   needs the outputs of e and of e.T to have the declared structures (ExecFactsL.exec_out_struct_ok);
   (3) the leaf facts for `Exec.leafsem tb` come from the decidable checks of Lemmas/ExecFactsL.v
   (sym_leaf_okb, dense_okb, fresh_okb, dinv_okb, table_okb's wrap_okb) collected in `transpose_okb`;
   table_okb is stable under transposition given them (table_okb_transpose);
   (4) Part 5: the same for Adjoint.leafsemT (re-created move-axis operators looked up by parameters).
   `Exec.mat` lists the COLUMNS of the matrix (column j = image of the j-th basis vector); `ltrans d n m`
   transposes a list of lists whose inner lists have length n (entry (i, j) := entry (j, i));
   on well-shaped arguments it is the model's own Exec.transpose_m (transpose_m_ltrans). *)
From Coq Require Import List Bool Arith NArith ZArith QArith Qcanon Lia Ring.
From Furax Require Import Base.Pytree Model.Op Model.Algebra Model.Denote Model.Wf Model.Exec Model.Structs
  Model.AsMatrix Model.Adjoint
  Lemmas.DenoteL Lemmas.Sound Lemmas.BuildL Lemmas.AsMatrixL Lemmas.StructsL Lemmas.MuellerExecL Lemmas.TransposeL
  Lemmas.TransposeExecL Lemmas.AsMatrixExecL Lemmas.ExecFactsL.
Import ListNotations.
Local Close Scope Q_scope.
Local Close Scope Qc_scope.
Local Open Scope nat_scope.

(* ====================================================================================== *)
(* Part 0 - transposition of a list of lists                                              *)
(* ====================================================================================== *)
Lemma nth_map_lt (X Y : Type) (f : X -> Y) (l : list X) dx dy : forall i, i < List.length l ->
  nth i (map f l) dy = f (nth i l dx).
Proof. induction l as [|a l IH]; intros [|i] H; cbn in *; try lia; auto. apply IH. lia. Qed.
Lemma map_nth_seq (X : Type) (dx : X) (l : list X) : map (fun j => nth j l dx) (seq 0 (List.length l)) = l.
Proof.
  induction l as [|a l IH]; [reflexivity|]. cbn [List.length seq map nth]. f_equal.
  rewrite <- seq_shift, map_map. exact IH.
Qed.

Section LT.
  Variable A : Type.
  Variable d : A.
  (* entry i of every inner list *)
  Definition tcol (i : nat) (m : list (list A)) : list A := map (fun c => nth i c d) m.
  Definition ltrans (n : nat) (m : list (list A)) : list (list A) := map (fun i => tcol i m) (seq 0 n).

  Lemma ltrans_length n m : List.length (ltrans n m) = n.
  Proof. unfold ltrans. now rewrite map_length, seq_length. Qed.
  Lemma tcol_length i m : List.length (tcol i m) = List.length m.
  Proof. unfold tcol. apply map_length. Qed.
  Lemma nth_ltrans n m i : i < n -> nth i (ltrans n m) [] = tcol i m.
  Proof.
    intros H. unfold ltrans. rewrite (nth_map_lt _ _ (fun i => tcol i m) (seq 0 n) 0 []) by (now rewrite seq_length).
    now rewrite seq_nth.
  Qed.
  Lemma nth_tcol i j m : j < List.length m -> nth j (tcol i m) d = nth i (nth j m []) d.
  Proof. intros H. unfold tcol. exact (nth_map_lt _ _ (fun c => nth i c d) m [] d j H). Qed.

  (* transposing twice gives the matrix back *)
  Lemma ltrans_involutive n m : Forall (fun c => List.length c = n) m -> ltrans (List.length m) (ltrans n m) = m.
  Proof.
    intros H. unfold ltrans at 1.
    transitivity (map (fun i => nth i m []) (seq 0 (List.length m))); [|apply map_nth_seq].
    apply map_ext_in. intros i Hi. apply in_seq in Hi. unfold tcol at 1. unfold ltrans. rewrite map_map.
    transitivity (map (fun j => nth j (nth i m []) d) (seq 0 n)).
    - apply map_ext. intros j. apply nth_tcol. lia.
    - assert (L : List.length (nth i m []) = n) by (rewrite Forall_forall in H; apply H, nth_In; lia).
      rewrite <- L. apply map_nth_seq.
  Qed.
End LT.
Arguments tcol {A}. Arguments ltrans {A}.

Lemma ltrans_map (A B : Type) (f : A -> B) d n m : ltrans (f d) n (map (map f) m) = map (map f) (ltrans d n m).
Proof.
  unfold ltrans. rewrite map_map. apply map_ext. intros i. unfold tcol. rewrite !map_map. apply map_ext. intros c. apply map_nth.
Qed.

(* on a matrix whose rows have length n, `ltrans` is the model's own transposition Exec.transpose_m *)
Lemma transpose_m_ltrans : forall n m, rows_ok n m -> transpose_m m n = ltrans k0 n m.
Proof.
  induction n as [|n IH]; intros m Hm; [reflexivity|].
  cbn [transpose_m]. rewrite (IH _ (rows_ok_removelast n m Hm)). unfold ltrans. rewrite seq_S, map_app. cbn [map Nat.add].
  unfold rows_ok in Hm. rewrite Forall_forall in Hm. f_equal.
  - apply map_ext_in. intros i Hi. apply in_seq in Hi. unfold tcol. rewrite map_map. apply map_ext_in. intros c Hc.
    destruct (snoc_split K k0 c n (Hm c Hc)) as [Ec Lc]. rewrite Ec at 2. rewrite app_nth1 by lia. reflexivity.
  - f_equal. unfold tcol. apply map_ext_in. intros c Hc.
    destruct (snoc_split K k0 c n (Hm c Hc)) as [Ec Lc]. rewrite Ec at 2. rewrite app_nth2 by lia.
    rewrite Lc, Nat.sub_diag. reflexivity.
Qed.

(* ====================================================================================== *)
(* Part 1 - <v, e_i> = v_i                                                                *)
(* ====================================================================================== *)
Lemma dot_ind_above v : forall t s, t < s ->
  dot v (map (fun k => if Nat.eqb k t then k1 else k0) (seq s (List.length v))) = k0.
Proof.
  induction v as [|a v IH]; intros t s H; [reflexivity|]. cbn [List.length seq map]. rewrite dot_cons, IH by lia.
  replace (Nat.eqb s t) with false by (symmetry; apply Nat.eqb_neq; lia). change K with Qc. unfold k0. ring.
Qed.
Lemma dot_basis_gen v : forall i s,
  dot v (map (fun k => if Nat.eqb k (s + i) then k1 else k0) (seq s (List.length v))) = nth i v k0.
Proof.
  induction v as [|a v IH]; intros i s; [destruct i; reflexivity|]. cbn [List.length seq map]. rewrite dot_cons. destruct i as [|i].
  - rewrite Nat.add_0_r, Nat.eqb_refl, dot_ind_above by lia. cbn [nth]. change K with Qc. unfold k0, k1. ring.
  - replace (Nat.eqb s (s + S i)) with false by (symmetry; apply Nat.eqb_neq; lia).
    replace (s + S i) with (S s + i) by lia. rewrite IH. cbn [nth]. change K with Qc. unfold k0. ring.
Qed.
Lemma dot_basis v n i : List.length v = n -> dot v (basis n i) = nth i v k0.
Proof. intros <-. exact (dot_basis_gen v i 0). Qed.

(* ====================================================================================== *)
(* Part 2 - generic in the leaf semantics                                                 *)
(* ====================================================================================== *)
(* H : obind o f = Some _  or  option_map f o = Some _ : o is Some *)
Ltac dob H zs E :=
  match type of H with
  | obind ?o _ = _ => destruct o as [zs|] eqn:E; [|discriminate H]; cbn [obind] in H
  | option_map _ ?o = _ => destruct o as [zs|] eqn:E; [|discriminate H]; cbn [option_map] in H
  end.

Lemma F2_cons_inv (X Y : Type) (R : X -> Y -> Prop) a l b l' : Forall2 R (a :: l) (b :: l') -> R a b /\ Forall2 R l l'.
Proof. intros H. inversion H. auto. Qed.
(* H : match a with Some _ => _ | None => None end = Some _ : a is Some *)
Ltac dm H v E :=
  match type of H with (match ?a with _ => _ end) = _ => destruct a as [v|] eqn:E; [|discriminate H] end.

Section Generic.
  Variable ls : xop -> xvalue -> option xvalue.
  Notation dn := (denote Qcplus Qcmult ls).
  Notation T := (@transpose K).
  Notation adjt := (adjT K k0 Qcplus Qcmult ls).

  (* the dense matrix of Model/Exec.v `mat` before printing: the list of the columns *)
  Definition matK (e : xop) : option (list (list K)) :=
    let si := in_struct e in
    let n := struct_size si in
    omapl (fun j => option_map vflatten (dn e (fst (unflatten si (basis n j))))) (seq 0 n).

  (* ---------- adjointness of an expression from adjointness of its leaves ---------- *)
  Theorem adj_from_leaves : forall e : xop, Forall adjt (leaves e) -> adjt e.
  Proof.
    assert (HL : forall l : list xop, Forall (fun e => Forall adjt (leaves e) -> adjt e) l ->
                   Forall adjt (flat_map (@leaves K) l) -> Forall adjt l).
    { intros l IH H. apply Forall_flat_map in H. revert H. apply (Forall_mp K). exact IH. }
    unfold adjT.
    induction e as [i c si so p|i w e IH|i s|i k s|i l IH|i l IH|i b td l IH] using op_ind'; intros G; cbn [leaves] in G.
    - exact (Forall_inv G).
    - exact (Forall_inv G).
    - apply adjoint_id.
    - apply (Q7 adjoint_scale).
    - pose proof (chain_adjoint K k0 Qcplus Qcmult ls l (HL l IH G)) as H.
      cbn [transpose]. intros x y fx gy H1 H2. rewrite denote_comp in H1, H2. eapply H; eauto.
    - pose proof (HL l IH G) as HF. cbn [transpose].
      intros x y fx gy H1 H2. rewrite denote_add in H1, H2. rewrite omapl_map in H2.
      dob H1 zs E1. dob H2 ws E2.
      rewrite (Q7 inner_vsum_l _ _ y H1), (Q7 inner_vsum_r _ _ x H2).
      eapply (omapl_adjoint K k0 Qcplus Qcmult ls); eauto.
    - pose proof (HL l IH G) as HF.
      intros x y fx gy H1 H2. cbn [transpose] in H2. rewrite denote_block in H1, H2. rewrite map_length in H2.
      destruct (negb (Nat.eqb (List.length l) (nleaves td))) eqn:El; [discriminate H1|].
      apply negb_false_iff, Nat.eqb_eq in El.
      destruct b.
      + dob H1 xs Ex. unfold denote_list in H1. dob H1 ys Ey.
        rewrite omapl_map in H2. dob H2 ws Ew. injection H2 as <-.
        assert (Hs : split_prefix td (build y td ws) = Some ws)
          by (apply split_build; exact (eq_trans (omapl_length K _ _ _ Ew) El)).
        rewrite (Q7 inner_vsum_l _ _ y H1), (Q7 inner_split _ _ _ _ _ Ex Hs).
        eapply (row_col_adjoint K k0 Qcplus Qcmult ls); eauto.
      + dob H1 xs Ex. dob H2 ys' Ey'.
        unfold denote_list in H1, H2. rewrite omap2_map in H2.
        dob H1 ys Ey. dob H2 ws Ew. injection H1 as <-. injection H2 as <-.
        assert (Hs1 : split_prefix td (build x td ys) = Some ys)
          by (apply split_build; exact (eq_trans (proj1 (omap2_length K _ _ _ _ Ey)) El)).
        assert (Hs2 : split_prefix td (build y td ws) = Some ws)
          by (apply split_build; exact (eq_trans (proj1 (omap2_length K _ _ _ _ Ew)) El)).
        rewrite (Q7 inner_split _ _ _ _ _ Hs1 Ey'), (Q7 inner_split _ _ _ _ _ Ex Hs2).
        eapply (omap2_adjoint K k0 Qcplus Qcmult ls); eauto.
      + dob H1 ys Ey. injection H1 as <-.
        dob H2 ys' Ey'. unfold denote_list in H2. rewrite omap2_map in H2. dob H2 ws Ew.
        assert (Hs : split_prefix td (build x td ys) = Some ys)
          by (apply split_build; exact (eq_trans (omapl_length K _ _ _ Ey) El)).
        rewrite (Q7 inner_vsum_r _ _ x H2), (Q7 inner_split _ _ _ _ _ Hs Ey').
        eapply (col_row_adjoint K k0 Qcplus Qcmult ls); eauto.
  Qed.

  (* ---------- the same on inputs of the declared structures only ---------- *)
  (* An explicit lazy TransposeOperator around a COMPOSITE operand is adjoint to its operand on values of the
     operand's input structure only (a composite may accept other values as well), so for such expressions the
     induction is redone for the adjoint identity restricted to structured x and y; the intermediate values of
     compositions and the pieces of block inputs are structured because every operator is honest (C05). *)
  Definition adjS (e : xop) : Prop := forall x y fx gy,
    has_struct x (in_struct e) = true -> has_struct y (out_struct e) = true ->
    dn e x = Some fx -> dn (T e) y = Some gy -> xinner fx y = xinner x gy.
  Definition hon (e : xop) : Prop := forall x y,
    has_struct x (in_struct e) = true -> dn e x = Some y -> has_struct y (out_struct e) = true.
  Definition good (e : xop) : Prop := adjS e /\ hon e /\ hon (T e) /\ swapped K e.
  Notation lh := (leaf_honest K ls).
  Notation hs2 := (Forall2 (fun (a : xvalue) (b : struct) => has_struct a b = true)).

  Lemma adjt_adjS e : adjt e -> adjS e.
  Proof. intros H x y fx gy _ _ H1 H2. exact (H x y fx gy H1 H2). Qed.
  Lemma hon_of (e : xop) : wfo e = true -> Forall lh (leaves e) -> hon e.
  Proof.
    intros W HL x y Hx Hy. rewrite has_struct_vhas in Hx |- *.
    exact (out_structure_honest_l K Qcplus Qcmult ls e W HL x y Hx Hy).
  Qed.
  Lemma hs_split td (x : xvalue) s ss : split_prefix td s = Some ss -> has_struct x s = true ->
    exists xs, split_prefix td x = Some xs /\ hs2 xs ss.
  Proof.
    intros Hs Hx. rewrite has_struct_vhas in Hx. destruct (vhas_split K td x s ss Hs Hx) as (xs & H1 & H2).
    exists xs. split; [exact H1|]. clear H1 Hs Hx. induction H2 as [|a b xs' ss' H _ IH]; constructor; try exact IH. now rewrite has_struct_vhas.
  Qed.

  Lemma chain_hon : forall (l : list xop) d, l <> [] -> chain_ok l = true -> Forall hon l ->
    forall x y, has_struct x (in_struct (last l d)) = true -> chain Qcplus Qcmult ls l x = Some y ->
    has_struct y (out_struct (hd d l)) = true.
  Proof.
    induction l as [|a l IH]; intros d Hne Hc HF x y Hx Hy; [congruence|].
    inversion HF as [|? ? Ha Hl]; subst. destruct l as [|b r].
    - cbn [last hd] in *. exact (Ha x y Hx Hy).
    - change (chain_ok (a :: b :: r)) with (struct_eqb (in_struct a) (out_struct b) && chain_ok (b :: r)) in Hc.
      apply andb_true_iff in Hc as [Hab Hc]. apply struct_eqb_eq in Hab.
      change (last (a :: b :: r) d) with (last (b :: r) d) in Hx.
      rewrite chain_cons in Hy. dob Hy y1 E.
      pose proof (IH d ltac:(discriminate) Hc Hl x y1 Hx E) as I1. cbn [hd] in *. rewrite <- Hab in I1.
      exact (Ha y1 y I1 Hy).
  Qed.

  Lemma chainS : forall (l : list xop) d, l <> [] -> chain_ok l = true -> Forall good l ->
    forall x y fx gy, has_struct x (in_struct (last l d)) = true -> has_struct y (out_struct (hd d l)) = true ->
    chain Qcplus Qcmult ls l x = Some fx -> chain Qcplus Qcmult ls (rev (map T l)) y = Some gy ->
    xinner fx y = xinner x gy.
  Proof.
    induction l as [|a l IH]; intros d Hne Hc HF x y fx gy Hx Hy H1 H2; [congruence|].
    inversion HF as [|? ? Ga Hl]; subst. destruct Ga as (Aa & Ha & HTa & Sa).
    destruct l as [|b r].
    - cbn [last hd map rev app] in *. exact (Aa x y fx gy Hx Hy H1 H2).
    - change (chain_ok (a :: b :: r)) with (struct_eqb (in_struct a) (out_struct b) && chain_ok (b :: r)) in Hc.
      apply andb_true_iff in Hc as [Hab Hc]. apply struct_eqb_eq in Hab.
      change (last (a :: b :: r) d) with (last (b :: r) d) in Hx. cbn [hd] in Hy.
      rewrite chain_cons in H1. dob H1 x1 E1.
      change (rev (map T (a :: b :: r))) with (rev (map T (b :: r)) ++ [T a]) in H2.
      rewrite chain_app, chain_single in H2. dob H2 y1 E2.
      assert (Hl' : Forall hon (b :: r)) by (eapply Forall_impl; [|exact Hl]; intros e (_ & h & _); exact h).
      pose proof (chain_hon (b :: r) d ltac:(discriminate) Hc Hl' x x1 Hx E1) as Hx1. cbn [hd] in Hx1. rewrite <- Hab in Hx1.
      assert (Hy1 : has_struct y1 (in_struct a) = true).
      { pose proof (HTa y y1) as h. rewrite (swapped_in K a Sa), (swapped_out K a Sa) in h. exact (h Hy E2). }
      rewrite (Aa x1 y fx y1 Hx1 Hy H1 E2). rewrite Hab in Hy1.
      exact (IH d ltac:(discriminate) Hc Hl x y1 x1 gy Hx Hy1 E1 H2).
  Qed.

  Lemma omaplS l x y :
    Forall (fun e => adjS e /\ has_struct x (in_struct e) = true /\ has_struct y (out_struct e) = true) l ->
    forall zs ws, omapl (fun e => dn e x) l = Some zs -> omapl (fun e => dn (T e) y) l = Some ws ->
    sumk k0 Qcplus (map (fun z => xinner z y) zs) = sumk k0 Qcplus (map (fun w => xinner x w) ws).
  Proof.
    induction 1 as [|e r (Ae & Hx & Hy) _ IH]; intros zs ws H1 H2; cbn [omapl] in H1, H2.
    - injection H1 as <-. injection H2 as <-. reflexivity.
    - dm H1 z E1. dm H1 zs' E2. dm H2 w E3. dm H2 ws' E4. injection H1 as <-. injection H2 as <-.
      cbn [map sumk fold_right]. rewrite (Ae x y z w Hx Hy E1 E3). f_equal. now apply IH.
  Qed.
  Lemma omap2S l : Forall adjS l -> forall xs ys ys' ws,
    hs2 xs (map (@in_struct K) l) -> hs2 ys' (map (@out_struct K) l) ->
    omap2 dn l xs = Some ys -> omap2 (fun e => dn (T e)) l ys' = Some ws -> xinners ys ys' = xinners xs ws.
  Proof.
    induction 1 as [|e r Ae _ IH]; intros [|x xs] ys [|y' ys'] ws Fx Fy H1 H2; cbn [omap2] in H1, H2; try discriminate.
    - injection H1 as <-. injection H2 as <-. reflexivity.
    - cbn [map] in Fx, Fy. apply F2_cons_inv in Fx as [Hx Fx]. apply F2_cons_inv in Fy as [Hy Fy].
      dm H1 z E1. dm H1 zs E2. dm H2 w E3. dm H2 ws' E4. injection H1 as <-. injection H2 as <-.
      rewrite !xinners_cons, (Ae x y' z w Hx Hy E1 E3). f_equal. eapply IH; eauto.
  Qed.
  Lemma row_colS l y : Forall (fun e => adjS e /\ has_struct y (out_struct e) = true) l -> forall xs ys ws,
    hs2 xs (map (@in_struct K) l) ->
    omap2 dn l xs = Some ys -> omapl (fun e => dn (T e) y) l = Some ws ->
    sumk k0 Qcplus (map (fun z => xinner z y) ys) = xinners xs ws.
  Proof.
    induction 1 as [|e r (Ae & Hy) _ IH]; intros [|x xs] ys ws Fx H1 H2; cbn [omap2 omapl] in H1, H2; try discriminate.
    - injection H1 as <-. injection H2 as <-. reflexivity.
    - cbn [map] in Fx. apply F2_cons_inv in Fx as [Hx Fx].
      dm H1 z E1. dm H1 zs E2. dm H2 w E3. dm H2 ws' E4. injection H1 as <-. injection H2 as <-.
      cbn [map sumk fold_right]. rewrite xinners_cons, (Ae x y z w Hx Hy E1 E3). f_equal. eapply IH; eauto.
  Qed.
  Lemma col_rowS l x : Forall (fun e => adjS e /\ has_struct x (in_struct e) = true) l -> forall ys ys' ws,
    hs2 ys' (map (@out_struct K) l) ->
    omapl (fun e => dn e x) l = Some ys -> omap2 (fun e => dn (T e)) l ys' = Some ws ->
    xinners ys ys' = sumk k0 Qcplus (map (fun w => xinner x w) ws).
  Proof.
    induction 1 as [|e r (Ae & Hx) _ IH]; intros ys [|y' ys'] ws Fy H1 H2; cbn [omap2 omapl] in H1, H2; try discriminate.
    - injection H1 as <-. injection H2 as <-. reflexivity.
    - cbn [map] in Fy. apply F2_cons_inv in Fy as [Hy Fy].
      dm H1 z E1. dm H1 zs E2. dm H2 w E3. dm H2 ws' E4. injection H1 as <-. injection H2 as <-.
      cbn [map sumk fold_right]. rewrite xinners_cons, (Ae x y' z w Hx Hy E1 E3). f_equal. eapply IH; eauto.
  Qed.

  (* what the induction carries: well-formedness, square symmetric classes, honest leaves of e and of e.T,
     and the structured adjoint identity for the leaves of e *)
  Definition pre (e : xop) : Prop :=
    wfo e = true /\ sym_square e = true /\ Forall lh (leaves e) /\ Forall lh (leaves (T e)) /\ Forall adjS (leaves e).
  Lemma pre_good e : (pre e -> adjS e) -> pre e -> good e.
  Proof.
    intros IH P. pose proof P as (W & S & HL & HLT & _). split; [now apply IH|]. split; [now apply hon_of|].
    split; [apply hon_of; [now apply transpose_wf_l|exact HLT]|now apply transpose_structs_l].
  Qed.
  Lemma pre_list (l : list xop) :
    Forall (fun e => wfo e = true) l -> Forall (fun e => sym_square e = true) l ->
    Forall lh (flat_map (@leaves K) l) -> Forall (fun e => Forall lh (leaves (T e))) l ->
    Forall adjS (flat_map (@leaves K) l) -> Forall pre l.
  Proof.
    intros H1 H2 H3 H4 H5. apply Forall_flat_map in H3, H5. rewrite Forall_forall in *.
    intros e He. unfold pre. repeat split; auto.
  Qed.
  Lemma good_list (l : list xop) : Forall (fun e => pre e -> adjS e) l -> Forall pre l -> Forall good l.
  Proof. intros IH P. rewrite Forall_forall in *. intros e He. apply pre_good; auto. Qed.
  Lemma leavesT_list (l : list xop) : Forall lh (flat_map (@leaves K) (map T l)) -> Forall (fun e => Forall lh (leaves (T e))) l.
  Proof. intros H. apply Forall_flat_map in H. now rewrite Forall_map in H. Qed.
  Lemma all_same (ss : list struct) s r : ss = s :: r -> all_eqb ss = true -> forall t, In t ss -> t = s.
  Proof. exact (StructsL.all_eqb_spec ss s r). Qed.

  Theorem adjS_from_leaves : forall e : xop, pre e -> adjS e.
  Proof.
    induction e as [i c si so p|i w e IH|i s|i k s|i l IH|i l IH|i b td l IH] using op_ind'; intros P;
      pose proof P as (W & S & HL & HLT & HA).
    - exact (Forall_inv HA).
    - exact (Forall_inv HA).
    - intros x y fx gy _ _ H1 H2. exact (adjoint_id K k0 Qcplus Qcmult x y fx gy H1 H2).
    - intros x y fx gy _ _ H1 H2. exact (Q7 adjoint_scale k x y fx gy H1 H2).
    - (* composition *)
      rewrite wfo_comp in W. apply andb_true_iff in W as [W Hall]. apply andb_true_iff in W as [Hne Hc].
      assert (Hl : l <> []) by (destruct l; [discriminate|discriminate]).
      apply allwf_Forall in Hall. cbn [sym_square] in S. apply (all_Forall K (fun e => sym_square e)) in S.
      cbn [leaves] in HL, HA. cbn [transpose leaves] in HLT.
      assert (HLT' : Forall (fun e => Forall lh (leaves (T e))) l).
      { apply leavesT_list. apply Forall_flat_map in HLT. apply Forall_rev in HLT. rewrite rev_involutive in HLT.
        now apply Forall_flat_map. }
      pose proof (good_list l IH (pre_list l Hall S HL HLT' HA)) as GL.
      intros x y fx gy Hx Hy H1 H2. cbn [transpose] in H2. rewrite denote_comp in H1, H2.
      rewrite (in_struct_comp K i l (Ident 0%N dummy_struct) Hl) in Hx.
      rewrite (out_struct_comp K i l (Ident 0%N dummy_struct) Hl) in Hy.
      exact (chainS l (Ident 0%N dummy_struct) Hl Hc GL x y fx gy Hx Hy H1 H2).
    - (* sum *)
      rewrite wfo_add in W. apply andb_true_iff in W as [W Hall]. apply andb_true_iff in W as [Hne Hs].
      unfold sum_ok in Hs. apply andb_true_iff in Hs as [Hsi Hso].
      apply allwf_Forall in Hall. cbn [sym_square] in S. apply (all_Forall K (fun e => sym_square e)) in S.
      cbn [leaves] in HL, HA. cbn [transpose leaves] in HLT. apply leavesT_list in HLT.
      pose proof (good_list l IH (pre_list l Hall S HL HLT HA)) as GL.
      destruct l as [|a r]; [discriminate|].
      pose proof (all_same _ _ _ eq_refl Hsi) as Hin. pose proof (all_same _ _ _ eq_refl Hso) as Hout.
      intros x y fx gy Hx Hy H1 H2. cbn [transpose] in H2. rewrite denote_add in H1, H2. rewrite omapl_map in H2.
      change (in_struct (AddOp i (a :: r))) with (in_struct a) in Hx.
      change (out_struct (AddOp i (a :: r))) with (out_struct a) in Hy.
      dob H1 zs E1. dob H2 ws E2.
      unfold xinner. rewrite (Q7 inner_vsum_l _ _ y H1), (Q7 inner_vsum_r _ _ x H2).
      refine (omaplS (a :: r) x y _ zs ws E1 E2).
      rewrite Forall_forall in GL |- *. intros e He. destruct (GL e He) as (Ae & _).
      split; [exact Ae|]. split.
      + rewrite (Hin (in_struct e) (in_map _ _ _ He)). exact Hx.
      + rewrite (Hout (out_struct e) (in_map _ _ _ He)). exact Hy.
    - (* block operators *)
      rewrite wfo_block in W. apply andb_true_iff in W as [W Hall]. apply andb_true_iff in W as [W Hkind].
      apply andb_true_iff in W as [Hne Hlen]. apply Nat.eqb_eq in Hlen.
      apply allwf_Forall in Hall. cbn [sym_square] in S. apply (all_Forall K (fun e => sym_square e)) in S.
      cbn [leaves] in HL, HA. cbn [transpose leaves] in HLT. apply leavesT_list in HLT.
      pose proof (good_list l IH (pre_list l Hall S HL HLT HA)) as GL.
      assert (AL : Forall adjS l) by (eapply Forall_impl; [|exact GL]; intros e (h & _); exact h).
      assert (Hlin : List.length (map (@in_struct K) l) = nleaves td) by (now rewrite map_length).
      assert (Hlout : List.length (map (@out_struct K) l) = nleaves td) by (now rewrite map_length).
      intros x y fx gy Hx Hy H1 H2. cbn [transpose] in H2. rewrite denote_block in H1, H2. rewrite map_length in H2.
      rewrite Hlen, Nat.eqb_refl in H1, H2. cbn [negb] in H1, H2.
      destruct b.
      + (* row -> column *)
        change (in_struct (Block i BRow td l)) with (build dummy_struct td (map (@in_struct K) l)) in Hx.
        change (out_struct (Block i BRow td l)) with (hd dummy_struct (map (@out_struct K) l)) in Hy.
        destruct (hs_split td x _ _ (split_build dummy_struct td _ Hlin) Hx) as (xs & Ex & Fx).
        rewrite Ex in H1. cbn [obind] in H1. unfold denote_list in H1. dob H1 ys Ey.
        rewrite omapl_map in H2. dob H2 ws Ew. injection H2 as <-.
        assert (Hs : split_prefix td (build y td ws) = Some ws)
          by (apply split_build; exact (eq_trans (omapl_length K _ _ _ Ew) Hlen)).
        unfold xinner. rewrite (Q7 inner_vsum_l _ _ y H1), (Q7 inner_split _ _ _ _ _ Ex Hs).
        refine (row_colS l y _ xs ys ws Fx Ey Ew).
        destruct l as [|a r]; [discriminate|]. pose proof (all_same _ _ _ eq_refl Hkind) as Hout. cbn [map hd] in Hy.
        rewrite Forall_forall in AL |- *. intros e He. split; [exact (AL e He)|].
        rewrite (Hout (out_struct e) (in_map _ _ _ He)). exact Hy.
      + (* diagonal *)
        change (in_struct (Block i BDiag td l)) with (build dummy_struct td (map (@in_struct K) l)) in Hx.
        change (out_struct (Block i BDiag td l)) with (build dummy_struct td (map (@out_struct K) l)) in Hy.
        destruct (hs_split td x _ _ (split_build dummy_struct td _ Hlin) Hx) as (xs & Ex & Fx).
        destruct (hs_split td y _ _ (split_build dummy_struct td _ Hlout) Hy) as (ys' & Ey' & Fy).
        rewrite Ex in H1. rewrite Ey' in H2. cbn [obind] in H1, H2.
        unfold denote_list in H1, H2. rewrite omap2_map in H2.
        dob H1 ys Ey. dob H2 ws Ew. injection H1 as <-. injection H2 as <-.
        assert (Hs1 : split_prefix td (build x td ys) = Some ys)
          by (apply split_build; exact (eq_trans (proj1 (omap2_length K _ _ _ _ Ey)) Hlen)).
        assert (Hs2 : split_prefix td (build y td ws) = Some ws)
          by (apply split_build; exact (eq_trans (proj1 (omap2_length K _ _ _ _ Ew)) Hlen)).
        unfold xinner. rewrite (Q7 inner_split _ _ _ _ _ Hs1 Ey'), (Q7 inner_split _ _ _ _ _ Ex Hs2).
        exact (omap2S l AL xs ys ys' ws Fx Fy Ey Ew).
      + (* column -> row *)
        change (in_struct (Block i BCol td l)) with (hd dummy_struct (map (@in_struct K) l)) in Hx.
        change (out_struct (Block i BCol td l)) with (build dummy_struct td (map (@out_struct K) l)) in Hy.
        destruct (hs_split td y _ _ (split_build dummy_struct td _ Hlout) Hy) as (ys' & Ey' & Fy).
        dob H1 ys Ey. injection H1 as <-.
        rewrite Ey' in H2. cbn [obind] in H2. unfold denote_list in H2. rewrite omap2_map in H2. dob H2 ws Ew.
        assert (Hs : split_prefix td (build x td ys) = Some ys)
          by (apply split_build; exact (eq_trans (omapl_length K _ _ _ Ey) Hlen)).
        unfold xinner. rewrite (Q7 inner_vsum_r _ _ x H2), (Q7 inner_split _ _ _ _ _ Hs Ey').
        refine (col_rowS l x _ ys ys' ws Fy Ey Ew).
        destruct l as [|a r]; [discriminate|]. pose proof (all_same _ _ _ eq_refl Hkind) as Hin. cbn [map hd] in Hx.
        rewrite Forall_forall in AL |- *. intros e He. split; [exact (AL e He)|].
        rewrite (Hin (in_struct e) (in_map _ _ _ He)). exact Hx.
  Qed.

  (* ---------- the columns of matK ---------- *)
  Lemma matK_spec e A : matK e = Some A ->
    List.length A = in_size e /\
    forall j, j < in_size e -> exists y,
      dn e (fst (unflatten (in_struct e) (basis (in_size e) j))) = Some y /\ nth j A [] = vflatten y.
  Proof.
    unfold matK. intros H. destruct (omapl_nth _ _ _ 0 (@nil K) _ _ H) as [L N]. rewrite seq_length in L, N.
    split; [exact L|]. intros j Hj. specialize (N j Hj). rewrite seq_nth in N by exact Hj. cbn [Nat.add] in N.
    change (struct_size (in_struct e)) with (in_size e) in N.
    destruct (dn e (fst (unflatten (in_struct e) (basis (in_size e) j)))) as [y|]; [|discriminate N].
    cbn [option_map] in N. injection N as N. exists y. split; [reflexivity|]. symmetry. exact N.
  Qed.
  Lemma basis_length n j : List.length (basis n j) = n.
  Proof. unfold basis. now rewrite map_length, seq_length. Qed.
  Lemma basis_has s j : has_struct (fst (unflatten s (basis (struct_size s) j))) s = true.
  Proof. exact (unflat_vhas K s _ (basis_length _ _)). Qed.
  Lemma basis_flat s j : vflatten (fst (unflatten s (basis (struct_size s) j))) = basis (struct_size s) j.
  Proof. exact (unflat_flat K s _ (basis_length _ _)). Qed.

  (* ---------- the matrix form, from adjointness and honest output structures ---------- *)
  Theorem transpose_matrix_generic (e : xop) :
    adjS e -> swapped K e ->
    (forall x y, has_struct x (in_struct e) = true -> dn e x = Some y -> has_struct y (out_struct e) = true) ->
    (forall x y, has_struct x (in_struct (T e)) = true -> dn (T e) x = Some y -> has_struct y (out_struct (T e)) = true) ->
    forall A B, matK e = Some A -> matK (T e) = Some B -> B = ltrans k0 (out_size e) A.
  Proof.
    intros HA HS H1 H2 A B EA EB.
    pose proof (swapped_in K e HS) as Ei. pose proof (swapped_out K e HS) as Eo.
    destruct (matK_spec e A EA) as [LA NA]. destruct (matK_spec (T e) B EB) as [LB NB].
    assert (Ein : in_size (T e) = out_size e) by (unfold in_size, out_size; now rewrite Ei).
    rewrite Ein in LB, NB.
    apply (nth_ext _ _ [] []); [now rewrite ltrans_length|].
    intros i Hi. rewrite LB in Hi. rewrite nth_ltrans by exact Hi.
    destruct (NB i Hi) as (gy & Dg & ->).
    pose proof (basis_has (in_struct (T e)) i) as Hyi. pose proof (basis_flat (in_struct (T e)) i) as Fyi.
    change (struct_size (in_struct (T e))) with (in_size (T e)) in Hyi, Fyi. rewrite Ein in Hyi, Fyi.
    pose proof (H2 _ _ Hyi Dg) as Hgy. rewrite Eo in Hgy.
    pose proof (vflatten_length _ _ Hgy) as Lgy. change (struct_size (in_struct e)) with (in_size e) in Lgy.
    apply (nth_ext _ _ k0 k0); [now rewrite tcol_length, LA|].
    intros j Hj. rewrite Lgy in Hj. rewrite nth_tcol by (rewrite LA; exact Hj).
    destruct (NA j Hj) as (fx & Df & ->).
    pose proof (basis_has (in_struct e) j) as Hxj. pose proof (basis_flat (in_struct e) j) as Fxj.
    change (struct_size (in_struct e)) with (in_size e) in Hxj, Fxj.
    pose proof (H1 _ _ Hxj Df) as Hfx.
    rewrite Ei in Hyi, Fyi, Dg.
    pose proof (HA _ _ _ _ Hxj Hyi Df Dg) as E.
    rewrite (inner_flat (out_struct e) _ _ Hfx Hyi), (inner_flat (in_struct e) _ _ Hxj Hgy), Fyi, Fxj in E.
    rewrite dot_basis in E by (exact (vflatten_length _ _ Hfx)).
    rewrite dot_comm, dot_basis in E by exact Lgy. symmetry. exact E.
  Qed.
End Generic.

Lemma obind_ext (X Y : Type) (o : option X) (f g : X -> option Y) : (forall v, f v = g v) -> obind o f = obind o g.
Proof. intros H. destruct o; cbn [obind]; auto. Qed.
(* two leaf semantics that agree on the leaves of e give e the same denotation *)
Lemma denote_ext (ls ls' : xop -> xvalue -> option xvalue) : forall e : xop,
  Forall (fun l => forall x, ls l x = ls' l x) (leaves e) ->
  forall x, denote Qcplus Qcmult ls e x = denote Qcplus Qcmult ls' e x.
Proof.
  assert (HL : forall l : list xop,
            Forall (fun e => Forall (fun l => forall x, ls l x = ls' l x) (leaves e) ->
                             forall x, denote Qcplus Qcmult ls e x = denote Qcplus Qcmult ls' e x) l ->
            Forall (fun l => forall x, ls l x = ls' l x) (flat_map (@leaves K) l) ->
            Forall (fun e => forall x, denote Qcplus Qcmult ls e x = denote Qcplus Qcmult ls' e x) l).
  { intros l IH H. apply Forall_flat_map in H. revert H. apply (Forall_mp K). exact IH. }
  assert (HO : forall l : list xop, Forall (fun e => forall x, denote Qcplus Qcmult ls e x = denote Qcplus Qcmult ls' e x) l ->
            forall x, omapl (fun e => denote Qcplus Qcmult ls e x) l = omapl (fun e => denote Qcplus Qcmult ls' e x) l).
  { induction 1 as [|a r Ha _ IHr]; intros x; [reflexivity|]. cbn [omapl]. now rewrite Ha, IHr. }
  assert (H2 : forall l : list xop, Forall (fun e => forall x, denote Qcplus Qcmult ls e x = denote Qcplus Qcmult ls' e x) l ->
            forall xs, omap2 (denote Qcplus Qcmult ls) l xs = omap2 (denote Qcplus Qcmult ls') l xs).
  { induction 1 as [|a r Ha _ IHr]; intros [|x xs]; try reflexivity. cbn [omap2]. now rewrite Ha, IHr. }
  induction e as [i c si so p|i w e IH|i s|i k s|i l IH|i l IH|i b td l IH] using op_ind'; intros H x; cbn [leaves] in H.
  - exact (Forall_inv H x).
  - exact (Forall_inv H x).
  - reflexivity.
  - reflexivity.
  - rewrite !denote_comp. pose proof (HL l IH H) as HF. clear IH H. revert x.
    induction HF as [|a r Ha _ IHr]; intros x; [reflexivity|]. rewrite !chain_cons, IHr.
    apply obind_ext. exact Ha.
  - rewrite !denote_add. f_equal. exact (HO l (HL l IH H) x).
  - rewrite !denote_block. pose proof (HL l IH H) as HF. destruct (negb _); [reflexivity|].
    destruct b; unfold denote_list.
    + apply obind_ext. intros xs. f_equal. exact (H2 l HF xs).
    + apply obind_ext. intros xs. f_equal. exact (H2 l HF xs).
    + f_equal. exact (HO l HF x).
Qed.

(* Exec.mat prints matK *)
Definition pr (m : list (list K)) : list (list (Z * Z)) := map (map (fun k => qpair (this k))) m.
Lemma mat_matK tb e : Exec.mat tb e = option_map pr (matK (leafsem tb) e).
Proof. reflexivity. Qed.
Lemma matT_matK tb pt e : matT tb pt e = option_map pr (matK (leafsemT tb pt) e).
Proof. reflexivity. Qed.
Definition zero_pair : Z * Z := (0, 1)%Z.
Lemma pr_ltrans n m : pr (ltrans k0 n m) = ltrans zero_pair n (pr m).
Proof. unfold pr. symmetry. exact (ltrans_map K (Z * Z) (fun k => qpair (this k)) k0 n m). Qed.

(* ====================================================================================== *)
(* Part 3 - the leaf facts for Exec.leafsem tb, from decidable checks on the table        *)
(* ====================================================================================== *)
Notation xadjt tb := (adjT K k0 Qcplus Qcmult (leafsem tb)).

Definition isNone (A : Type) (o : option A) : bool := match o with None => true | Some _ => false end.
Arguments isNone {A}.
(* a QU rotation acts through its closed form (no measured matrix stored for it) *)
Definition rot_free (tb : table) (x : xop) : bool :=
  match x with Prim j CQURotation _ _ _ => isNone (stored tb j) | _ => true end.

(* QURotationTransposeOperator around a table-free rotation: rot_value true is the adjoint of rot_value false *)
Lemma rot_adj tb i (x0 : xop) : stored tb i = None -> rot_free tb x0 = true ->
  xadjoint (den tb x0) (leafsem tb (Wrap i WQURotT x0)).
Proof.
  intros S R x y fx gy H1 H2. unfold leafsem in H2. rewrite wrap_in, wrap_out in H2. unfold stored in S. rewrite S in H2.
  destruct (has_struct y (out_struct x0)) eqn:Hy; cbn [negb] in H2; [|discriminate H2].
  destruct x0 as [j c sj soj p| | | | | |]; try discriminate H2.
  destruct c; try discriminate H2. destruct p; try discriminate H2.
  cbn [rot_free] in R. unfold den in H1. cbn [denote] in H1. unfold leafsem in H1.
  destruct (has_struct x (in_struct (Prim j CQURotation sj soj (PAngles a) : xop))) eqn:Hx; cbn [negb] in H1; [|discriminate H1].
  unfold stored, isNone in R. destruct (if (j =? 0)%N then None else lookup tb (2 * j)%N); [discriminate R|].
  unfold in_struct, out_struct in *. cbn [structs square_cls fst snd] in *.
  eapply rot_value_adjoint; eauto.
Qed.
(* the lazy transpose of the iterative inverse has no action in the model (outside C03) *)
Lemma inv_wrap_vacuous tb i (x0 : xop) f : xadjoint f (leafsem tb (Wrap fresh WTranspose (Wrap i WInverse x0))).
Proof.
  intros x y fx gy _ H. unfold leafsem in H. destruct (negb _) in H; [discriminate H|].
  change (fresh =? 0)%N with true in H. discriminate H.
Qed.

(* what is checked of a primitive: one of the checks of Lemmas/ExecFactsL.v, chosen as transpose() chooses *)
Definition tprim_okb (tb : table) (i : N) (c : cls) (si so : struct) (p : par) : bool :=
  let l : xop := Prim i c si so p in
  if returns_self_on_transpose c then sym_leaf_okb tb l else
  match c, p with
  | CDense, PKey k => dense_okb tb i si so k
  | CMoveAxis, PAxes _ _ => true
  | CQURotation, _ => isNone (stored tb i)
  | (CRavel | CReshape), _ => fresh_okb tb fresh WReshapeT l
  | CObsMatrix, _ => fresh_okb tb fresh WObsT l
  | _, _ => fresh_okb tb fresh WTranspose l
  end.
Lemma tprim_adj tb i c si so p : tprim_okb tb i c si so p = true -> xadjt tb (Prim i c si so p).
Proof.
  unfold tprim_okb, adjT. intros H. destruct (returns_self_on_transpose c) eqn:Es.
  - cbn [transpose]. rewrite Es. cbn [denote]. exact (exec_af_self tb i c si so p Es H).
  - destruct c; try discriminate Es; destruct p; cbn [transpose returns_self_on_transpose];
      first [ exact (exec_af_dense tb i si so _ H)
            | exact (exec_af_move_vacuous tb i si so _ _)
            | exact (rot_adj tb fresh (Prim i CQURotation si so _) eq_refl H)
            | exact (exec_af_fresh tb fresh _ _ eq_refl H (or_introl eq_refl))
            | exact (exec_af_fresh tb fresh _ _ eq_refl H (or_intror (or_introl eq_refl)))
            | exact (exec_af_fresh tb fresh _ _ eq_refl H (or_intror (or_intror eq_refl))) ].
Qed.

(* what is checked of a lazy wrapper (its operand may be any expression) *)
Definition twrap_okb (tb : table) (i : N) (w : wkind) (x0 : xop) : bool :=
  match w with
  | WDiagInv => dinv_okb tb i x0
  | WInverse => true
  | _ => match stored tb i with
         | Some _ => true                 (* consistency with the operand is part of table_okb (wrap_okb) *)
         | None => match w with WQURotT => rot_free tb x0 | _ => fresh_okb tb i w x0 end
         end
  end.
Notation xadjS tb := (adjS (leafsem tb)).
Lemma wfo_wrap i w (x0 : xop) : wfo (Wrap i w x0) = true -> wfo x0 = true.
Proof. cbn [wfo]. intros H. now apply andb_true_iff in H as [H _]. Qed.
(* a lazy transpose with a measured matrix that passed table_okb is adjoint to its operand - ANY expression -
   on values of the declared structures *)
Lemma lazyT_stored_adjS tb i w (x0 : xop) N : wfo x0 = true -> table_okb tb (Wrap i w x0) = true ->
  lazyT w = true -> stored tb i = Some N -> transpose (Wrap i w x0) = x0 -> xadjS tb (Wrap i w x0).
Proof.
  intros W Tb Hw S ET x y fx gy Hx Hy H1 H2. rewrite ET in H2. rewrite wrap_out in Hy. cbn [denote] in H1.
  rewrite (xinner_comm fx y), (xinner_comm x gy). symmetry.
  exact (exec_af_lazyT tb i w x0 N W Tb Hw S y x gy fx Hy H2 H1).
Qed.
Lemma twrap_adjS tb i w (x0 : xop) : wfo (Wrap i w x0) = true -> table_okb tb (Wrap i w x0) = true ->
  twrap_okb tb i w x0 = true -> xadjS tb (Wrap i w x0).
Proof.
  intros W Tb H. apply wfo_wrap in W.
  destruct w; cbn [twrap_okb] in H.
  - destruct (stored tb i) as [N|] eqn:S; [exact (lazyT_stored_adjS tb i _ x0 N W Tb eq_refl S eq_refl)|].
    apply adjt_adjS. unfold adjT. cbn [transpose]. apply (Q7 adjoint_sym).
    exact (exec_af_fresh tb i WTranspose x0 S H (or_introl eq_refl)).
  - apply adjt_adjS. unfold adjT. cbn [transpose]. apply inv_wrap_vacuous.
  - apply adjt_adjS. unfold adjT. cbn [transpose]. exact (exec_af_dinv tb i x0 H).
  - destruct (stored tb i) as [N|] eqn:S; [exact (lazyT_stored_adjS tb i _ x0 N W Tb eq_refl S eq_refl)|].
    apply adjt_adjS. unfold adjT. cbn [transpose]. apply (Q7 adjoint_sym). exact (rot_adj tb i x0 S H).
  - destruct (stored tb i) as [N|] eqn:S; [exact (lazyT_stored_adjS tb i _ x0 N W Tb eq_refl S eq_refl)|].
    apply adjt_adjS. unfold adjT. cbn [transpose]. apply (Q7 adjoint_sym).
    exact (exec_af_fresh tb i WReshapeT x0 S H (or_intror (or_introl eq_refl))).
  - destruct (stored tb i) as [N|] eqn:S; [exact (lazyT_stored_adjS tb i _ x0 N W Tb eq_refl S eq_refl)|].
    apply adjt_adjS. unfold adjT. cbn [transpose]. apply (Q7 adjoint_sym).
    exact (exec_af_fresh tb i WObsT x0 S H (or_intror (or_intror eq_refl))).
Qed.

Definition tleaf_okb (tb : table) (l : xop) : bool :=
  match l with
  | Prim i c si so p => tprim_okb tb i c si so p
  | Wrap i w x0 => twrap_okb tb i w x0
  | _ => true
  end.
(* THE side condition: every leaf of e passes its check *)
Definition transpose_okb (tb : table) (e : xop) : bool := forallb (tleaf_okb tb) (leaves e).

(* ---------- properties of an expression go down to its leaves ---------- *)
Lemma leaves_lift (P : xop -> Prop) (Q : xop -> Prop) (l : list xop) :
  Forall (fun e => Q e -> Forall P (leaves e)) l -> Forall Q l -> Forall P (flat_map (@leaves K) l).
Proof. intros IH H. apply Forall_flat_map. revert H. apply (Forall_mp K). exact IH. Qed.
Lemma forallb_Forall (f : xop -> bool) l : forallb f l = true -> Forall (fun e => f e = true) l.
Proof. intros H. apply Forall_forall. now apply forallb_forall. Qed.

Lemma wfo_leaves : forall e : xop, wfo e = true -> Forall (fun l => wfo l = true) (leaves e).
Proof.
  induction e as [i c si so p|i w e IH|i s|i k s|i l IH|i l IH|i b td l IH] using op_ind'; intros W; cbn [leaves];
    try (constructor; [exact W|constructor]); try constructor;
    cbn [wfo] in W; apply andb_true_iff in W as [_ W]; apply (wfo_all K) in W; now apply (leaves_lift _ _ l IH).
Qed.
Lemma table_okb_leaves tb : forall e : xop, table_okb tb e = true -> Forall (fun l => table_okb tb l = true) (leaves e).
Proof.
  induction e as [i c si so p|i w e IH|i s|i k s|i l IH|i l IH|i b td l IH] using op_ind'; intros W; cbn [leaves];
    try (constructor; [exact W|constructor]); try constructor.
  - rewrite table_okb_comp in W. apply forallb_Forall in W. now apply (leaves_lift _ _ l IH).
  - rewrite table_okb_add in W. apply forallb_Forall in W. now apply (leaves_lift _ _ l IH).
  - rewrite table_okb_block in W. apply forallb_Forall in W. now apply (leaves_lift _ _ l IH).
Qed.
Lemma leaves_leaflike : forall e : xop, Forall (fun l => leaflike K l = true) (leaves e).
Proof.
  induction e as [i c si so p|i w e IH|i s|i k s|i l IH|i l IH|i b td l IH] using op_ind'; cbn [leaves];
    try (constructor; [reflexivity|constructor]); try constructor;
    apply Forall_flat_map; exact IH.
Qed.

Lemma transpose_okb_leaves tb (e : xop) : wfo e = true -> table_okb tb e = true -> transpose_okb tb e = true ->
  Forall (xadjS tb) (leaves e).
Proof.
  intros W Tb H.
  pose proof (wfo_leaves e W) as H1. pose proof (table_okb_leaves tb e Tb) as H2. pose proof (leaves_leaflike e) as H3.
  unfold transpose_okb in H. rewrite forallb_forall in H. rewrite Forall_forall in H1, H2, H3 |- *.
  intros l Hl. specialize (H l Hl). specialize (H1 l Hl). specialize (H2 l Hl). specialize (H3 l Hl).
  destruct l; try discriminate H3.
  - apply adjt_adjS. now apply tprim_adj.
  - now apply twrap_adjS.
Qed.

(* ---------- the table check is stable under transposition ---------- *)
Lemma Forall_forallb (X : Type) (f : X -> bool) l : Forall (fun e => f e = true) l -> forallb f l = true.
Proof. intros H. apply forallb_forall. now apply Forall_forall. Qed.
Lemma transpose_m_rows : forall n m, Forall (fun r => List.length r = List.length m) (transpose_m m n).
Proof.
  induction n as [|n IH]; intros m; cbn [transpose_m]; [constructor|]. apply Forall_app. split.
  - specialize (IH (map (fun r => removelast r) m)). rewrite map_length in IH. exact IH.
  - constructor; [apply map_length|constructor].
Qed.
(* the dense operator that transpose() re-creates has a matrix of the swapped dimensions *)
Lemma dense_dims tb i si so k : dense_okb tb i si so k = true ->
  leaf_okb tb (Prim fresh CDense so si (PKey (tkey k))) = true.
Proof.
  unfold dense_okb, leaf_okb, in_struct, out_struct. cbn [structs square_cls fst snd]. change (stored tb fresh) with (@None matrix).
  cbv iota. destruct (lookup tb (tkey k)) as [mt|]; [|reflexivity].
  destruct (prim_matrix tb (Prim i CDense si so (PKey k))) as [m|]; [|discriminate].
  intros H. apply andb_true_iff in H as [D E]. apply meqb_eq in E. subst mt. apply dims_okb_spec in D as [L _].
  unfold dims_okb. rewrite transpose_m_length, Nat.eqb_refl. cbn [andb]. apply Forall_forallb.
  eapply Forall_impl; [|apply transpose_m_rows]. intros r Hr. cbv beta in Hr. apply Nat.eqb_eq. congruence.
Qed.
Lemma transpose_okb_list tb (l : list xop) : forallb (tleaf_okb tb) (flat_map (@leaves K) l) = true ->
  Forall (fun x => transpose_okb tb x = true) l.
Proof.
  intros H. apply forallb_Forall in H. apply Forall_flat_map in H. eapply Forall_impl; [|exact H].
  intros x Hx. now apply Forall_forallb.
Qed.

Theorem table_okb_transpose tb : forall e : xop, table_okb tb e = true -> transpose_okb tb e = true ->
  table_okb tb (x_transpose e) = true.
Proof.
  assert (HL : forall l : list xop,
            Forall (fun e => table_okb tb e = true -> transpose_okb tb e = true -> table_okb tb (x_transpose e) = true) l ->
            forallb (table_okb tb) l = true -> forallb (tleaf_okb tb) (flat_map (@leaves K) l) = true ->
            forallb (table_okb tb) (map x_transpose l) = true).
  { intros l IH H1 H2. apply forallb_Forall in H1. apply transpose_okb_list in H2. apply Forall_forallb. apply Forall_map.
    exact (Forall_mp K _ _ l (Forall_mp K _ _ l IH H1) H2). }
  unfold x_transpose.
  induction e as [i c si so p|i w e IH|i s|i k s|i l IH|i l IH|i b td l IH] using op_ind'; intros Tb H.
  - unfold transpose_okb in H. cbn [leaves forallb tleaf_okb] in H. rewrite andb_true_r in H. unfold tprim_okb in H.
    cbn [transpose]. destruct (returns_self_on_transpose c) eqn:Es; [exact Tb|].
    cbn [table_okb] in Tb.
    destruct c; try discriminate Es; destruct p; cbn [table_okb];
      first [ exact (dense_dims tb i si so _ H) | reflexivity | (rewrite Tb; reflexivity) ].
  - cbn [table_okb] in Tb. pose proof Tb as Tb'. apply andb_true_iff in Tb as [Tb _]. apply andb_true_iff in Tb as [Tb _].
    destruct w; cbn [transpose]; try exact Tb.
    + cbn [table_okb]. rewrite Tb'. reflexivity.
    + cbn [table_okb]. exact Tb'.
  - reflexivity.
  - reflexivity.
  - cbn [transpose]. rewrite table_okb_comp in Tb |- *. rewrite forallb_forall. intros x Hx. apply in_rev in Hx.
    revert x Hx. apply forallb_forall. now apply HL.
  - cbn [transpose]. rewrite table_okb_add in Tb |- *. now apply HL.
  - cbn [transpose]. rewrite table_okb_block in Tb |- *. now apply HL.
Qed.

(* the adjoint identity on values of the declared structures, for every expression that passes the checks *)
Theorem transpose_okb_pre tb (e : xop) : wfo e = true -> sym_square e = true -> table_okb tb e = true ->
  transpose_okb tb e = true -> pre (leafsem tb) e.
Proof.
  intros W S Tb H. unfold pre. split; [exact W|]. split; [exact S|]. split; [exact (table_ok_leaves tb e Tb)|].
  split; [exact (table_ok_leaves tb (x_transpose e) (table_okb_transpose tb e Tb H))|now apply transpose_okb_leaves].
Qed.
Theorem transpose_okb_adj tb (e : xop) : wfo e = true -> sym_square e = true -> table_okb tb e = true ->
  transpose_okb tb e = true -> xadjS tb e.
Proof. intros W S Tb H. apply adjS_from_leaves. now apply transpose_okb_pre. Qed.

(* ====================================================================================== *)
(* Part 4 - the matrix form for Exec.mat                                                  *)
(* ====================================================================================== *)
Theorem exec_transpose_matrixK tb (e : xop) :
  wfo e = true -> sym_square e = true -> table_okb tb e = true -> transpose_okb tb e = true ->
  forall A B, matK (leafsem tb) e = Some A -> matK (leafsem tb) (x_transpose e) = Some B ->
  B = ltrans k0 (out_size e) A.
Proof.
  intros W S Tb H. pose proof (table_okb_transpose tb e Tb H) as TbT. apply transpose_matrix_generic.
  - now apply transpose_okb_adj.
  - now apply transpose_structs_l.
  - exact (exec_out_struct_ok tb e W Tb).
  - exact (exec_out_struct_ok tb (x_transpose e) (transpose_wf_l K e W S) TbT).
Qed.

(* the same with the model's own transposition of a table matrix (Exec.transpose_m) *)
Lemma matK_shape ls (e : xop) A :
  (forall x y, has_struct x (in_struct e) = true -> denote Qcplus Qcmult ls e x = Some y -> has_struct y (out_struct e) = true) ->
  matK ls e = Some A -> List.length A = in_size e /\ rows_ok (out_size e) A.
Proof.
  intros H1 EA. destruct (matK_spec ls e A EA) as [LA NA]. split; [exact LA|].
  unfold rows_ok. apply Forall_forall. intros c Hc. destruct (In_nth _ _ [] Hc) as (j & Hj & <-). rewrite LA in Hj.
  destruct (NA j Hj) as (y & Dy & ->). exact (vflatten_length _ _ (H1 _ _ (basis_has (in_struct e) j) Dy)).
Qed.
Theorem exec_transpose_matrixK_m tb (e : xop) :
  wfo e = true -> sym_square e = true -> table_okb tb e = true -> transpose_okb tb e = true ->
  forall A B, matK (leafsem tb) e = Some A -> matK (leafsem tb) (x_transpose e) = Some B ->
  B = transpose_m A (out_size e).
Proof.
  intros W S Tb H A B EA EB. rewrite (exec_transpose_matrixK tb e W S Tb H A B EA EB). symmetry. apply transpose_m_ltrans.
  exact (proj2 (matK_shape (leafsem tb) e A (exec_out_struct_ok tb e W Tb) EA)).
Qed.

(* ---------- the printed matrices of Model/Exec.v `mat` ---------- *)
Theorem exec_transpose_matrix_l tb (e : xop) :
  wfo e = true -> sym_square e = true -> table_okb tb e = true -> transpose_okb tb e = true ->
  forall A B, Exec.mat tb e = Some A -> Exec.mat tb (x_transpose e) = Some B -> B = ltrans zero_pair (out_size e) A.
Proof.
  intros W S Tb H A B EA EB. rewrite mat_matK in EA, EB. dob EA A' EA'. dob EB B' EB'. injection EA as <-. injection EB as <-.
  rewrite (exec_transpose_matrixK tb e W S Tb H A' B' EA' EB'). apply pr_ltrans.
Qed.
(* equational form: whenever the model gives e.T a matrix at all, it is the transposed matrix *)
Corollary exec_transpose_matrix_eq_l tb (e : xop) :
  wfo e = true -> sym_square e = true -> table_okb tb e = true -> transpose_okb tb e = true ->
  forall A, Exec.mat tb e = Some A -> isNone (Exec.mat tb (x_transpose e)) = false ->
  Exec.mat tb (x_transpose e) = Some (ltrans zero_pair (out_size e) A).
Proof.
  intros W S Tb H A EA D. destruct (Exec.mat tb (x_transpose e)) as [B|] eqn:EB; [|discriminate D].
  f_equal. exact (exec_transpose_matrix_l tb e W S Tb H A B EA EB).
Qed.

(* ---------- A.T.T has the matrix of A ---------- *)
Lemma sym_square_transpose : forall e : xop, sym_square e = true -> sym_square (x_transpose e) = true.
Proof.
  unfold x_transpose.
  induction e as [i c si so p|i w e IH|i s|i k s|i l IH|i l IH|i b td l IH] using op_ind'; intros S.
  - cbn [transpose]. destruct (returns_self_on_transpose c) eqn:Es; [exact S|].
    destruct c; try discriminate Es; destruct p; reflexivity.
  - cbn [sym_square] in S. destruct w; cbn [transpose sym_square]; exact S.
  - exact S.
  - exact S.
  - cbn [sym_square] in S. apply (all_Forall K (fun e => sym_square e)) in S. cbn [transpose sym_square].
    apply (Forall_all K (fun e => sym_square e)). apply Forall_rev. apply Forall_map. exact (Forall_mp K _ _ l IH S).
  - cbn [sym_square] in S. apply (all_Forall K (fun e => sym_square e)) in S. cbn [transpose sym_square].
    apply (Forall_all K (fun e => sym_square e)). apply Forall_map. exact (Forall_mp K _ _ l IH S).
  - cbn [sym_square] in S. apply (all_Forall K (fun e => sym_square e)) in S. cbn [transpose sym_square].
    apply (Forall_all K (fun e => sym_square e)). apply Forall_map. exact (Forall_mp K _ _ l IH S).
Qed.

Theorem exec_transpose_involutive_matrixK tb (e : xop) :
  wfo e = true -> sym_square e = true -> table_okb tb e = true -> transpose_okb tb e = true ->
  transpose_okb tb (x_transpose e) = true ->
  forall A B C, matK (leafsem tb) e = Some A -> matK (leafsem tb) (x_transpose e) = Some B ->
    matK (leafsem tb) (x_transpose (x_transpose e)) = Some C -> C = A.
Proof.
  intros W S Tb H HT A B C EA EB EC.
  pose proof (transpose_wf_l K e W S) as WT. pose proof (sym_square_transpose e S) as ST.
  pose proof (table_okb_transpose tb e Tb H) as TbT.
  rewrite (exec_transpose_matrixK tb (x_transpose e) WT ST TbT HT B C EB EC).
  rewrite (exec_transpose_matrixK tb e W S Tb H A B EA EB).
  destruct (matK_shape (leafsem tb) e A (exec_out_struct_ok tb e W Tb) EA) as [LA RA].
  replace (out_size (x_transpose e)) with (List.length A).
  - apply ltrans_involutive. exact RA.
  - rewrite LA. unfold out_size, in_size, x_transpose. now rewrite (swapped_out K e (transpose_structs_l K e W S)).
Qed.
Lemma pr_inj_eq C A : C = A -> pr C = pr A.
Proof. now intros ->. Qed.
Theorem exec_transpose_involutive_matrix_l tb (e : xop) :
  wfo e = true -> sym_square e = true -> table_okb tb e = true -> transpose_okb tb e = true ->
  transpose_okb tb (x_transpose e) = true ->
  forall A B C, Exec.mat tb e = Some A -> Exec.mat tb (x_transpose e) = Some B ->
    Exec.mat tb (x_transpose (x_transpose e)) = Some C -> C = A.
Proof.
  intros W S Tb H HT A B C EA EB EC. rewrite mat_matK in EA, EB, EC. dob EA A' EA'. dob EB B' EB'. dob EC C' EC'.
  injection EA as <-. injection EC as <-. apply pr_inj_eq.
  exact (exec_transpose_involutive_matrixK tb e W S Tb H HT A' B' C' EA' EB' EC').
Qed.

(* ---------- at the level of the observations the harness compares ---------- *)
Theorem exec_transpose_observe_l tb (e : xop) :
  wfo e = true -> sym_square e = true -> table_okb tb e = true -> transpose_okb tb e = true ->
  forall s si so A s' si' so' B,
    observe tb (Ok e) = OOk s si so (Some A) -> observe tb (Ok (x_transpose e)) = OOk s' si' so' (Some B) ->
    si' = so /\ so' = si /\ B = ltrans zero_pair (out_size e) A.
Proof.
  intros W S Tb H s si so A s' si' so' B O1 O2. cbn [observe] in O1, O2.
  injection O1 as _ <- <- EA. injection O2 as _ <- <- EB.
  pose proof (transpose_structs_l K e W S) as HS. unfold x_transpose.
  rewrite (swapped_in K e HS), (swapped_out K e HS). repeat split.
  exact (exec_transpose_matrix_l tb e W S Tb H A B EA EB).
Qed.

(* ====================================================================================== *)
(* Part 5 - the same for the leaf semantics of the C03 harness (Model/Adjoint.v leafsemT) *)
(* ====================================================================================== *)
(* leafsemT tb pt is leafsem tb except on the MoveAxisOperator objects that transpose() re-creates (object
   id 0), whose measured matrices are looked up in `pt` by parameters and input structure.  With it the
   transpose of a MoveAxisOperator has an action, and the matrix form is not vacuous for it. *)
Notation xadjtT tb pt := (adjT K k0 Qcplus Qcmult (leafsemT tb pt)).
Notation xadjST tb pt := (adjS (leafsemT tb pt)).

Definition is_fresh_move (l : xop) : bool :=
  match l with Prim i CMoveAxis _ _ (PAxes _ _) => (i =? 0)%N | _ => false end.

Lemma leafsemT_same tb pt (l : xop) x : is_fresh_move l = false -> leafsemT tb pt l x = leafsem tb l x.
Proof.
  destruct l as [i c si so p| | | | | |]; try reflexivity. destruct c; try reflexivity. destruct p; try reflexivity.
  unfold leafsemT. cbn [is_fresh_move]. intros H. rewrite H. reflexivity.
Qed.
(* no leaf of e is a re-created MoveAxisOperator: leafsemT and leafsem give e the same denotation *)
Definition nfm (e : xop) : bool := forallb (fun l => negb (is_fresh_move l)) (leaves e).
Lemma lsT_agree tb pt (e : xop) : nfm e = true ->
  forall x, denote Qcplus Qcmult (leafsemT tb pt) e x = denote Qcplus Qcmult (leafsem tb) e x.
Proof.
  intros H. apply denote_ext. unfold nfm in H. rewrite forallb_forall in H. apply Forall_forall.
  intros l Hl x. apply leafsemT_same. now apply negb_true_iff, H.
Qed.
Lemma adjS_transfer tb pt (l : xop) : nfm l = true -> nfm (x_transpose l) = true -> xadjS tb l -> adjS (leafsemT tb pt) l.
Proof.
  intros F1 F2 A x y fx gy Hx Hy H1 H2. apply (A x y fx gy Hx Hy).
  - rewrite <- (lsT_agree tb pt) by assumption. exact H1.
  - rewrite <- (lsT_agree tb pt) by assumption. exact H2.
Qed.

(* the matrix through which a MoveAxisOperator acts under leafsemT *)
Definition move_matrix (tb : table) (pt : ptable) (i : N) (si : struct) (s d : list Z) : option matrix :=
  if (i =? 0)%N then plookup pt (PAxes s d) si else stored tb i.
Lemma leafsemT_move tb pt i si so s d x :
  leafsemT tb pt (Prim i CMoveAxis si so (PAxes s d)) x =
  match move_matrix tb pt i si s d with Some m => apply_matrix m si so x | None => None end.
Proof.
  unfold leafsemT, move_matrix. destruct (i =? 0)%N eqn:Ei; [reflexivity|].
  unfold leafsem, stored. rewrite Ei. unfold in_struct, out_struct. cbn [structs square_cls fst snd].
  destruct (lookup tb (2 * i)%N); [apply guard_apply_matrix|]. destruct (negb _); reflexivity.
Qed.
(* the matrix found for the re-created MoveAxis(dst, src) has the swapped dimensions and is the transpose *)
Definition move_okb (tb : table) (pt : ptable) (i : N) (si so : struct) (s d : list Z) : bool :=
  match plookup pt (PAxes d s) so with
  | None => true
  | Some mt =>
      dims_okb so si mt &&
      match move_matrix tb pt i si s d with
      | Some m => dims_okb si so m && meqb mt (transpose_m m (struct_size si))
      | None => true
      end
  end.
Lemma move_adj tb pt i si so s d : move_okb tb pt i si so s d = true ->
  xadjtT tb pt (Prim i CMoveAxis si so (PAxes s d)).
Proof.
  unfold adjT. cbn [transpose returns_self_on_transpose denote]. intros H x y fx gy H1 H2.
  rewrite leafsemT_move in H1, H2. unfold move_matrix in H2. change (fresh =? 0)%N with true in H2. cbv iota in H2.
  unfold move_okb in H. destruct (plookup pt (PAxes d s) so) as [mt|]; [|discriminate H2].
  apply andb_true_iff in H as [_ H]. destruct (move_matrix tb pt i si s d) as [m|]; [|discriminate H1].
  apply andb_true_iff in H as [D E]. apply meqb_eq in E. subst mt. apply dims_okb_spec in D as [L R].
  exact (apply_matrix_adjoint m si so x y fx gy (conj R L) H1 H2).
Qed.

Definition tleafT_okb (tb : table) (pt : ptable) (l : xop) : bool :=
  match l with
  | Prim i c si so p =>
      match c, p with
      | CMoveAxis, PAxes s d => move_okb tb pt i si so s d
      | _, _ => tprim_okb tb i c si so p
      end
  | Wrap i w x0 => nfm x0 && twrap_okb tb i w x0
  | _ => true
  end.
Definition transposeT_okb (tb : table) (pt : ptable) (e : xop) : bool := forallb (tleafT_okb tb pt) (leaves e).

Lemma tleafT_adjS tb pt (l : xop) : leaflike K l = true -> wfo l = true -> table_okb tb l = true ->
  tleafT_okb tb pt l = true -> xadjST tb pt l.
Proof.
  intros Hl W Tb H. destruct l as [i c si so p|i w x0| | | | |]; try discriminate Hl.
  - destruct c; destruct p; cbn [tleafT_okb] in H; try (apply adjt_adjS; apply move_adj; exact H);
      (apply adjS_transfer; [reflexivity|reflexivity|apply adjt_adjS; apply tprim_adj; exact H]).
  - cbn [tleafT_okb] in H. apply andb_true_iff in H as [F H].
    assert (A : xadjS tb (Wrap i w x0)) by (now apply twrap_adjS).
    destruct w; (apply adjS_transfer; [reflexivity| |exact A]); cbn [x_transpose transpose]; first [exact F|reflexivity].
Qed.

Lemma tleafT_weaken tb pt (l : xop) : tleafT_okb tb pt l = true -> tleaf_okb tb l = true.
Proof.
  destruct l as [i c si so p|i w x0| | | | |]; try reflexivity.
  - destruct c; try exact (fun H => H); destruct p; try exact (fun H => H). reflexivity.
  - cbn [tleafT_okb tleaf_okb]. intros H. now apply andb_true_iff in H as [_ H].
Qed.
Lemma transposeT_weaken tb pt (e : xop) : transposeT_okb tb pt e = true -> transpose_okb tb e = true.
Proof.
  unfold transposeT_okb, transpose_okb. rewrite !forallb_forall. intros H l Hl. apply (tleafT_weaken tb pt), H, Hl.
Qed.

Lemma transposeT_okb_leaves tb pt (e : xop) : wfo e = true -> table_okb tb e = true -> transposeT_okb tb pt e = true ->
  Forall (xadjST tb pt) (leaves e).
Proof.
  intros W Tb H.
  pose proof (wfo_leaves e W) as H1. pose proof (table_okb_leaves tb e Tb) as H2. pose proof (leaves_leaflike e) as H3.
  unfold transposeT_okb in H. rewrite forallb_forall in H. rewrite Forall_forall in H1, H2, H3 |- *.
  intros l Hl. apply tleafT_adjS; auto.
Qed.

(* ---------- honest output structures under leafsemT ---------- *)
Definition ptab_leaf_okb (pt : ptable) (l : xop) : bool :=
  match l with
  | Prim i CMoveAxis si so (PAxes s d) =>
      if (i =? 0)%N then match plookup pt (PAxes s d) si with Some m => dims_okb si so m | None => true end else true
  | _ => true
  end.
Definition ptable_okb (pt : ptable) (e : xop) : bool := forallb (ptab_leaf_okb pt) (leaves e).

Lemma leafT_honest tb pt (l : xop) : leaf_honest K (leafsem tb) l -> ptab_leaf_okb pt l = true ->
  leaf_honest K (leafsemT tb pt) l.
Proof.
  intros HL Hok. destruct (is_fresh_move l) eqn:F.
  - destruct l as [i c si so p| | | | | |]; try discriminate F. destruct c; try discriminate F. destruct p; try discriminate F.
    cbn [is_fresh_move] in F. cbn [ptab_leaf_okb] in Hok. rewrite F in Hok.
    intros x y Hx Hy. rewrite leafsemT_move in Hy. unfold move_matrix in Hy. rewrite F in Hy.
    destruct (plookup pt (PAxes src dst) si) as [m|]; [|discriminate Hy]. apply dims_okb_spec in Hok as [L _].
    unfold in_struct, out_struct in *. cbn [structs square_cls fst snd] in *. rewrite <- has_struct_vhas in *.
    exact (am_honest m si so x y L Hy).
  - intros x y Hx Hy. rewrite leafsemT_same in Hy by exact F. exact (HL x y Hx Hy).
Qed.
Lemma lsT_leaves_honest tb pt (e : xop) : table_okb tb e = true -> ptable_okb pt e = true ->
  Forall (leaf_honest K (leafsemT tb pt)) (leaves e).
Proof.
  intros Tb Pb. pose proof (table_ok_leaves tb e Tb) as H1. unfold ptable_okb in Pb. rewrite forallb_forall in Pb.
  rewrite Forall_forall in H1 |- *. intros l Hl. apply leafT_honest; auto.
Qed.
Lemma lsT_out_struct_ok tb pt (e : xop) : wfo e = true -> table_okb tb e = true -> ptable_okb pt e = true ->
  forall x y, has_struct x (in_struct e) = true -> denote Qcplus Qcmult (leafsemT tb pt) e x = Some y ->
    has_struct y (out_struct e) = true.
Proof.
  intros W Tb Pb x y Hx Hy. rewrite has_struct_vhas in Hx |- *.
  exact (out_structure_honest_l K Qcplus Qcmult (leafsemT tb pt) e W (lsT_leaves_honest tb pt e Tb Pb) x y Hx Hy).
Qed.

Lemma forallb_leaves_list (f : xop -> bool) (l : list xop) :
  forallb f (flat_map (@leaves K) l) = true <-> Forall (fun x => forallb f (leaves x) = true) l.
Proof.
  split.
  - intros H. apply forallb_Forall in H. apply Forall_flat_map in H. eapply Forall_impl; [|exact H].
    intros x Hx. now apply Forall_forallb.
  - intros H. apply Forall_forallb. apply Forall_flat_map. eapply Forall_impl; [|exact H].
    intros x Hx. now apply forallb_Forall.
Qed.
Lemma nfm_ptable pt (x0 : xop) : nfm x0 = true -> ptable_okb pt x0 = true.
Proof.
  unfold nfm, ptable_okb. rewrite !forallb_forall. intros H l Hl. specialize (H l Hl). apply negb_true_iff in H.
  destruct l as [i c si so p| | | | | |]; try reflexivity. destruct c; try reflexivity. destruct p; try reflexivity.
  cbn [is_fresh_move] in H. cbn [ptab_leaf_okb]. rewrite H. reflexivity.
Qed.

Theorem ptable_okb_transpose tb pt : forall e : xop, ptable_okb pt e = true -> transposeT_okb tb pt e = true ->
  ptable_okb pt (x_transpose e) = true.
Proof.
  assert (HL : forall l : list xop,
            Forall (fun e => ptable_okb pt e = true -> transposeT_okb tb pt e = true -> ptable_okb pt (x_transpose e) = true) l ->
            forallb (ptab_leaf_okb pt) (flat_map (@leaves K) l) = true ->
            forallb (tleafT_okb tb pt) (flat_map (@leaves K) l) = true ->
            Forall (fun x => forallb (ptab_leaf_okb pt) (leaves x) = true) (map x_transpose l)).
  { intros l IH H1 H2. apply forallb_leaves_list in H1. apply forallb_leaves_list in H2. apply Forall_map.
    exact (Forall_mp K _ _ l (Forall_mp K _ _ l IH H1) H2). }
  unfold x_transpose.
  induction e as [i c si so p|i w e IH|i s|i k s|i l IH|i l IH|i b td l IH] using op_ind'; intros Pb H.
  - unfold transposeT_okb in H. cbn [leaves forallb] in H. rewrite andb_true_r in H.
    cbn [transpose]. destruct (returns_self_on_transpose c) eqn:Es; [exact Pb|].
    destruct c; try discriminate Es; destruct p; try reflexivity.
    cbn [tleafT_okb] in H. unfold move_okb in H. unfold ptable_okb. cbn [leaves forallb ptab_leaf_okb].
    change (fresh =? 0)%N with true. cbv iota. destruct (plookup pt (PAxes dst src) so); [|reflexivity].
    apply andb_true_iff in H as [H _]. rewrite H. reflexivity.
  - unfold transposeT_okb in H. cbn [leaves forallb tleafT_okb] in H. rewrite andb_true_r in H.
    apply andb_true_iff in H as [F H].
    destruct w; cbn [transpose]; try reflexivity; now apply nfm_ptable.
  - reflexivity.
  - reflexivity.
  - cbn [transpose]. unfold ptable_okb, transposeT_okb in *. cbn [leaves] in *. apply forallb_leaves_list.
    apply Forall_rev. now apply HL.
  - cbn [transpose]. unfold ptable_okb, transposeT_okb in *. cbn [leaves] in *. apply forallb_leaves_list. now apply HL.
  - cbn [transpose]. unfold ptable_okb, transposeT_okb in *. cbn [leaves] in *. apply forallb_leaves_list. now apply HL.
Qed.

(* ---------- the matrix form for matT / observeT ---------- *)
Theorem execT_transpose_matrixK tb pt (e : xop) :
  wfo e = true -> sym_square e = true -> table_okb tb e = true -> ptable_okb pt e = true ->
  transposeT_okb tb pt e = true ->
  forall A B, matK (leafsemT tb pt) e = Some A -> matK (leafsemT tb pt) (x_transpose e) = Some B ->
  B = ltrans k0 (out_size e) A.
Proof.
  intros W S Tb Pb H. pose proof (table_okb_transpose tb e Tb (transposeT_weaken tb pt e H)) as TbT.
  pose proof (ptable_okb_transpose tb pt e Pb H) as PbT.
  apply transpose_matrix_generic.
  - apply adjS_from_leaves. unfold pre. split; [exact W|]. split; [exact S|].
    split; [exact (lsT_leaves_honest tb pt e Tb Pb)|]. split; [exact (lsT_leaves_honest tb pt (x_transpose e) TbT PbT)|].
    now apply transposeT_okb_leaves.
  - now apply transpose_structs_l.
  - exact (lsT_out_struct_ok tb pt e W Tb Pb).
  - exact (lsT_out_struct_ok tb pt (x_transpose e) (transpose_wf_l K e W S) TbT PbT).
Qed.
Theorem execT_transpose_matrix_l tb pt (e : xop) :
  wfo e = true -> sym_square e = true -> table_okb tb e = true -> ptable_okb pt e = true ->
  transposeT_okb tb pt e = true ->
  forall A B, matT tb pt e = Some A -> matT tb pt (x_transpose e) = Some B -> B = ltrans zero_pair (out_size e) A.
Proof.
  intros W S Tb Pb H A B EA EB. rewrite matT_matK in EA, EB. dob EA A' EA'. dob EB B' EB'. injection EA as <-. injection EB as <-.
  rewrite (execT_transpose_matrixK tb pt e W S Tb Pb H A' B' EA' EB'). apply pr_ltrans.
Qed.
Theorem execT_transpose_involutive_matrix_l tb pt (e : xop) :
  wfo e = true -> sym_square e = true -> table_okb tb e = true -> ptable_okb pt e = true ->
  transposeT_okb tb pt e = true -> transposeT_okb tb pt (x_transpose e) = true ->
  forall A B C, matT tb pt e = Some A -> matT tb pt (x_transpose e) = Some B ->
    matT tb pt (x_transpose (x_transpose e)) = Some C -> C = A.
Proof.
  intros W S Tb Pb H HT A B C EA EB EC. rewrite matT_matK in EA, EB, EC. dob EA A' EA'. dob EB B' EB'. dob EC C' EC'.
  injection EA as <-. injection EC as <-. apply pr_inj_eq.
  pose proof (transpose_wf_l K e W S) as WT. pose proof (sym_square_transpose e S) as ST.
  pose proof (table_okb_transpose tb e Tb (transposeT_weaken tb pt e H)) as TbT.
  pose proof (ptable_okb_transpose tb pt e Pb H) as PbT.
  rewrite (execT_transpose_matrixK tb pt (x_transpose e) WT ST TbT PbT HT B' C' EB' EC').
  rewrite (execT_transpose_matrixK tb pt e W S Tb Pb H A' B' EA' EB').
  destruct (matK_shape (leafsemT tb pt) e A' (lsT_out_struct_ok tb pt e W Tb Pb) EA') as [LA RA].
  replace (out_size (x_transpose e)) with (List.length A').
  - apply ltrans_involutive. exact RA.
  - rewrite LA. unfold out_size, in_size, x_transpose. now rewrite (swapped_out K e (transpose_structs_l K e W S)).
Qed.
(* the observation tuples of the C03 harness (Model/Adjoint.v observeT): structures swapped, matrix transposed *)
Theorem execT_transpose_observe_l tb pt (e : xop) :
  wfo e = true -> sym_square e = true -> table_okb tb e = true -> ptable_okb pt e = true ->
  transposeT_okb tb pt e = true ->
  forall s si so A s' si' so' B,
    observeT tb pt e = OOk s si so (Some A) -> observeT tb pt (x_transpose e) = OOk s' si' so' (Some B) ->
    si' = so /\ so' = si /\ B = ltrans zero_pair (out_size e) A.
Proof.
  intros W S Tb Pb H s si so A s' si' so' B O1 O2. unfold observeT in O1, O2.
  injection O1 as _ <- <- EA. injection O2 as _ <- <- EB.
  pose proof (transpose_structs_l K e W S) as HS. unfold x_transpose.
  rewrite (swapped_in K e HS), (swapped_out K e HS). repeat split.
  exact (execT_transpose_matrix_l tb pt e W S Tb Pb H A B EA EB).
Qed.
