(* C16 - model of the pointing / acquisition code (definitions only).
   furax/projections.py (get_rotation_matrix, the einsum, create_projection_operator),
   furax/instruments/sat.py (create_acquisition, AFTER fixes/C16-acquisition-tod-structure.diff),
   and the operators they compose: IndexOperator.mv, RavelOperator.mv, QURotationOperator.mv,
   QURotationTransposeOperator.mv, HWPOperator.mv, LinearPolarizerOperator.mv, the transpose of the
   index operator (scatter-add), the multiplicity diagonal created by TransposeIndexRule.

   Everything is over an arbitrary carrier K with ring operations (theorems add a ring_theory).
   Arrays are flat row-major lists; a time-ordered leaf of shape (ndet[, ndir], nsamp) has
   rows * nsamp elements, element j belonging to sample t = j mod nsamp (the broadcasting of the
   (nsamp,) angle array against the last axis).
   The pixel table `pix` (flat, one pixel number per element of a time-ordered leaf) is a PARAMETER:
   it is what vec2dir + jax_healpy.ang2pix + pixel2index return (not modelled - C16 is partial). *)
From Coq Require Import List Bool Arith ZArith NArith QArith Qcanon String Lia.
From Furax Require Import Base.Pytree Model.Op Model.Algebra Model.Exec.
Import ListNotations.
Set Implicit Arguments.
Local Close Scope Q_scope.
Local Close Scope Qc_scope.
Local Open Scope nat_scope.

Definition tab {A} (n : nat) (f : nat -> A) : list A := map f (seq 0 n).

(* ------------------------------------------------------------------------------------------ *)
(* 3x3 matrices (rows), the Z-Y-Z reference of the Euler matrix *)
Section Mat3.
  Variable K : Type.
  Variables (k0 k1 : K) (kadd kmul ksub : K -> K -> K) (kopp : K -> K).
  Local Notation "a + b" := (kadd a b).
  Local Notation "a * b" := (kmul a b).
  Local Notation "- a" := (kopp a).

  Definition m3 := list (list K).
  Definition ent (M : m3) (i j : nat) : K := nth j (nth i M []) k0.
  Definition mmul (A B : m3) : m3 :=
    tab 3 (fun i => tab 3 (fun j => ent A i 0 * ent B 0 j + ent A i 1 * ent B 1 j + ent A i 2 * ent B 2 j)).
  Definition mT (A : m3) : m3 := tab 3 (fun i => tab 3 (fun j => ent A j i)).
  Definition I3 : m3 := [[k1; k0; k0]; [k0; k1; k0]; [k0; k0; k1]].
  Definition vent (v : list K) (i : nat) : K := nth i v k0.
  Definition mvec (A : m3) (v : list K) : list K :=
    tab 3 (fun i => ent A i 0 * vent v 0 + ent A i 1 * vent v 1 + ent A i 2 * vent v 2).
  Definition vdot (u v : list K) : K := vent u 0 * vent v 0 + vent u 1 * vent v 1 + vent u 2 * vent v 2.
  (* elementary rotations about z and y by an angle given through its (sin, cos) *)
  Definition Rz (s c : K) : m3 := [[c; - s; k0]; [s; c; k0]; [k0; k0; k1]].
  Definition Ry (s c : K) : m3 := [[c; k0; s]; [k0; k1; k0]; [- s; k0; c]].
  Definition ZYZ (s_phi c_phi s_theta c_theta s_pa c_pa : K) : m3 :=
    mmul (Rz s_phi c_phi) (mmul (Ry s_theta c_theta) (Rz s_pa c_pa)).
End Mat3.

(* ------------------------------------------------------------------------------------------ *)
Inductive skind := SI | SQU | SIQU | SIQUV.
Definition ncomp (k : skind) : nat := match k with SI => 1 | SQU => 2 | SIQU => 3 | SIQUV => 4 end.

Section Acq.
  Variable K : Type.
  Variables (k0 k1 : K) (kadd kmul ksub : K -> K -> K) (kopp : K -> K).
  Variable half : K.                         (* the literal 0.5 of LinearPolarizerOperator.mv *)
  Local Notation "a + b" := (kadd a b).
  Local Notation "a * b" := (kmul a b).
  Local Notation "a - b" := (ksub a b).
  Local Notation "- a" := (kopp a).

  (* the four StokesPyTree classes; leaves are flat arrays *)
  Inductive sv :=
  | VI (i : list K) | VQU (q u : list K) | VIQU (i q u : list K) | VIQUV (i q u v : list K).
  Definition kind_of (x : sv) : skind :=
    match x with VI _ => SI | VQU _ _ => SQU | VIQU _ _ _ => SIQU | VIQUV _ _ _ _ => SIQUV end.
  Definition comps (x : sv) : list (list K) :=
    match x with
    | VI i => [i] | VQU q u => [q; u] | VIQU i q u => [i; q; u] | VIQUV i q u v => [i; q; u; v]
    end.
  (* jax.tree.map over the leaves *)
  Definition smap (f : list K -> list K) (x : sv) : sv :=
    match x with
    | VI i => VI (f i) | VQU q u => VQU (f q) (f u) | VIQU i q u => VIQU (f i) (f q) (f u)
    | VIQUV i q u v => VIQUV (f i) (f q) (f u) (f v)
    end.
  Definition wf (n : nat) (x : sv) : Prop := Forall (fun l => List.length l = n) (comps x).

  Definition at_ (x : list K) (j : nat) : K := nth j x k0.
  (* components as functions of the position; a component the kind does not have reads 0 *)
  Definition cI (x : sv) (j : nat) : K :=
    match x with VI i | VIQU i _ _ | VIQUV i _ _ _ => at_ i j | VQU _ _ => k0 end.
  Definition cQ (x : sv) (j : nat) : K :=
    match x with VQU q _ | VIQU _ q _ | VIQUV _ q _ _ => at_ q j | VI _ => k0 end.
  Definition cU (x : sv) (j : nat) : K :=
    match x with VQU _ u | VIQU _ _ u | VIQUV _ _ u _ => at_ u j | VI _ => k0 end.
  Definition cV (x : sv) (j : nat) : K :=
    match x with VIQUV _ _ _ v => at_ v j | _ => k0 end.

  (* ---- RavelOperator.mv: reshape keeps the row-major flat data ---- *)
  Definition ravel_op (x : sv) : sv := smap (fun l => l) x.
  Definition ravel_T (x : sv) : sv := smap (fun l => l) x.

  (* ---- IndexOperator.mv: leaf[indices] on the flattened map ---- *)
  Definition gather (pix : list nat) (x : list K) : list K := map (fun p => at_ x p) pix.
  Definition index_op (pix : list nat) (x : sv) : sv := smap (gather pix) x.
  (* its transpose (what jax.linear_transpose of a gather is): scatter-add into n zeros *)
  Definition ksum (l : list K) : K := fold_right kadd k0 l.
  Definition scatter (n : nat) (pix : list nat) (y : list K) : list K :=
    tab n (fun p => ksum (map (fun qv => if Nat.eqb (fst qv) p then snd qv else k0) (combine pix y))).
  Definition index_T (n : nat) (pix : list nat) (y : sv) : sv := smap (scatter n pix) y.

  (* ---- QURotationOperator.mv / QURotationTransposeOperator.mv ----
     c2, s2: cos(2 angles), sin(2 angles), one per sample, broadcast against the last axis *)
  Definition bc (nsamp : nat) (a : list K) (j : nat) : K := at_ a (j mod nsamp).
  Section Rot.
    Variable nsamp : nat.
    Variables c2 s2 : list K.
    Definition rot_q (q u : list K) : list K :=
      tab (List.length q) (fun j => at_ q j * bc nsamp c2 j - at_ u j * bc nsamp s2 j).
    Definition rot_u (q u : list K) : list K :=
      tab (List.length q) (fun j => at_ q j * bc nsamp s2 j + at_ u j * bc nsamp c2 j).
    Definition qurot (x : sv) : sv :=
      match x with
      | VI i => VI i
      | VQU q u => VQU (rot_q q u) (rot_u q u)
      | VIQU i q u => VIQU i (rot_q q u) (rot_u q u)
      | VIQUV i q u v => VIQUV i (rot_q q u) (rot_u q u) v
      end.
    Definition rotT_q (q u : list K) : list K :=
      tab (List.length q) (fun j => at_ q j * bc nsamp c2 j + at_ u j * bc nsamp s2 j).
    Definition rotT_u (q u : list K) : list K :=
      tab (List.length q) (fun j => (- at_ q j) * bc nsamp s2 j + at_ u j * bc nsamp c2 j).
    Definition qurot_T (x : sv) : sv :=
      match x with
      | VI i => VI i
      | VQU q u => VQU (rotT_q q u) (rotT_u q u)
      | VIQU i q u => VIQU i (rotT_q q u) (rotT_u q u)
      | VIQUV i q u v => VIQUV i (rotT_q q u) (rotT_u q u) v
      end.
  End Rot.

  (* ---- HWPOperator.mv ---- *)
  Definition negl (l : list K) : list K := map kopp l.
  Definition hwp (x : sv) : sv :=
    match x with
    | VI i => VI i
    | VQU q u => VQU q (negl u)
    | VIQU i q u => VIQU i q (negl u)
    | VIQUV i q u v => VIQUV i q (negl u) (negl v)
    end.

  (* ---- LinearPolarizerOperator.mv: a bare array ---- *)
  Definition scale (k : K) (l : list K) : list K := map (kmul k) l.
  Definition addl (a b : list K) : list K := tab (List.length a) (fun j => at_ a j + at_ b j).
  Definition pol (x : sv) : list K :=
    match x with
    | VI i => scale half i
    | VQU q _ => scale half q
    | VIQU i q _ | VIQUV i q _ _ => scale half (addl i q)
    end.

  (* ---- create_projection_operator: rotation @ sampling @ reshape ---- *)
  Definition projection (nsamp : nat) (c2 s2 : list K) (pix : list nat) (sky : sv) : sv :=
    qurot nsamp c2 s2 (index_op pix (ravel_op sky)).
  (* ---- create_acquisition: polarizer @ hwp @ proj, as built ... ---- *)
  Definition acquisition_built (nsamp : nat) (c2 s2 : list K) (pix : list nat) (sky : sv) : list K :=
    pol (hwp (projection nsamp c2 s2 pix sky)).
  (* ... and as reduced: [LinearPolarizer, QURotation, Index(, Ravel)]: the HWP is absorbed by
     LinearPolarizerHWPRule, the Ravel of a 1-d map is an identity and disappears *)
  Definition acquisition_reduced (keep_ravel : bool) (nsamp : nat) (c2 s2 : list K) (pix : list nat)
             (sky : sv) : list K :=
    pol (qurot nsamp c2 s2 (index_op pix (if keep_ravel then ravel_op sky else sky))).

  (* ---- P.T @ P as built: Ravel.T @ Index.T @ R.T @ R @ Index @ Ravel ---- *)
  Definition ptp_built (npix nsamp : nat) (c2 s2 : list K) (pix : list nat) (sky : sv) : sv :=
    ravel_T (index_T npix pix (qurot_T nsamp c2 s2 (projection nsamp c2 s2 pix sky))).
  (* ... and as reduced: [ReshapeTranspose(Ravel), Diagonal(multiplicity)] (Ravel itself reduced to an
     identity for a 1-d map; kept otherwise): R.T @ R removed by the inverse rule, Index.T @ Index
     replaced by TransposeIndexRule with the diagonal of `coverage_of` (Model/Algebra.v) *)
  Definition kofN (n : nat) : K := Nat.iter n (kadd k1) k0.
  Definition kofZ (z : Z) : K :=
    match z with Z0 => k0 | Zpos p => kofN (Pos.to_nat p) | Zneg p => - kofN (Pos.to_nat p) end.
  Definition diag_op (d : list Z) (x : sv) : sv :=
    smap (fun l => tab (List.length l) (fun p => kofZ (nth p d 0%Z) * at_ l p)) x.
  Definition multiplicity (npix : nat) (pix : list nat) : list Z := coverage_of npix (map Z.of_nat pix).
  Definition ptp_reduced (npix : nat) (pix : list nat) (sky : sv) : sv :=
    ravel_T (diag_op (multiplicity npix pix) (ravel_op sky)).
  (* number of (detector, direction, sample) triples that hit pixel p *)
  Definition hits (pix : list nat) (p : nat) : nat := count_occ Nat.eq_dec pix p.
End Acq.

(* shape of a time-ordered leaf: the direction axis is removed when there is one direction *)
Definition tod_shape (ndet ndir nsamp : nat) : list nat :=
  if Nat.eqb ndir 1 then [ndet; nsamp] else [ndet; ndir; nsamp].

(* ------------------------------------------------------------------------------------------ *)
(* The same chains as terms of the operator algebra (Model/Op.v), to run the model of reduce()
   (Model/Algebra.v) on them: the skeleton of the reduced acquisition and of reduce(P.T @ P). *)
Definition stokes_struct (k : skind) (shape : list nat) : struct :=
  Node (KStokes (ncomp k)) (repeat (Leaf (mkSds shape 0)) (ncomp k)).
Section Chain.
  Variables (k : skind) (map_shape tod : list nat) (pix : list nat).
  Definition npix_of : nat := fold_right Nat.mul 1 map_shape.
  Definition sky_s := stokes_struct k map_shape.
  Definition flat_s := stokes_struct k [npix_of].
  Definition tod_s := stokes_struct k tod.
  Definition o_ravel : xop := Prim 1 CRavel sky_s flat_s PNone.
  Definition o_index : xop := Prim 2 CIndex flat_s tod_s (PIndex false [IArr (map Z.of_nat pix)]).
  (* the angles do not matter for the skeleton *)
  Definition o_rot : xop := Prim 3 CQURotation tod_s tod_s (PAngles []).
  Definition o_hwp : xop := Prim 4 CHWP tod_s tod_s PNone.
  Definition o_pol : xop := Prim 5 CLinearPolarizer tod_s (Leaf (mkSds tod 0)) PNone.
  Definition proj_op : result xop :=
    a <- x_matmul o_rot o_index ;; x_matmul a o_ravel.
  Definition acq_op : result xop :=
    p <- proj_op ;; a <- x_matmul o_pol o_hwp ;; x_matmul a p.
  Definition ptp_op : result xop :=
    p <- proj_op ;; x_matmul (x_transpose p) p.
  Fixpoint names (s : sk) : list string :=
    match s with
    | SK tag _ _ kids =>
        if String.eqb tag "CompositionOperator" then flat_map names kids
        else match kids with [] => [tag] | _ => [(tag ++ "(" ++ String.concat "," (flat_map names kids) ++ ")")%string] end
    end.
  Definition reduced_names (r : result xop) : result (list string) :=
    e <- r ;; e' <- x_reduce default_order e ;; Ok (names (skel e')).
  (* the diagonal created by TransposeIndexRule inside reduce(P.T @ P) *)
  Fixpoint diag_of (l : list xop) : option (list Q) :=
    match l with
    | [] => None
    | Prim _ CDiagonal _ _ (PDiag _ v) :: _ => Some v
    | _ :: r => diag_of r
    end.
  Definition reduced_diag (r : result xop) : result (option (list (Z * Z))) :=
    e <- r ;; e' <- x_reduce default_order e ;;
    Ok (option_map (map qpair) (diag_of (operands e'))).
End Chain.

(* ------------------------------------------------------------------------------------------ *)
(* Executable instance over canonical rationals, evaluated by the correspondence harness. *)
Definition qc (q : Q) : Qc := Q2Qc q.
Definition qsv (k : skind) (l : list (list Z)) : option (sv Qc) :=
  let f := map (fun z => qc (inject_Z z)) in
  match k, l with
  | SI, [i] => Some (VI (f i))
  | SQU, [q; u] => Some (VQU (f q) (f u))
  | SIQU, [i; q; u] => Some (VIQU (f i) (f q) (f u))
  | SIQUV, [i; q; u; v] => Some (VIQUV (f i) (f q) (f u) (f v))
  | _, _ => None
  end.
Definition show_l (l : list Qc) : list (Z * Z) := map (fun x => qpair (this x)) l.
Definition show_sv (x : sv Qc) : list (list (Z * Z)) := map show_l (comps x).
Definition qhalf : Qc := qc (1 # 2).
Record acq_obs := mkObs {
  o_proj : list (list (Z * Z));
  o_acq_built : list (Z * Z);
  o_acq_reduced : list (Z * Z);
  o_ptp_built : list (list (Z * Z));
  o_ptp_reduced : list (list (Z * Z));
  o_hits : list nat
}.
Definition run_acq (k : skind) (keep_ravel : bool) (npix nsamp : nat) (c2 s2 : list Q) (pix : list nat)
           (sky : list (list Z)) : option acq_obs :=
  match qsv k sky with
  | None => None
  | Some x =>
      let c := map qc c2 in
      let s := map qc s2 in
      Some (mkObs
        (show_sv (projection (Q2Qc 0) Qcplus Qcmult Qcminus nsamp c s pix x))
        (show_l (acquisition_built (Q2Qc 0) Qcplus Qcmult Qcminus Qcopp qhalf nsamp c s pix x))
        (show_l (acquisition_reduced (Q2Qc 0) Qcplus Qcmult Qcminus qhalf keep_ravel nsamp c s pix x))
        (show_sv (ptp_built (Q2Qc 0) Qcplus Qcmult Qcminus Qcopp npix nsamp c s pix x))
        (show_sv (ptp_reduced (Q2Qc 0) (Q2Qc 1) Qcplus Qcmult Qcopp npix pix x))
        (tab npix (hits pix)))
  end.
