(* C03 - definitions: the inner product on values (sum over leaves and elements), the adjoint
   relation between two partial maps, the guard excluding transposes of the iterative-solver
   inverse, the facts about LEAF operators the adjointness theorem rests on, and the executable
   observation of `e.T` used by the correspondence harness.  Definitions only (proofs:
   Lemmas/TransposeL.v, Lemmas/TransposeExecL.v).  The model of transpose() itself is
   Model/Algebra.v `transpose`. *)
From Coq Require Import List Bool Arith ZArith NArith QArith Qcanon String Lia.
From Furax Require Import Base.Pytree Model.Op Model.Algebra Model.Denote Model.Wf Model.Exec.
Import ListNotations.
Set Implicit Arguments.
Local Close Scope Q_scope.
Local Close Scope Qc_scope.
Local Open Scope nat_scope.

Section Adj.
  Variable K : Type.
  Variables (k0 : K) (kadd kmul : K -> K -> K).
  Notation op := (op K).
  Notation value := (value K).

  (* <u, v> on flat leaves, <x, y> on pytrees: the sum over leaves and elements.  Total functions:
     on operands of different shapes the common prefix is used (the theorems only use them where
     both sides are defined, i.e. on values of the operators' structures). *)
  Definition dotl (u v : list K) : K :=
    fold_right (fun p acc => kadd (kmul (fst p) (snd p)) acc) k0 (combine u v).
  Fixpoint inner (x y : value) : K :=
    match x, y with
    | Leaf u, Leaf v => dotl u v
    | Node _ cs, Node _ cs' =>
        (fix go (l l' : list value) : K :=
           match l, l' with
           | a :: r, b :: r' => kadd (inner a b) (go r r')
           | _, _ => k0
           end) cs cs'
    | _, _ => k0
    end.
  Definition inners (xs ys : list value) : K :=
    fold_right (fun p acc => kadd (inner (fst p) (snd p)) acc) k0 (combine xs ys).
  Definition sumk (l : list K) : K := fold_right kadd k0 l.

  (* g is adjoint to f wherever both are defined: <f x, y> = <x, g y> *)
  Definition adjoint (f g : value -> option value) : Prop :=
    forall x y fx gy, f x = Some fx -> g y = Some gy -> inner fx y = inner x gy.
  (* the same partial map *)
  Definition agree (f g : value -> option value) : Prop := forall x, f x = g x.

  (* lazy wrappers whose transpose() returns the wrapped operand (TransposeOperator.transpose,
     inherited by ReshapeTranspose, ToastObservationMatrixTranspose, QURotationTranspose) *)
  Definition lazyT (w : wkind) : bool :=
    match w with WTranspose | WReshapeT | WObsT | WQURotT => true | WInverse | WDiagInv => false end.

  (* The library does not support the transpose of the iterative-solver inverse (InverseOperator.T
     is a TransposeOperator whose mv would have to transpose lx.linear_solve): expressions
     containing an InverseOperator are outside C03.  DiagonalInverseOperator and
     QURotationTransposeOperator (closed-form inverses) are inside. *)
  Fixpoint no_inverse (e : op) : bool :=
    let all := fix all (l : list op) : bool :=
      match l with [] => true | x :: xs => no_inverse x && all xs end in
    match e with
    | Prim _ _ _ _ _ | Ident _ _ | Homoth _ _ _ => true
    | Wrap _ WInverse _ => false
    | Wrap _ _ x => no_inverse x
    | Comp _ l | AddOp _ l | Block _ _ _ l => all l
    end.

  (* @symmetric implies @square (core.py: symmetric() calls square()): a class whose transpose()
     returns self declares out_structure = in_structure *)
  Fixpoint sym_square (e : op) : bool :=
    let all := fix all (l : list op) : bool :=
      match l with [] => true | x :: xs => sym_square x && all xs end in
    match e with
    | Prim _ c si so _ => if returns_self_on_transpose c then square_cls c || struct_eqb si so else true
    | Wrap _ _ x => sym_square x
    | Ident _ _ | Homoth _ _ _ => true
    | Comp _ l | AddOp _ l | Block _ _ _ l => all l
    end.

  (* wrappers as transpose() creates them: a lazy transpose wraps a primitive whose own transpose()
     is that wrapper class (X = x0.T, so that X.T is x0 and X.T.T is a wrapper equal to X) *)
  Definition twrap (e : op) : option wkind :=
    match transpose e with Wrap _ w _ => Some w | _ => None end.
  Fixpoint canonical (e : op) : bool :=
    let all := fix all (l : list op) : bool :=
      match l with [] => true | x :: xs => canonical x && all xs end in
    match e with
    | Prim _ _ _ _ _ | Ident _ _ | Homoth _ _ _ => true
    | Wrap _ w x =>
        if lazyT w then
          match x with
          | Prim _ _ _ _ _ => match twrap x with Some w' => wkind_eqb w w' | None => false end
          | _ => false
          end
        else true
    | Comp _ l | AddOp _ l | Block _ _ _ l => all l
    end.

  Definition swap (p : struct * struct) : struct * struct := (snd p, fst p).

  Variable leafsem : op -> value -> option value.
  Notation denote := (denote kadd kmul leafsem).

  (* What C03 needs to know about the LEAF operators: the leaf semantics of the operator that
     transpose() returns for a leaf is adjoint to the leaf's own.
     af_linear_transpose is what jax.linear_transpose provides (TRUSTED for opaque operators);
     af_rotT / af_reshapeT / af_obsT are the hand-written mv of the three transpose classes
     (C15 rotT_mueller, C13 reshape round trip; discharged for the executable semantics in
     Lemmas/TransposeExecL.v as far as the classes are table-free); af_self: the classes declared
     @symmetric/@diagonal really are (C08, C09 T_symmetric, C11); af_dense: the rewritten einsum
     subscripts (C14 transposed_is_adjoint); af_move: MoveAxis(dst, src) (C13). *)
  Record adj_facts : Prop := {
    af_linear_transpose : forall i x0, no_inverse x0 = true ->
      adjoint (denote x0) (leafsem (Wrap i WTranspose x0));
    af_rotT : forall i x0, no_inverse x0 = true -> adjoint (denote x0) (leafsem (Wrap i WQURotT x0));
    af_reshapeT : forall i x0, no_inverse x0 = true -> adjoint (denote x0) (leafsem (Wrap i WReshapeT x0));
    af_obsT : forall i x0, no_inverse x0 = true -> adjoint (denote x0) (leafsem (Wrap i WObsT x0));
    af_self : forall i c si so p, returns_self_on_transpose c = true ->
      adjoint (leafsem (Prim i c si so p)) (leafsem (Prim i c si so p));
    af_dinv : forall i x0, adjoint (leafsem (Wrap i WDiagInv x0)) (leafsem (Wrap i WDiagInv x0));
    af_dense : forall i si so k,
      adjoint (leafsem (Prim i CDense si so (PKey k))) (leafsem (Prim fresh CDense so si (PKey (tkey k))));
    af_move : forall i si so s d,
      adjoint (leafsem (Prim i CMoveAxis si so (PAxes s d))) (leafsem (Prim fresh CMoveAxis so si (PAxes d s)))
  }.

  (* For A.T.T: an operator acts through its data, not through its identity (`mv` never looks at
     id(self)): the objects that transpose() re-creates act like the originals. *)
  Record oid_facts : Prop := {
    of_dense : forall i si so k, agree (leafsem (Prim fresh CDense si so (PKey k))) (leafsem (Prim i CDense si so (PKey k)));
    of_move : forall i si so s d,
      agree (leafsem (Prim fresh CMoveAxis si so (PAxes s d))) (leafsem (Prim i CMoveAxis si so (PAxes s d)));
    of_wrap : forall i w x0, lazyT w = true -> agree (leafsem (Wrap fresh w x0)) (leafsem (Wrap i w x0))
  }.
End Adj.

(* ---------- executable observation of e.T (correspondence harness) ---------- *)
(* MoveAxisOperator.transpose() creates a NEW MoveAxisOperator (object id 0 in the model), which the
   table of Model/Exec.v - keyed by object ids - cannot describe: its measured matrix is looked up
   by its parameters (source, destination) and input structure instead. *)
Definition ptable := list (par * struct * matrix).
Fixpoint plookup (pt : ptable) (p : par) (s : struct) : option matrix :=
  match pt with
  | [] => None
  | (p', s', m) :: r => if par_eqb p p' && struct_eqb s s' then Some m else plookup r p s
  end.
Definition leafsemT (tb : table) (pt : ptable) (e : xop) (x : xvalue) : option xvalue :=
  match e with
  | Prim i CMoveAxis si so (PAxes s d) =>
      if (i =? 0)%N then
        match plookup pt (PAxes s d) si with
        | Some m => apply_matrix m si so x
        | None => None
        end
      else leafsem tb e x
  | _ => leafsem tb e x
  end.
Definition denT (tb : table) (pt : ptable) (e : xop) (x : xvalue) : option xvalue :=
  denote Qcplus Qcmult (leafsemT tb pt) e x.
Definition matT (tb : table) (pt : ptable) (e : xop) : option (list (list (Z * Z))) :=
  let si := in_struct e in
  let n := struct_size si in
  option_map (fun cols => map (map (fun k => qpair (this k))) cols)
    (omapl (fun j => option_map vflatten (denT tb pt e (fst (unflatten si (basis n j))))) (seq 0 n)).
Definition observeT (tb : table) (pt : ptable) (e : xop) : observation :=
  OOk (skel e) (show_struct (in_struct e)) (show_struct (out_struct e)) (matT tb pt e).

(* exact rational inner product of the executable model *)
Definition xinner : xvalue -> xvalue -> K := inner k0 Qcplus Qcmult.

(* what the harness asks the model about one expression e: is it in the domain of C03, e.T, e.T.T
   (matrix only), and <e x, y> = <x, e.T y> on the probe (x, y) *)
Definition observe_transpose (tb : table) (pt : ptable) (e : xop) (x y : xvalue) :=
  let eT := x_transpose e in
  let eTT := x_transpose eT in
  (wfo e, no_inverse e, sym_square e && canonical e,
   observeT tb pt eT, observeT tb pt eTT,
   match denT tb pt e x, denT tb pt eT y with
   | Some ex, Some ety => (Some (qpair (this (xinner ex y))), Some (qpair (this (xinner x ety))))
   | _, _ => (None, None)
   end).
