(* Model of the symbolic layer of furax/_base/core.py, rules.py, blocks.py and of the rules in
   indices.py, linear.py, axes.py, operators/{qu_rotations,hwp,polarizers}.py:
   declared structures, the arithmetic dunders, transpose(), inverse(), reduce() with the
   registry of binary rules and the scan driver.  Definitions only (no proofs).
   The model follows the code after the `fix:` commits recorded in /verif/KNOWN_FINDINGS.txt. *)
From Coq Require Import List Bool Arith ZArith NArith QArith String Lia.
From Furax Require Import Base.Pytree Model.Op.
Import ListNotations.
Set Implicit Arguments.
Local Close Scope Q_scope.
Local Open Scope nat_scope.

Inductive err := ValueError | TypeError | AttributeError | AssertionError | IndexError | OutOfFuel.
Inductive result (A : Type) := Ok (a : A) | Err (e : err).
Arguments Ok {A}. Arguments Err {A}.
Definition bind {A B} (r : result A) (f : A -> result B) : result B :=
  match r with Ok a => f a | Err e => Err e end.
Notation "x <- r ;; k" := (bind r (fun x => k)) (at level 61, r at next level, right associativity).
Fixpoint mapM {A B} (f : A -> result B) (l : list A) : result (list B) :=
  match l with
  | [] => Ok []
  | x :: xs => y <- f x ;; ys <- mapM f xs ;; Ok (y :: ys)
  end.
Fixpoint mapM2 {A B C} (f : A -> B -> result C) (l : list A) (l' : list B) : result (list C) :=
  match l, l' with
  | [], [] => Ok []
  | x :: xs, y :: ys => z <- f x y ;; zs <- mapM2 f xs ys ;; Ok (z :: zs)
  | _, _ => Err ValueError
  end.

(* the registered binary rules *)
Inductive rule_id :=
| RInverse | RMoveAxis | RReshape | RPackUnpack | RQURot | RQURotHWP | RPolHWP
| RRowDiag | RDiagCol | RDiagDiag | RRowCol | RIndexT | RTIndex.
Record guard := mkGuard { g_any : option (list cls); g_left : option (list cls); g_right : option (list cls) }.
(* operator_class / left_operator_class / right_operator_class of each rule, as in the source
   (compared with the imported registry by Gen/RuleTable.v on every run) *)
Definition guard_of (r : rule_id) : guard :=
  match r with
  | RInverse => mkGuard (Some [CAbstractLazyInverse]) None None
  | RMoveAxis => mkGuard None (Some [CMoveAxis]) (Some [CMoveAxis])
  | RReshape => mkGuard None (Some [CAbstractRavelOrReshape; CReshapeTranspose])
                             (Some [CAbstractRavelOrReshape; CReshapeTranspose])
  | RPackUnpack => mkGuard None (Some [CPack]) (Some [CTranspose])
  | RQURot => mkGuard None (Some [CQURotation; CQURotationTranspose]) (Some [CQURotation; CQURotationTranspose])
  | RQURotHWP => mkGuard None (Some [CQURotation; CQURotationTranspose]) (Some [CHWP])
  | RPolHWP => mkGuard None (Some [CLinearPolarizer]) (Some [CHWP])
  | RRowDiag => mkGuard None (Some [CBlockRow]) (Some [CBlockDiagonal])
  | RDiagCol => mkGuard None (Some [CBlockDiagonal]) (Some [CBlockColumn])
  | RDiagDiag => mkGuard None (Some [CBlockDiagonal]) (Some [CBlockDiagonal])
  | RRowCol => mkGuard None (Some [CBlockRow]) (Some [CBlockColumn])
  | RIndexT => mkGuard None (Some [CIndex]) (Some [CTranspose])
  | RTIndex => mkGuard None (Some [CTranspose]) (Some [CIndex])
  end.
(* registration order on the pinned tree (import order); theorems hold for any order *)
Definition default_order : list rule_id :=
  [RInverse; RMoveAxis; RReshape; RPackUnpack; RQURot; RQURotHWP; RPolHWP;
   RRowDiag; RDiagCol; RDiagDiag; RRowCol; RIndexT; RTIndex].

(* ---------- IndexOperator.indexed_axes ---------- *)
Fixpoint find_ell (ix : list ientry) : nat :=
  match ix with
  | [] => 0
  | IEll :: _ => 0
  | _ :: r => S (find_ell r)
  end.
Definition is_slice_all (e : ientry) : bool := match e with ISliceAll => true | _ => false end.
Fixpoint axes_before (ix : list ientry) (axis : nat) (stop : nat) : list Z :=
  match stop, ix with
  | S stop', e :: r =>
      if is_slice_all e then axes_before r (S axis) stop' else Z.of_nat axis :: axes_before r (S axis) stop'
  | _, _ => []
  end.
Fixpoint axes_after (ix : list ientry) (axis : nat) (n : nat) : list Z :=
  match ix with
  | [] => []
  | e :: r =>
      if is_slice_all e then axes_after r (S axis) n
      else (Z.of_nat axis - Z.of_nat n)%Z :: axes_after r (S axis) n
  end.
Definition indexed_axes (ix : list ientry) : list Z :=
  let n := List.length ix in
  let e := find_ell ix in
  axes_before ix 0 e ++ axes_after (skipn (S e) ix) (S e) n.

(* Python list indexing l[z] with negative z counting from the end *)
Definition py_nth {A} (l : list A) (z : Z) : option A :=
  let n := Z.of_nat (List.length l) in
  if (0 <=? z)%Z then nth_error l (Z.to_nat z)
  else if (0 <=? n + z)%Z then nth_error l (Z.to_nat (n + z)) else None.

(* jnp.unique(index, return_counts=True, size=n, fill_value=-1) followed by
   zeros(n).at[unique].add(counts): sorted distinct RAW values, truncated to n entries, each
   count added at the (wrapped) position *)
Fixpoint insert_sorted (z : Z) (l : list (Z * Z)) : list (Z * Z) :=
  match l with
  | [] => [(z, 1%Z)]
  | (y, c) :: r =>
      if (z =? y)%Z then (y, (c + 1)%Z) :: r
      else if (z <? y)%Z then (z, 1%Z) :: l
      else (y, c) :: insert_sorted z r
  end.
Definition unique_counts (d : list Z) : list (Z * Z) := fold_left (fun acc z => insert_sorted z acc) d [].
Definition coverage_of (n : nat) (d : list Z) : list Z :=
  let uc := firstn n (unique_counts d) in
  map (fun j => fold_right (fun p acc =>
         let '(v, c) := p in
         if ((v =? Z.of_nat j) || (v + Z.of_nat n =? Z.of_nat j))%Z then (c + acc)%Z else acc) 0%Z uc)
      (seq 0 n).

(* fix 0c57282: negative entries are normalised before counting, so that aliases are counted together *)
Definition norm_index (n : nat) (d : list Z) : list Z :=
  map (fun z => if (z <? 0)%Z then (z + Z.of_nat n)%Z else z) d.

Section Alg.
  Variable K : Type.
  Variable keqb : K -> K -> bool.
  Variables (k1 : K) (kmul : K -> K -> K) (kopp : K -> K) (kinv : K -> K).
  Notation op := (op K).
  Notation same := (same keqb).

  Definition fresh : N := 0%N.
  Definition dummy_struct : struct := Node KTuple [].

  (* ---------- declared structures (in_structure(), out_structure()) ---------- *)
  (* classes decorated @square (directly or through @symmetric/@diagonal/@orthogonal):
     out_structure IS in_structure, whatever mv returns (checked against the package by the
     regenerated tag table of C08) *)
  Definition square_cls (c : cls) : bool :=
    match c with CQURotation | CHWP | CDiagonal | CToeplitz => true | _ => false end.
  Fixpoint structs (e : op) : struct * struct :=
    match e with
    | Prim _ c si so _ => if square_cls c then (si, si) else (si, so)
    | Wrap _ _ x => let '(i, o) := structs x in (o, i)
    | Ident _ s => (s, s)
    | Homoth _ _ s => (s, s)
    | Comp _ l => (last (map (fun x => fst (structs x)) l) dummy_struct,
                   hd dummy_struct (map (fun x => snd (structs x)) l))
    | AddOp _ l => (hd dummy_struct (map (fun x => fst (structs x)) l),
                    hd dummy_struct (map (fun x => snd (structs x)) l))
    | Block _ b td l =>
        let ins := map (fun x => fst (structs x)) l in
        let outs := map (fun x => snd (structs x)) l in
        match b with
        | BRow => (build dummy_struct td ins, hd dummy_struct outs)
        | BDiag => (build dummy_struct td ins, build dummy_struct td outs)
        | BCol => (hd dummy_struct ins, build dummy_struct td outs)
        end
    end.
  Definition in_struct (e : op) : struct := fst (structs e).
  Definition out_struct (e : op) : struct := snd (structs e).
  Definition in_size (e : op) : nat := struct_size (in_struct e).
  Definition out_size (e : op) : nat := struct_size (out_struct e).
  Definition is_square (e : op) : bool := struct_eqb (in_struct e) (out_struct e).

  (* ---------- constructors with validation ---------- *)
  Definition all_eqb (ss : list struct) : bool :=
    match ss with [] => true | s :: r => forallb (struct_eqb s) r end.
  Definition mk_block (b : bkind) (td : treedef) (l : list op) : result op :=
    if negb (Nat.eqb (List.length l) (nleaves td)) then Err ValueError else
    match l with
    | [] => Err IndexError           (* operators[0] on an empty container *)
    | _ =>
      match b with
      | BRow => if all_eqb (map out_struct l) then Ok (Block fresh b td l) else Err ValueError
      | BCol => if all_eqb (map in_struct l) then Ok (Block fresh b td l) else Err ValueError
      | BDiag => Ok (Block fresh b td l)
      end
    end.

  (* ---------- A @ B ---------- *)
  Definition operands (e : op) : list op := match e with Comp _ l => l | _ => [e] end.
  Definition lazy_inverse_of (e : op) : option op :=
    match e with
    | Wrap _ w x => if isinst (wcls w) [CAbstractLazyInverse] then Some x else None
    | _ => None
    end.
  (* AbstractLinearOperator.__matmul__, falling back to CompositionOperator.__rmatmul__ *)
  Definition base_matmul (a b : op) : result op :=
    if negb (struct_eqb (in_struct a) (out_struct b)) then Err ValueError else
    match b with
    | Comp _ lb => Ok (Comp fresh (a :: lb))
    | _ =>
        match lazy_inverse_of b with
        | Some x => if same x a then Ok (Ident fresh (in_struct a)) else Ok (Comp fresh [a; b])
        | None => Ok (Comp fresh [a; b])
        end
    end.
  Definition matmul (a b : op) : result op :=
    match a with
    | Comp _ la =>
        if negb (struct_eqb (in_struct a) (out_struct b)) then Err ValueError
        else Ok (Comp fresh (la ++ operands b))
    | Ident _ _ =>
        if negb (struct_eqb (in_struct a) (out_struct b)) then Err ValueError else Ok b
    | Homoth _ k s =>
        match b with
        | Homoth _ k' _ =>
            if negb (struct_eqb (in_struct a) (out_struct b)) then Err ValueError
            else Ok (Homoth fresh (kmul k k') s)
        | _ => base_matmul a b
        end
    | Wrap _ _ _ =>
        match lazy_inverse_of a with
        | Some x => if same x b then Ok (Ident fresh (in_struct a)) else base_matmul a b
        | None => base_matmul a b
        end
    | _ => base_matmul a b
    end.

  (* k * A  (__rmul__; A * k goes the same way) and A / k *)
  Definition smul (k : K) (a : op) : result op := matmul (Homoth fresh k (out_struct a)) a.
  Definition sdiv (a : op) (k : K) : result op := smul (kinv k) a.
  Definition neg (a : op) : result op :=
    match a with
    | AddOp _ l => l' <- mapM (smul (kopp k1)) l ;; Ok (AddOp fresh l')
    | _ => smul (kopp k1) a
    end.
  Definition add_operands (e : op) : list op := match e with AddOp _ l => l | _ => [e] end.
  Definition add (a b : op) : result op :=
    if negb (struct_eqb (in_struct a) (in_struct b)) then Err ValueError else
    if negb (struct_eqb (out_struct a) (out_struct b)) then Err ValueError else
    match a with
    | AddOp _ la => Ok (AddOp fresh (la ++ add_operands b))
    | _ => match b with
           | AddOp _ lb => Ok (AddOp fresh (a :: lb))
           | _ => Ok (AddOp fresh [a; b])
           end
    end.
  Definition sub (a b : op) : result op :=
    if negb (struct_eqb (in_struct a) (in_struct b)) then Err ValueError else
    if negb (struct_eqb (out_struct a) (out_struct b)) then Err ValueError else
    nb <- neg b ;; add a nb.

  (* ---------- transpose() ---------- *)
  Definition tkey (k : N) : N := N.lxor k 1.   (* key of the adjoint of an opaque operator *)
  Definition returns_self_on_transpose (c : cls) : bool :=
    match c with CIdentity | CHomothety | CDiagonal | CDiagonalInverse | CHWP | CToeplitz => true | _ => false end.
  Fixpoint transpose (e : op) : op :=
    match e with
    | Prim i c si so p =>
        if returns_self_on_transpose c then e else
        match c, p with
        | CDense, PKey k => Prim fresh CDense so si (PKey (tkey k))
        | CMoveAxis, PAxes s d => Prim fresh CMoveAxis so si (PAxes d s)
        | CQURotation, _ => Wrap fresh WQURotT e
        | (CRavel | CReshape), _ => Wrap fresh WReshapeT e
        | CObsMatrix, _ => Wrap fresh WObsT e
        | _, _ => Wrap fresh WTranspose e
        end
    | Wrap _ w x =>
        match w with
        | WTranspose | WReshapeT | WObsT | WQURotT => x
        | WDiagInv => e
        | WInverse => Wrap fresh WTranspose e
        end
    | Ident _ _ | Homoth _ _ _ => e
    | Comp _ l => Comp fresh (rev (map transpose l))
    | AddOp _ l => AddOp fresh (map transpose l)
    | Block _ b td l =>
        Block fresh (match b with BRow => BCol | BDiag => BDiag | BCol => BRow end) td (map transpose l)
    end.

  (* ---------- the binary rules ---------- *)
  Definition wrapped (e : op) : option op := match e with Wrap _ _ x => Some x | _ => None end.
  Definition is_exactly_transpose (g : option (list cls)) : bool :=
    match g with Some [CTranspose] => true | _ => false end.
  (* AbstractBinaryRule.check *)
  Definition guard_ok (g : guard) (l r : op) : bool :=
    (match g_any g with
     | Some cs => is_a l cs || is_a r cs
     | None =>
         (match g_left g with Some cs => is_a l cs | None => true end) &&
         (match g_right g with Some cs => is_a r cs | None => true end)
     end) &&
    (if is_exactly_transpose (g_left g)
     then match wrapped l with Some x => same x r | None => false end else true) &&
    (if is_exactly_transpose (g_right g)
     then match wrapped r with Some x => same x l | None => false end else true).

  Definition angles_of (e : op) : option (list Q) :=
    match e with
    | Prim _ CQURotation _ _ (PAngles a) => Some a
    | _ => None
    end.
  Definition qadd (a b : list Q) : list Q := map (fun p => Qred (fst p + snd p)%Q) (combine a b).
  Definition qsub (a b : list Q) : list Q := map (fun p => Qred (fst p - snd p)%Q) (combine a b).
  Definition qneg (a : list Q) : list Q := map (fun x => Qred (- x)%Q) a.

  Definition leaf_shapes (s : struct) : list (list nat) := map s_shape (flatten s).
  Definition shape_eqb (a b : list nat) : bool := list_eqb Nat.eqb a b.

  Section Rules.
    (* reduce() of the operator built by a block rule: tied by the recursive knot below *)
    Variable reduce_rec : op -> result op.

    Definition block_rule (reduced : option bkind) (l r : op) : result (option (list op)) :=
      match l, r with
      | Block _ _ tdl ll, Block _ _ tdr lr =>
          (* fix D7: no reduction unless both containers have the same tree structure *)
          if negb (pt_eqb (fun _ _ => true) tdl tdr) then Ok None else
          prods <- mapM2 matmul ll lr ;;
          new <- match reduced with
                 | Some b => mk_block b tdl prods
                 | None => match prods with [] => Err IndexError | _ => Ok (AddOp fresh prods) end
                 end ;;
          red <- reduce_rec new ;;
          Ok (Some [red])
      | _, _ => Err AssertionError
      end.

    (* check (beyond the generic guard) and apply of each rule; None = NoReduction *)
    Definition apply_rule (ru : rule_id) (l r : op) : result (option (list op)) :=
      match ru with
      | RInverse =>
          match lazy_inverse_of l with
          | Some x => if same x r then Ok (Some []) else Ok None
          | None =>
              match lazy_inverse_of r with
              | Some x => if same x l then Ok (Some []) else Ok None
              | None => Err AssertionError
              end
          end
      | RMoveAxis =>
          match l, r with
          | Prim _ _ _ _ (PAxes ls ld), Prim _ _ _ _ (PAxes rs rd) =>
              if list_eqb Z.eqb ls rd && list_eqb Z.eqb ld rs then Ok (Some []) else Ok None
          | _, _ => Err AssertionError
          end
      | RReshape =>
          if is_a l [CAbstractRavelOrReshape] then
            if negb (is_a r [CReshapeTranspose]) then Ok None else
            match wrapped r with
            | Some x => if same x l then Ok (Some []) else Ok None
            | None => Ok None
            end
          else if is_a l [CReshapeTranspose] then
            if negb (is_a r [CAbstractRavelOrReshape]) then Ok None else
            match wrapped l with
            | Some x => if same x r then Ok (Some []) else Ok None
            | None => Ok None
            end
          else Err AssertionError
      | RPackUnpack => Ok (Some [])
      | RQURot =>
          let s := in_struct r in
          let mk a := Ok (Some [Prim fresh CQURotation s s (PAngles a)]) in
          match angles_of l with
          | Some la =>
              match angles_of r, r with
              | Some ra, _ => mk (qadd la ra)
              | None, Wrap _ WQURotT x =>
                  match angles_of x with Some ra => mk (qsub la ra) | None => Err AttributeError end
              | _, _ => Ok None
              end
          | None =>
              match l with
              | Wrap _ WQURotT lx =>
                  match angles_of lx with
                  | Some la =>
                      match angles_of r, r with
                      | Some ra, _ => mk (qsub ra la)
                      | None, Wrap _ WQURotT x =>
                          match angles_of x with
                          | Some ra => mk (qsub (qneg la) ra)
                          | None => Err AttributeError
                          end
                      | _, _ => Ok None
                      end
                  | None => Err AttributeError
                  end
              | _ => Err AssertionError
              end
          end
      | RQURotHWP =>
          match l with
          | Prim _ CQURotation _ _ _ => Ok (Some [r; Wrap fresh WQURotT l])
          | Wrap _ WQURotT x => Ok (Some [r; x])
          | _ => Err AssertionError
          end
      | RPolHWP => Ok (Some [l])
      | RRowDiag => block_rule (Some BRow) l r
      | RDiagCol => block_rule (Some BCol) l r
      | RDiagDiag => block_rule (Some BDiag) l r
      | RRowCol => block_rule None l r
      | RIndexT =>
          match l with
          | Prim _ _ _ _ (PIndex uniq _) => if uniq then Ok (Some []) else Ok None
          | _ => Err AssertionError
          end
      | RTIndex =>
          match r with
          | Prim _ _ si _ (PIndex uniq ix) =>
              let axes := indexed_axes ix in
              if Nat.ltb 1 (List.length axes) then Ok None else
              if uniq then Ok None else
              match leaf_shapes si with
              | [] => Ok None                 (* no leaf at all: NoReduction (fix: len(shapes) != 1) *)
              | sh :: rest =>
                  if negb (forallb (shape_eqb sh) rest) then Ok None else
                  match axes with
                  | [] => Err IndexError
                  | axis :: _ =>
                      match py_nth ix axis with
                      | Some (IArr d) =>
                          match py_nth sh axis with
                          | Some n =>
                              Ok (Some [Prim fresh CDiagonal si si
                                          (PDiag axis (map inject_Z (coverage_of n (norm_index n d))))])
                          | None => Err IndexError
                          end
                      | Some _ => Err AssertionError
                      | None => Err IndexError
                      end
                  end
              end
          | _ => Err AssertionError
          end
      end.

    (* the `for rule in BINARY_RULE_REGISTRY` loop: the first rule that does not raise NoReduction *)
    Fixpoint fires (order : list rule_id) (l r : op) : result (option (list op)) :=
      match order with
      | [] => Ok None
      | ru :: rest =>
          if guard_ok (guard_of ru) l r then
            res <- apply_rule ru l r ;;
            match res with
            | Some new => Ok (Some new)
            | None => fires rest l r
            end
          else fires rest l r
      end.

    (* IdentityRule / HomothetyRule *)
    Definition is_ident (e : op) : bool := match e with Ident _ _ => true | _ => false end.
    Definition is_homoth (e : op) : bool := match e with Homoth _ _ _ => true | _ => false end.
    Definition identity_rule (ops : list op) : list op := filter (fun e => negb (is_ident e)) ops.
    Definition homoth_value (ops : list op) : K :=
      fold_left (fun v e => match e with Homoth _ k _ => kmul v k | _ => v end) ops k1.
    Definition homothety_rule (ops : list op) : list op :=
      match ops with
      | [] | [_] => ops
      | first :: _ =>
          let lst := last ops first in
          let nh := List.length (filter is_homoth ops) in
          if Nat.eqb nh 0 then ops else
          let others := filter (fun e => negb (is_homoth e)) ops in
          let on_left := Nat.leb (out_size first) (in_size lst) in
          if Nat.eqb nh 1 && ((on_left && is_homoth first) || (negb on_left && is_homoth lst)) then ops
          else if on_left then Homoth fresh (homoth_value ops) (out_struct first) :: others
          else others ++ [Homoth fresh (homoth_value ops) (in_struct lst)]
      end.

    (* the while loop of AlgebraicReductionRule.apply *)
    Fixpoint scan (fuel : nat) (order : list rule_id) (ops : list op) (index : nat) : result (list op) :=
      match fuel with
      | O => Err OutOfFuel
      | S fuel' =>
          if Nat.ltb (S index) (List.length ops) then
            match nth_error ops index, nth_error ops (S index) with
            | Some l, Some r =>
                res <- fires order l r ;;
                match res with
                | Some new0 =>
                    let new := identity_rule new0 in    (* fix D8: identities produced by a rule are dropped *)
                    let ops1 := firstn index ops ++ new ++ skipn (index + 2) ops in
                    if existsb is_homoth new
                    then scan fuel' order (homothety_rule ops1) 0
                    else scan fuel' order ops1 (pred index)
                | None => scan fuel' order ops (S index)
                end
            | _, _ => Err IndexError
            end
          else Ok ops
      end.
    Definition algebraic_reduction (fuel : nat) (order : list rule_id) (ops : list op) : result (list op) :=
      match ops with
      | [] | [_] => Ok ops
      | _ =>
          let in_s := in_struct (last ops (Ident fresh dummy_struct)) in
          res <- scan fuel order (homothety_rule (identity_rule ops)) 0 ;;
          match res with
          | [] => Ok [Ident fresh in_s]
          | _ => Ok res
          end
      end.
  End Rules.

  (* ---------- reduce() ---------- *)
  Definition scan_fuel (ops : list op) : nat := let n := S (List.length ops) in 4 * n * n * n + 16.
  Fixpoint reduce (fuel : nat) (order : list rule_id) (e : op) : result op :=
    match fuel with
    | O => Err OutOfFuel
    | S f =>
        match e with
        | Comp _ l =>
            ops <- mapM (reduce f order) l ;;
            ops' <- algebraic_reduction (reduce f order) (scan_fuel ops) order ops ;;
            match ops' with
            | [] => Ok (Ident fresh (in_struct e))
            | [x] => Ok x
            | _ => Ok (Comp fresh ops')
            end
        | AddOp _ l =>
            ops <- mapM (reduce f order) l ;;
            match ops with [x] => Ok x | _ => Ok (AddOp fresh ops) end
        | Block _ b td l =>
            ops <- mapM (reduce f order) l ;;
            new <- mk_block b td ops ;;
            match b with
            | BDiag => if forallb is_ident ops then Ok (Ident fresh (in_struct e)) else Ok new
            | _ => Ok new
            end
        | Prim _ CIndex si _ (PIndex _ ix) =>
            match indexed_axes ix with [] => Ok (Ident fresh si) | _ => Ok e end
        | Prim _ (CRavel | CReshape) si so _ =>
            if struct_eqb so si then Ok (Ident fresh si) else Ok e
        | _ => Ok e
        end
    end.

  (* ---------- inverse() ---------- *)
  Definition inverse (fuel : nat) (order : list rule_id) (e : op) : result op :=
    let default :=
      if negb (is_square e) then Err ValueError
      else r <- reduce fuel order e ;; Ok (Wrap fresh WInverse r) in
    match e with
    | Homoth _ k s => Ok (Homoth fresh (kinv k) s)
    | Ident _ _ => Ok e
    | Prim _ CDiagonal _ _ _ => Ok (Wrap fresh WDiagInv e)
    | Prim _ (CMoveAxis | CQURotation) _ _ _ => Ok (transpose e)
    | Wrap _ w x => if isinst (wcls w) [CAbstractLazyInverse] then Ok x else default
    | Block _ BDiag td l =>
        if forallb is_square l then
          (* block-wise inverses; each block's own inverse() is modelled for closed forms only *)
          l' <- mapM (fun b =>
                  match b with
                  | Homoth _ k s => Ok (Homoth fresh (kinv k) s)
                  | Ident _ _ => Ok b
                  | Prim _ CDiagonal _ _ _ => Ok (Wrap fresh WDiagInv b)
                  | Prim _ (CMoveAxis | CQURotation) _ _ _ => Ok (transpose b)
                  | Wrap _ w x => if isinst (wcls w) [CAbstractLazyInverse] then Ok x
                                  else r <- reduce fuel order b ;; Ok (Wrap fresh WInverse r)
                  | _ => r <- reduce fuel order b ;; Ok (Wrap fresh WInverse r)
                  end) l ;;
          Ok (Block fresh BDiag td l')
        else default
    | _ => default
    end.
End Alg.
