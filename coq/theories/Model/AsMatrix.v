(* C04 - model of as_matrix(): the generic column-by-column construction of
   AbstractLinearOperator.as_matrix (src/furax/_base/core.py) and every override
   (core.py: IdentityOperator, HomothetyOperator, AdditionOperator, AbstractLazyInverseOperator;
    diagonal.py: DiagonalOperator [inherited by DiagonalInverseOperator]; blocks.py: BlockRow /
    BlockDiagonal / BlockColumn; axes.py: AbstractRavelOrReshapeOperator; toeplitz.py).
   Definitions only.  Values are pytrees of FLAT leaves (row-major data; shapes live in the
   structure), so "pytree-leaf order then row-major" is the order of `vflat`.
   A dense matrix is its number of rows and the list of its COLUMNS. *)
From Coq Require Import List Bool Arith ZArith NArith QArith Qcanon String Lia.
From Furax Require Import Base.Pytree Model.Op Model.Algebra Model.Denote Model.Exec.
Import ListNotations.
Local Close Scope Q_scope.
Local Close Scope Qc_scope.
Local Open Scope nat_scope.

Section AsM.
  Variable K : Type.
  Variables (k0 k1 : K) (kadd kmul : K -> K -> K).
  Notation op := (op K).
  Notation value := (value K).

  (* ---------- values along a structure ---------- *)
  (* jnp.concatenate([leaf.ravel() for leaf in jax.tree.leaves(x)]) *)
  Definition vflat (x : value) : list K := List.concat (flatten x).
  Definition vleaf_ok (s : sds) (d : list K) : bool := Nat.eqb (List.length d) (leaf_size s).
  (* x has the structure s: same containers, every leaf with as many elements as its shape says *)
  Fixpoint vhas (x : value) (s : struct) : bool :=
    match x, s with
    | Leaf d, Leaf sd => vleaf_ok sd d
    | Node k cs, Node k' ss =>
        ckind_eqb k k' &&
        (fix go (l : list value) (l' : list struct) : bool :=
           match l, l' with
           | [], [] => true
           | a :: r, b :: r' => vhas a b && go r r'
           | _, _ => false
           end) cs ss
    | _, _ => false
    end.
  (* the value of structure s whose flattened data is (a prefix of) v; also returns the rest *)
  Fixpoint vunflat (s : struct) (v : list K) : value * list K :=
    match s with
    | Leaf sd => (Leaf (firstn (leaf_size sd) v), skipn (leaf_size sd) v)
    | Node k ss =>
        let '(cs, r) :=
          (fix go (ss : list struct) (v : list K) : list value * list K :=
             match ss with
             | [] => ([], v)
             | s :: ss' => let '(c, r1) := vunflat s v in let '(cs, r2) := go ss' r1 in (c :: cs, r2)
             end) ss v in
        (Node k cs, r)
    end.
  Definition unflat (s : struct) (v : list K) : value := fst (vunflat s v).

  Definition zeros (n : nat) : list K := repeat k0 n.
  Definition onehot (n j : nat) : list K := map (fun i => if Nat.eqb i j then k1 else k0) (seq 0 n).
  Definition ladd (u v : list K) : list K := map (fun p => kadd (fst p) (snd p)) (combine u v).

  (* ---------- dense matrices ---------- *)
  Record mat := mkMat { m_nr : nat; m_cols : list (list K) }.
  Definition m_nc (m : mat) : nat := List.length (m_cols m).
  (* a proper (nr x nc) array: every column has nr entries *)
  Definition mat_ok (m : mat) : bool := forallb (fun c => Nat.eqb (List.length c) (m_nr m)) (m_cols m).

  Definition eye (n : nat) : mat := mkMat n (map (onehot n) (seq 0 n)).
  Definition mscale (k : K) (m : mat) : mat := mkMat (m_nr m) (map (map (kmul k)) (m_cols m)).
  (* jnp.add on two matrices of the same shape (other shapes: broadcasting or ValueError in JAX;
     None here - never reached from a validated AdditionOperator) *)
  Definition madd (a b : mat) : option mat :=
    if Nat.eqb (m_nr a) (m_nr b) && Nat.eqb (m_nc a) (m_nc b)
    then Some (mkMat (m_nr a) (map (fun p => ladd (fst p) (snd p)) (combine (m_cols a) (m_cols b))))
    else None.
  (* functools.reduce(jnp.add, matrices) *)
  Definition msum (ms : list mat) : option mat :=
    match ms with
    | [] => None
    | m :: r => fold_left (fun acc x => obind acc (fun a => madd a x)) r (Some m)
    end.
  (* jnp.hstack: same number of rows, columns one after the other *)
  Fixpoint hstack (ms : list mat) : option mat :=
    match ms with
    | [] => None
    | [m] => Some m
    | m :: r =>
        obind (hstack r) (fun R =>
          if Nat.eqb (m_nr m) (m_nr R) then Some (mkMat (m_nr m) (m_cols m ++ m_cols R)) else None)
    end.
  (* jnp.vstack: same number of columns, each column continued downwards *)
  Fixpoint vstack (ms : list mat) : option mat :=
    match ms with
    | [] => None
    | [m] => Some m
    | m :: r =>
        obind (vstack r) (fun R =>
          if Nat.eqb (m_nc m) (m_nc R)
          then Some (mkMat (m_nr m + m_nr R) (map (fun p => fst p ++ snd p) (combine (m_cols m) (m_cols R))))
          else None)
    end.
  (* jax.scipy.linalg.block_diag *)
  Fixpoint block_diag (ms : list mat) : mat :=
    match ms with
    | [] => mkMat 0 []
    | m :: r =>
        let R := block_diag r in
        mkMat (m_nr m + m_nr R)
              (map (fun c => c ++ zeros (m_nr R)) (m_cols m) ++ map (fun c => zeros (m_nr m) ++ c) (m_cols R))
    end.

  (* matrix times vector: sum_j v_j * column_j *)
  Fixpoint matvec_cols (nr : nat) (cols : list (list K)) (v : list K) : list K :=
    match cols, v with
    | c :: cs, a :: vs => ladd (map (kmul a) c) (matvec_cols nr cs vs)
    | _, _ => zeros nr
    end.
  Definition matvec (m : mat) (v : list K) : list K := matvec_cols (m_nr m) (m_cols m) v.
  Definition mmul (a b : mat) : mat := mkMat (m_nr a) (map (matvec a) (m_cols b)).

  (* ---------- the generic as_matrix ---------- *)
  Variable leafsem : op -> value -> option value.
  Notation denote := (denote kadd kmul leafsem).

  (* array.at[i].set(v): out-of-range updates are dropped *)
  Fixpoint set_nth {A} (l : list A) (i : nat) (v : A) : list A :=
    match l, i with
    | [], _ => []
    | _ :: r, O => v :: r
    | a :: r, S i' => a :: set_nth r i' v
    end.
  (* in_leaves_ref, in_treedef = jax.tree.flatten(zeros_like(self.in_structure())) *)
  Definition in_leaves_ref (s : struct) : list (list K) := map (fun sd => zeros (leaf_size sd)) (flatten s).
  Definition tree_unflatten (s : struct) (leaves : list (list K)) : value :=
    build (Leaf []) (shape_of s) (map (@Leaf (list K)) leaves).
  (* zeros = in_leaves_ref.copy(); zeros[ileaf] = leaf.ravel().at[index].set(1).reshape(leaf.shape);
     in_pytree = jax.tree.unflatten(in_treedef, zeros) *)
  Definition basis_input (s : struct) (ileaf index : nat) : value :=
    let ref := in_leaves_ref s in
    tree_unflatten s (set_nth ref ileaf (set_nth (nth ileaf ref []) index k1)).
  (* matrix.at[:, jcounter].set(jnp.concatenate(out_leaves)): the value must have out_size()
     entries, or a single one (broadcast); anything else is a shape error *)
  Definition fit (n : nat) (col : list K) : option (list K) :=
    if Nat.eqb (List.length col) n then Some col
    else match col with [c] => Some (repeat c n) | _ => None end.
  Definition column_of (e : op) (x : value) : option (list K) :=
    obind (denote e x) (fun y => fit (out_size e) (vflat y)).
  (* body(index, (matrix, jcounter)) of the fori_loop over one input leaf *)
  Definition body (e : op) (ileaf index : nat) (carry : option (list (list K)) * nat)
    : option (list (list K)) * nat :=
    let '(m, jcounter) := carry in
    (match m, column_of e (basis_input (in_struct e) ileaf index) with
     | Some m, Some c => Some (set_nth m jcounter c)
     | _, _ => None
     end, S jcounter).
  Definition fori_loop {C} (lo hi : nat) (f : nat -> C -> C) (c : C) : C :=
    fold_left (fun c i => f i c) (seq lo (hi - lo)) c.
  Definition as_matrix_generic (e : op) : option mat :=
    let leaves := flatten (in_struct e) in
    (* jnp.empty((out_size, in_size)): every column is overwritten below *)
    let init := (Some (repeat (zeros (out_size e)) (in_size e)), 0) in
    let final :=
      fold_left (fun carry il => fori_loop 0 (leaf_size (snd il)) (body e (fst il)) carry)
                (combine (seq 0 (List.length leaves)) leaves) init in
    option_map (mkMat (out_size e)) (fst final).

  (* the same matrix, column j = image of the j-th basis vector of the flattened input
     (equality with the loop above: Lemmas/AsMatrixL.v generic_loop_eq) *)
  Definition basis_value (s : struct) (j : nat) : value := unflat s (onehot (struct_size s) j).
  Definition generic_columns (e : op) : option (list (list K)) :=
    omapl (fun j => column_of e (basis_value (in_struct e) j)) (seq 0 (in_size e)).

  (* ---------- as_matrix with every override ---------- *)
  (* dense forms of the leaf classes that override as_matrix with their own array code:
     DiagonalOperator.as_matrix (also reached from DiagonalInverseOperator, whose MRO puts
     DiagonalOperator before AbstractLazyInverseOperator) and SymmetricBandToeplitzOperator.as_matrix
     (modelled element by element in Model/Diagonal.v, Model/Toeplitz.v: C11 diag_as_matrix, C09
     as_matrix_times_x) *)
  Variable leaf_override : op -> option mat.
  (* jnp.linalg.inv *)
  Variable minv : mat -> option mat.

  Fixpoint as_matrix (e : op) : option mat :=
    let go := fix go (l : list op) : option (list mat) :=
      match l with
      | [] => Some []
      | x :: r => match as_matrix x, go r with Some m, Some ms => Some (m :: ms) | _, _ => None end
      end in
    match e with
    | Prim _ c _ _ _ =>
        match c with
        | CDiagonal | CToeplitz => leaf_override e
        | CRavel | CReshape => Some (eye (in_size e))          (* jnp.eye(self.in_size()) *)
        | _ => as_matrix_generic e
        end
    | Wrap _ w x =>
        match w with
        | WDiagInv => leaf_override e
        | WInverse | WQURotT => obind (as_matrix x) minv       (* AbstractLazyInverseOperator *)
        | WTranspose | WReshapeT | WObsT => as_matrix_generic e
        end
    | Ident _ _ => Some (eye (in_size e))                        (* jnp.identity(self.in_size()) *)
    | Homoth _ k _ => Some (mscale k (eye (in_size e)))          (* value * jnp.identity(in_size) *)
    | Comp _ _ => as_matrix_generic e                            (* CompositionOperator: no override *)
    | AddOp _ l => obind (go l) msum
    | Block _ b _ l =>
        obind (go l) (fun ms =>
          match b with
          | BRow => hstack ms
          | BDiag => Some (block_diag ms)
          | BCol => vstack ms
          end)
    end.
  Definition as_matrix_list (l : list op) : option (list mat) := omapl as_matrix l.
End AsM.

Arguments mkMat {K}. Arguments m_nr {K}. Arguments m_cols {K}.

(* ---------- executable instance over Qc (correspondence harness) ---------- *)
Definition xmat := mat K.
Definition qc_is0 (a : K) : bool := Qc_eq_bool a k0.
Definition xmatvec := matvec K k0 Qcplus Qcmult.
Definition xmmul := mmul K k0 Qcplus Qcmult.
Definition xeye := eye K k0 k1.
Definition col_eqb (u v : list K) : bool := list_eqb Qc_eq_bool u v.
Definition xmat_eqb (a b : xmat) : bool :=
  Nat.eqb (m_nr a) (m_nr b) && list_eqb col_eqb (m_cols a) (m_cols b).

(* Gauss-Jordan elimination on the rows of [A | I] *)
Definition row_elim (k : K) (p r : list K) : list K :=
  map (fun ab => Qcminus (snd ab) (Qcmult k (fst ab))) (combine p r).
Fixpoint take_pivot (c : nat) (rest : list (list K)) : option (list K * list (list K)) :=
  match rest with
  | [] => None
  | r :: rs =>
      if qc_is0 (nth c r k0)
      then match take_pivot c rs with Some (p, o) => Some (p, r :: o) | None => None end
      else Some (r, rs)
  end.
Fixpoint gauss_jordan (cs : list nat) (done rest : list (list K)) : option (list (list K)) :=
  match cs with
  | [] => Some done
  | c :: cs' =>
      match take_pivot c rest with
      | None => None
      | Some (p, others) =>
          let p' := map (Qcmult (Qcinv (nth c p k0))) p in
          let el := fun r => row_elim (nth c r k0) p' r in
          gauss_jordan cs' (map el done ++ [p']) (map el others)
      end
  end.
Definition rows_of (m : xmat) : list (list K) := map (fun i => map (fun c => nth i c k0) (m_cols m)) (seq 0 (m_nr m)).
(* the inverse, accepted only after checking N M = I and M N = I *)
Definition x_minv (m : xmat) : option xmat :=
  let n := m_nr m in
  if negb (Nat.eqb n (m_nc K m)) then None else
  let aug := map (fun ir => snd ir ++ onehot K k0 k1 n (fst ir)) (combine (seq 0 n) (rows_of m)) in
  match gauss_jordan (seq 0 n) [] aug with
  | None => None
  | Some rows =>
      let inv_rows := map (skipn n) rows in
      let N := mkMat n (map (fun j => map (fun r => nth j r k0) inv_rows) (seq 0 n)) in
      if xmat_eqb (xmmul N m) (xeye n) && xmat_eqb (xmmul m N) (xeye n) then Some N else None
  end.

(* jnp.diag of a vector *)
Definition diag_of (d : list K) : xmat :=
  let n := List.length d in
  mkMat n (map (fun jd => map (fun i => if Nat.eqb i (fst jd) then snd jd else k0) (seq 0 n)) (combine (seq 0 n) d)).
Definition otable := list (N * xmat).
Fixpoint olookup (t : otable) (k : N) : option xmat :=
  match t with
  | [] => None
  | (k', m) :: r => if (k =? k')%N then Some m else olookup r k
  end.
(* DiagonalOperator.as_matrix for 1-d values along one axis: the values broadcast to every leaf of the
   input structure, raveled, concatenated, jnp.diag.  Other overriding leaves (Toeplitz, n-d diagonal
   values, DiagonalInverse): the matrix measured on the real object's own as_matrix(). *)
Definition x_leaf_override (otb : otable) (e : xop) : option xmat :=
  match olookup otb (2 * oid e)%N with
  | Some m => Some m
  | None =>
      match e with
      | Prim _ CDiagonal si _ (PDiag axis v) =>
          Some (diag_of (List.concat (map (fun sd => diag_leaf axis v sd (repeat k1 (leaf_size sd))) (flatten si))))
      | _ => None
      end
  end.

Definition x_as_matrix (tb : table) (otb : otable) (e : xop) : option xmat :=
  as_matrix K k0 k1 Qcplus Qcmult (leafsem tb) (x_leaf_override otb) x_minv e.
Definition x_generic (tb : table) (e : xop) : option xmat :=
  as_matrix_generic K k0 k1 Qcplus Qcmult (leafsem tb) e.
Definition x_columns (tb : table) (e : xop) : option xmat :=
  option_map (mkMat (out_size e)) (generic_columns K k0 k1 Qcplus Qcmult (leafsem tb) e).
Definition show_mat (m : option xmat) : option (nat * list (list (Z * Z))) :=
  option_map (fun m => (m_nr m, map (map (fun k => qpair (this k))) (m_cols m))) m.
(* application to one flattened input *)
Definition x_apply (tb : table) (e : xop) (v : list K) : option (list (Z * Z)) :=
  option_map (fun y => map (fun k => qpair (this k)) (vflat K y))
             (den tb e (unflat K (in_struct e) v)).
