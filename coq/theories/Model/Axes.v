(* Model of furax/_base/axes.py: MoveAxisOperator, MoveAxisInverseRule, AbstractRavelOrReshapeOperator,
   RavelOperator, ReshapeOperator, ReshapeTransposeOperator, ReshapeInverseRule, and of the pieces of
   furax/_base/core.py + rules.py that these operators go through (`@`, CompositionOperator.reduce on a
   pair).  Definitions only (proofs: Lemmas/AxesL.v).

   Conventions.
   * a pytree is represented by the list of its leaves in jax.tree.leaves order (jax.tree.map acts
     leaf by leaf, left to right, and keeps the tree definition: trusted);
   * a leaf structure is its shape (list nat); dtypes are preserved by every operator here;
   * an array is (shape, data in row-major order);
   * Python exceptions are values: `Err kind`.
   * the JAX primitives used by the code are given their specification here:
     jnp.moveaxis (jax/_src/numpy/lax_numpy.py:_moveaxis, incl. canonicalize_axis and the permutation
     check of lax.transpose) and Array.reshape (_compute_newshape + lax.reshape). *)
From Coq Require Import ZArith NArith List Bool.
Import ListNotations.
Open Scope Z_scope.

(* ------------------------------------------------------------------------------------------ *)
(* results *)
Inductive ekind := ValueError | TypeError | ZeroDivisionError | AssertionError.
Inductive res (A : Type) := Ok (a : A) | Err (e : ekind).
Arguments Ok {A} a.
Arguments Err {A} e.

Definition bind {A B} (r : res A) (f : A -> res B) : res B :=
  match r with Ok a => f a | Err e => Err e end.

(* left to right, the first error wins (the order in which jax.tree.map / a generator visits) *)
Fixpoint mapM {A B} (f : A -> res B) (l : list A) : res (list B) :=
  match l with
  | [] => Ok []
  | a :: l' => bind (f a) (fun b => bind (mapM f l') (fun bs => Ok (b :: bs)))
  end.

Fixpoint mapM2 {A B C} (f : A -> B -> res C) (l : list A) (m : list B) : res (list C) :=
  match l, m with
  | a :: l', b :: m' => bind (f a b) (fun c => bind (mapM2 f l' m') (fun cs => Ok (c :: cs)))
  | _, _ => Ok []
  end.

(* ------------------------------------------------------------------------------------------ *)
(* shapes, sizes, multi-indices *)
Definition shape := list nat.
Definition prod (s : list nat) : nat := fold_right Nat.mul 1%nat s.
Definition prodZ (s : list Z) : Z := fold_right Z.mul 1 s.
Definition sizeZ (s : shape) : Z := Z.of_nat (prod s).

Definition shape_eqb (a b : shape) : bool :=
  (length a =? length b)%nat && forallb (fun p => (fst p =? snd p)%nat) (combine a b).
Definition shapes_eqb (a b : list shape) : bool :=
  (length a =? length b)%nat && forallb (fun p => shape_eqb (fst p) (snd p)) (combine a b).
Definition zlist_eqb (a b : list Z) : bool :=
  (length a =? length b)%nat && forallb (fun p => fst p =? snd p) (combine a b).

(* all multi-indices of a shape, in row-major order *)
Fixpoint indices (s : shape) : list (list nat) :=
  match s with
  | [] => [[]]
  | n :: s' => flat_map (fun i => map (cons i) (indices s')) (seq 0 n)
  end.

(* row-major flat position of a multi-index *)
Fixpoint ravel (s : shape) (I : list nat) : nat :=
  match s, I with
  | _ :: s', i :: I' => (i * prod s' + ravel s' I')%nat
  | _, _ => 0%nat
  end.

(* l[idx[0]], l[idx[1]], ... *)
Definition permute {A} (dflt : A) (l : list A) (idx : list nat) : list A :=
  map (fun k => nth k l dflt) idx.

Fixpoint index_of (m : nat) (l : list nat) : nat :=
  match l with
  | [] => 0%nat
  | x :: l' => if (x =? m)%nat then 0%nat else S (index_of m l')
  end.
Definition invperm (p : list nat) : list nat := map (fun m => index_of m p) (seq 0 (length p)).

Definition mem_nat (x : nat) (l : list nat) : bool := existsb (Nat.eqb x) l.

(* ------------------------------------------------------------------------------------------ *)
(* jnp.moveaxis: the permutation *)

(* jax._src.util.canonicalize_axis *)
Definition canon_axis (r : nat) (a : Z) : res nat :=
  let n := Z.of_nat r in
  if (- n <=? a) && (a <? n) then Ok (Z.to_nat (if a <? 0 then a + n else a)) else Err ValueError.

(* sorted(zip(destination, source)): lexicographic order on pairs *)
Definition pair_leb (p q : nat * nat) : bool :=
  (fst p <? fst q)%nat || ((fst p =? fst q)%nat && (snd p <=? snd q)%nat).
Fixpoint insert_sorted (p : nat * nat) (l : list (nat * nat)) : list (nat * nat) :=
  match l with
  | [] => [p]
  | q :: l' => if pair_leb p q then p :: q :: l' else q :: insert_sorted p l'
  end.
Definition sort_pairs (l : list (nat * nat)) : list (nat * nat) := fold_right insert_sorted [] l.

(* list.insert(i, x) for i >= 0 (an index beyond the end appends) *)
Definition insert_at {A} (i : nat) (x : A) (l : list A) : list A := firstn i l ++ x :: skipn i l.

(* perm = [i for i in range(ndim) if i not in source]
   for dest, src in sorted(zip(destination, source)): perm.insert(dest, src) *)
Definition moveaxis_order (r : nat) (s d : list nat) : list nat :=
  fold_left (fun perm p => insert_at (fst p) (snd p) perm) (sort_pairs (combine d s))
            (filter (fun i => negb (mem_nat i s)) (seq 0 r)).

(* lax.transpose: tuple(sorted(perm)) == tuple(range(ndim)), else TypeError *)
Definition is_perm (r : nat) (p : list nat) : bool :=
  (length p =? r)%nat && forallb (fun i => mem_nat i p) (seq 0 r).

Definition moveaxis_perm (r : nat) (src dst : list Z) : res (list nat) :=
  bind (mapM (canon_axis r) src) (fun s =>
  bind (mapM (canon_axis r) dst) (fun d =>
  if negb (length s =? length d)%nat then Err ValueError
  else let p := moveaxis_order r s d in
       if is_perm r p then Ok p else Err TypeError)).

(* ------------------------------------------------------------------------------------------ *)
(* Array.reshape(newshape) on shapes: _compute_newshape followed by lax.reshape *)
Definition count_neg1 (t : list Z) : nat := length (filter (Z.eqb (-1)) t).
Definition others (t : list Z) : list Z := filter (fun x => negb (x =? -1)) t.

Definition jnp_reshape_shape (leaf : shape) (t : list Z) : res shape :=
  let size := sizeZ leaf in
  if (1 <? count_neg1 t)%nat then Err TypeError
  else if (count_neg1 t =? 1)%nat then
    let o := prodZ (others t) in
    if o =? 0 then Err ZeroDivisionError                (* arr.size % 0 *)
    else if negb (size mod o =? 0) then Err TypeError
    else let full := map (fun x => if x =? -1 then size / o else x) t in
         if existsb (fun x => x <? 0) full then Err TypeError   (* lax.reshape: sizes must be >= 0 *)
         else Ok (map Z.to_nat full)
  else if negb (size =? prodZ t) then Err TypeError
  else if existsb (fun x => x <? 0) t then Err TypeError
  else Ok (map Z.to_nat t).

(* ------------------------------------------------------------------------------------------ *)
(* MoveAxisOperator *)
Inductive axarg := AInt (a : Z) | ASeq (l : list Z).
Definition as_tuple (a : axarg) : list Z := match a with AInt a => [a] | ASeq l => l end.

Record moveaxis_op := mkMove { ma_src : list Z; ma_dst : list Z; ma_in : list shape }.

(* __init__: an int becomes a 1-tuple, a sequence a tuple; nothing is validated *)
Definition MoveAxis_ctor (s d : axarg) (ins : list shape) : res moveaxis_op :=
  Ok (mkMove (as_tuple s) (as_tuple d) ins).

Definition ma_leaf_shape (src dst : list Z) (sh : shape) : res shape :=
  bind (moveaxis_perm (length sh) src dst) (fun p => Ok (permute 0%nat sh p)).

(* out_structure() = jax.eval_shape(self.mv, in_structure) *)
Definition ma_out_structure (op : moveaxis_op) : res (list shape) :=
  mapM (ma_leaf_shape (ma_src op) (ma_dst op)) (ma_in op).

(* transpose() = MoveAxisOperator(destination, source, in_structure=self.out_structure()) *)
Definition ma_transpose (op : moveaxis_op) : res moveaxis_op :=
  bind (ma_out_structure op) (fun outs => Ok (mkMove (ma_dst op) (ma_src op) outs)).

(* MoveAxisInverseRule.apply: fires iff the (un-normalised) tuples match crosswise *)
Definition moveaxis_rule (l r : moveaxis_op) : bool :=
  zlist_eqb (ma_src l) (ma_dst r) && zlist_eqb (ma_dst l) (ma_src r).

(* ------------------------------------------------------------------------------------------ *)
(* RavelOperator *)
Record ravel_op := mkRavel { rv_oid : N; rv_first : Z; rv_last : Z; rv_in : list shape }.

(* leaf.ndim + axis if axis < 0 else axis   (no range check) *)
Definition norm_axis (r : nat) (a : Z) : Z := if a <? 0 then Z.of_nat r + a else a.

Definition Ravel_ctor (oid : N) (first last : Z) (ins : list shape) : res ravel_op :=
  if ((0 <=? last) && (last <? first)) || ((last <? first) && (first <? 0)) then Err ValueError
  else if ((first <? 0) && (0 <=? last)) || ((last <? 0) && (0 <=? first)) then
    if forallb (fun sh => negb (norm_axis (length sh) first >? norm_axis (length sh) last)) ins
    then Ok (mkRavel oid first last ins) else Err ValueError
  else Ok (mkRavel oid first last ins).

(* Python slice bounds: l[:i] and l[i:] for any integer i *)
Definition clamp_idx (n : nat) (i : Z) : nat :=
  let i' := if i <? 0 then i + Z.of_nat n else i in
  Z.to_nat (Z.max 0 (Z.min i' (Z.of_nat n))).
Definition py_upto {A} (l : list A) (i : Z) : list A := firstn (clamp_idx (length l) i) l.
Definition py_from {A} (l : list A) (i : Z) : list A := skipn (clamp_idx (length l) i) l.

(* the target handed to leaf.reshape by RavelOperator.mv *)
Definition rv_target (sh : shape) (f l : Z) : list Z :=
  map Z.of_nat (py_upto sh f) ++ [-1] ++ map Z.of_nat (py_from sh (l + 1)).

Definition rv_leaf_shape (first last : Z) (sh : shape) : res shape :=
  let f := norm_axis (length sh) first in
  let l := norm_axis (length sh) last in
  if f >? l then Err AssertionError            (* assert False, 'unreachable' *)
  else if f =? l then Ok sh
  else jnp_reshape_shape sh (rv_target sh f l).

(* ------------------------------------------------------------------------------------------ *)
(* ReshapeOperator *)
Record reshape_op := mkReshape { rs_oid : N; rs_shape : list Z; rs_in : list shape }.

Fixpoint indexZ (x : Z) (l : list Z) : option nat :=
  match l with
  | [] => None
  | y :: l' => if y =? x then Some 0%nat else option_map S (indexZ x l')
  end.

(* _normalize_shape.  unknown = -prod(leaf_shape) / prod(shape) is a float division in the code; it
   is read here over the exact rationals: the quotient is an integer iff the denominator divides
   the numerator (sizes below 2^53: trusted); a zero denominator is Python's ZeroDivisionError. *)
Definition normalize_shape (t : list Z) (leaf : shape) : res (list Z) :=
  if existsb (fun x => x <? -1) t then Err ValueError
  else match indexZ (-1) t with
       | None => Ok t
       | Some i =>
           let before := firstn i t in
           let after := skipn (S i) t in
           if existsb (Z.eqb (-1)) after then Err ValueError
           else let num := - sizeZ leaf in
                let den := prodZ t in
                if den =? 0 then Err ZeroDivisionError
                else if negb (num mod den =? 0) then Err ValueError
                else Ok (before ++ [num / den] ++ after)
       end.

(* one iteration of _check_shape *)
Definition check_leaf (t : list Z) (leaf : shape) : res unit :=
  bind (normalize_shape t leaf) (fun ns =>
  if negb (sizeZ leaf =? prodZ ns) then Err ValueError else Ok tt).

Definition Reshape_ctor (oid : N) (t : list Z) (ins : list shape) : res reshape_op :=
  bind (mapM (check_leaf t) ins) (fun _ => Ok (mkReshape oid t ins)).

(* ------------------------------------------------------------------------------------------ *)
(* the operators of this module as one type; compositions of two of them; reduce *)
Inductive rr := RRavel (o : ravel_op) | RReshape (o : reshape_op).
Definition rr_oid (o : rr) : N := match o with RRavel o => rv_oid o | RReshape o => rs_oid o end.
Definition rr_in (o : rr) : list shape := match o with RRavel o => rv_in o | RReshape o => rs_in o end.
Definition rr_leaf_shape (o : rr) (sh : shape) : res shape :=
  match o with
  | RRavel o => rv_leaf_shape (rv_first o) (rv_last o) sh
  | RReshape o => jnp_reshape_shape sh (rs_shape o)
  end.
Definition rr_out (o : rr) : res (list shape) := mapM (rr_leaf_shape o) (rr_in o).

Inductive aop :=
| OpMove (m : moveaxis_op)
| OpRR (o : rr)                 (* RavelOperator / ReshapeOperator *)
| OpRRT (o : rr)                (* ReshapeTransposeOperator(o) *)
| OpId (s : list shape)         (* IdentityOperator *)
| OpComp (l r : aop).           (* CompositionOperator([l, r]) *)

Fixpoint in_structure (o : aop) : res (list shape) :=
  match o with
  | OpMove m => Ok (ma_in m)
  | OpRR o => Ok (rr_in o)
  | OpRRT o => rr_out o
  | OpId s => Ok s
  | OpComp l r => in_structure r
  end.
Fixpoint out_structure (o : aop) : res (list shape) :=
  match o with
  | OpMove m => ma_out_structure m
  | OpRR o => rr_out o
  | OpRRT o => Ok (rr_in o)
  | OpId s => Ok s
  | OpComp l r => out_structure l
  end.

(* AbstractLinearOperator.__matmul__ restricted to these classes *)
Definition matmul (l r : aop) : res aop :=
  bind (in_structure l) (fun li => bind (out_structure r) (fun ro =>
  if shapes_eqb li ro then Ok (OpComp l r) else Err ValueError)).

(* .T *)
Definition transpose (o : aop) : res aop :=
  match o with
  | OpMove m => bind (ma_transpose m) (fun m' => Ok (OpMove m'))
  | OpRR o => Ok (OpRRT o)
  | OpRRT o => Ok (OpRR o)
  | OpId s => Ok (OpId s)      (* not used *)
  | OpComp l r => Ok o         (* not used *)
  end.

(* reduce() of a non-composite operator *)
Definition reduce1 (o : aop) : res aop :=
  match o with
  | OpRR r => bind (rr_out r) (fun outs =>
              if shapes_eqb outs (rr_in r) then Ok (OpId (rr_in r)) else Ok o)
  | _ => Ok o
  end.

Definition is_id (o : aop) : bool := match o with OpId _ => true | _ => false end.

(* ReshapeInverseRule.apply: `right.operator is left` / `left.operator is right` *)
Definition reshape_rule (l r : aop) : bool :=
  match l, r with
  | OpRR a, OpRRT b => (rr_oid b =? rr_oid a)%N
  | OpRRT a, OpRR b => (rr_oid a =? rr_oid b)%N
  | _, _ => false
  end.
Definition binary_rule (l r : aop) : bool :=
  match l, r with
  | OpMove a, OpMove b => moveaxis_rule a b
  | _, _ => reshape_rule l r
  end.

(* CompositionOperator([l, r]).reduce(): operands reduced, identities dropped, binary rules *)
Definition reduce (o : aop) : res aop :=
  match o with
  | OpComp l r =>
      bind (reduce1 l) (fun l' => bind (reduce1 r) (fun r' =>
      bind (in_structure r') (fun ins =>
      match is_id l', is_id r' with
      | true, true => Ok (OpId ins)
      | true, false => Ok r'
      | false, true => Ok l'
      | false, false => if binary_rule l' r' then Ok (OpId ins) else Ok (OpComp l' r')
      end)))
  | _ => reduce1 o
  end.

Definition class_name (o : aop) : nat :=
  match o with
  | OpMove _ => 1 | OpRR (RRavel _) => 2 | OpRR (RReshape _) => 3 | OpRRT _ => 4 | OpId _ => 0
  | OpComp _ _ => 5
  end%nat.

(* ------------------------------------------------------------------------------------------ *)
(* values *)
Section Values.
  Variable K : Type.
  Variable k0 : K.

  Record arr := mkArr { ashape : shape; adata : list K }.
  Definition wf_arr (a : arr) : Prop := length (adata a) = prod (ashape a).
  Definition get (a : arr) (I : list nat) : K := nth (ravel (ashape a) I) (adata a) k0.

  (* lax.transpose(a, p): out.shape[k] = a.shape[p[k]], out[I] = a[J] with J[p[k]] = I[k] *)
  Definition transpose_arr (p : list nat) (a : arr) : arr :=
    let osh := permute 0%nat (ashape a) p in
    mkArr osh (map (fun I => get a (permute 0%nat I (invperm p))) (indices osh)).

  Definition moveaxis (src dst : list Z) (a : arr) : res arr :=
    bind (moveaxis_perm (length (ashape a)) src dst) (fun p => Ok (transpose_arr p a)).

  Definition ma_mv (op : moveaxis_op) (x : list arr) : res (list arr) :=
    mapM (moveaxis (ma_src op) (ma_dst op)) x.

  (* reshape keeps the row-major data *)
  Definition reshape_arr (t : list Z) (a : arr) : res arr :=
    bind (jnp_reshape_shape (ashape a) t) (fun sh => Ok (mkArr sh (adata a))).

  Definition rv_mv_leaf (first last : Z) (a : arr) : res arr :=
    bind (rv_leaf_shape first last (ashape a)) (fun sh => Ok (mkArr sh (adata a))).

  Definition rr_mv_leaf (o : rr) (a : arr) : res arr :=
    match o with
    | RRavel o => rv_mv_leaf (rv_first o) (rv_last o) a
    | RReshape o => reshape_arr (rs_shape o) a
    end.

  (* ReshapeTransposeOperator.mv: leaf.reshape(out_structure_leaf.shape), leaf by leaf *)
  Definition rrT_mv (o : rr) (x : list arr) : res (list arr) :=
    mapM2 (fun a sh => reshape_arr (map Z.of_nat sh) a) x (rr_in o).

  Fixpoint apply (o : aop) (x : list arr) : res (list arr) :=
    match o with
    | OpMove m => ma_mv m x
    | OpRR o => mapM (rr_mv_leaf o) x
    | OpRRT o => rrT_mv o x
    | OpId _ => Ok x
    | OpComp l r => bind (apply r x) (apply l)
    end.

  Definition conforms (x : list arr) (s : list shape) : Prop :=
    map ashape x = s /\ Forall wf_arr x.

  (* flattened pytree: concatenation of the leaves' row-major data *)
  Definition flat (x : list arr) : list K := concat (map adata x).
End Values.
Arguments mkArr {K} ashape adata.
Arguments ashape {K} a.
Arguments adata {K} a.
Arguments wf_arr {K} a.

(* ------------------------------------------------------------------------------------------ *)
(* dense matrices *)
Section Matrix.
  Variable K : Type.
  Variables k0 k1 : K.

  Definition basis (n j : nat) : list K := map (fun i => if (i =? j)%nat then k1 else k0) (seq 0 n).
  (* jnp.eye(n) as the list of its rows *)
  Definition eye (n : nat) : list (list K) := map (basis n) (seq 0 n).
  Definition tree_size (s : list shape) : nat := fold_right (fun sh acc => (prod sh + acc)%nat) 0%nat s.

  (* AbstractRavelOrReshapeOperator.as_matrix: jnp.eye(self.in_size()) *)
  Definition rr_as_matrix (o : rr) : list (list K) := eye (tree_size (rr_in o)).

  (* a flat vector cut into the leaves of a structure *)
  Fixpoint unflat (s : list shape) (v : list K) : list (arr K) :=
    match s with
    | [] => []
    | sh :: s' => mkArr sh (firstn (prod sh) v) :: unflat s' (skipn (prod sh) v)
    end.

  (* AbstractLinearOperator.as_matrix: column j is the flattened image of the j-th basis vector *)
  Definition columns (f : list (arr K) -> res (list (arr K))) (s : list shape) : res (list (list K)) :=
    mapM (fun j => bind (f (unflat s (basis (tree_size s) j))) (fun y => Ok (flat K y)))
         (seq 0 (tree_size s)).
End Matrix.

(* ------------------------------------------------------------------------------------------ *)
(* observation functions evaluated by the correspondence harness (K := Z, arange-valued leaves) *)
Definition arange (sh : shape) : arr Z := mkArr sh (map Z.of_nat (seq 0 (prod sh))).
Definition datas (r : res (list (arr Z))) : res (list (shape * list Z)) :=
  bind r (fun ys => Ok (map (fun a => (ashape a, adata a)) ys)).
Definition rname (r : res aop) : res nat := bind r (fun o => Ok (class_name o)).

(* out_structure, op(x), op.T's structures, op.T(op(x)), (op.T @ op).reduce(), (op @ op.T).reduce(),
   op.reduce(), op(op.T(y)) for the arange-valued y of the out structure *)
Definition obs_op (o : aop) :=
  let x := map arange (match in_structure o with Ok s => s | Err _ => [] end) in
  let y := apply Z 0 o x in
  let t := transpose o in
  ( out_structure o,
    datas y,
    bind t (fun t => bind (in_structure t) (fun a => bind (out_structure t) (fun b => Ok (a, b)))),
    datas (bind t (fun t => bind y (apply Z 0 t))),
    rname (bind t (fun t => bind (matmul t o) reduce)),
    rname (bind t (fun t => bind (matmul o t) reduce)),
    rname (reduce1 o),
    datas (bind t (fun t => bind (out_structure o) (fun outs =>
           bind (apply Z 0 t (map arange outs)) (apply Z 0 o)))) ).

Definition obs_move (s d : axarg) (ins : list shape) :=
  bind (MoveAxis_ctor s d ins) (fun m =>
  Ok (ma_src m, ma_dst m,
      bind (ma_transpose m) (fun t => Ok (ma_src t, ma_dst t)),
      obs_op (OpMove m))).

(* left = MoveAxis(s2, d2) built on the out structure of right = MoveAxis(s1, d1):
   class of (left @ right).reduce() and left(right(x)) *)
Definition obs_move_pair (s1 d1 s2 d2 : list Z) (ins : list shape) :=
  let r := mkMove s1 d1 ins in
  bind (ma_out_structure r) (fun outs =>
  let l := mkMove s2 d2 outs in
  Ok (rname (bind (matmul (OpMove l) (OpMove r)) reduce),
      datas (bind (ma_mv Z 0 r (map arange ins)) (ma_mv Z 0 l)),
      out_structure (OpMove l))).

Definition obs_ravel (first last : Z) (ins : list shape) :=
  bind (Ravel_ctor 1 first last ins) (fun o => Ok (obs_op (OpRR (RRavel o)))).

Definition obs_reshape (t : list Z) (ins : list shape) :=
  bind (Reshape_ctor 1 t ins) (fun o => Ok (obs_op (OpRR (RReshape o)))).

(* same constructor arguments, two objects: oids 1 and 2 *)
Definition obs_distinct (mk : N -> res rr) :=
  bind (mk 1%N) (fun a => bind (mk 2%N) (fun b =>
  Ok (rname (bind (matmul (OpRRT b) (OpRR a)) reduce),
      rname (bind (matmul (OpRR a) (OpRRT b)) reduce),
      rname (bind (matmul (OpRRT a) (OpRR a)) reduce),
      rname (bind (matmul (OpRR a) (OpRRT a)) reduce)))).
Definition mk_ravel (first last : Z) (ins : list shape) (oid : N) : res rr :=
  bind (Ravel_ctor oid first last ins) (fun o => Ok (RRavel o)).
Definition mk_reshape (t : list Z) (ins : list shape) (oid : N) : res rr :=
  bind (Reshape_ctor oid t ins) (fun o => Ok (RReshape o)).

(* two different objects a (oid 1) and b (oid 2): class of (b.T @ a).reduce() and b.T(a(x)) *)
Definition obs_rr_pair (mka mkb : N -> res rr) :=
  bind (mka 1%N) (fun a => bind (mkb 2%N) (fun b =>
  Ok (rname (bind (matmul (OpRRT b) (OpRR a)) reduce),
      datas (bind (apply Z 0 (OpRR a) (map arange (rr_in a))) (apply Z 0 (OpRRT b)))))).
