(* C13 - observation functions for compositions of axis operators (definitions only; evaluated by the
   correspondence harness harness/c13.py with vm_compute).  They are glue over Model/Axes.v: nothing here
   is used by a theorem.

   Every observation of `(l @ r).reduce()` records what the reduced operator DOES next to what the
   unreduced composition does: the class of the reduced operator, the in / out structures of both and
   the values of both on the arange-valued input of the composition. *)
From Coq Require Import ZArith NArith List.
From Furax Require Import Model.Axes.
Import ListNotations.
Open Scope Z_scope.

(* c = l @ r (or the error raised by __matmul__):
   (class of c.reduce(), c.in_structure(), c.out_structure(), c(x),
    c.reduce().in_structure(), c.reduce().out_structure(), c.reduce()(x))   with x = arange on c's input *)
Definition obs_red (c : res aop) :=
  bind c (fun c =>
  bind (in_structure c) (fun ins =>
  let x := map arange ins in
  let r := reduce c in
  Ok (rname r,
      ins,
      out_structure c,
      datas (apply Z 0 c x),
      bind r in_structure,
      bind r out_structure,
      datas (bind r (fun r => apply Z 0 r x))))).

(* (op.T @ op) and (op @ op.T) *)
Definition red_pair (o : aop) :=
  let t := transpose o in
  (obs_red (bind t (fun t => matmul t o)), obs_red (bind t (fun t => matmul o t))).

Definition obs_move2 (s d : axarg) (ins : list shape) :=
  (obs_move s d ins, bind (MoveAxis_ctor s d ins) (fun m => Ok (red_pair (OpMove m)))).
Definition obs_ravel2 (first last : Z) (ins : list shape) :=
  (obs_ravel first last ins, bind (Ravel_ctor 1 first last ins) (fun o => Ok (red_pair (OpRR (RRavel o))))).
Definition obs_reshape2 (t : list Z) (ins : list shape) :=
  (obs_reshape t ins, bind (Reshape_ctor 1 t ins) (fun o => Ok (red_pair (OpRR (RReshape o))))).

(* operands of a two-operator composition: a plain ravel / reshape object, its lazy transpose, a move-axis
   operator; `oid` is the harness-assigned identity of the Python object (same oid = same object) *)
Definition mk_P (m : N -> res rr) (oid : N) : res aop := bind (m oid) (fun o => Ok (OpRR o)).
Definition mk_T (m : N -> res rr) (oid : N) : res aop := bind (m oid) (fun o => Ok (OpRRT o)).
Definition mk_move (s d : list Z) (ins : list shape) : res aop :=
  bind (MoveAxis_ctor (ASeq s) (ASeq d) ins) (fun m => Ok (OpMove m)).

(* the right operand is built first, then its out_structure() is taken (the left operand may be built on
   it), then the left operand, then l @ r *)
Definition obs_comp (mkr : res aop) (mkl : list shape -> res aop) :=
  bind mkr (fun r => bind (out_structure r) (fun ro => bind (mkl ro) (fun l =>
  obs_red (matmul l r)))).
