(* C10 - definitions used to state "block operators act as the block matrices of their blocks":
   nested containers of blocks and the tree maps of blocks.py written directly on them,
   flattened values, row-major dense matrices with hstack / vstack / block_diag, "f acts as the
   matrix M", the columns obtained from basis vectors, inner products, the inverse() of a
   block-diagonal operator that recurses into block-diagonal blocks, and sequences of .T / .I
   (`steps`: op.T.I, op.I.T, op.I.I ...).  Definitions only. *)
From Coq Require Import List Bool Arith ZArith NArith QArith Qcanon String Lia.
From Furax Require Import Base.Pytree Model.Op Model.Algebra Model.Denote Model.Exec.
Import ListNotations.
Set Implicit Arguments.
Local Close Scope Q_scope.
Local Close Scope Qc_scope.
Local Open Scope nat_scope.

(* one step of a sequence op.T.I, op.I.T, op.I.I ... *)
Inductive step := ST | SI.

Section BlockMat.
  Variable K : Type.
  Variables (k0 k1 : K) (kadd kmul : K -> K -> K).
  Notation op := (op K).
  Notation value := (value K).

  (* ---------- containers of blocks: the pytree handed to the constructors ---------- *)
  (* a bare operator is `Leaf e`; lists, tuples, dicts (children in sorted-key order) are `Node`s *)
  Definition container := pt op.
  Definition block_of (i : N) (b : bkind) (c : container) : op := Block i b (shape_of c) (flatten c).

  (* jax.tree.map(f, blocks, x, is_leaf=is-an-operator): x must have the container as a prefix *)
  Fixpoint tmap2 (f : op -> value -> option value) (c : container) (x : value) {struct c} : option value :=
    match c with
    | Leaf e => f e x
    | Node k cs =>
        match x with
        | Node k' xs =>
            if ckind_eqb k k' then
              option_map (Node k)
                ((fix go (cs : list container) (xs : list value) : option (list value) :=
                    match cs, xs with
                    | [], [] => Some []
                    | c :: cs', x :: xs' =>
                        match tmap2 f c x, go cs' xs' with
                        | Some y, Some ys => Some (y :: ys)
                        | _, _ => None
                        end
                    | _, _ => None
                    end) cs xs)
            else None
        | Leaf _ => None
        end
    end.
  (* jax.tree.map(f, blocks, is_leaf=is-an-operator) *)
  Fixpoint tmap1 (f : op -> option value) (c : container) : option value :=
    match c with
    | Leaf e => f e
    | Node k cs =>
        option_map (Node k)
          ((fix go (cs : list container) : option (list value) :=
              match cs with
              | [] => Some []
              | c :: cs' => match tmap1 f c, go cs' with
                            | Some y, Some ys => Some (y :: ys)
                            | _, _ => None
                            end
              end) cs)
    end.
  (* the leaves, in pytree-leaf order, of jax.tree.map(lambda op, leaf: (op, leaf), blocks, x) *)
  Fixpoint tzip (c : container) (x : value) {struct c} : option (list (op * value)) :=
    match c with
    | Leaf e => Some [(e, x)]
    | Node k cs =>
        match x with
        | Node k' xs =>
            if ckind_eqb k k' then
              (fix go (cs : list container) (xs : list value) : option (list (op * value)) :=
                 match cs, xs with
                 | [], [] => Some []
                 | c :: cs', x :: xs' =>
                     match tzip c x, go cs' xs' with
                     | Some a, Some b => Some (a ++ b)
                     | _, _ => None
                     end
                 | _, _ => None
                 end) cs xs
            else None
        | Leaf _ => None
        end
    end.

  (* ---------- flattened values and structures ---------- *)
  Definition vflat (x : value) : list K := List.concat (flatten x).
  Fixpoint hasS (x : value) (s : struct) : bool :=
    match x, s with
    | Leaf d, Leaf sd => Nat.eqb (List.length d) (leaf_size sd)
    | Node k cs, Node k' ss =>
        ckind_eqb k k' &&
        (fix go (l : list value) (l' : list struct) : bool :=
           match l, l' with
           | [], [] => true
           | a :: r, b :: r' => hasS a b && go r r'
           | _, _ => false
           end) cs ss
    | _, _ => false
    end.
  Fixpoint unflat (s : struct) (v : list K) : value * list K :=
    match s with
    | Leaf sd => (Leaf (firstn (leaf_size sd) v), skipn (leaf_size sd) v)
    | Node k ss =>
        let '(cs, r) :=
          (fix go (ss : list struct) (v : list K) : list value * list K :=
             match ss with
             | [] => ([], v)
             | s :: ss' => let '(c, r1) := unflat s v in let '(cs, r2) := go ss' r1 in (c :: cs, r2)
             end) ss v in
        (Node k cs, r)
    end.

  (* ---------- dense matrices: lists of rows ---------- *)
  Definition matrix := list (list K).
  Definition dotk (u v : list K) : K :=
    fold_right (fun p acc => kadd (kmul (fst p) (snd p)) acc) k0 (combine u v).
  Definition mv (m : matrix) (v : list K) : list K := map (fun row => dotk row v) m.
  Definition zeros (n : nat) : list K := repeat k0 n.
  (* numpy.hstack: rows are concatenated; all operands have the same number of rows *)
  Definition hstack2 (A B : matrix) : matrix := map (fun p => fst p ++ snd p) (combine A B).
  Definition hstack (Ms : list matrix) : matrix :=
    match Ms with [] => [] | M :: r => fold_left hstack2 r M end.
  (* numpy.vstack *)
  Definition vstack (Ms : list matrix) : matrix := List.concat Ms.
  (* scipy.linalg.block_diag; every block comes with its number of columns *)
  Definition total_width (Ms : list (matrix * nat)) : nat := fold_right (fun p acc => snd p + acc) 0 Ms.
  Fixpoint block_diag (Ms : list (matrix * nat)) : matrix :=
    match Ms with
    | [] => []
    | (A, wa) :: r =>
        map (fun row => row ++ zeros (total_width r)) A ++ map (fun row => zeros wa ++ row) (block_diag r)
    end.

  (* f is the linear map of matrix M between values of structures si and so *)
  Definition acts_as (f : value -> option value) (si so : struct) (M : matrix) : Prop :=
    Forall (fun row => List.length row = struct_size si) M /\
    List.length M = struct_size so /\
    forall x, hasS x si = true ->
      exists y, f x = Some y /\ hasS y so = true /\ vflat y = mv M (vflat x).

  (* the dense matrix read off basis vectors (pytree-leaf then row-major order): list of COLUMNS,
     as AbstractLinearOperator.as_matrix builds it and as Exec.mat computes it *)
  Definition basisk (n j : nat) : list K := map (fun i => if Nat.eqb i j then k1 else k0) (seq 0 n).
  Definition columns (f : value -> option value) (si : struct) : option (list (list K)) :=
    let n := struct_size si in
    omapl (fun j => option_map vflat (f (fst (unflat si (basisk n j))))) (seq 0 n).
  Definition column_of (M : matrix) (j : nat) : list K := map (fun row => nth j row k0) M.
  Definition columns_of (ncols : nat) (M : matrix) : list (list K) := map (column_of M) (seq 0 ncols).

  (* ---------- inner product of two values of the same structure ---------- *)
  Fixpoint vdot (a b : value) : K :=
    match a, b with
    | Leaf u, Leaf v => dotk u v
    | Node _ cs, Node _ cs' =>
        (fix go (l l' : list value) : K :=
           match l, l' with
           | x :: xs, y :: ys => kadd (vdot x y) (go xs ys)
           | _, _ => k0
           end) cs cs'
    | _, _ => k0
    end.
  Definition sumk (l : list K) : K := fold_right kadd k0 l.
  (* g is the adjoint of f wherever both apply *)
  Definition adjoint_pair (f g : value -> option value) : Prop :=
    forall x y fx gy, f x = Some fx -> g y = Some gy -> vdot fx y = vdot x gy.

  (* ---------- inverse() with BlockDiagonalOperator.inverse recursing into its blocks ---------- *)
  Variable keqb : K -> K -> bool.
  Variable kinv : K -> K.
  Fixpoint binv (fuel : nat) (order : list rule_id) (e : op) {struct e} : result op :=
    match e with
    | Block _ BDiag td l =>
        if forallb (@is_square K) l then
          l' <- (fix go (l : list op) : result (list op) :=
                   match l with
                   | [] => Ok []
                   | x :: xs => y <- binv fuel order x ;; ys <- go xs ;; Ok (y :: ys)
                   end) l ;;
          Ok (Block fresh BDiag td l')
        else inverse keqb k1 kmul kinv fuel order e
    | _ => inverse keqb k1 kmul kinv fuel order e
    end.

  (* sequences of .T / .I applied from left to right: steps [ST; SI] e is e.T.I *)
  Fixpoint steps (fuel : nat) (order : list rule_id) (s : list step) (e : op) : result op :=
    match s with
    | [] => Ok e
    | ST :: r => steps fuel order r (transpose e)
    | SI :: r => e' <- binv fuel order e ;; steps fuel order r e'
    end.
  (* every list of blocks met by an inverse along the sequence is a list of square blocks *)
  Fixpoint square_along (fuel : nat) (order : list rule_id) (s : list step) (l : list op) : Prop :=
    match s with
    | [] => True
    | ST :: r => square_along fuel order r (map (@transpose K) l)
    | SI :: r => forallb (@is_square K) l = true /\
                 forall l', mapM (binv fuel order) l = Ok l' -> square_along fuel order r l'
    end.
  Definition oid_after (s : list step) (i : N) : N := match s with [] => i | _ => fresh end.

  (* what the block constructors require of the blocks *)
  Definition shared_ok (b : bkind) (l : list op) : Prop :=
    match b with
    | BRow => forall x, In x l -> out_struct x = out_struct (hd x l)
    | BCol => forall x, In x l -> in_struct x = in_struct (hd x l)
    | BDiag => True
    end.
End BlockMat.

(* ---------- executable observations for the correspondence harness (K = Qc) ---------- *)
Definition show_value (x : xvalue) : pt (list (Z * Z)) := pmap (map (fun k => qpair (this k))) x.
Definition obs_mv (tb : table) (e : xop) (x : xvalue) : option (pt (list (Z * Z))) :=
  option_map show_value (den tb e x).
Definition x_binv (order : list rule_id) := binv k1 Qcmult keqb Qcinv alg_fuel order.
Definition x_mk_block := @mk_block K.
(* matrix, as list of rows, of an operator; hstack/vstack/block_diag of the blocks' matrices *)
Definition x_rows (tb : table) (e : xop) : option (list (list K)) :=
  option_map (fun cols => columns_of k0 (struct_size (out_struct e)) cols)
    (columns k0 k1 (den tb e) (in_struct e)).
Definition qrows (m : list (list K)) : list (list (Z * Z)) := map (map (fun k => qpair (this k))) m.
Definition x_stacked (tb : table) (b : bkind) (l : list xop) : option (list (list (Z * Z))) :=
  option_map (fun Ms =>
      qrows match b with
            | BRow => hstack Ms
            | BCol => vstack Ms
            | BDiag => block_diag k0 (combine Ms (map (fun e => struct_size (in_struct e)) l))
            end)
    (omapl (x_rows tb) l).
(* op.T.I, op.I.T, ... of the correspondence harness *)
Definition x_steps (order : list rule_id) := steps k1 Qcmult keqb Qcinv alg_fuel order.
