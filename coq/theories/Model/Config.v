(* Model of furax/_base/config.py (Config, ConfigState, _config_var) and of the capture of the
   active configuration by InverseOperator.__init__ (furax/_base/core.py), and of what happens to
   the captured configuration AFTER the creation: embedding in expressions + reduce(), pytree round
   trips, .I.I, application eagerly / under jit (closed over or passed as an argument, where the
   configuration is a static pytree field compared by ConfigState.__eq__) / through as_matrix.
   Definitions only. *)
From Coq Require Import ZArith List Bool Arith.
Import ListNotations.
Open Scope Z_scope.

(* ConfigState: the four settings; values are abstracted to identifiers (Z) *)
Record cfg := mkCfg { c_solver : Z; c_throw : Z; c_options : Z; c_callback : Z }.
Inductive setting := SSolver | SThrow | SOptions | SCallback.
Definition kw := list (setting * Z).

(* dataclasses.replace(config, kwargs) *)
Definition set1 (c : cfg) (p : setting * Z) : cfg :=
  match fst p with
  | SSolver => mkCfg (snd p) (c_throw c) (c_options c) (c_callback c)
  | SThrow => mkCfg (c_solver c) (snd p) (c_options c) (c_callback c)
  | SOptions => mkCfg (c_solver c) (c_throw c) (snd p) (c_callback c)
  | SCallback => mkCfg (c_solver c) (c_throw c) (c_options c) (snd p)
  end.
Definition replace (c : cfg) (k : kw) : cfg := fold_left set1 k c.

(* the module-level default ConfigState() *)
Definition default_cfg : cfg := mkCfg 0 0 0 0.

(* ConfigState.__eq__ (dataclass-generated: the tuples of ALL the fields are compared; the harness
   ties this to the dataclass parameters and field flags of the real class on every run).  It is
   what JAX's jit cache uses to compare the static field InverseOperator.config. *)
Definition cfg_eqb (a b : cfg) : bool :=
  (c_solver a =? c_solver b) && (c_throw a =? c_throw b) &&
  (c_options a =? c_options b) && (c_callback a =? c_callback b).

(* The cache of the jitted function number fn, `jitted_fn(operator, x) = operator(x)`: one entry
   per configuration it has been traced with (the configuration is part of the tree structure
   of the argument: a static field).  A call whose operator carries a configuration EQUAL (eqb)
   to a cached one runs the computation traced for the cached one.  [The structure of the
   expression is part of the key as well; it is left out here: it can only make hits rarer.] *)
Definition jit_lookup (eqb : cfg -> cfg -> bool) (fn : nat) (c : cfg) (cache : list (nat * cfg))
  : option cfg :=
  option_map snd (find (fun p => Nat.eqb (fst p) fn && eqb c (snd p)) cache).
(* what the cache would do if ConfigState.__eq__ ignored solver_options (compare=False) *)
Definition eqb_ignoring_options (a b : cfg) : bool :=
  (c_solver a =? c_solver b) && (c_throw a =? c_throw b) && (c_callback a =? c_callback b).

(* One thread / context: the value of the context variable, the tokens held by the `with`
   statements that are open (innermost first: token.old_value), the configurations captured
   by the lazy inverses created so far and by the objects derived from them (in creation order),
   the cache of the jitted functions the history owns, and the Config OBJECTS built so far and kept
   ("presets", in build order): of such an object only `_instance` matters - the configuration
   computed by Config.__init__ = replace(configuration active at BUILD time, kwargs).
   [The stack discipline does not care whether two frames come from the same Config object: the model
   follows the code with fixes/C19-config-reentrant.diff (tokens of the open blocks kept per context).
   The pinned form keeps ONE token per object (`self.token`): there a Config object entered again while
   its block is open - in any thread - makes the outer exit raise; the harness generates such histories
   when the code has the fixed form or the fix is on record in KNOWN_FINDINGS.txt.] *)
Record tstate := mkT { cur : cfg; stack : list cfg; invs : list cfg; jcache : list (nat * cfg);
                        presets : list cfg }.
Definition init : tstate := mkT default_cfg [] [] [] [].

(* Ways of deriving a new object from object number i (a lazy inverse or an expression holding one):
   DReduce     an expression holding it is built (the object alone, compositions on either side,
               scalar multiple, sum, block diagonal / column / row) and .reduce() is called:
               AbstractLinearOperator.reduce is `return self` for the lazy inverse, the containers
               rebuild themselves around the SAME inverse object;
   DRoundTrip  jax.tree.unflatten(jax.tree.flatten(object)): equinox rebuilds the module without
               calling __init__, the static field `config` travels in the tree structure;
   DInvInv     inverse.I.I: `.I` of the lazy inverse is its operand (AbstractLazyInverseOperator.inverse),
               whose `.I` is a NEW lazy inverse: it captures the configuration active now. *)
Inductive derivation := DReduce | DRoundTrip | DInvInv.
(* Ways of applying object number i to a vector *)
Inductive route :=
| REager                (* object(y) *)
| RJitClosure           (* jax.jit(lambda v: object(v))(y): a fresh jitted function closing over it *)
| RJitArg (fn : nat)    (* jitted_fn(object, y): passed as an ARGUMENT to the history's jitted function fn *)
| RMatrix.              (* (object @ column(y)).as_matrix(): the generic as_matrix (fori_loop over mv) *)

Inductive event :=
| Enter (k : kw)        (* with Config(kwargs k): Config.__init__ then __enter__ *)
| Exit                  (* __exit__(None, None, None) *)
| ExitExc               (* __exit__(exc_type, exc, tb): same code path, the exception propagates *)
| NewInverse            (* InverseOperator(op): stores Config.instance() *)
| ApplyInverse (i : nat) (* inverse number i is applied: which configuration does it use? *)
| Read                  (* Config.instance() *)
| Derive (d : derivation) (i : nat)  (* a new object is derived from object i, under the active configuration *)
| ApplyVia (r : route) (i : nat)     (* object number i is applied through route r *)
| Build (k : kw)        (* p = Config(kwargs k): Config.__init__ ALONE, under the active configuration; the object
                           is kept as the next preset *)
| EnterP (i : nat).     (* with p_i: __enter__ of preset i - built earlier, possibly under another configuration *)

Definition step (s : tstate) (e : event) : tstate * option cfg :=
  match e with
  | Enter k => (mkT (replace (cur s) k) (cur s :: stack s) (invs s) (jcache s) (presets s), None)
  | Exit | ExitExc =>
      match stack s with
      | old :: st => (mkT old st (invs s) (jcache s) (presets s), None)
      | [] => (s, None)   (* no open block: excluded by well-nestedness *)
      end
  | NewInverse => (mkT (cur s) (stack s) (invs s ++ [cur s]) (jcache s) (presets s), None)
  | ApplyInverse i => (s, nth_error (invs s) i)
  | Read => (s, Some (cur s))
  | Derive d i =>
      match nth_error (invs s) i with
      | Some c =>
          (mkT (cur s) (stack s)
               (invs s ++ [match d with DInvInv => cur s | DReduce | DRoundTrip => c end]) (jcache s)
               (presets s),
           None)
      | None => (s, None)   (* no such object: nothing is derived *)
      end
  | ApplyVia r i =>
      match nth_error (invs s) i with
      | None => (s, None)
      | Some c =>
          match r with
          | RJitArg fn =>
              match jit_lookup cfg_eqb fn c (jcache s) with
              | Some c' => (s, Some c')   (* cache hit: the computation traced for c' runs *)
              | None => (mkT (cur s) (stack s) (invs s) (jcache s ++ [(fn, c)]) (presets s), Some c)
              end
          | REager | RJitClosure | RMatrix => (s, Some c)
          end
      end
  | Build k =>
      (* Config.__init__: self._instance = replace(_config_var.get(), **kwargs); nothing is entered *)
      (mkT (cur s) (stack s) (invs s) (jcache s) (presets s ++ [replace (cur s) k]), None)
  | EnterP i =>
      (* Config.__enter__: self.token = _config_var.set(self._instance) - the token holds the value active NOW *)
      match nth_error (presets s) i with
      | Some c => (mkT c (cur s :: stack s) (invs s) (jcache s) (presets s), None)
      | None => (s, None)   (* no such object: excluded by well-nestedness *)
      end
  end.

Fixpoint run (s : tstate) (h : list event) : tstate * list (option cfg) :=
  match h with
  | [] => (s, [])
  | e :: h' => let (s1, o) := step s e in let (s2, os) := run s1 h' in (s2, o :: os)
  end.
Definition final (s : tstate) (h : list event) : tstate := fst (run s h).
Definition observe (s : tstate) (h : list event) : list (option cfg) := snd (run s h).

(* bookkeeping of open blocks (innermost first): a block opened by `with Config(k)` or by `with p_i`.
   np = number of presets built so far.  None = an exit without a matching enter, or a preset
   entered before it is built. *)
Inductive blk := BKw (k : kw) | BPre (i : nat).
Fixpoint track (np : nat) (h : list event) (ks : list blk) : option (list blk) :=
  match h with
  | [] => Some ks
  | Enter k :: h' => track np h' (BKw k :: ks)
  | EnterP i :: h' => if Nat.ltb i np then track np h' (BPre i :: ks) else None
  | Build _ :: h' => track (S np) h' ks
  | (Exit | ExitExc) :: h' => match ks with _ :: ks' => track np h' ks' | [] => None end
  | _ :: h' => track np h' ks
  end.
Definition well_nested (np : nat) (h : list event) : Prop := track np h [] = Some [].
(* the configuration the open blocks ks (innermost first) make active over `base`, given the presets
   ps: an inline block overrides what is active around it; a preset block makes the preset's own
   instance active, whatever is around it *)
Fixpoint active (ps : list cfg) (base : cfg) (ks : list blk) : cfg :=
  match ks with
  | [] => base
  | BKw k :: ks' => replace (active ps base ks') k
  | BPre i :: ks' => match nth_error ps i with Some c => c | None => active ps base ks' end
  end.

(* Provenance: for every object (in creation order) the position in the history of the creation
   event its configuration must come from - the NewInverse it descends from through any chain of
   reductions / round trips, or the `.I.I` that made a new lazy inverse. *)
Definition pstep (st : nat * list nat) (e : event) : nat * list nat :=
  let (n, acc) := st in
  (S n,
   match e with
   | NewInverse => acc ++ [n]
   | Derive d i =>
       match nth_error acc i with
       | Some p => acc ++ [match d with DInvInv => n | DReduce | DRoundTrip => p end]
       | None => acc
       end
   | _ => acc
   end).
Definition prov (h : list event) : list nat := snd (fold_left pstep h (0%nat, [])).

(* Several threads / contexts: each has its own binding of the context variable.
   Fork t t' : context t' starts as a copy of context t (contextvars.copy_context); the Config objects
               thread t has built so far are handed to it;
   Hand t t' : a new thread t' (threading.Thread: a fresh context, the defaults) is handed the Config
               objects thread t has built so far;
   Spawn t   : a new thread with nothing handed over starts from `init`. *)
Inductive gevent := Ev (t : nat) (e : event) | Fork (t t' : nat) | Spawn (t : nat) | Hand (t t' : nat).
Definition gstate := nat -> tstate.
Definition upd (g : gstate) (t : nat) (s : tstate) : gstate :=
  fun t' => if Nat.eqb t' t then s else g t'.
Definition gstep (g : gstate) (e : gevent) : gstate * option (nat * option cfg) :=
  match e with
  | Ev t e => let (s, o) := step (g t) e in (upd g t s, Some (t, o))
  | Fork t t' => (upd g t' (mkT (cur (g t)) [] [] [] (presets (g t))), None)
  | Spawn t => (upd g t init, None)
  | Hand t t' => (upd g t' (mkT default_cfg [] [] [] (presets (g t))), None)
  end.
Fixpoint grun (g : gstate) (l : list gevent) : gstate * list (nat * option cfg) :=
  match l with
  | [] => (g, [])
  | e :: l' =>
      let (g1, o) := gstep g e in
      let (g2, os) := grun g1 l' in
      (g2, match o with Some x => x :: os | None => os end)
  end.
Fixpoint project (t : nat) (l : list gevent) : list event :=
  match l with
  | [] => []
  | Ev t' e :: l' => if Nat.eqb t' t then e :: project t l' else project t l'
  | _ :: l' => project t l'
  end.
Fixpoint obs_of (t : nat) (os : list (nat * option cfg)) : list (option cfg) :=
  match os with
  | [] => []
  | (t', o) :: os' => if Nat.eqb t' t then o :: obs_of t os' else obs_of t os'
  end.
Definition touches (t : nat) (e : gevent) : bool :=
  match e with
  | Ev t' _ => Nat.eqb t' t
  | Fork _ t' => Nat.eqb t' t
  | Spawn t' => Nat.eqb t' t
  | Hand _ t' => Nat.eqb t' t
  end.

(* The EFFECT of a captured configuration on `inverse(y)` (core.py, InverseOperator.mv):
     solution = lx.linear_solve(A, y, solver=self.config.solver, throw=self.config.solver_throw,
                                options=self.config.solver_options [preconditioner tagged])
     jax.debug.callback(self.config.solver_callback, solution); return solution.value
   `fails s o` abstracts "the solve of the probed system by solver s under options o is not
   successful" (max_steps reached, breakdown).  lineax raises iff the solve is not successful and
   throw is set (any value but 0 = False); then no value is returned and the callback line is not
   reached.  Otherwise the value and the statistics handed to the callback are those of solver s
   under options o (identified by the harness against an independent reference solve), and
   callback k is the one that runs.  Every setting is read from the CAPTURED configuration c. *)
Inductive effect := Raised | Returned (solver options callback : Z).
Definition mv (fails : Z -> Z -> bool) (c : cfg) : effect :=
  if fails (c_solver c) (c_options c) && negb (c_throw c =? 0) then Raised
  else Returned (c_solver c) (c_options c) (c_callback c).
Definition all_fail : Z -> Z -> bool := fun _ _ => true.
Definition none_fail : Z -> Z -> bool := fun _ _ => false.
Definition effects (fails : Z -> Z -> bool) (os : list (option cfg)) : list (option effect) :=
  map (option_map (mv fails)) os.

(* printable observation for the correspondence harness *)
Definition eq_fields (a b : list Z) : bool :=
  match a, b with
  | [a1; a2; a3; a4], [b1; b2; b3; b4] => cfg_eqb (mkCfg a1 a2 a3 a4) (mkCfg b1 b2 b3 b4)
  | _, _ => false
  end.
Definition show_cfg (c : cfg) : list Z := [c_solver c; c_throw c; c_options c; c_callback c].
Definition show_obs (o : option cfg) : list Z := match o with Some c => show_cfg c | None => [] end.
Definition run_single (h : list event) : list (list Z) * list Z :=
  let (s, os) := run init h in (map show_obs os, show_cfg (cur s)).
Definition run_global (l : list gevent) : list (nat * list Z) :=
  map (fun p => (fst p, show_obs (snd p))) (snd (grun (fun _ => init) l)).

(* effect observation: every observed configuration together with its effect on a probe whose
   failing (solver, options) pairs are listed in `tbl`, and on a probe on which every solve fails *)
Definition show_effect (e : effect) : list Z :=
  match e with Raised => [] | Returned s o k => [s; o; k] end.
Definition in_tbl (tbl : list (Z * Z)) (s o : Z) : bool :=
  existsb (fun p => (fst p =? s) && (snd p =? o)) tbl.
Definition show_fx (tbl : list (Z * Z)) (o : option cfg) : list Z * (list Z * list Z) :=
  match o with
  | Some c => (show_cfg c, (show_effect (mv (in_tbl tbl) c), show_effect (mv all_fail c)))
  | None => ([], ([], []))
  end.
Definition run_single_fx (tbl : list (Z * Z)) (h : list event)
  : list (list Z * (list Z * list Z)) * list Z :=
  let (s, os) := run init h in (map (show_fx tbl) os, show_cfg (cur s)).
