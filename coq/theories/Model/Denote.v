(* Denotation of operator expressions as partial functions on pytrees of flat arrays.
   `None` = the application would fail (structure mismatch).  Leaf-like operators (Prim, Wrap) get
   their meaning from `leafsem` (abstract here; Model/Exec.v gives the executable instance). *)
From Coq Require Import List Bool Arith ZArith NArith QArith String Lia.
From Furax Require Import Base.Pytree Model.Op Model.Algebra.
Import ListNotations.
Set Implicit Arguments.
Local Close Scope Q_scope.
Local Open Scope nat_scope.

Section Den.
  Variable K : Type.
  Variables (k0 k1 : K) (kadd kmul : K -> K -> K).
  Notation op := (op K).
  Definition value := pt (list K).

  Definition vscale (k : K) (x : value) : value := pmap (map (kmul k)) x.

  (* jax.tree.map(jnp.add, a, b): same container structure required *)
  Fixpoint vadd (a b : value) : option value :=
    match a, b with
    | Leaf u, Leaf v =>
        if Nat.eqb (List.length u) (List.length v)
        then Some (Leaf (map (fun p => kadd (fst p) (snd p)) (combine u v))) else None
    | Node k cs, Node k' cs' =>
        if ckind_eqb k k' then
          option_map (Node k)
            ((fix go (l l' : list value) : option (list value) :=
                match l, l' with
                | [], [] => Some []
                | x :: xs, y :: ys =>
                    match vadd x y, go xs ys with
                    | Some z, Some zs => Some (z :: zs)
                    | _, _ => None
                    end
                | _, _ => None
                end) cs cs')
        else None
    | _, _ => None
    end.

  Definition obind {A B} (o : option A) (f : A -> option B) : option B :=
    match o with Some a => f a | None => None end.
  Fixpoint omap2 {A B C} (f : A -> B -> option C) (l : list A) (l' : list B) : option (list C) :=
    match l, l' with
    | [], [] => Some []
    | x :: xs, y :: ys =>
        match f x y, omap2 f xs ys with
        | Some z, Some zs => Some (z :: zs)
        | _, _ => None
        end
    | _, _ => None
    end.
  Fixpoint omapl {A B} (f : A -> option B) (l : list A) : option (list B) :=
    match l with
    | [] => Some []
    | x :: xs => match f x, omapl f xs with Some y, Some ys => Some (y :: ys) | _, _ => None end
    end.
  (* functools.reduce(add, ys) *)
  Definition vsum (ys : list value) : option value :=
    match ys with
    | [] => None
    | y :: r => fold_left (fun acc z => obind acc (fun a => vadd a z)) r (Some y)
    end.

  Variable leafsem : op -> value -> option value.

  Fixpoint denote (e : op) (x : value) {struct e} : option value :=
    match e with
    | Prim _ _ _ _ _ | Wrap _ _ _ => leafsem e x
    | Ident _ _ => Some x
    | Homoth _ k _ => Some (vscale k x)
    | Comp _ l =>
        (fix go (l : list op) (x : value) : option value :=
           match l with
           | [] => Some x
           | e :: r => obind (go r x) (denote e)
           end) l x
    | AddOp _ l =>
        obind ((fix go (l : list op) : option (list value) :=
                  match l with
                  | [] => Some []
                  | e :: r => match denote e x, go r with
                              | Some y, Some ys => Some (y :: ys)
                              | _, _ => None
                              end
                  end) l) vsum
    | Block _ b td l =>
        if negb (Nat.eqb (List.length l) (nleaves td)) then None else
        match b with
        | BDiag =>
            obind (split_prefix td x) (fun xs =>
            option_map (fun ys => build x td ys)
              ((fix go (l : list op) (xs : list value) : option (list value) :=
                  match l, xs with
                  | [], [] => Some []
                  | e :: r, x :: xr => match denote e x, go r xr with
                                       | Some y, Some ys => Some (y :: ys)
                                       | _, _ => None
                                       end
                  | _, _ => None
                  end) l xs))
        | BCol =>
            option_map (fun ys => build x td ys)
              ((fix go (l : list op) : option (list value) :=
                  match l with
                  | [] => Some []
                  | e :: r => match denote e x, go r with
                              | Some y, Some ys => Some (y :: ys)
                              | _, _ => None
                              end
                  end) l)
        | BRow =>
            obind (split_prefix td x) (fun xs =>
            obind ((fix go (l : list op) (xs : list value) : option (list value) :=
                  match l, xs with
                  | [], [] => Some []
                  | e :: r, x :: xr => match denote e x, go r xr with
                                       | Some y, Some ys => Some (y :: ys)
                                       | _, _ => None
                                       end
                  | _, _ => None
                  end) l xs) vsum)
        end
    end.

  (* the same, stated with the list combinators (proved equal in Lemmas/DenoteL.v) *)
  Definition chain (l : list op) (x : value) : option value :=
    fold_right (fun e acc => obind acc (denote e)) (Some x) l.
End Den.
