(* Model of furax/_base/diagonal.py: BroadcastDiagonalOperator, DiagonalOperator, DiagonalInverseOperator.
   Definitions only (proofs: Lemmas/DiagonalL.v).

   Conventions (those of Model/Axes.v, which is imported read-only):
   * a pytree is the list of its leaves in jax.tree.leaves order; a leaf structure is its shape;
   * an array is (shape, row-major data); Python exceptions are values `Err kind`;
   * the JAX primitives used by the code are given their specification: jnp.moveaxis and Array.reshape
     as in Model/Axes.v (moveaxis_perm / transpose_arr; reshape keeps the row-major data),
     jnp.broadcast_shapes and the broadcasting product `a * b` below (NumPy's rule: shapes are
     right-aligned, i.e. the shorter one is padded with 1 on the left; two sizes are compatible iff they
     are equal or one of them is 1; a unit axis is read at index 0).
   * `n * (1,)` with n < 0 is the empty tuple in Python: truncated subtraction on nat. *)
From Coq Require Import ZArith NArith QArith List Bool.
From Furax Require Import Model.Axes.
Import ListNotations.
Open Scope Z_scope.

(* BroadcastDiagonalOperator | DiagonalOperator (DiagonalInverseOperator is a DiagonalOperator) *)
Inductive dclass := DBroadcast | DStrict.

(* the `diagonal` argument: an array of some shape (rank 0: a scalar array), or anything that is not
   a pytree leaf (dict, list, tuple, None, ...) *)
Inductive dvals := VLeaf (vs : shape) | VTree.

(* ------------------------------------------------------------------------------------------ *)
(* __init__: axis_destination *)

(* tuple(range(a, a + nd))            if a >= 0
   tuple(range(a - nd + 1, a + 1))    if a < 0 *)
Definition scalar_axes (nd : nat) (a : Z) : list Z :=
  if 0 <=? a then map (fun k => a + Z.of_nat k) (seq 0 nd)
  else map (fun k => a - Z.of_nat nd + 1 + Z.of_nat k) (seq 0 nd).

Definition axis_tuple (nd : nat) (a : axarg) : list Z :=
  match a with AInt a => scalar_axes nd a | ASeq l => l end.

(* ------------------------------------------------------------------------------------------ *)
(* _normalize_axes: axis if axis >= 0 else len(shape) + axis; duplicates (after normalisation) raise *)
Fixpoint has_dup (l : list Z) : bool :=
  match l with
  | [] => false
  | a :: l' => existsb (Z.eqb a) l' || has_dup l'
  end.

Definition normalize_axes (axes : list Z) (r : nat) : res (list Z) :=
  let ax := map (norm_axis r) axes in
  if has_dup ax then Err ValueError else Ok ax.

(* left_broadcast_dimensions  = -min(0, min(axes))
   right_broadcast_dimensions = max(0, max(axes) - input_leaf_ndim + 1)
   (min(()) / max(()) raise ValueError) *)
Definition lr_dims (ax : list Z) (r : nat) : res (nat * nat) :=
  match ax with
  | [] => Err ValueError
  | a :: l => Ok (Z.to_nat (- Z.min 0 (fold_right Z.min a l)),
                  Z.to_nat (Z.max 0 (fold_right Z.max a l - Z.of_nat r + 1)))
  end.

Definition ones (n : nat) : shape := repeat 1%nat n.

(* self._diagonal.shape + (left + right + input_leaf_ndim - self._diagonal.ndim) * (1,) *)
Definition diag_padded_shape (vs : shape) (L R r : nat) : shape :=
  vs ++ ones (L + R + r - length vs)%nat.

(* ------------------------------------------------------------------------------------------ *)
(* jnp.broadcast_shapes *)
Definition bc1 (a b : nat) : res nat :=
  if (a =? b)%nat then Ok a else if (a =? 1)%nat then Ok b else if (b =? 1)%nat then Ok a
  else Err ValueError.
Definition pad_left (n : nat) (s : shape) : shape := ones (n - length s)%nat ++ s.
Definition broadcast_shapes (a b : shape) : res shape :=
  let n := Nat.max (length a) (length b) in mapM2 bc1 (pad_left n a) (pad_left n b).

(* ------------------------------------------------------------------------------------------ *)
(* _reshape_leaves on shapes: everything that is decided for one input leaf *)
Record plan := mkPlan {
  p_ax : list Z;        (* normalised axes *)
  p_L : nat;            (* left broadcast dimensions *)
  p_R : nat;            (* right broadcast dimensions *)
  p_perm : list nat;    (* the permutation of jnp.moveaxis(reshaped, range(len(axes)), axes + left) *)
  p_dshape : shape;     (* shape of the reshaped diagonal *)
  p_xshape : shape;     (* shape of the reshaped input leaf: leaf.shape + right * (1,) *)
  p_out : shape         (* jnp.broadcast_shapes(p_dshape, p_xshape) *)
}.

Definition leaf_plan (cls : dclass) (vs : shape) (axes : list Z) (sh : shape) : res plan :=
  let r := length sh in
  bind (normalize_axes axes r) (fun ax =>
  bind (lr_dims ax r) (fun lr =>
  let L := fst lr in
  let R := snd lr in
  let sh1 := diag_padded_shape vs L R r in
  bind (moveaxis_perm (length sh1) (map Z.of_nat (seq 0 (length ax)))
                      (map (fun a => a + Z.of_nat L) ax)) (fun p =>
  let dsh := permute 0%nat sh1 p in
  let xsh := sh ++ ones R in
  bind (broadcast_shapes dsh xsh) (fun out =>
  match cls with
  | DBroadcast => Ok (mkPlan ax L R p dsh xsh out)
  | DStrict =>                      (* _check_leaf_shapes of DiagonalOperator: shape != input_shape *)
      if shape_eqb out sh then Ok (mkPlan ax L R p dsh xsh out) else Err ValueError
  end)))).

Definition leaf_out (cls : dclass) (vs : shape) (axes : list Z) (sh : shape) : res shape :=
  bind (leaf_plan cls vs axes sh) (fun p => Ok (p_out p)).

(* ------------------------------------------------------------------------------------------ *)
(* the operator and its constructor *)
Record diag_op := mkDiag { d_cls : dclass; d_vshape : shape; d_axes : list Z; d_in : list shape }.

(* out_structure() = jax.eval_shape(self.mv, in_structure): leaf by leaf, the first error wins *)
Definition d_out_structure (op : diag_op) : res (list shape) :=
  mapM (leaf_out (d_cls op) (d_vshape op) (d_axes op)) (d_in op).

Definition Diag_ctor (cls : dclass) (v : dvals) (a : axarg) (ins : list shape) : res diag_op :=
  match v with
  | VTree => Err ValueError                            (* not is_leaf(diagonal) *)
  | VLeaf vs =>
      if (length vs =? 0)%nat then Err ValueError      (* diagonal.ndim == 0 *)
      else let op := mkDiag cls vs (axis_tuple (length vs) a) ins in
           bind (d_out_structure op) (fun _ => Ok op)  (* `_ = out_structure(self)`: check dimensions *)
  end.

(* ------------------------------------------------------------------------------------------ *)
(* values *)
Section DiagValues.
  Variable K : Type.
  Variable k0 : K.
  Variable kmul : K -> K -> K.

  (* index at which an array of shape s is read when broadcast to an array indexed by I *)
  Definition clip (n i : nat) : nat := if (n =? 1)%nat then 0%nat else i.
  Definition bidx (s : shape) (I : list nat) : list nat :=
    map (fun p => clip (fst p) (snd p)) (combine s (skipn (length I - length s) I)).

  (* jnp.broadcast_to(a, out) *)
  Definition broadcast_to (out : shape) (a : arr K) : arr K :=
    mkArr out (map (fun I => get K k0 a (bidx (ashape a) I)) (indices out)).

  (* a * b, both broadcast to `out` *)
  Definition mul_arr (out : shape) (a b : arr K) : arr K :=
    mkArr out (map (fun I => kmul (get K k0 a (bidx (ashape a) I)) (get K k0 b (bidx (ashape b) I)))
                   (indices out)).

  (* _reshape_diagonal: reshape (row-major data kept) then moveaxis *)
  Definition reshaped_diagonal (p : plan) (d : arr K) (r : nat) : arr K :=
    transpose_arr K k0 (p_perm p) (mkArr (diag_padded_shape (ashape d) (p_L p) (p_R p) r) (adata d)).

  (* func(input_leaf) of mv *)
  Definition mv_leaf (cls : dclass) (d : arr K) (axes : list Z) (x : arr K) : res (arr K) :=
    bind (leaf_plan cls (ashape d) axes (ashape x)) (fun p =>
    Ok (mul_arr (p_out p) (reshaped_diagonal p d (length (ashape x))) (mkArr (p_xshape p) (adata x)))).

  (* mv = jax.tree.map(func, x); d is the array returned by the `diagonal` property *)
  Definition diag_mv (op : diag_op) (d : arr K) (x : list (arr K)) : res (list (arr K)) :=
    mapM (mv_leaf (d_cls op) d (d_axes op)) x.

  (* DiagonalOperator.as_matrix: jnp.diag of the concatenation over the leaves of the in structure of
     broadcast_to(_reshape_diagonal(_normalize_axes(leaf.shape), leaf.ndim), leaf.shape).ravel().
     (as_matrix exists on DiagonalOperator only, whose constructor has run the strict check on every
     leaf; broadcast_to makes that same demand again) *)
  Definition diag_leaf_vector (d : arr K) (axes : list Z) (sh : shape) : res (list K) :=
    bind (leaf_plan DStrict (ashape d) axes sh) (fun p =>
    Ok (adata (broadcast_to sh (reshaped_diagonal p d (length sh))))).
  Definition diag_vector (op : diag_op) (d : arr K) : res (list K) :=
    bind (mapM (diag_leaf_vector d (d_axes op)) (d_in op)) (fun vs => Ok (concat vs)).
  Definition diag_of (v : list K) : list (list K) :=
    map (fun i => map (fun j => if (i =? j)%nat then nth i v k0 else k0) (seq 0 (length v)))
        (seq 0 (length v)).
  Definition diag_as_matrix (op : diag_op) (d : arr K) : res (list (list K)) :=
    bind (diag_vector op d) (fun v => Ok (diag_of v)).

  (* DiagonalInverseOperator.diagonal = jnp.where(self._diagonal != 0, 1 / self._diagonal, 0) *)
  Variable kis0 : K -> bool.
  Variable kinv : K -> K.
  Definition pinv (v : K) : K := if kis0 v then k0 else kinv v.
  Definition inverse_values (d : arr K) : arr K := mkArr (ashape d) (map pinv (adata d)).
End DiagValues.

(* DiagonalOperator.inverse() = DiagonalInverseOperator(self): DiagonalOperator.__init__ again on the
   same (already expanded) axis tuple and structures; only defined on the strict class *)
Definition Diag_inverse_ctor (op : diag_op) : res diag_op :=
  Diag_ctor DStrict (VLeaf (d_vshape op)) (ASeq (d_axes op)) (d_in op).

(* ------------------------------------------------------------------------------------------ *)
(* observation functions evaluated by the correspondence harness *)
Definition mk_leaves {K} (ins : list shape) (xs : list (list K)) : list (arr K) :=
  map (fun p => mkArr (fst p) (snd p)) (combine ins xs).

(* (axis_destination, out_structure, op(x), diagonal of as_matrix [strict only]) for integer data *)
Definition obs_diag (cls : dclass) (v : dvals) (dd : list Z) (a : axarg) (ins : list shape)
                    (xs : list (list Z)) :=
  bind (Diag_ctor cls v a ins) (fun op =>
  let d := mkArr (d_vshape op) dd in
  Ok (d_axes op, d_out_structure op, datas (diag_mv Z 0 Z.mul op d (mk_leaves ins xs)),
      match cls with DStrict => diag_vector Z 0 op d | DBroadcast => Ok [] end)).

Definition obs_both (v : dvals) (dd : list Z) (a : axarg) (ins : list shape) (xs : list (list Z)) :=
  (obs_diag DBroadcast v dd a ins xs, obs_diag DStrict v dd a ins xs).

(* DiagonalOperator(...).I over the rationals: (values of .I.diagonal, op.I(x), op.I(op(x))) *)
Definition Qis0 (q : Q) : bool := (Qnum q =? 0)%Z.
Definition qdatas (r : res (list (arr Q))) : res (list (shape * list Q)) :=
  bind r (fun ys => Ok (map (fun a => (ashape a, map Qred (adata a))) ys)).
Definition obs_inverse (vs : shape) (dd : list Q) (a : axarg) (ins : list shape) (xs : list (list Q)) :=
  bind (Diag_ctor DStrict (VLeaf vs) a ins) (fun op =>
  bind (Diag_inverse_ctor op) (fun iop =>
  let d := mkArr vs dd in
  let di := inverse_values Q 0%Q Qis0 Qinv d in
  let x := mk_leaves ins xs in
  Ok (map Qred (adata di),
      qdatas (diag_mv Q 0%Q Qmult iop di x),
      qdatas (bind (diag_mv Q 0%Q Qmult op d x) (diag_mv Q 0%Q Qmult iop di)),
      bind (diag_vector Q 0%Q iop di) (fun v => Ok (map Qred v))))).
