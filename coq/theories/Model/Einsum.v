(* Model of furax/_base/dense.py (DenseBlockDiagonalOperator): subscript parsing, the rewriting of
   the subscripts by transpose(), mv over one leaf / a pytree of leaves, and an executable
   semantics of two-operand explicit einsum.  Definitions only (proofs: Lemmas/EinsumL.v).

   Strings are Python strings seen as lists of characters: the code works on RAW characters
   (`list(lefts)`, `.index`) and only removes the substring '...' when it builds the letter sets. *)
From Coq Require Import ZArith List Bool Ascii String Arith.
Import ListNotations.
(* String.length shadows List.length after the imports above *)
Local Notation length := List.length (only parsing).

Definition str := list ascii.

Inductive errkind := ValueError | TypeError | OtherError.
Inductive result (A : Type) := Ok (a : A) | Err (e : errkind).
Arguments Ok {A}. Arguments Err {A}.

Definition c_comma : ascii := ","%char.
Definition c_dash : ascii := "-"%char.
Definition c_gt : ascii := ">"%char.
Definition c_dot : ascii := "."%char.
Definition c_space : ascii := " "%char.

(* ---------------------------------------------------------------------------------------- *)
(* Python string primitives used by dense.py *)

(* s.replace(' ', '') *)
Definition strip_spaces (s : str) : str := filter (fun a => negb (Ascii.eqb a c_space)) s.

Definition cons_head (a : ascii) (ps : list str) : list str :=
  match ps with h :: t => (a :: h) :: t | [] => [[a]] end.

(* s.split(c) for a one-character separator *)
Fixpoint split_on (c : ascii) (s : str) : list str :=
  match s with
  | [] => [[]]
  | a :: s' => if Ascii.eqb a c then [] :: split_on c s' else cons_head a (split_on c s')
  end.

(* s.split('->'): leftmost non-overlapping occurrences *)
Fixpoint split_arrow (s : str) : list str :=
  match s with
  | [] => [[]]
  | a :: s' =>
      match s' with
      | b :: s'' =>
          if Ascii.eqb a c_dash && Ascii.eqb b c_gt then [] :: split_arrow s''
          else cons_head a (split_arrow s')
      | [] => [[a]]
      end
  end.

(* s.replace('...', ''): leftmost non-overlapping occurrences *)
Fixpoint remove_ellipsis (s : str) : str :=
  match s with
  | [] => []
  | a :: s1 =>
      match s1 with
      | b :: c :: s3 =>
          if Ascii.eqb a c_dot && Ascii.eqb b c_dot && Ascii.eqb c c_dot then remove_ellipsis s3
          else a :: remove_ellipsis s1
      | _ => a :: remove_ellipsis s1
      end
  end.

Definition mem (c : ascii) (s : str) : bool := existsb (Ascii.eqb c) s.

(* the Python set  A & (B - C)  of characters (`-` binds tighter than `&`), as a duplicate-free list *)
Definition inter_diff (A B C : str) : str :=
  nodup ascii_dec (filter (fun c => mem c B && negb (mem c C)) A).

(* s.index(c) (the character is present wherever the code calls it: see EinsumL.index_of_lt) *)
Fixpoint index_of (c : ascii) (s : str) : nat :=
  match s with
  | [] => 0
  | a :: s' => if Ascii.eqb a c then 0 else S (index_of c s')
  end.

(* l = list(s); l[n] = c; ''.join(l) *)
Fixpoint set_nth (n : nat) (c : ascii) (s : str) : str :=
  match s, n with
  | [], _ => []
  | _ :: s', 0 => c :: s'
  | a :: s', S n' => a :: set_nth n' c s'
  end.

Definition replace_first (old new : ascii) (s : str) : str := set_nth (index_of old s) new s.

Fixpoint str_eqb (a b : str) : bool :=
  match a, b with
  | [], [] => true
  | x :: a', y :: b' => Ascii.eqb x y && str_eqb a' b'
  | _, _ => false
  end.

(* ---------------------------------------------------------------------------------------- *)
(* DenseBlockDiagonalOperator._parse_subscripts *)

Definition parse_subscripts (s : str) : result (str * str * str) :=
  match split_on c_comma s with
  | [l; rest] =>
      match split_arrow rest with
      | [r; o] => Ok (l, r, o)
      | _ => Err ValueError   (* 'Explicit mode (with `->) is required ...' *)
      end
  | _ => Err ValueError       (* 'There should be a single comma ...' *)
  end.

(* f'{lefts},{rights}->{results}' *)
Definition join_subscripts (l r o : str) : str := l ++ c_comma :: r ++ c_dash :: c_gt :: o.

(* ---------------------------------------------------------------------------------------- *)
(* DenseBlockDiagonalOperator._get_transposed_subscripts.
   `swap_left` is the only part touched by fix D1. *)

(* pinned tree (HEAD): position-based swap at the FIRST occurrences
     sum_axis_number = lefts.index(sum_axis); transpose_axis_number = lefts.index(transpose_axis)
     lefts_as_list[sum_axis_number] = transpose_axis; lefts_as_list[transpose_axis_number] = sum_axis *)
Definition swap_left_pinned (sa ta : ascii) (l : str) : str :=
  let ns := index_of sa l in
  let nt := index_of ta l in
  set_nth nt sa (set_nth ns ta l).

(* fixed tree (fixes/D1-dense-transposed-subscripts.diff): every occurrence is swapped
     ''.join(transpose_axis if c == sum_axis else sum_axis if c == transpose_axis else c for c in lefts) *)
Definition swap_chr (sa ta c : ascii) : ascii :=
  if Ascii.eqb c sa then ta else if Ascii.eqb c ta then sa else c.
Definition swap_left_fixed (sa ta : ascii) (l : str) : str := map (swap_chr sa ta) l.

Section Transposed.
  Variable swap_left : ascii -> ascii -> str -> str.

  Definition transposed_core (l r o : str) : result (str * str * str) :=
    let L := remove_ellipsis l in
    let R := remove_ellipsis r in
    let O := remove_ellipsis o in
    match inter_diff L R O with                 (* lefts_as_set & rights_as_set - results_as_set *)
    | [sa] =>
        match inter_diff L O R with             (* lefts_as_set & results_as_set - rights_as_set *)
        | [] => Err ValueError                  (* 'No transposition axis has been specified' *)
        | [ta] =>
            let l' := swap_left sa ta l in
            let expected := replace_first ta sa o in
            if str_eqb expected r then Ok (l', r, o)
            else Err ValueError                 (* 'The dimensions of the inputs cannot be reordered' *)
        | _ => Err ValueError                   (* 'Several transposition axes' *)
        end
    | _ => Err ValueError                       (* 'The summation should be performed in one axis' *)
    end.

  Definition transposed_gen (s : str) : result str :=
    match parse_subscripts s with
    | Err e => Err e
    | Ok (l, r, o) =>
        match transposed_core l r o with
        | Err e => Err e
        | Ok (l', r', o') => Ok (join_subscripts l' r' o')
        end
    end.
End Transposed.

(* the model of the code WITH fix D1 (what the check ties to the source) *)
Definition transposed_triple := transposed_core swap_left_fixed.
Definition transposed_subscripts := transposed_gen swap_left_fixed.
(* the model of the pinned tree, kept for the record of defect D1 (Props/C14.v: *_refuted) *)
Definition transposed_triple_pinned := transposed_core swap_left_pinned.
Definition transposed_subscripts_pinned := transposed_gen swap_left_pinned.

(* Specification vocabulary (used by the statements in Props/C14.v).  Letter sets are those Python
   builds: the characters that remain once every '...' has been removed. *)
Definition contracted (l r o : str) (c : ascii) : Prop :=   (* summed: in blocks and leaf, not in the output *)
  In c (remove_ellipsis l) /\ In c (remove_ellipsis r) /\ ~ In c (remove_ellipsis o).
Definition free_axis (l r o : str) (c : ascii) : Prop :=    (* free block axis: in blocks and output, not in the leaf *)
  In c (remove_ellipsis l) /\ In c (remove_ellipsis o) /\ ~ In c (remove_ellipsis r).
Definition no_dots (s : str) : Prop := ~ In c_dot s.
(* every dot of s belongs to a '...' group *)
Definition dots_wellformed (s : str) : Prop := ~ In c_dot (remove_ellipsis s).

(* DenseBlockDiagonalOperator.__init__: spaces removed, every block array has rank >= 2,
   the subscripts parse; the stored subscripts are the space-free string. *)
Definition ctor_subscripts (block_ranks : list nat) (s : str) : result str :=
  let s' := strip_spaces s in
  if forallb (fun n => 2 <=? n) block_ranks then
    match parse_subscripts s' with
    | Ok _ => Ok s'
    | Err e => Err e
    end
  else Err ValueError.

(* ---------------------------------------------------------------------------------------- *)
(* Arrays and the executable einsum semantics over a semiring (K, k0, kadd, kmul). *)

Definition prodn (l : list nat) : nat := fold_right Nat.mul 1 l.

(* row-major flat position of a multi-index *)
Fixpoint ravel (sh idx : list nat) : nat :=
  match sh, idx with
  | _ :: sh', i :: idx' => i * prodn sh' + ravel sh' idx'
  | _, _ => 0
  end.

(* all multi-indices of a shape, in row-major order *)
Fixpoint all_indices (sh : list nat) : list (list nat) :=
  match sh with
  | [] => [[]]
  | n :: sh' => flat_map (fun i => map (cons i) (all_indices sh')) (seq 0 n)
  end.

Fixpoint idx_eqb (a b : list nat) : bool :=
  match a, b with
  | [], [] => true
  | x :: a', y :: b' => Nat.eqb x y && idx_eqb a' b'
  | _, _ => false
  end.

Definition assignment := ascii -> nat.
Definition upd (sg : assignment) (c : ascii) (i : nat) : assignment :=
  fun c' => if Ascii.eqb c' c then i else sg c'.
Definition sg0 : assignment := fun _ => 0.

Definition letters (l r o : str) : str := nodup ascii_dec (l ++ r ++ o).

Section Semantics.
  Variable K : Type.
  Variable k0 : K.
  Variables kadd kmul : K -> K -> K.

  Record arr := mkArr { shape : list nat; data : list K }.

  Definition get (a : arr) (idx : list nat) : K := nth (ravel (shape a) idx) (data a) k0.

  Definition sum_list (l : list K) : K := fold_right kadd k0 l.
  Definition sum_n (n : nat) (f : nat -> K) : K := sum_list (map f (seq 0 n)).

  (* nested sum over all assignments of the letters V (dimension d c for letter c) *)
  Fixpoint nsum (V : str) (d : ascii -> nat) (F : assignment -> K) (sg : assignment) : K :=
    match V with
    | [] => F sg
    | c :: V' => sum_n (d c) (fun i => nsum V' d F (upd sg c i))
    end.

  (* einsum(l,r->o)(B, x)[J] = sum over the assignments sg of all letters with sg(o) = J
     of B[sg(l)] * x[sg(r)]                                                         *)
  Definition einsum_at (l r o : str) (d : ascii -> nat) (B x : arr) (J : list nat) : K :=
    nsum (letters l r o) d
      (fun sg => if idx_eqb (map sg o) J then kmul (get B (map sg l)) (get x (map sg r)) else k0)
      sg0.

  Definition einsum_d (l r o : str) (d : ascii -> nat) (B x : arr) : arr :=
    mkArr (map d o) (map (einsum_at l r o d B x) (all_indices (map d o))).

  (* flat inner product (jnp.vdot of the raveled arrays) *)
  Fixpoint dot_list (a b : list K) : K :=
    match a, b with
    | x :: a', y :: b' => kadd (kmul x y) (dot_list a' b')
    | _, _ => k0
    end.
  Definition dot (a b : arr) : K := dot_list (data a) (data b).

  (* an array is well formed when its data has one entry per multi-index *)
  Definition wf_arr (a : arr) : Prop := length (data a) = prodn (shape a).
  Definition wf_arrb (a : arr) : bool := Nat.eqb (length (data a)) (prodn (shape a)).

  (* -------- letter dimensions from the operand shapes (what einsum does) -------- *)
  Fixpoint lookup (c : ascii) (env : list (ascii * nat)) : option nat :=
    match env with
    | [] => None
    | (c', n) :: env' => if Ascii.eqb c c' then Some n else lookup c env'
    end.
  Definition dim_of (env : list (ascii * nat)) (c : ascii) : nat :=
    match lookup c env with Some n => n | None => 0 end.
  Definition shapes_ok (env : list (ascii * nat)) (l r o : str) (shB shx : list nat) : bool :=
    Nat.eqb (length l) (length shB) && Nat.eqb (length r) (length shx)
    && forallb (fun p => Nat.eqb (dim_of env (fst p)) (snd p)) env
    && forallb (fun c => match lookup c env with Some _ => true | None => false end) o.

  (* einsum for ellipsis-free subscripts: None = the shapes do not fit the subscripts
     (rank mismatch, a repeated letter with two sizes, an output letter bound by no operand) *)
  Definition einsum_plain (l r o : str) (B x : arr) : option arr :=
    let env := combine l (shape B) ++ combine r (shape x) in
    if shapes_ok env l r o (shape B) (shape x) && wf_arrb B && wf_arrb x
    then Some (einsum_d l r o (dim_of env) B x) else None.
End Semantics.

Arguments mkArr {K}. Arguments shape {K}. Arguments data {K}.

(* ---------------------------------------------------------------------------------------- *)
(* Ellipsis: tokens, and the expansion of '...' into fresh letters (right-aligned broadcast
   dimensions, as NumPy/JAX do), after which the plain semantics applies.  Broadcasting of
   size-1 ellipsis dimensions is NOT modelled (such shapes give None). *)

Inductive token := TL (c : ascii) | TEll.

Fixpoint tokenize (s : str) : option (list token) :=
  match s with
  | [] => Some []
  | a :: s1 =>
      if Ascii.eqb a c_dot then
        match s1 with
        | b :: c :: s3 =>
            if Ascii.eqb b c_dot && Ascii.eqb c c_dot
            then option_map (cons TEll) (tokenize s3) else None
        | _ => None
        end
      else option_map (cons (TL a)) (tokenize s1)
  end.

Definition is_ell (t : token) : bool := match t with TEll => true | _ => false end.
Definition count_ell (ts : list token) : nat := length (filter is_ell ts).

(* fresh letters for the ellipsis dimensions: bytes 128.. (never valid einsum letters) *)
Definition ell_letters (m : nat) : str := map (fun k => ascii_of_nat (128 + k)) (seq 0 m).

(* rank of the ellipsis of an operand of rank n with subscript tokens ts (None: rank mismatch) *)
Definition ell_rank (ts : list token) (n : nat) : option nat :=
  match count_ell ts with
  | 0 => if Nat.eqb (length ts) n then Some 0 else None
  | 1 => if length ts - 1 <=? n then Some (n - (length ts - 1)) else None
  | _ => None
  end.

Definition expand (ts : list token) (e m : nat) : str :=
  flat_map (fun t => match t with TL c => [c] | TEll => skipn (m - e) (ell_letters m) end) ts.

Section SemanticsEll.
  Variable K : Type.
  Variable k0 : K.
  Variables kadd kmul : K -> K -> K.

  (* jnp.einsum(l,r->o, B, x) for operands whose ellipsis dimensions agree where both have them *)
  Definition einsum (l r o : str) (B x : arr K) : option (arr K) :=
    match tokenize l, tokenize r, tokenize o with
    | Some tl, Some tr, Some to =>
        match ell_rank tl (length (shape B)), ell_rank tr (length (shape x)) with
        | Some eB, Some ex =>
            let m := Nat.max eB ex in
            (* at most 64 ellipsis dimensions (NumPy/JAX allow fewer): the fresh letters stay
               distinct from each other and from 7-bit characters *)
            if (count_ell to <=? 1) && (m <=? 64) then
              einsum_plain K k0 kadd kmul (expand tl eB m) (expand tr ex m) (expand to m m) B x
            else None
        | _, _ => None
        end
    | _, _, _ => None
    end.

  (* DenseBlockDiagonalOperator.mv on the flattened leaves of x:
     one shared block array, or one block array per leaf (jax.tree.map over both trees) *)
  Inductive blocks := Shared (B : arr K) | PerLeaf (Bs : list (arr K)).

  Fixpoint map2o (f : arr K -> arr K -> option (arr K)) (Bs xs : list (arr K)) : option (list (arr K)) :=
    match Bs, xs with
    | [], [] => Some []
    | B :: Bs', x :: xs' =>
        match f B x, map2o f Bs' xs' with
        | Some y, Some ys => Some (y :: ys)
        | _, _ => None
        end
    | _, _ => None       (* tree structures differ: jax.tree.map raises *)
    end.

  Definition mv (l r o : str) (bl : blocks) (xs : list (arr K)) : option (list (arr K)) :=
    match bl with
    | Shared B => map2o (einsum l r o) (map (fun _ => B) xs) xs
    | PerLeaf Bs => map2o (einsum l r o) Bs xs
    end.
  (* inner product of two pytrees with the same structure: the sum over the leaves *)
  Fixpoint dot_leaves (us vs : list (arr K)) : K :=
    match us, vs with
    | u :: us', v :: vs' => kadd (dot K k0 kadd kmul u v) (dot_leaves us' vs')
    | _, _ => k0
    end.
End SemanticsEll.

Arguments Shared {K}. Arguments PerLeaf {K}.

(* ---------------------------------------------------------------------------------------- *)
(* Executable instances used by the correspondence harness (harness/c14.py) *)

Definition s2l := list_ascii_of_string.
Definition l2s := string_of_list_ascii.

Definition show_res (r : result str) : result string :=
  match r with Ok s => Ok (l2s s) | Err e => Err e end.

Definition transposed_s (s : string) : result string := show_res (transposed_subscripts (s2l s)).
Definition transposed_pinned_s (s : string) : result string :=
  show_res (transposed_subscripts_pinned (s2l s)).
Definition ctor_s (ranks : list nat) (s : string) : result string :=
  show_res (ctor_subscripts ranks (s2l s)).

Definition arrZ := arr Z.
Definition mkZ (sh : list nat) (dat : list Z) : arrZ := mkArr sh dat.
Definition einsumZ := einsum Z 0%Z Z.add Z.mul.
Definition mvZ := mv Z 0%Z Z.add Z.mul.

Definition parse3 (s : string) : option (str * str * str) :=
  match parse_subscripts (s2l s) with Ok t => Some t | Err _ => None end.

Definition show_arrs (o : option (list arrZ)) : option (list (list nat * list Z)) :=
  option_map (map (fun a => (shape a, data a))) o.

(* op = DenseBlockDiagonalOperator(blocks, structure of xs, s):
   (op.mv(xs), op.T.subscripts, op.T.mv(ys)) *)
Definition observe_op (s : string) (bl : blocks Z) (xs ys : list arrZ) :=
  match parse3 s with
  | None => None
  | Some (l, r, o) =>
      let fwd := show_arrs (mvZ l r o bl xs) in
      match transposed_triple l r o with
      | Err e => Some (fwd, Err e, None)
      | Ok (l', r', o') =>
          Some (fwd, Ok (l2s (join_subscripts l' r' o')), show_arrs (mvZ l' r' o' bl ys))
      end
  end.
