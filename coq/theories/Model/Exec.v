(* Executable instance of the model over canonical rationals (Qc): leaf operators act through
   dense matrices supplied by the harness (measured on the real code) or, for the classes the rules
   can create (QU rotation, its transpose, HWP, polariser, 1-d diagonal, lazy transposes), through
   their own definitions.  Used by the correspondence harness (vm_compute). *)
From Coq Require Import List Bool Arith ZArith NArith QArith Qcanon String Lia.
From Furax Require Import Base.Pytree Model.Op Model.Algebra Model.Denote.
Import ListNotations.
Local Close Scope Q_scope.
Local Close Scope Qc_scope.
Local Open Scope nat_scope.

Definition K := Qc.
Definition k0 : K := Q2Qc 0.
Definition k1 : K := Q2Qc 1.
Definition keqb (a b : K) : bool := Qc_eq_bool a b.
Definition xop := op K.
Definition xvalue := value K.

Definition matrix := list (list K).    (* rows *)
(* rationals are printed as (numerator, denominator) pairs *)
Definition qpair (q : Q) : Z * Z := (Qnum q, Zpos (Qden q)).
Definition table := list (N * matrix).
Fixpoint lookup (t : table) (k : N) : option matrix :=
  match t with
  | [] => None
  | (k', m) :: r => if (k =? k')%N then Some m else lookup r k
  end.

Definition dot (u v : list K) : K := fold_right (fun p acc => Qcplus (Qcmult (fst p) (snd p)) acc) k0 (combine u v).
Definition matvec (m : matrix) (v : list K) : list K := map (fun row => dot row v) m.
Fixpoint transpose_m (m : matrix) (ncols : nat) : matrix :=
  match ncols with
  | O => []
  | S n => transpose_m (map (fun r => removelast r) m) n ++ [map (fun r => last r k0) m]
  end.

(* structure of a value *)
Definition leaf_ok (s : sds) (x : list K) : bool := Nat.eqb (List.length x) (leaf_size s).
Fixpoint has_struct (x : xvalue) (s : struct) : bool :=
  match x, s with
  | Leaf d, Leaf sd => leaf_ok sd d
  | Node k cs, Node k' ss =>
      ckind_eqb k k' &&
      (fix go (l : list xvalue) (l' : list struct) : bool :=
         match l, l' with
         | [], [] => true
         | a :: r, b :: r' => has_struct a b && go r r'
         | _, _ => false
         end) cs ss
  | _, _ => false
  end.
Definition vflatten (x : xvalue) : list K := List.concat (flatten x).
Fixpoint unflatten (s : struct) (v : list K) : xvalue * list K :=
  match s with
  | Leaf sd => (Leaf (firstn (leaf_size sd) v), skipn (leaf_size sd) v)
  | Node k ss =>
      let '(cs, r) :=
        (fix go (ss : list struct) (v : list K) : list xvalue * list K :=
           match ss with
           | [] => ([], v)
           | s :: ss' => let '(c, r1) := unflatten s v in let '(cs, r2) := go ss' r1 in (c :: cs, r2)
           end) ss v in
      (Node k cs, r)
  end.
Definition apply_matrix (m : matrix) (si so : struct) (x : xvalue) : option xvalue :=
  if has_struct x si then Some (fst (unflatten so (matvec m (vflatten x)))) else None.

(* cos(2a), sin(2a) for a = q * pi/4 with integer q *)
Definition cs2 (q : Q) : option (K * K) :=
  if negb (Qden q =? 1)%positive then None else
  match (Qnum q mod 4)%Z with
  | 0%Z => Some (k1, k0)
  | 1%Z => Some (k0, k1)
  | 2%Z => Some (Qcopp k1, k0)
  | _ => Some (k0, Qcopp k1)
  end.
(* (q', u') = (q c - u s, q s + u c) element-wise; sgn = -1 for the transpose *)
Fixpoint rot_lists (tr : bool) (a : list Q) (q u : list K) : option (list K * list K) :=
  match a, q, u with
  | [], [], [] => Some ([], [])
  | an :: ar, qn :: qr, un :: ur =>
      match cs2 an, rot_lists tr ar qr ur with
      | Some (c, s), Some (qs, us) =>
          let s' := if tr then Qcopp s else s in
          Some (Qcminus (Qcmult qn c) (Qcmult un s') :: qs, Qcplus (Qcmult qn s') (Qcmult un c) :: us)
      | _, _ => None
      end
  | _, _, _ => None
  end.
Definition rot_value (tr : bool) (a : list Q) (x : xvalue) : option xvalue :=
  match x with
  | Node (KStokes 1) [Leaf i] => Some x
  | Node (KStokes 2) [Leaf q; Leaf u] =>
      match rot_lists tr a q u with Some (q', u') => Some (Node (KStokes 2) [Leaf q'; Leaf u']) | None => None end
  | Node (KStokes 3) [Leaf i; Leaf q; Leaf u] =>
      match rot_lists tr a q u with Some (q', u') => Some (Node (KStokes 3) [Leaf i; Leaf q'; Leaf u']) | None => None end
  | Node (KStokes 4) [Leaf i; Leaf q; Leaf u; Leaf v] =>
      match rot_lists tr a q u with
      | Some (q', u') => Some (Node (KStokes 4) [Leaf i; Leaf q'; Leaf u'; Leaf v]) | None => None end
  | _ => None
  end.
Definition negl (l : list K) : list K := map Qcopp l.
Definition hwp_value (x : xvalue) : option xvalue :=
  match x with
  | Node (KStokes 1) [Leaf i] => Some x
  | Node (KStokes 2) [Leaf q; Leaf u] => Some (Node (KStokes 2) [Leaf q; Leaf (negl u)])
  | Node (KStokes 3) [Leaf i; Leaf q; Leaf u] => Some (Node (KStokes 3) [Leaf i; Leaf q; Leaf (negl u)])
  | Node (KStokes 4) [Leaf i; Leaf q; Leaf u; Leaf v] =>
      Some (Node (KStokes 4) [Leaf i; Leaf q; Leaf (negl u); Leaf (negl v)])
  | _ => None
  end.
Definition half : K := Q2Qc (1 # 2).
Definition pol_value (x : xvalue) : option xvalue :=
  match x with
  | Node (KStokes 1) [Leaf i] => Some (Leaf (map (Qcmult half) i))
  | Node (KStokes 2) [Leaf q; Leaf u] => Some (Leaf (map (Qcmult half) q))
  | Node (KStokes 3) (Leaf i :: Leaf q :: _) | Node (KStokes 4) (Leaf i :: Leaf q :: _) =>
      if Nat.eqb (List.length i) (List.length q)
      then Some (Leaf (map (fun p => Qcmult half (Qcplus (fst p) (snd p))) (combine i q))) else None
  | _ => None
  end.
(* DiagonalOperator with 1-d values v laid along `axis` of every leaf *)
Definition diag_leaf (axis : Z) (v : list Q) (sd : sds) (d : list K) : list K :=
  let sh := s_shape sd in
  let ax := if (0 <=? axis)%Z then Z.to_nat axis else Z.to_nat (Z.of_nat (List.length sh) + axis) in
  let stride := fold_right Nat.mul 1 (skipn (S ax) sh) in
  let dim := nth ax sh 1 in
  map (fun p => Qcmult (Q2Qc (nth ((fst p / stride) mod dim) v 0%Q)) (snd p)) (combine (seq 0 (List.length d)) d).
Fixpoint diag_value (axis : Z) (v : list Q) (s : struct) (x : xvalue) : xvalue :=
  match x, s with
  | Leaf d, Leaf sd => Leaf (diag_leaf axis v sd d)
  | Node k cs, Node _ ss =>
      Node k ((fix go (l : list xvalue) (l' : list struct) : list xvalue :=
                 match l, l' with
                 | a :: r, b :: r' => diag_value axis v b a :: go r r'
                 | _, _ => []
                 end) cs ss)
  | _, _ => x
  end.

Section Exec.
  Variable tb : table.
  (* key of a leaf operator in the table: twice its oid for wrappers, PKey for primitives *)
  Definition leafsem (e : xop) (x : xvalue) : option xvalue :=
    let si := in_struct e in
    let so := out_struct e in
    if negb (has_struct x si) then None else
    match e with
    | Prim i c _ _ p =>
        match (if (i =? 0)%N then None else lookup tb (2 * i)%N) with
        | Some m => apply_matrix m si so x       (* measured on the real object *)
        | None =>
            match c, p with
            | CQURotation, PAngles a => rot_value false a x
            | CHWP, _ => hwp_value x
            | CLinearPolarizer, _ => pol_value x
            | CDiagonal, PDiag axis v => Some (diag_value axis v si x)
            | _, PKey k => match lookup tb k with Some m => apply_matrix m si so x | None => None end
            | _, _ => None
            end
        end
    | Wrap i w inner =>
        match (if (i =? 0)%N then None else lookup tb (2 * i)%N) with
        | Some m => apply_matrix m si so x
        | None =>
            match w, inner with
            | WQURotT, Prim _ CQURotation _ _ (PAngles a) => rot_value true a x
            | (WTranspose | WReshapeT | WObsT), Prim j _ _ _ p =>
                (* lazy transpose created by the model: transposed matrix of the wrapped primitive *)
                let key := match p with PKey k => k | _ => (2 * j)%N end in
                match lookup tb key with
                | Some m => apply_matrix (transpose_m m (struct_size (in_struct inner))) si so x
                | None => None
                end
            | _, _ => None
            end
        end
    | _ => None
    end.
  Definition den (e : xop) (x : xvalue) : option xvalue := denote Qcplus Qcmult leafsem e x.

  (* dense matrix: column j = den e (basis j), rows = flattened output *)
  Definition basis (n j : nat) : list K := map (fun i => if Nat.eqb i j then k1 else k0) (seq 0 n).
  Definition mat (e : xop) : option (list (list (Z * Z))) :=
    let si := in_struct e in
    let n := struct_size si in
    option_map (fun cols => map (map (fun k => qpair (this k))) cols)
      (omapl (fun j => option_map vflatten (den e (fst (unflatten si (basis n j))))) (seq 0 n)).
End Exec.

(* ---------- printable skeleton of an operator ---------- *)
Inductive sk := SK (tag : string) (oid : N) (params : list (Z * Z)) (kids : list sk).
Definition cls_name (c : cls) : string :=
  match c with
  | CAbstractLinearOperator => "AbstractLinearOperator" | CAddition => "AdditionOperator"
  | CComposition => "CompositionOperator" | CLazyDual => "_AbstractLazyDualOperator"
  | CTranspose => "TransposeOperator" | CAbstractLazyInverse => "AbstractLazyInverseOperator"
  | CInverse => "InverseOperator" | CAbstractLazyInverseOrthogonal => "AbstractLazyInverseOrthogonalOperator"
  | CIdentity => "IdentityOperator" | CHomothety => "HomothetyOperator"
  | CAbstractBlock => "AbstractBlockOperator" | CBlockRow => "BlockRowOperator"
  | CBlockDiagonal => "BlockDiagonalOperator" | CBlockColumn => "BlockColumnOperator"
  | CBroadcastDiagonal => "BroadcastDiagonalOperator" | CDiagonal => "DiagonalOperator"
  | CDiagonalInverse => "DiagonalInverseOperator" | CDense => "DenseBlockDiagonalOperator"
  | CIndex => "IndexOperator" | CPack => "PackOperator" | CMoveAxis => "MoveAxisOperator"
  | CAbstractRavelOrReshape => "AbstractRavelOrReshapeOperator" | CRavel => "RavelOperator"
  | CReshape => "ReshapeOperator" | CReshapeTranspose => "ReshapeTransposeOperator"
  | CQURotation => "QURotationOperator" | CQURotationTranspose => "QURotationTransposeOperator"
  | CHWP => "HWPOperator" | CLinearPolarizer => "LinearPolarizerOperator"
  | CToeplitz => "SymmetricBandToeplitzOperator" | CObsMatrix => "ToastObservationMatrixOperator"
  | CObsMatrixTranspose => "ToastObservationMatrixTransposeOperator" | CAtom => "Atom"
  end%string.
Definition par_params (p : par) : list Q :=
  match p with
  | PAngles a => a
  | PAxes s d => map inject_Z s ++ map inject_Z d
  | PDiag ax v => inject_Z ax :: v
  | _ => []
  end.
Fixpoint skel (e : xop) : sk :=
  match e with
  | Prim i c _ _ p => SK (cls_name c) i (map qpair (par_params p)) []
  | Wrap i w x => SK (cls_name (wcls w)) i [] [skel x]
  | Ident i _ => SK "IdentityOperator" i [] []
  | Homoth i k _ => SK "HomothetyOperator" i [qpair (this k)] []
  | Comp i l => SK "CompositionOperator" i [] (map skel l)
  | AddOp i l => SK "AdditionOperator" i [] (map skel l)
  | Block i b _ l => SK (cls_name (bcls b)) i [] (map skel l)
  end.

(* structures, printed as (container kinds + leaf shapes/dtypes) *)
Fixpoint show_struct (s : struct) : sk :=
  match s with
  | Leaf sd => SK "leaf" (N.of_nat (s_dtype sd)) (map (fun n => (Z.of_nat n, 1%Z)) (s_shape sd)) []
  | Node k cs =>
      SK (match k with
          | KList => "list" | KTuple => "tuple" | KDict _ => "dict" | KStokes _ => "stokes" | KOther n => n
          end)%string
         (match k with KStokes n => N.of_nat n | _ => 0%N end)
         [] (map show_struct cs)
  end.

(* observations used by the correspondence harness *)
Definition alg_fuel := 12.
Definition x_reduce (order : list rule_id) (e : xop) : result xop := reduce keqb k1 Qcmult alg_fuel order e.
Definition x_matmul := matmul keqb Qcmult.
Definition x_add := @add K.
Definition x_sub := sub keqb k1 Qcmult Qcopp.
Definition x_neg := neg keqb k1 Qcmult Qcopp.
Definition x_smul := smul keqb Qcmult.
Definition x_sdiv := sdiv keqb Qcmult Qcinv.
Definition x_transpose := @transpose K.
Definition x_inverse (order : list rule_id) := inverse keqb k1 Qcmult Qcinv alg_fuel order.

Inductive observation :=
| OErr (e : err)
| OOk (s : sk) (sin sout : sk) (m : option (list (list (Z * Z)))).
Definition observe (tb : table) (r : result xop) : observation :=
  match r with
  | Err e => OErr e
  | Ok e => OOk (skel e) (show_struct (in_struct e)) (show_struct (out_struct e)) (mat tb e)
  end.
