(* Model of furax/_base/indices.py (IndexOperator, IndexTransposeRule, TransposeIndexRule) and of
   PackOperator / PackUnpackRule in furax/_base/linear.py.  Definitions only (proofs: Lemmas/IndexL.v).
   The model follows the code after the `fix:` commits recorded in /verif/KNOWN_FINDINGS.txt and after
   /verif/fixes/C12-transpose-index-negative-aliases.diff and /verif/fixes/C12-pack-pytree-leaves.diff.

   Conventions.
   * a pytree is the list of its leaves in jax.tree.leaves order; a leaf structure is its shape
     (dtypes are preserved by every operator here); an array is its row-major data;
   * (a) SELECTION SEMANTICS.  `leaf[indices]` (NumPy/JAX native indexing) is given its meaning as a
     gather: an output shape and the list `sel` of the flat input positions, in row-major output order
     (`index_leaf`).  It is COMPUTED for every tuple of Python ints (any sign), slices (any
     start/stop/step, None included, negative steps), one Ellipsis and ANY NUMBER of array entries
     (boolean masks of any rank, integer arrays of any rank with negative/repeated entries).  With at
     most one array entry `index_leaf` computes it directly (NumPy's placement rule for the advanced
     dimension: in place when the advanced entries - the array and the ints - are adjacent in the
     tuple, first otherwise); with two or more array entries `index_leaf` answers `Ok None` and
     `index_adv` computes NumPy's general advanced indexing: masks become integer arrays by nonzero (a
     rank-k mask is an index on the k merged axes), the advanced entries (arrays and ints) are
     broadcast to a common shape B, the k-th element of the broadcast arrays fixes the coordinates of
     the advanced axes, and the B axes stand in place of the advanced block when the advanced entries
     are adjacent in the tuple, in front otherwise.  `leaf_gather` is the union of the two.
     Out-of-bounds integers are outside the modelled domain (`Err IndexError`; JAX clamps instead).
   * (b) FURAX'S OWN LOGIC is modelled exactly: tuple wrapping, ellipsis count check, unique_indices
     inference, mask-requires-out_structure, out structure by abstract evaluation, indexed_axes (the
     definition of Model/Algebra.v, through `abs_entry`), reduce, both rules, PackOperator. *)
From Coq Require Import ZArith NArith List Bool Arith Lia.
From Furax Require Import Model.Op Model.Algebra.
Import ListNotations.
Local Open Scope nat_scope.

Definition shape := list nat.
Definition prod (s : list nat) : nat := fold_right Nat.mul 1 s.
Definition sh_eqb (a b : shape) : bool := list_eqb Nat.eqb a b.

(* ------------------------------------------------------------------------------------------ *)
(* index expressions *)
Inductive ix :=
| XInt (z : Z)                                (* Python int *)
| XSlice (start stop step : option Z)         (* slice(start, stop, step) *)
| XEll                                        (* Ellipsis *)
| XArr (ash : shape) (d : list Z)             (* integer array: shape, row-major data *)
| XMask (msh : shape) (b : list bool).        (* boolean array: shape, row-major data *)

(* what IndexOperator.indexed_axes and the rules look at (the entry type of Model/Op.v) *)
Definition abs_entry (e : ix) : ientry :=
  match e with
  | XInt z => IInt z
  | XSlice None None None => ISliceAll        (* index == slice(None) *)
  | XSlice _ _ _ => ISlice
  | XEll => IEll
  | XArr _ d => IArr d
  | XMask _ _ => IMask
  end.

Definition is_ell (e : ix) : bool := match e with XEll => true | _ => false end.
Definition is_mask (e : ix) : bool := match e with XMask _ _ => true | _ => false end.
Definition is_arr (e : ix) : bool := match e with XArr _ _ | XMask _ _ => true | _ => false end.
Definition is_adv (e : ix) : bool := match e with XInt _ | XArr _ _ | XMask _ _ => true | _ => false end.
Definition count_ell (l : list ix) : nat := length (filter is_ell l).

(* ------------------------------------------------------------------------------------------ *)
(* (a) selection semantics of native indexing *)

(* negative indices count from the end *)
Definition normZ (n : nat) (z : Z) : Z := if (z <? 0)%Z then (z + Z.of_nat n)%Z else z.
Definition norm (n : nat) (z : Z) : nat := Z.to_nat (normZ n z).
Definition in_range (n : nat) (z : Z) : bool := ((- Z.of_nat n <=? z) && (z <? Z.of_nat n))%Z.

(* slice(start, stop, step).indices(n) (CPython PySlice_Unpack + PySlice_AdjustIndices):
   first element, step, number of elements *)
Definition slice_params (n : nat) (start stop step : option Z) : result (Z * Z * Z) :=
  let st := match step with None => 1%Z | Some s => s end in
  if (st =? 0)%Z then Err ValueError else
  let N := Z.of_nat n in
  let lower := if (0 <? st)%Z then 0%Z else (-1)%Z in
  let upper := if (0 <? st)%Z then N else (N - 1)%Z in
  let adj := fun v => if (v <? 0)%Z then Z.max (v + N) lower else Z.min v upper in
  let s0 := match start with None => if (st <? 0)%Z then upper else lower | Some v => adj v end in
  let e0 := match stop with None => if (st <? 0)%Z then lower else upper | Some v => adj v end in
  let len := if (0 <? st)%Z
             then (if (s0 <? e0)%Z then ((e0 - s0 - 1) / st + 1)%Z else 0%Z)
             else (if (e0 <? s0)%Z then ((s0 - e0 - 1) / (- st) + 1)%Z else 0%Z) in
  Ok (s0, st, len).
Definition slice_coords (n : nat) (start stop step : option Z) : result (list nat) :=
  match slice_params n start stop step with
  | Err e => Err e
  | Ok (s0, st, len) => Ok (map (fun k => Z.to_nat (s0 + Z.of_nat k * st)%Z) (seq 0 (Z.to_nat len)))
  end.

(* mask.nonzero() on the flattened mask *)
Fixpoint true_positions_from (k : nat) (b : list bool) : list nat :=
  match b with
  | [] => []
  | x :: b' => if x then k :: true_positions_from (S k) b' else true_positions_from (S k) b'
  end.
Definition true_positions (b : list bool) : list nat := true_positions_from 0 b.

(* one resolved entry: the (possibly merged: rank-k masks) input axis it consumes, the coordinates it
   selects on it, its contribution to the output shape *)
Inductive akind := KInt | KSlice | KArr.
Record axsel := mkAx { a_dim : nat; a_coords : list nat; a_out : shape; a_kind : akind }.
Definition full_ax (n : nat) : axsel := mkAx n (seq 0 n) [n] KSlice.

Definition resolve_entry (dims : shape) (e : ix) : result (axsel * shape) :=
  match e with
  | XInt z =>
      match dims with
      | n :: rest => if in_range n z then Ok (mkAx n [norm n z] [] KInt, rest) else Err IndexError
      | [] => Err IndexError
      end
  | XSlice a b c =>
      match dims with
      | n :: rest =>
          match slice_coords n a b c with
          | Err e => Err e
          | Ok cs => Ok (mkAx n cs [length cs] KSlice, rest)
          end
      | [] => Err IndexError
      end
  | XArr ash d =>
      match dims with
      | n :: rest =>
          if negb (length d =? prod ash) then Err TypeError       (* malformed description *)
          else if forallb (in_range n) d then Ok (mkAx n (map (norm n) d) ash KArr, rest)
          else Err IndexError                                      (* outside the modelled domain *)
      | [] => Err IndexError
      end
  | XMask msh b =>
      let k := length msh in
      if (k =? 0) || negb (length b =? prod msh) then Err TypeError  (* scalar mask / malformed *)
      else if sh_eqb (firstn k dims) msh then
        let tp := true_positions b in Ok (mkAx (prod msh) tp [length tp] KArr, skipn k dims)
      else Err IndexError
  | XEll => Err AssertionError                                     (* expanded by `resolve` *)
  end.

(* left to right over the tuple; the Ellipsis stands for `fill` full slices; missing trailing
   entries are full slices *)
Fixpoint resolve (fill : nat) (dims : shape) (l : list ix) : result (list axsel) :=
  match l with
  | [] => Ok (map full_ax dims)
  | XEll :: l' =>
      match resolve fill (skipn fill dims) l' with
      | Err e => Err e
      | Ok r => Ok (map full_ax (firstn fill dims) ++ r)
      end
  | e :: l' =>
      match resolve_entry dims e with
      | Err e => Err e
      | Ok (a, dims') =>
          match resolve fill dims' l' with
          | Err e => Err e
          | Ok r => Ok (a :: r)
          end
      end
  end.

Definition consumes (e : ix) : nat :=
  match e with XEll => 0 | XMask msh _ => length msh | _ => 1 end.
Definition consumed (l : list ix) : nat := fold_right (fun e acc => consumes e + acc) 0 l.

(* row-major flat positions of the outer product of per-axis coordinate lists *)
Fixpoint outer (dims : shape) (cs : list (list nat)) : list nat :=
  match dims, cs with
  | _ :: dims', c :: cs' => flat_map (fun i => map (fun p => i * prod dims' + p) (outer dims' cs')) c
  | _, _ => [0]
  end.

Fixpoint dropwhile {A} (f : A -> bool) (l : list A) : list A :=
  match l with
  | [] => []
  | x :: r => if f x then dropwhile f r else l
  end.
(* NumPy: the advanced entries (arrays, and ints next to them) are adjacent in the tuple as written
   (an Ellipsis separates even when it expands to nothing) *)
Definition adjacent (l : list ix) : bool :=
  let nadv := fun e => negb (is_adv e) in
  forallb is_adv (dropwhile nadv (rev (dropwhile nadv l))).

Fixpoint replace_nth {A} (k : nat) (v : A) (l : list A) : list A :=
  match l, k with
  | [], _ => []
  | _ :: r, O => v :: r
  | x :: r, S k' => x :: replace_nth k' v r
  end.
Fixpoint remove_nth {A} (k : nat) (l : list A) : list A :=
  match l, k with
  | [], _ => []
  | _ :: r, O => r
  | x :: r, S k' => x :: remove_nth k' r
  end.
Fixpoint find_arr (k : nat) (axs : list axsel) : option nat :=
  match axs with
  | [] => None
  | a :: r => match a_kind a with KArr => Some k | _ => find_arr (S k) r end
  end.

Record gather := mkG { g_out : shape; g_sel : list nat }.

(* leaf[indices] for at most one array entry: Err = the indexing raises; Ok None = two or more array
   entries (index_adv below); Ok (Some g) = the gather *)
Definition index_leaf (sh : shape) (l : list ix) : result (option gather) :=
  if 1 <? count_ell l then Err IndexError
  else if length sh <? consumed l then Err IndexError
  else
    match resolve (length sh - consumed l) sh l with
    | Err e => Err e
    | Ok axs =>
        let dims := map a_dim axs in
        let cs := map a_coords axs in
        let narr := length (filter is_arr l) in
        if (narr =? 0) || ((narr =? 1) && adjacent l) then
          Ok (Some (mkG (concat (map a_out axs)) (outer dims cs)))
        else if narr =? 1 then
          match find_arr 0 axs with
          | None => Err AssertionError
          | Some p =>
              let a := nth p axs (full_ax 0) in
              Ok (Some (mkG (a_out a ++ concat (map a_out (remove_nth p axs)))
                            (flat_map (fun c => outer dims (replace_nth p [c] cs)) (a_coords a))))
          end
        else Ok None
    end.

(* ---- two or more array entries: NumPy advanced indexing with broadcasting ---- *)
Fixpoint map2 {A B C} (f : A -> B -> C) (l : list A) (m : list B) : list C :=
  match l, m with
  | a :: l', b :: m' => f a b :: map2 f l' m'
  | _, _ => []
  end.

(* np.broadcast_shapes: right-aligned (here: on the reversed shapes), a dimension 1 stretches *)
Fixpoint bc2_rev (a b : list nat) : option (list nat) :=
  match a, b with
  | [], _ => Some b
  | _, [] => Some a
  | x :: a', y :: b' =>
      match bc2_rev a' b' with
      | None => None
      | Some r => if x =? y then Some (x :: r) else if x =? 1 then Some (y :: r)
                  else if y =? 1 then Some (x :: r) else None
      end
  end.
Definition bshape (a b : shape) : option shape :=
  match bc2_rev (rev a) (rev b) with Some r => Some (rev r) | None => None end.
Fixpoint bshapes (l : list shape) : option shape :=
  match l with
  | [] => Some []
  | s :: r => match bshapes r with None => None | Some t => bshape s t end
  end.

Definition otl {A} (o : option A) : list A := match o with Some a => [a] | None => [] end.
(* the advanced entries of a tuple with an array entry: the arrays (masks included) and the ints *)
Definition ax_adv (a : axsel) : bool := match a_kind a with KSlice => false | _ => true end.
Definition ax_basic (a : axsel) : bool := negb (ax_adv a).
(* row-major data of the index array of an advanced axis (shape a_out, data a_coords) broadcast to
   the shape B: the element at the flat source position of every element of B *)
Definition bc_data (B : shape) (a : axsel) : list nat :=
  let s := repeat 1 (length B - length (a_out a)) ++ a_out a in
  flat_map (fun p => otl (nth_error (a_coords a) p))
           (outer s (map2 (fun n m => if n =? m then seq 0 m else repeat 0 m) s B)).
(* coordinates selected on an axis by the k-th element of the broadcast index arrays *)
Definition sub_k (B : shape) (k : nat) (a : axsel) : list nat :=
  if ax_adv a then otl (nth_error (bc_data B a) k) else a_coords a.
(* broadcast axes first: for every element of B, the outer product over the basic axes *)
Definition front_sel (B : shape) (axs : list axsel) : list nat :=
  flat_map (fun k => outer (map a_dim axs) (map (sub_k B k) axs)) (seq 0 (prod B)).
Definition adv_shape (axs : list axsel) : option shape := bshapes (map a_out (filter ax_adv axs)).

Fixpoint takewhile {A} (f : A -> bool) (l : list A) : list A :=
  match l with
  | [] => []
  | x :: r => if f x then x :: takewhile f r else []
  end.

(* adj = the advanced entries are adjacent in the tuple as written: they resolve to a contiguous block
   of axes, which acts as ONE axis (of the merged dimension) indexed by the broadcast arrays *)
Definition adv_gather (adj : bool) (axs : list axsel) : result gather :=
  if adj then
    let pre := takewhile ax_basic axs in
    let rest := dropwhile ax_basic axs in
    let blk := takewhile ax_adv rest in
    let post := dropwhile ax_adv rest in
    match adv_shape blk with
    | None => Err ValueError                     (* JAX: Incompatible shapes for broadcasting *)
    | Some B =>
        let axs' := pre ++ mkAx (prod (map a_dim blk)) (front_sel B blk) B KArr :: post in
        Ok (mkG (concat (map a_out axs')) (outer (map a_dim axs') (map a_coords axs')))
    end
  else
    match adv_shape axs with
    | None => Err ValueError
    | Some B => Ok (mkG (B ++ concat (map a_out (filter ax_basic axs))) (front_sel B axs))
    end.

Definition index_adv (sh : shape) (l : list ix) : result gather :=
  if 1 <? count_ell l then Err IndexError
  else if length sh <? consumed l then Err IndexError
  else
    match resolve (length sh - consumed l) sh l with
    | Err e => Err e
    | Ok axs => adv_gather (adjacent l) axs
    end.

Definition leaf_gather (sh : shape) (l : list ix) : result gather :=
  match index_leaf sh l with
  | Err e => Err e
  | Ok (Some g) => Ok g
  | Ok None => index_adv sh l
  end.
(* jax.tree.map over the leaves, left to right: the first error wins *)
Fixpoint gathers (ins : list shape) (l : list ix) : result (list gather) :=
  match ins with
  | [] => Ok []
  | sh :: ins' =>
      match leaf_gather sh l with
      | Err e => Err e
      | Ok g =>
          match gathers ins' l with
          | Err e => Err e
          | Ok gs => Ok (g :: gs)
          end
      end
  end.

(* ------------------------------------------------------------------------------------------ *)
(* (b) IndexOperator *)
Inductive iarg := ASingle (e : ix) | ATuple (l : list ix).
(* if not isinstance(indices, tuple): indices = (indices,) *)
Definition wrap (a : iarg) : list ix := match a with ASingle e => [e] | ATuple l => l end.

(* isinstance(_, (int, slice, EllipsisType)) or isinstance(_, Array) and _.dtype == bool *)
Definition is_basic_or_mask (e : ix) : bool := match e with XArr _ _ => false | _ => true end.
Definition infer_unique (l : list ix) (user : option bool) : bool :=
  if forallb is_basic_or_mask l then true
  else match user with Some b => b | None => false end.

Record iop := mkIop { i_ix : list ix; i_in : list shape; i_out : list shape; i_unique : bool }.

Definition Index_ctor (a : iarg) (ins : list shape) (outs : option (list shape)) (user : option bool)
    : result iop :=
  let l := wrap a in
  if 1 <? count_ell l then Err ValueError                 (* _check_indices *)
  else
    let u := infer_unique l user in
    match outs with
    | None =>
        if existsb is_mask l then Err ValueError           (* mask requires out_structure *)
        else
          match gathers ins l with                     (* jax.eval_shape of leaf[indices] *)
          | Err e => Err e
          | Ok gs => Ok (mkIop l ins (map g_out gs) u)
          end
    | Some o => Ok (mkIop l ins o u)                        (* taken as given, not validated *)
    end.

Definition Index_axes (o : iop) : list Z := indexed_axes (map abs_entry (i_ix o)).

(* reduce(): IdentityOperator(in_structure) when no axis is indexed, else self *)
Definition Index_reduce_is_identity (o : iop) : bool :=
  match Index_axes o with [] => true | _ => false end.

(* IndexTransposeRule.apply on (P, P.T): Some [] = reduced to the identity; None = NoReduction *)
Definition IndexTranspose_rule (o : iop) : option (list iop) :=
  if i_unique o then Some [] else None.

(* TransposeIndexRule.apply on (P.T, P): the DiagonalOperator(coverage, axis_destination=axis) *)
Definition TransposeIndex_rule (o : iop) : result (option (Z * list Z)) :=
  let axes := Index_axes o in
  if 1 <? length axes then Ok None
  else if i_unique o then Ok None
  else
    match i_in o with
    | [] => Err IndexError                                  (* shapes.pop() on an empty set *)
    | sh :: rest =>
        if negb (forallb (sh_eqb sh) rest) then Ok None
        else
          match axes with
          | [] => Err IndexError
          | axis :: _ =>
              match py_nth (i_ix o) axis with
              | Some (XArr _ d) =>
                  match py_nth sh axis with
                  | Some n => Ok (Some (axis, coverage_of n (norm_index n d)))
                  | None => Err IndexError
                  end
              | Some _ => Err AssertionError
              | None => Err IndexError
              end
          end
    end.

(* (P @ P.T).reduce() and (P.T @ P).reduce(): CompositionOperator.reduce first reduces the operands
   (an IndexOperator without indexed axis becomes an identity, which is dropped: the lazy transpose
   alone remains), then tries the registered binary rules on the pair (only IndexTransposeRule, resp.
   TransposeIndexRule, match these classes) *)
Inductive red := RIdentity | RTransposeOnly | RComposition | RDiagonal (axis : Z) (cov : list Z).
Definition reduce_PPt (o : iop) : result red :=
  if Index_reduce_is_identity o then Ok RTransposeOnly
  else match IndexTranspose_rule o with Some _ => Ok RIdentity | None => Ok RComposition end.
Definition reduce_PtP (o : iop) : result red :=
  if Index_reduce_is_identity o then Ok RTransposeOnly
  else
    match TransposeIndex_rule o with
    | Err e => Err e
    | Ok None => Ok RComposition
    | Ok (Some (a, c)) => Ok (RDiagonal a c)
    end.

(* ------------------------------------------------------------------------------------------ *)
(* PackOperator: every leaf indexed by the mask; PackUnpackRule: (pack @ pack.T) -> identity *)
Record pop := mkPop { p_msh : shape; p_bits : list bool; p_in : list shape }.
Definition Pack_gathers (p : pop) : result (list gather) :=
  gathers (p_in p) [XMask (p_msh p) (p_bits p)].
Definition Pack_out (p : pop) : result (list shape) :=
  match Pack_gathers p with Err e => Err e | Ok gs => Ok (map g_out gs) end.
(* the closed form of x[mask] on a leaf of shape msh ++ rest *)
Definition pack_sel (bits : list bool) (rest : nat) : list nat :=
  flat_map (fun p => map (fun r => p * rest + r) (seq 0 rest)) (true_positions bits).

(* coordinate on axis a of the row-major flat position p of a leaf of shape sh (unravel_index) *)
Fixpoint coord (sh : shape) (a : nat) (p : nat) : nat :=
  match sh with
  | [] => 0
  | _ :: sh' =>
      match a with
      | O => p / prod sh'
      | S a' => coord sh' a' (p mod prod sh')
      end
  end.

(* ------------------------------------------------------------------------------------------ *)
(* data level, over an arbitrary carrier *)
Section Data.
  Variable K : Type.
  Variables (k0 : K) (kadd kmul : K -> K -> K).

  (* out[j] = x[sel[j]] *)
  Definition gather_data (sel : list nat) (x : list K) : list K := map (fun p => nth p x k0) sel.

  (* zeros(n).at[sel].add(y): the transpose of the gather (what jax.linear_transpose yields) *)
  Fixpoint scatter_at (i : nat) (sel : list nat) (y : list K) : K :=
    match sel, y with
    | s :: sel', v :: y' => if s =? i then kadd v (scatter_at i sel' y') else scatter_at i sel' y'
    | _, _ => k0
    end.
  Definition scatter_add (n : nat) (sel : list nat) (y : list K) : list K :=
    map (fun i => scatter_at i sel y) (seq 0 n).

  Fixpoint dot (x y : list K) : K :=
    match x, y with
    | a :: x', b :: y' => kadd (kmul a b) (dot x' y')
    | _, _ => k0
    end.
  (* c . v for a natural number c *)
  Fixpoint nat_mul (c : nat) (v : K) : K :=
    match c with O => k0 | S c' => kadd v (nat_mul c' v) end.

  (* DiagonalOperator(v, axis_destination=a) with 1-d values of length shape[a] (C11):
     out[p] = v[p_a] * x[p] *)
  Definition diag_along (sh : shape) (a : nat) (v : list K) (x : list K) : list K :=
    map (fun p => kmul (nth (coord sh a p) v k0) (nth p x k0)) (seq 0 (prod sh)).
End Data.
Arguments gather_data {K} k0 sel x.
Arguments scatter_at {K} k0 kadd i sel y.
Arguments scatter_add {K} k0 kadd n sel y.
Arguments dot {K} k0 kadd kmul x y.
Arguments nat_mul {K} k0 kadd c v.
Arguments diag_along {K} k0 kmul sh a v x.

(* Python's sh[axis] position for a possibly negative axis *)
Definition axis_pos (r : nat) (axis : Z) : nat := Z.to_nat (if (axis <? 0)%Z then axis + Z.of_nat r else axis)%Z.

(* ------------------------------------------------------------------------------------------ *)
(* observations compared with the implementation (data over Z) *)
Definition obs_index (a : iarg) (ins : list shape) (outs : option (list shape)) (user : option bool)
    (ys : list (list Z)) :=
  match Index_ctor a ins outs user with
  | Err e => Err e
  | Ok o =>
      let gs := gathers ins (i_ix o) in
      Ok (i_unique o,
          Index_axes o,
          i_out o,
          match gs with Err e => Err e | Ok gs => Ok (map (fun g => (g_out g, g_sel g)) gs) end,
          match gs with
          | Err e => Err e
          | Ok gs => Ok (map2 (fun sh_g y => scatter_add 0%Z Z.add (prod (fst sh_g)) (g_sel (snd sh_g)) y)
                              (combine ins gs) ys)
          end,
          Index_reduce_is_identity o,
          reduce_PPt o,
          reduce_PtP o)
  end.

Definition obs_pack (msh : shape) (bits : list bool) (ins : list shape) (ys : list (list Z)) :=
  let p := mkPop msh bits ins in
  match Pack_gathers p with
  | Err e => Err e
  | Ok gs =>
      Ok (map (fun g => (g_out g, g_sel g)) gs,
          map2 (fun sh_g y => scatter_add 0%Z Z.add (prod (fst sh_g)) (g_sel (snd sh_g)) y)
               (combine ins gs) ys)
  end.

(* the dense matrix (rows) of DiagonalOperator(v, axis) on one leaf, for the comparison of the rule's
   product with P.T @ P *)
Definition obs_diag (sh : shape) (axis : Z) (v : list Z) : list Z :=
  map (fun p => nth (coord sh (axis_pos (length sh) axis) p) v 0%Z) (seq 0 (prod sh)).
