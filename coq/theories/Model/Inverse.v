(* C06 - model of `inverse()` / `.I` of every operator class, and the notions of linear algebra the
   statements about it need.  Definitions only (proofs: Lemmas/InverseL.v).

   Source (furax/_base/core.py, diagonal.py, blocks.py, axes.py, operators/qu_rotations.py):
     AbstractLinearOperator.inverse        -> InverseOperator(self): ValueError unless
                                              in_structure == out_structure; stores self.reduce()
     AbstractLazyInverseOperator.inverse   -> self.operator            (X.I.I is the stored operand)
     AbstractLazyInverseOperator.as_matrix -> jnp.linalg.inv(self.operator.as_matrix())
     HomothetyOperator.inverse             -> HomothetyOperator(1 / value)
     @orthogonal (Identity, QURotation, AbstractLazyInverseOrthogonal) -> inverse = transpose
     DiagonalOperator.inverse              -> DiagonalInverseOperator(self),
                                              diagonal := where(d != 0, 1 / d, 0)
     DiagonalInverseOperator.inverse       -> self.operator
     BlockDiagonalOperator.inverse         -> block-wise `.I` iff every block is square, else the default
     MoveAxisOperator.inverse              = transpose

   `inverse_r` below is `Algebra.inverse` made properly recursive: the code calls `.I` on every block
   of a block-diagonal operator, so a block that is itself block-diagonal is inverted block-wise again
   (Algebra.inverse wraps such a block in a lazy InverseOperator). *)
From Coq Require Import List Bool Arith ZArith NArith QArith Qcanon String Lia.
From Furax Require Import Base.Pytree Model.Op Model.Algebra Model.Denote Model.Exec.
From Furax Require Model.Axes.
Import ListNotations.
Local Close Scope Q_scope.
Local Close Scope Qc_scope.
Local Open Scope nat_scope.

Section Inv.
  Variable K : Type.
  Variable keqb : K -> K -> bool.
  Variables (k0 k1 : K) (kadd kmul : K -> K -> K) (kopp kinv : K -> K).
  Notation op := (op K).

  (* ---------- inverse() ---------- *)
  Section Inverse.
    Variable fuel : nat.
    Variable order : list rule_id.
    (* AbstractLinearOperator.inverse: InverseOperator.__init__ *)
    Definition default_inverse (e : op) : result op :=
      if negb (is_square e) then Err ValueError
      else r <- reduce keqb k1 kmul fuel order e ;; Ok (Wrap fresh WInverse r).
    Fixpoint inverse_r (e : op) {struct e} : result op :=
      match e with
      | Homoth _ k s => Ok (Homoth fresh (kinv k) s)
      | Ident _ _ => Ok e
      | Prim _ CDiagonal _ _ _ => Ok (Wrap fresh WDiagInv e)
      | Prim _ (CMoveAxis | CQURotation) _ _ _ => Ok (transpose e)
      | Wrap _ w x => if isinst (wcls w) [CAbstractLazyInverse] then Ok x else default_inverse e
      | Block _ BDiag td l =>
          if forallb (@is_square K) l then
            l' <- (fix go (l : list op) : result (list op) :=
                     match l with
                     | [] => Ok []
                     | b :: r => y <- inverse_r b ;; ys <- go r ;; Ok (y :: ys)
                     end) l ;;
            mk_block BDiag td l'
          else default_inverse e
      | _ => default_inverse e
      end.
  End Inverse.

  (* the classes whose inverse() is not the default *)
  Definition closed_form (e : op) : bool :=
    match e with
    | Homoth _ _ _ | Ident _ _ => true
    | Prim _ (CDiagonal | CMoveAxis | CQURotation) _ _ _ => true
    | Wrap _ w _ => isinst (wcls w) [CAbstractLazyInverse]
    | Block _ BDiag _ l => forallb (@is_square K) l
    | _ => false
    end.
  (* every block-diagonal node has square blocks only (what inverse() of a square operator returns) *)
  Fixpoint square_blocks (e : op) : bool :=
    match e with
    | Block _ BDiag _ l =>
        forallb (@is_square K) l &&
        (fix all (l : list op) : bool := match l with [] => true | b :: r => square_blocks b && all r end) l
    | _ => true
    end.
  (* not a lazy inverse wrapper, nor a block-diagonal operator with such a block (recursively) *)
  Fixpoint plain (e : op) : bool :=
    match e with
    | Wrap _ w _ => negb (isinst (wcls w) [CAbstractLazyInverse])
    | Block _ BDiag _ l =>
        (fix all (l : list op) : bool := match l with [] => true | b :: r => plain b && all r end) l
    | _ => true
    end.
  Definition is_bdiag (e : op) : bool := match e with Block _ BDiag _ _ => true | _ => false end.
  Definition flat_blocks (e : op) : bool :=
    match e with Block _ BDiag _ l => forallb (fun b => negb (is_bdiag b)) l | _ => true end.

  (* invertibility guard of the closed forms: non-zero scalar; diagonals declared regular by
     `regular` (the leaf semantics decides what that means: all entries non-zero); recursively in
     block-diagonal operators.  Lazy inverses carry their guard in the oracle hypothesis. *)
  Section Guard.
    Variable regular : op -> bool.
    Fixpoint inv_guard (e : op) : bool :=
      match e with
      | Homoth _ k _ => negb (keqb k k0)
      | Prim _ CDiagonal _ _ _ => regular e
      | Prim _ CMoveAxis _ _ p => match p with PAxes _ _ => true | _ => false end
      | Wrap _ WDiagInv x => regular x
      | Block _ BDiag _ l =>
          (fix all (l : list op) : bool := match l with [] => true | b :: r => inv_guard b && all r end) l
      | _ => true
      end.
  End Guard.

  (* ---------- field level: the pseudo-inverse of a scalar, diagonals as vectors ---------- *)
  (* jnp.where(d != 0, 1 / d, 0): the division is the value of the untaken branch at zeros - in the
     model it is never looked at *)
  Definition pinv (k : K) : K := if keqb k k0 then k0 else kinv k.
  (* a diagonal acting on a flat leaf: element-wise product *)
  Definition emul (d x : list K) : list K := map (fun p => kmul (fst p) (snd p)) (combine d x).
  Definition nonzero (d : list K) : bool := forallb (fun k => negb (keqb k k0)) d.

  (* QU rotation by angles with (cos 2a, sin 2a) = (c, s), element-wise on the two components *)
  Definition rot1 (tr : bool) (cs : K * K) (qu : K * K) : K * K :=
    let '(c, s) := cs in let '(q, u) := qu in
    let s' := if tr then kopp s else s in
    (kadd (kmul q c) (kopp (kmul u s')), kadd (kmul q s') (kmul u c)).
  Definition rotl (tr : bool) (cs qu : list (K * K)) : list (K * K) :=
    map (fun p => rot1 tr (fst p) (snd p)) (combine cs qu).
  Definition unit_cs (cs : K * K) : Prop := kadd (kmul (fst cs) (fst cs)) (kmul (snd cs) (snd cs)) = k1.

  (* ---------- matrices as functions (statements) ---------- *)
  Definition fmat := nat -> nat -> K.
  Definition msum (n : nat) (f : nat -> K) : K := fold_right (fun i acc => kadd (f i) acc) k0 (seq 0 n).
  Definition fmul (n : nat) (A B : fmat) : fmat := fun i j => msum n (fun k => kmul (A i k) (B k j)).
  Definition ftr (A : fmat) : fmat := fun i j => A j i.
  Definition fid : fmat := fun i j => if Nat.eqb i j then k1 else k0.
  Definition fdiag (d : list K) : fmat := fun i j => if Nat.eqb i j then nth i d k0 else k0.
  Definition feq (n : nat) (A B : fmat) : Prop := forall i j, i < n -> j < n -> A i j = B i j.
  (* the four Penrose equations: P is the Moore-Penrose pseudo-inverse of A (n x n) *)
  Record penrose (n : nat) (A P : fmat) : Prop := {
    pen_apa : feq n (fmul n (fmul n A P) A) A;
    pen_pap : feq n (fmul n (fmul n P A) P) P;
    pen_ap_sym : feq n (ftr (fmul n A P)) (fmul n A P);
    pen_pa_sym : feq n (ftr (fmul n P A)) (fmul n P A)
  }.
  Definition two_sided (n : nat) (A B : fmat) : Prop := feq n (fmul n B A) fid /\ feq n (fmul n A B) fid.

  (* ---------- matrices as lists of rows (executable): Gauss-Jordan with certificate ---------- *)
  Definition lmat := list (list K).
  Definition ldot (u v : list K) : K :=
    fold_right (fun p acc => kadd (kmul (fst p) (snd p)) acc) k0 (combine u v).
  Definition lcol (j : nat) (M : lmat) : list K := map (fun r => nth j r k0) M.
  Definition lmul (n : nat) (A B : lmat) : lmat :=
    map (fun row => map (fun j => ldot row (lcol j B)) (seq 0 n)) A.
  Definition lid (n : nat) : lmat := map (fun i => map (fun j => if Nat.eqb i j then k1 else k0) (seq 0 n)) (seq 0 n).
  Definition lmat_eqb (A B : lmat) : bool := list_eqb (list_eqb keqb) A B.
  Definition lget (M : lmat) : fmat := fun i j => nth j (nth i M []) k0.

  Fixpoint find_pivot (c : nat) (rows : lmat) : option (list K * lmat) :=
    match rows with
    | [] => None
    | r :: rs =>
        if keqb (nth c r k0) k0
        then match find_pivot c rs with Some (p, o) => Some (p, r :: o) | None => None end
        else Some (r, rs)
    end.
  Definition row_sub (r : list K) (k : K) (p : list K) : list K :=
    map (fun ab => kadd (fst ab) (kopp (kmul k (snd ab)))) (combine r p).
  (* `done`: normalised pivot rows of columns 0..c-1, in order; `todo`: the other rows *)
  Fixpoint gauss_jordan (steps c : nat) (done todo : lmat) : option lmat :=
    match steps with
    | O => Some done
    | S st =>
        match find_pivot c todo with
        | None => None
        | Some (p, others) =>
            let p' := map (kmul (kinv (nth c p k0))) p in
            let elim r := row_sub r (nth c r k0) p' in
            gauss_jordan st (S c) (map elim done ++ [p']) (map elim others)
        end
    end.
  Definition minv_raw (M : lmat) : option lmat :=
    let n := List.length M in
    let aug := map (fun ir => snd ir ++ map (fun j => if Nat.eqb (fst ir) j then k1 else k0) (seq 0 n))
                   (combine (seq 0 n) M) in
    option_map (map (skipn n)) (gauss_jordan n 0 [] aug).
  (* the inverse, returned only together with its check (N M = I and M N = I, n = number of rows):
     whatever Gauss-Jordan does, `minv M = Some N` means N is the two-sided inverse of M *)
  Definition is_inverse_of (M N : lmat) : bool :=
    let n := List.length M in
    lmat_eqb (lmul n N M) (lid n) && lmat_eqb (lmul n M N) (lid n).
  Definition minv (M : lmat) : option lmat :=
    match minv_raw M with
    | Some N => if is_inverse_of M N then Some N else None
    | None => None
    end.
End Inv.

(* ---------- what the statements assume about the leaf operators ---------- *)
Section Facts.
  Variable K : Type.
  Variables (kadd kmul : K -> K -> K).
  Variable leafsem : op K -> value K -> option (value K).
  Variable regular : op K -> bool.
  Notation den := (denote kadd kmul leafsem).
  (* g undoes f wherever both are defined *)
  Definition winv (f g : value K -> option (value K)) : Prop :=
    forall x y1 y, f x = Some y1 -> g y1 = Some y -> y = x.
  Definition wpair (e e' : op K) : Prop := winv (den e) (den e') /\ winv (den e') (den e).
  (* if_lazy_*: THE ORACLE - the iterative InverseOperator returns the exact solution (lf_inv_l / lf_inv_r
     of Sound.leaf_facts for InverseOperator; the convergence of lineax CG is tested, not proved).
     if_diag_*: a diagonal declared regular (all entries non-zero) is undone by where(d != 0, 1/d, 0);
     if_rot_*: R(a)^T undoes R(a) (cos^2 + sin^2 = 1); if_move: moveaxis(d, s) undoes moveaxis(s, d);
     if_move_oid: the action of a MoveAxisOperator depends on its fields, not on its identity.
     The last five are discharged for concrete semantics in Lemmas/InverseL.v and Props C11/C13/C15. *)
  Record inv_facts : Prop := {
    if_lazy_l : forall i e, winv (den e) (leafsem (Wrap i WInverse e));
    if_lazy_r : forall i e, winv (leafsem (Wrap i WInverse e)) (den e);
    if_diag_l : forall i d, regular d = true -> winv (den d) (leafsem (Wrap i WDiagInv d));
    if_diag_r : forall i d, regular d = true -> winv (leafsem (Wrap i WDiagInv d)) (den d);
    if_rot_l : forall i r, winv (den r) (leafsem (Wrap i WQURotT r));
    if_rot_r : forall i r, winv (leafsem (Wrap i WQURotT r)) (den r);
    if_move : forall il sil sol ir sir sor s d,
      winv (leafsem (Prim ir CMoveAxis sir sor (PAxes s d))) (leafsem (Prim il CMoveAxis sil sol (PAxes d s)));
    if_move_oid : forall i j si so p x, leafsem (Prim i CMoveAxis si so p) x = leafsem (Prim j CMoveAxis si so p) x
  }.
End Facts.

(* ------------------------------------------------------------------------------------------ *)
(* executable instance over Qc: Exec.leafsem extended with the operators that inverse() creates *)

Definition kpinv : K -> K := pinv K keqb k0 Qcinv.
Definition qminv : matrix -> option matrix := minv K keqb k0 k1 Qcplus Qcmult Qcopp Qcinv.

(* MoveAxisOperator created by the model (no measured matrix): jnp.moveaxis as specified in
   Model/Axes.v, leaf by leaf *)
Fixpoint move_value (s d : list Z) (si : struct) (x : xvalue) : option xvalue :=
  match x, si with
  | Leaf v, Leaf sd =>
      match Axes.moveaxis K k0 s d (Axes.mkArr (s_shape sd) v) with
      | Axes.Ok a => Some (Leaf (Axes.adata a))
      | Axes.Err _ => None
      end
  | Node k cs, Node _ ss =>
      option_map (Node k)
        ((fix go (l : list xvalue) (l' : list struct) : option (list xvalue) :=
            match l, l' with
            | [], [] => Some []
            | a :: r, b :: r' =>
                match move_value s d b a, go r r' with
                | Some y, Some ys => Some (y :: ys)
                | _, _ => None
                end
            | _, _ => None
            end) cs ss)
  | _, _ => None
  end.

Definition diag_entries (cols : matrix) : list K :=
  map (fun jc => nth (fst jc) (snd jc) k0) (combine (seq 0 (List.length cols)) cols).
Definition diag_rows (d : list K) : matrix :=
  map (fun i => map (fun j => if Nat.eqb i j then nth i d k0 else k0) (seq 0 (List.length d))) (seq 0 (List.length d)).

Section IExec.
  Variable tb : table.
  (* matrix of an operator under a leaf semantics, as the list of its COLUMNS (column j = image of
     the j-th basis vector) *)
  Definition gmat (sem : xop -> xvalue -> option xvalue) (e : xop) : option matrix :=
    let si := in_struct e in
    let n := struct_size si in
    omapl (fun j => option_map vflatten (denote Qcplus Qcmult sem e (fst (unflatten si (basis n j))))) (seq 0 n).

  (* level n: lazy inverses nested at most n deep *)
  Fixpoint isem (n : nat) (e : xop) (x : xvalue) {struct n} : option xvalue :=
    match leafsem tb e x with
    | Some y => Some y
    | None =>
        let si := in_struct e in
        let so := out_struct e in
        if negb (has_struct x si) then None else
        match n with
        | O => None
        | S n' =>
            match e with
            | Prim _ CMoveAxis _ _ (PAxes s d) => move_value s d si x
            | Wrap _ WDiagInv d =>
                (* DiagonalInverseOperator.diagonal = where(d != 0, 1/d, 0) on the diagonal of d *)
                match gmat (isem n') d with
                | Some cols => apply_matrix (diag_rows (map kpinv (diag_entries cols))) si so x
                | None => None
                end
            | Wrap _ WQURotT r =>
                (* transpose of a rotation whose angles are not quarter turns: rows = columns of r *)
                match gmat (isem n') r with
                | Some cols => apply_matrix cols si so x
                | None => None
                end
            | Wrap _ WInverse r =>
                (* the lazy InverseOperator as the exact solver (oracle): the certified inverse of
                   the matrix of its operand *)
                match gmat (isem n') r with
                | Some cols =>
                    match qminv cols with
                    | Some icols => apply_matrix (transpose_m icols (List.length icols)) si so x
                    | None => None
                    end
                | None => None
                end
            | _ => None
            end
        end
    end.
End IExec.

Definition inv_depth := 3.
Definition imat (tb : table) (e : xop) : option (list (list (Z * Z))) :=
  option_map (map (map (fun k => qpair (this k)))) (gmat (isem tb inv_depth) e).
(* AbstractLazyInverseOperator.as_matrix: jnp.linalg.inv(self.operator.as_matrix()) *)
Definition as_matrix_lazy_inverse (tb : table) (r : xop) : option matrix :=
  match gmat (isem tb inv_depth) r with Some cols => qminv cols | None => None end.
Definition imat_lazy (tb : table) (r : xop) : option (list (list (Z * Z))) :=
  option_map (map (map (fun k => qpair (this k)))) (as_matrix_lazy_inverse tb r).

Definition x_inverse_r (order : list rule_id) : xop -> result xop :=
  inverse_r K keqb k1 Qcmult Qcinv alg_fuel order.
Definition observe_i (tb : table) (r : result xop) : observation :=
  match r with
  | Err e => OErr e
  | Ok e => OOk (skel e) (show_struct (in_struct e)) (show_struct (out_struct e)) (imat tb e)
  end.
(* op.I together with op.I.I and, for a lazy inverse, the as_matrix() override *)
Definition lazy_operand (e : xop) : option xop := match e with Wrap _ WInverse r => Some r | _ => None end.
Definition observe_inv (tb : table) (order : list rule_id) (e : xop) :=
  let r := x_inverse_r order e in
  (observe_i tb r,
   observe_i tb (bind r (x_inverse_r order)),
   match r with Ok e' => match lazy_operand e' with Some o => imat_lazy tb o | None => None end | Err _ => None end).
