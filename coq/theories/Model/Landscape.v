(* Model of furax/landscapes.py: Landscape / StokesLandscape / HealpixLandscape / FrequencyLandscape
   constructors, __len__, size, StokesLandscape.pixel2index and StokesLandscape.get_coverage.
   Definitions only (the proofs are in Lemmas/LandscapeL.v).

   What is modelled explicitly, because property C17 is about it:
   * pixel coordinates are rationals (every finite float is one) or +inf / -inf / nan;
     `jnp.round` is round-half-to-even;
   * `.astype(int32|int64)` of a float SATURATES (XLA float->int conversion clamps, nan -> 0);
   * integer array arithmetic (`*`, `+=`) wraps modulo 2^w (two's complement);
   * a Python int meeting an integer array (the dims in `indices < dim`, the strides in
     `indices_axis * stride`) is a weakly typed scalar: it is parsed as int64 (x64 on) or int32
     (x64 off), OverflowError if it does not fit, and then converted - with wrap-around - to the
     array's dtype;
   * with x64 disabled JAX silently (UserWarning) gives int32 when int64 is requested.
   All of these were probed on the real interpreter and are compared by harness/c17.py. *)
From Coq Require Import ZArith QArith List Bool.
Import ListNotations.
Open Scope Z_scope.

(* ------------------------------------------------------------------------------------------ *)
(* machine integers *)

Definition int_min (w : Z) : Z := - 2 ^ (w - 1).
Definition int_max (w : Z) : Z := 2 ^ (w - 1) - 1.
Definition in_range (w z : Z) : bool := (int_min w <=? z) && (z <=? int_max w).
(* two's complement wrap-around of integer arithmetic / int->int conversion *)
Definition wrap (w z : Z) : Z := (z + 2 ^ (w - 1)) mod 2 ^ w - 2 ^ (w - 1).
(* float -> int conversion (XLA ConvertElementType): clamps *)
Definition sat (w z : Z) : Z := Z.max (int_min w) (Z.min (int_max w) z).

(* ------------------------------------------------------------------------------------------ *)
(* coordinates and rounding *)

Inductive coord := Fin (q : Q) | PInf | NInf | NaN.

(* jnp.round: round half to even.  q = n/d, f = floor(q), r = n - f*d in [0,d) *)
Definition round_half_even (q : Q) : Z :=
  let n := Qnum q in
  let d := Zpos (Qden q) in
  let f := n / d in
  let r2 := 2 * (n mod d) in
  if r2 <? d then f
  else if d <? r2 then f + 1
  else if Z.even f then f else f + 1.

(* jnp.round(coord).astype(dtype) *)
Definition to_int (w : Z) (c : coord) : Z :=
  match c with
  | Fin q => sat w (round_half_even q)
  | PInf => int_max w
  | NInf => int_min w
  | NaN => 0
  end.

(* ------------------------------------------------------------------------------------------ *)
(* constructors *)

Inductive errkind := TypeError | IndexError | OverflowError.

Definition prod (l : list Z) : Z := fold_right Z.mul 1 l.

(* the attributes the property talks about; nstokes = len(self.stokes) *)
Record landscape := mkLandscape { l_shape : list Z; l_pixel_shape : list Z; l_nstokes : Z }.

(* StokesLandscape.__init__(shape=None, stokes, dtype, pixel_shape=None) *)
Definition stokes_landscape (shape pixel_shape : option (list Z)) (nstokes : Z)
  : landscape + errkind :=
  match shape, pixel_shape with
  | None, None => inr TypeError          (* 'The shape is not specified.' *)
  | Some _, Some _ => inr TypeError      (* 'Either the shape or pixel_shape should be specified.' *)
  | _, _ =>
      (* shape = shape if pixel_shape is None else pixel_shape[::-1] *)
      let shape' := match pixel_shape with None => match shape with Some s => s | None => [] end
                                         | Some p => rev p end in
      (* self.pixel_shape = shape[::-1] *)
      inl (mkLandscape shape' (rev shape') nstokes)
  end.

(* HealpixLandscape.__init__(nside, stokes): shape = (12 * nside**2,) *)
Definition healpix_landscape (nside nstokes : Z) : landscape :=
  let shape := [12 * nside ^ 2] in mkLandscape shape (rev shape) nstokes.

(* FrequencyLandscape.__init__: HealpixLandscape.__init__, then self.shape = (len(frequencies), 12*nside**2);
   pixel_shape is NOT recomputed *)
Definition frequency_landscape (nside nfreq nstokes : Z) : landscape :=
  mkLandscape [nfreq; 12 * nside ^ 2] (l_pixel_shape (healpix_landscape nside nstokes)) nstokes.

(* Landscape.__len__ = math.prod(self.shape);  StokesLandscape.size = len(self.stokes) * len(self) *)
Definition len (l : landscape) : Z := prod (l_shape l).
Definition size (l : landscape) : Z := l_nstokes l * len l.

(* ------------------------------------------------------------------------------------------ *)
(* dtype choice *)

(* the rule of the FIXED code (fixes/c17-pixel2index-dtype.diff):
     if len(self) <= iinfo(int32).max: int32 else int64 *)
Definition requested_width (N : Z) : Z := if N <=? int_max 32 then 32 else 64.
(* the rule of the pinned tree:  if len(self) - 1 <= iinfo(int32).max  (N = 2^31 gets int32, but the
   dims / strides that meet the index array can then be 2^31 themselves) *)
Definition requested_width_pinned (N : Z) : Z := if N - 1 <=? int_max 32 then 32 else 64.
(* x64 disabled: int64 is not available, JAX truncates the request to int32 (UserWarning) *)
Definition effective_width (x64 : bool) (w : Z) : Z := if x64 then w else 32.
(* width with which a Python int is parsed before it is converted to the array's dtype *)
Definition py_width (x64 : bool) : Z := if x64 then 64 else 32.
(* a Python int operand of an integer-array operation; None = OverflowError *)
Definition lit (x64 : bool) (w v : Z) : option Z :=
  if in_range (py_width x64) v then Some (wrap w v) else None.

(* ------------------------------------------------------------------------------------------ *)
(* pixel2index *)

Inductive outcome := Index (w : Z) (i : Z) | Raised (e : errkind).

(*  for coord, dim in zip(coords[1:], self.pixel_shape[1:]):
        indices_axis = jnp.round(coord).astype(dtype)
        valid &= (0 <= indices_axis) & (indices_axis < dim)
        indices += indices_axis * stride
        stride *= dim
    `stride` is a Python int (unbounded); `indices`, `indices_axis` are machine integers. *)
Fixpoint p2i_fold (x64 : bool) (w : Z) (ias dims : list Z) (stride indices : Z) (valid : bool)
  : option (Z * bool) :=
  match ias, dims with
  | ia :: ias', dim :: dims' =>
      match lit x64 w dim, lit x64 w stride with
      | Some d, Some s =>
          p2i_fold x64 w ias' dims' (stride * dim)
                   (wrap w (indices + wrap w (ia * s)))
                   (valid && ((0 <=? ia) && (ia <? d)))
      | _, _ => None
      end
  | _, _ => Some (indices, valid)   (* zip stops at the shorter sequence *)
  end.

(* pixel2index( *coords ) on a landscape with len(self) = N and pixel_shape = ps, one point *)
Definition p2i_core (rule : Z -> Z) (x64 : bool) (N : Z) (ps : list Z) (cs : list coord) : outcome :=
  let w := effective_width x64 (rule N) in
  match cs with
  | [] => Raised TypeError                       (* 'Pixel coordinates are not specified.' *)
  | c0 :: cs' =>
      match ps with
      | [] => Raised IndexError                  (* self.pixel_shape[0] *)
      | n0 :: ps' =>
          let i0 := to_int w c0 in
          match lit x64 w n0 with
          | None => Raised OverflowError
          | Some d0 =>
              match p2i_fold x64 w (map (to_int w) cs') ps' n0 i0 ((0 <=? i0) && (i0 <? d0)) with
              | None => Raised OverflowError
              | Some (ind, valid) => Index w (if valid then ind else -1)   (* jnp.where(valid, indices, -1) *)
              end
          end
      end
  end.

(* the first thing pixel2index evaluates is len(self): CPython's len() raises OverflowError when
   __len__ returns more than sys.maxsize = 2^63 - 1 *)
Definition p2i_gen (rule : Z -> Z) (x64 : bool) (N : Z) (ps : list Z) (cs : list coord) : outcome :=
  if int_max 64 <? N then Raised OverflowError else p2i_core rule x64 N ps cs.

Definition p2i (x64 : bool) (ps : list Z) (cs : list coord) : outcome :=
  p2i_gen requested_width x64 (prod ps) ps cs.
Definition landscape_p2i (x64 : bool) (l : landscape) (cs : list coord) : outcome :=
  p2i_gen requested_width x64 (len l) (l_pixel_shape l) cs.

(* ------------------------------------------------------------------------------------------ *)
(* the mathematical reading of the same loop: unbounded integers, no clamp, no wrap *)

Fixpoint ideal_fold (ias dims : list Z) (stride indices : Z) (valid : bool) : Z * bool :=
  match ias, dims with
  | ia :: ias', dim :: dims' =>
      ideal_fold ias' dims' (stride * dim) (indices + ia * stride)
                 (valid && ((0 <=? ia) && (ia <? dim)))
  | _, _ => (indices, valid)
  end.
(* on already rounded coordinates; the first axis exists *)
Definition p2i_ideal (ps : list Z) (is : list Z) : Z :=
  match is, ps with
  | i0 :: is', n0 :: ps' =>
      let (ind, valid) := ideal_fold is' ps' n0 i0 ((0 <=? i0) && (i0 <? n0)) in
      if valid then ind else -1
  | _, _ => -1
  end.
(* every integer the machine computation manipulates for the given rounded coordinates:
   the dims and strides (Python ints), the per-axis indices, the products and the partial sums *)
Fixpoint fold_values (ias dims : list Z) (stride indices : Z) : list Z :=
  match ias, dims with
  | ia :: ias', dim :: dims' =>
      [dim; stride; ia; ia * stride; indices + ia * stride]
        ++ fold_values ias' dims' (stride * dim) (indices + ia * stride)
  | _, _ => []
  end.
Definition p2i_values (ps is : list Z) : list Z :=
  match is, ps with
  | i0 :: is', n0 :: ps' => [n0; i0] ++ fold_values is' ps' n0 i0
  | _, _ => []
  end.

(* closed forms: first coordinate fastest *)
Fixpoint ravel (cs ps : list Z) : Z :=
  match cs, ps with
  | c :: cs', n :: ps' => c + n * ravel cs' ps'
  | _, _ => 0
  end.
Fixpoint in_map (cs ps : list Z) : bool :=
  match cs, ps with
  | c :: cs', n :: ps' => ((0 <=? c) && (c <? n)) && in_map cs' ps'
  | _, _ => true
  end.
(* index = sum_k c_k * prod_{j<k} n_j *)
Definition stride_sum (cs ps : list Z) : Z :=
  fold_right Z.add 0
    (map (fun k => nth k cs 0 * prod (firstn k ps)) (seq 0 (length cs))).
(* NumPy's C-order (row-major) flat index of the multi-index idx in an array of the given shape
   (Horner form): what `coverage.reshape(self.shape)[idx]` addresses *)
Fixpoint horner (acc : Z) (idx shape : list Z) : Z :=
  match idx, shape with
  | i :: idx', n :: shape' => horner (acc * n + i) idx' shape'
  | _, _ => acc
  end.
Definition c_order (idx shape : list Z) : Z := horner 0 idx shape.
(* the inverse: repeated mod / div *)
Fixpoint index2pixel (ps : list Z) (i : Z) : list Z :=
  match ps with
  | [] => []
  | n :: ps' => (i mod n) :: index2pixel ps' (i / n)
  end.

(* ------------------------------------------------------------------------------------------ *)
(* get_coverage *)

(* jnp.unique(indices, return_counts=True): the distinct values in increasing order, with counts *)
Fixpoint insert_count (x : Z) (l : list (Z * Z)) : list (Z * Z) :=
  match l with
  | [] => [(x, 1)]
  | (y, c) :: l' =>
      if x <? y then (x, 1) :: l
      else if x =? y then (y, c + 1) :: l'
      else (y, c) :: insert_count x l'
  end.
Definition unique_counts (l : list Z) : list (Z * Z) := fold_right insert_count [] l.

Fixpoint add_nth (n : nat) (c : Z) (l : list Z) : list Z :=
  match l, n with
  | [], _ => []
  | x :: l', O => (x + c) :: l'
  | x :: l', S n' => x :: add_nth n' c l'
  end.
(* x.at[i].add(c): a negative index counts from the end (NumPy convention, i = -1 is the last
   pixel); an index that is still out of bounds is dropped *)
Definition at_add (cov : list Z) (ic : Z * Z) : list Z :=
  let n := Z.of_nat (length cov) in
  let i := if fst ic <? 0 then fst ic + n else fst ic in
  if (0 <=? i) && (i <? n) then add_nth (Z.to_nat i) (snd ic) cov else cov.
(* coverage = zeros(len(self)).at[unique_indices].add(counts) (flat, before reshape(self.shape)) *)
Definition get_coverage (N : Z) (indices : list Z) : list Z :=
  fold_left at_add (unique_counts indices) (repeat 0 (Z.to_nat N)).
Definition zsum (l : list Z) : Z := fold_right Z.add 0 l.

(* ------------------------------------------------------------------------------------------ *)
(* vocabulary of the theorems *)

Definition all_pos (ps : list Z) : Prop := Forall (fun n => 0 < n) ps.
(* the map sizes for which the dtype rule yields a dtype that is wide enough AND available:
   N fits int32, or x64 is enabled and N fits int64 *)
Definition fits (x64 : bool) (N : Z) : Prop := N <= int_max 32 \/ (x64 = true /\ N <= int_max 64).
(* the width of the indices that pixel2index returns *)
Definition width (x64 : bool) (N : Z) : Z := effective_width x64 (requested_width N).
(* real coordinates / integer coordinates as coordinate tuples *)
Definition fin (qs : list Q) : list coord := map Fin qs.
Definition ints (cs : list Z) : list Q := map inject_Z cs.
Definition rounded (qs : list Q) : list Z := map round_half_even qs.
(* the integer a coordinate stands for before the clamp of astype: +-inf are represented by the
   extreme values of the dtype (which is what the conversion yields), nan by 0 *)
Definition ideal_of (w : Z) (c : coord) : Z :=
  match c with Fin q => round_half_even q | _ => to_int w c end.

(* ------------------------------------------------------------------------------------------ *)
(* entry points of the correspondence harness *)

Inductive result := Ok (w : Z) (l : list Z) | Error (e : errkind).

(* one call of pixel2index on arrays: every point is the list of its coordinates *)
Fixpoint collect (w : Z) (os : list outcome) : result :=
  match os with
  | [] => Ok w []
  | Raised e :: _ => Error e
  | Index _ i :: os' => match collect w os' with Ok _ l => Ok w (i :: l) | Error e => Error e end
  end.
Definition p2i_many (rule : Z -> Z) (x64 : bool) (N : Z) (ps : list Z) (pts : list (list coord)) : result :=
  collect (effective_width x64 (rule N)) (map (p2i_gen rule x64 N ps) pts).

(* all points of a grid, first axis fastest *)
Fixpoint cartesian (axes : list (list Z)) : list (list Z) :=
  match axes with
  | [] => [[]]
  | a :: rest => flat_map (fun tail => map (fun x => x :: tail) a) (cartesian rest)
  end.
(* quarter-integer coordinate k/4 *)
Definition quarter (k : Z) : coord := Fin (k # 4).
Definition run_grid (x64 : bool) (l : landscape) (axes : list (list Z)) : result :=
  p2i_many requested_width x64 (len l) (l_pixel_shape l) (map (map quarter) (cartesian axes)).
Definition run_points (x64 : bool) (l : landscape) (pts : list (list coord)) : result :=
  p2i_many requested_width x64 (len l) (l_pixel_shape l) pts.
Definition run_grid_ctor (x64 : bool) (c : landscape + errkind) (axes : list (list Z)) : result :=
  match c with inl l => run_grid x64 l axes | inr e => Error e end.
Definition run_points_ctor (x64 : bool) (c : landscape + errkind) (pts : list (list coord)) : result :=
  match c with inl l => run_points x64 l pts | inr e => Error e end.

(* ------------------------------------------------------------------------------------------ *)
(* Sampling fields of different (broadcastable) shapes: world2index and get_coverage receive
   theta and phi as arrays (shape, row-major data) and the arithmetic of pixel2index / of
   jax_healpy broadcasts them (NumPy rules: shapes aligned on the LAST axis, a dimension 1 or a
   missing leading dimension is repeated). *)

Definition bdim (a b : Z) : option Z :=
  if a =? b then Some a else if a =? 1 then Some b else if b =? 1 then Some a else None.
(* on reversed shapes (last axis first) *)
Fixpoint bshape_rev (r1 r2 : list Z) : option (list Z) :=
  match r1 with
  | [] => Some r2
  | a :: r1' =>
      match r2 with
      | [] => Some r1
      | b :: r2' =>
          match bdim a b, bshape_rev r1' r2' with
          | Some c, Some r => Some (c :: r)
          | _, _ => None
          end
      end
  end.
Definition bshape (s1 s2 : list Z) : option (list Z) :=
  option_map (@rev Z) (bshape_rev (rev s1) (rev s2)).
(* missing leading dimensions count as 1 *)
Definition pad (s t : list Z) : list Z := repeat 1 (length t - length s) ++ s.
(* n consecutive chunks of k elements *)
Fixpoint chunks {A : Type} (k n : nat) (l : list A) : list (list A) :=
  match n with
  | O => []
  | S n' => firstn k l :: chunks k n' (skipn k l)
  end.
(* np.broadcast_to(array of shape s, t), both of the same rank: along every axis either the
   sub-arrays are mapped one by one (equal dimensions) or the only one is repeated (dimension 1) *)
Fixpoint bcast {A : Type} (s t : list Z) (d : list A) : list A :=
  match s, t with
  | m :: s', n :: t' =>
      if m =? n then flat_map (bcast s' t') (chunks (Z.to_nat (prod s')) (Z.to_nat n) d)
      else concat (repeat (bcast s' t' d) (Z.to_nat n))
  | _, _ => d
  end.
Definition broadcast_to {A : Type} (s t : list Z) (d : list A) : list A := bcast (pad s t) t d.

(* vocabulary: s broadcasts to t (after padding with leading 1s every dimension is equal or 1) *)
Definition brel (m n : Z) : Prop := m = n \/ m = 1.
Definition broadcasts_to (s t : list Z) : Prop := Forall2 brel (pad s t) t.
Definition all_nonneg (s : list Z) : Prop := Forall (fun n => 0 <= n) s.

Record field := mkField { f_shape : list Z; f_data : list coord }.

(* an array: as many elements as the product of its dimensions *)
Definition well_formed (f : field) : Prop :=
  all_nonneg (f_shape f) /\ length (f_data f) = Z.to_nat (prod (f_shape f)).

Inductive cov_result :=
  | Coverage (index_shape : list Z) (w : Z) (indices coverage : list Z)
  | Incompatible                       (* shapes that cannot be broadcast: ValueError *)
  | CovError (e : errkind).

(* indices = self.world2index(theta, phi);
   coverage = self.get_coverage(Sampling(theta, phi, pa)): the histogram of the indices broadcast
   against the shape of the position angles (every sample counts: detectors sharing a direction),
   for a landscape whose world2pixel is the identity (flat maps: x = theta, y = phi).
   [the pinned tree ignored pa: fixed by furax commit 9b83753] *)
Definition sampling_coverage (x64 : bool) (c : landscape + errkind) (theta phi : field)
    (pa_shape : list Z) : cov_result :=
  match c with
  | inr e => CovError e
  | inl l =>
      match bshape (f_shape theta) (f_shape phi) with
      | None => Incompatible
      | Some t =>
          let xs := broadcast_to (f_shape theta) t (f_data theta) in
          let ys := broadcast_to (f_shape phi) t (f_data phi) in
          match run_points x64 l (map (fun xy => [fst xy; snd xy]) (combine xs ys)) with
          | Error e => CovError e
          | Ok w idx =>
              match bshape t pa_shape with
              | None => Incompatible
              | Some u => Coverage t w idx (get_coverage (len l) (broadcast_to t u idx))
              end
          end
      end
  end.
(* the same on a landscape whose world2pixel is not modelled (HEALPix): the indices are given *)
Definition coverage_of_indices (N : Z) (t : list Z) (idx : list Z) (pa_shape : list Z) : option (list Z) :=
  match bshape t pa_shape with
  | None => None
  | Some u => Some (get_coverage N (broadcast_to t u idx))
  end.

Inductive ctor_result := Built (shape pixel_shape : list Z) (len size : Z) | Rejected (e : errkind).
Definition show_landscape (c : landscape + errkind) : ctor_result :=
  match c with
  | inl l => Built (l_shape l) (l_pixel_shape l) (len l) (size l)
  | inr e => Rejected e
  end.
