(* C15 - model of the polarimetry operators of furax (definitions only; proofs in Lemmas/MuellerL.v).

   Source (transcribed branch by branch):
     src/furax/operators/qu_rotations.py  QURotationOperator.mv, QURotationTransposeOperator.mv,
                                          QURotationRule.apply (four transposed combinations)
     src/furax/operators/hwp.py           HWPOperator.mv, HWPOperator.create, QURotationHWPRule.apply
     src/furax/operators/polarizers.py    LinearPolarizerOperator.mv, .create, LinearPolarizerHWPRule.apply
     src/furax/_base/rules.py             AlgebraicReductionRule.apply (the scan), InverseBinaryRule
     src/furax/_base/core.py              CompositionOperator.mv / .reduce

   Scalars: any commutative ring K with a constant `half`; angles: any type A with c s : A -> K
   (c = cos(2 .), s = sin(2 .)), + - neg on A.  A Stokes value is the pytree `Node (KStokes n) leaves`
   of Base/Pytree.v with flat (row-major) component arrays; the four Stokes classes are n = 1 (I),
   2 (QU), 3 (IQU), 4 (IQUV).  Angle arrays keep their own shape and reach position p of a component
   through NumPy broadcasting (`bc`), as `x.q * cos(2 * angles)` does. *)
From Coq Require Import List Bool Arith NArith ZArith QArith Qcanon Lia.
From Furax Require Import Base.Pytree.
Import ListNotations.
Set Implicit Arguments.
Local Close Scope Q_scope.
Local Close Scope Qc_scope.
Local Open Scope nat_scope.

(* ---------- NumPy broadcasting of an array of shape sa against an output of shape sh ----------
   Shapes are handled reversed (least significant axis first).  `bcr ro ra p` is the flat index,
   in the array of (reversed) shape ra, of the element that position p of the output reads:
   axes of extent 1 are stretched, missing leading axes are ignored. *)
Definition size (sh : list nat) : nat := fold_right Nat.mul 1 sh.
Fixpoint bcr (ro ra : list nat) (p : nat) : nat :=
  match ra, ro with
  | e :: ra', d :: ro' => (if e =? 1 then 0 else p mod d) + e * bcr ro' ra' (p / d)
  | _, _ => 0
  end.
Definition bc (sh sa : list nat) (p : nat) : nat := bcr (rev sh) (rev sa) p.
(* sa broadcasts TO sh (numpy.broadcast_to would accept it) *)
Fixpoint bcable_r (ro ra : list nat) : bool :=
  match ra, ro with
  | [], _ => true
  | e :: ra', d :: ro' => ((e =? 1) || (e =? d)) && bcable_r ro' ra'
  | _ :: _, [] => false
  end.
Definition bcable (sh sa : list nat) : bool := bcable_r (rev sh) (rev sa).
(* numpy.broadcast_shapes *)
Fixpoint bshape_r (ra rb : list nat) : option (list nat) :=
  match ra, rb with
  | [], _ => Some rb
  | _, [] => Some ra
  | e :: ra', f :: rb' =>
      match bshape_r ra' rb' with
      | Some r =>
          if e =? 1 then Some (f :: r) else
          if f =? 1 then Some (e :: r) else
          if e =? f then Some (e :: r) else None
      | None => None
      end
  end.
Definition bshape (sa sb : list nat) : option (list nat) :=
  option_map (@rev nat) (bshape_r (rev sa) (rev sb)).

Section Mueller.
  Variable K : Type.
  Variables (k0 k1 : K) (kadd kmul ksub : K -> K -> K) (kopp : K -> K).
  Variable half : K.                              (* the literal 0.5 of LinearPolarizerOperator.mv *)
  Variable A : Type.                              (* angles *)
  Variable a0 : A.
  Variables (aadd asub : A -> A -> A) (aneg : A -> A).
  Variables (c s : A -> K).                       (* cos(2 a), sin(2 a) *)
  Variable aeqb : A -> A -> bool.
  Local Notation "a + b" := (kadd a b).
  Local Notation "a * b" := (kmul a b).
  Local Notation "a - b" := (ksub a b).
  Local Notation "- a" := (kopp a).

  Definition value := pt (list K).
  Definition tab (n : nat) (f : nat -> K) : list K := map f (seq 0 n).
  Definition at_ (l : list K) (p : nat) : K := nth p l k0.

  (* ---------- element-wise kernels (one line of Python each) ---------- *)
  Definition field := nat -> A.                   (* the angle seen at each position of a component *)
  (* q = x.q * cos_2angles - x.u * sin_2angles ; u = x.q * sin_2angles + x.u * cos_2angles *)
  Definition rot_q (ang : field) (q u : list K) : list K :=
    tab (length q) (fun p => at_ q p * c (ang p) - at_ u p * s (ang p)).
  Definition rot_u (ang : field) (q u : list K) : list K :=
    tab (length q) (fun p => at_ q p * s (ang p) + at_ u p * c (ang p)).
  (* q = x.q * cos_2angles + x.u * sin_2angles ; u = -x.q * sin_2angles + x.u * cos_2angles *)
  Definition rotT_q (ang : field) (q u : list K) : list K :=
    tab (length q) (fun p => at_ q p * c (ang p) + at_ u p * s (ang p)).
  Definition rotT_u (ang : field) (q u : list K) : list K :=
    tab (length q) (fun p => (- at_ q p) * s (ang p) + at_ u p * c (ang p)).
  Definition negl (u : list K) : list K := map kopp u.
  Definition halfl (i : list K) : list K := map (kmul half) i.
  Definition half_sum (i q : list K) : list K := tab (length i) (fun p => half * (at_ i p + at_ q p)).

  (* ---------- Stokes values ---------- *)
  Fixpoint leaves_of (cs : list value) : option (list (list K)) :=
    match cs with
    | [] => Some []
    | Leaf l :: r => option_map (cons l) (leaves_of r)
    | Node _ _ :: _ => None
    end.
  Definition comps_ok (m : nat) (ls : list (list K)) : bool :=
    (1 <=? length ls) && (length ls <=? 4) && forallb (fun l => length l =? m) ls.
  (* the components of a value of one of the four Stokes classes whose arrays have m elements *)
  Definition view (m : nat) (x : value) : option (list (list K)) :=
    match x with
    | Node (KStokes n) cs =>
        match leaves_of cs with
        | Some ls => if (length ls =? n) && comps_ok m ls then Some ls else None
        | None => None
        end
    | _ => None
    end.
  Definition mk (ls : list (list K)) : value := Node (KStokes (length ls)) (map (@Leaf (list K)) ls).

  (* the isinstance dispatch of the four mv methods: the Stokes class is the number of components *)
  Definition hwp_comps (ls : list (list K)) : option (list (list K)) :=
    match ls with
    | [i] => Some [i]
    | [q; u] => Some [q; negl u]
    | [i; q; u] => Some [i; q; negl u]
    | [i; q; u; v] => Some [i; q; negl u; negl v]
    | _ => None
    end.
  Definition rot_comps (ang : field) (ls : list (list K)) : option (list (list K)) :=
    match ls with
    | [i] => Some [i]
    | [q; u] => Some [rot_q ang q u; rot_u ang q u]
    | [i; q; u] => Some [i; rot_q ang q u; rot_u ang q u]
    | [i; q; u; v] => Some [i; rot_q ang q u; rot_u ang q u; v]
    | _ => None
    end.
  Definition rotT_comps (ang : field) (ls : list (list K)) : option (list (list K)) :=
    match ls with
    | [i] => Some [i]
    | [q; u] => Some [rotT_q ang q u; rotT_u ang q u]
    | [i; q; u] => Some [i; rotT_q ang q u; rotT_u ang q u]
    | [i; q; u; v] => Some [i; rotT_q ang q u; rotT_u ang q u; v]
    | _ => None
    end.
  Definition pol_comps (ls : list (list K)) : option (list K) :=
    match ls with
    | [i] => Some (halfl i)
    | [q; u] => Some (halfl q)
    | [i; q; _] | [i; q; _; _] => Some (half_sum i q)
    | _ => None
    end.

  Definition lift (m : nat) (f : list (list K) -> option (list (list K))) (x : value) : option value :=
    match view m x with Some ls => option_map mk (f ls) | None => None end.
  Definition hwp_mv (m : nat) : value -> option value := lift m hwp_comps.
  Definition rot_mv (m : nat) (ang : field) : value -> option value := lift m (rot_comps ang).
  Definition rotT_mv (m : nat) (ang : field) : value -> option value := lift m (rotT_comps ang).
  Definition pol_mv (m : nat) (x : value) : option value :=
    match view m x with Some ls => option_map (@Leaf (list K)) (pol_comps ls) | None => None end.

  (* ---------- the Mueller-matrix reference (the specification the theorems compare with) ---------- *)
  Definition sidx (n : nat) : list nat :=       (* which of I Q U V the n components are *)
    match n with 1 => [0] | 2 => [1; 2] | 3 => [0; 1; 2] | 4 => [0; 1; 2; 3] | _ => [] end.
  Definition mrow := list K.
  Definition mmat := list mrow.
  Definition M_id : mmat := [[k1; k0; k0; k0]; [k0; k1; k0; k0]; [k0; k0; k1; k0]; [k0; k0; k0; k1]].
  Definition M_hwp : mmat := [[k1; k0; k0; k0]; [k0; k1; k0; k0]; [k0; k0; - k1; k0]; [k0; k0; k0; - k1]].
  Definition M_rot (a : A) : mmat :=
    [[k1; k0; k0; k0]; [k0; c a; - s a; k0]; [k0; s a; c a; k0]; [k0; k0; k0; k1]].
  Definition M_pol : mrow := [half; half; k0; k0].   (* the detected intensity: first row of the polariser *)
  Definition dotk (row : mrow) (idx : list nat) (vals : list K) : K :=
    fold_right (fun jv acc => nth (fst jv) row k0 * snd jv + acc) k0 (combine idx vals).
  Definition col_at (ls : list (list K)) (p : nat) : list K := map (fun l => at_ l p) ls.
  (* y_j[p] = sum over the present components j' of M(p)[j][j'] * x_j'[p] *)
  Definition mueller_comps (M : nat -> mmat) (m : nat) (ls : list (list K)) : list (list K) :=
    let idx := sidx (length ls) in
    map (fun j => tab m (fun p => dotk (nth j (M p) []) idx (col_at ls p))) idx.
  Definition mueller_row (R : nat -> mrow) (m : nat) (ls : list (list K)) : list K :=
    tab m (fun p => dotk (R p) (sidx (length ls)) (col_at ls p)).
  (* 4x4 products, for the algebra of the matrices themselves *)
  Definition mcol (B : mmat) (j : nat) : list K := map (fun r => nth j r k0) B.
  Definition dot4 (u v : list K) : K := fold_right (fun p acc => fst p * snd p + acc) k0 (combine u v).
  Definition rowmul (r : mrow) (Y : mmat) : mrow := map (fun j => dot4 r (mcol Y j)) [0; 1; 2; 3].
  Definition mmul (X Y : mmat) : mmat := map (fun r => rowmul r Y) X.
  Definition mtrans (X : mmat) : mmat := map (mcol X) [0; 1; 2; 3].

  (* ---------- operators ---------- *)
  Record aarr := mkArr { ashape : list nat; adata : list A }.   (* QURotationOperator.angles *)
  Definition field_of (sh : list nat) (a : aarr) : field :=
    fun p => nth (bc sh (ashape a) p) (adata a) a0.
  (* jnp broadcasting binary operation / negation on angle arrays *)
  Definition arr_bin (f : A -> A -> A) (a b : aarr) : option aarr :=
    match bshape (ashape a) (ashape b) with
    | Some sm =>
        Some (mkArr sm (map (fun p => f (nth (bc sm (ashape a) p) (adata a) a0)
                                         (nth (bc sm (ashape b) p) (adata b) a0)) (seq 0 (size sm))))
    | None => None
    end.
  Definition arr_neg (a : aarr) : aarr := mkArr (ashape a) (map aneg (adata a)).

  (* i: identity of the QURotationOperator object (0 = created during the reduction); a transposed
     rotation PRotT i a is a QURotationTransposeOperator whose `.operator` is the object i *)
  Inductive pop :=
  | PRot (i : N) (a : aarr)
  | PRotT (i : N) (a : aarr)
  | PHwp
  | PPol.

  (* mv of an operator whose in_structure has component shape sh *)
  Definition mv (sh : list nat) (o : pop) (x : value) : option value :=
    let m := size sh in
    match o with
    | PRot _ a => rot_mv m (field_of sh a) x
    | PRotT _ a => rotT_mv m (field_of sh a) x
    | PHwp => hwp_mv m x
    | PPol => pol_mv m x
    end.
  Definition obind {X Y} (o : option X) (f : X -> option Y) : option Y :=
    match o with Some a => f a | None => None end.
  (* CompositionOperator.mv: for operand in reversed(operands): x = operand.mv(x) *)
  Definition chain_mv (sh : list nat) (l : list pop) (x : value) : option value :=
    fold_right (fun o acc => obind acc (mv sh o)) (Some x) l.

  (* ---------- the binary rules ---------- *)
  Fixpoint list_eqb {X} (eqb : X -> X -> bool) (l l' : list X) : bool :=
    match l, l' with
    | [], [] => true
    | x :: xs, y :: ys => eqb x y && list_eqb eqb xs ys
    | _, _ => false
    end.
  Definition arr_eqb (a b : aarr) : bool :=
    list_eqb Nat.eqb (ashape a) (ashape b) && list_eqb aeqb (adata a) (adata b).
  (* `left.operator is right`: the same (non-fresh) object *)
  Definition same_rot (i : N) (a : aarr) (j : N) (b : aarr) : bool :=
    negb (i =? 0)%N && (i =? j)%N && arr_eqb a b.

  Inductive fres := NoRed | Red (l : list pop) | Fail.    (* NoReduction / new operands / jnp raises *)
  Definition red_rot (o : option aarr) : fres :=
    match o with Some a => Red [PRot 0%N a] | None => Fail end.

  (* registry order: InverseBinaryRule, QURotationRule, QURotationHWPRule, LinearPolarizerHWPRule *)
  Definition inverse_rule (l r : pop) : fres :=
    match l, r with
    | PRotT i a, PRot j b => if same_rot i a j b then Red [] else NoRed   (* left.operator is right *)
    | PRotT _ _, _ => NoRed
    | PRot i a, PRotT j b => if same_rot j b i a then Red [] else NoRed   (* right.operator is left *)
    | _, _ => NoRed
    end.
  Definition qurot_rule (l r : pop) : fres :=
    match l, r with
    | PRot _ la, PRot _ ra => red_rot (arr_bin aadd la ra)        (* left.angles + right.angles *)
    | PRot _ la, PRotT _ ra => red_rot (arr_bin asub la ra)       (* left.angles - right.operator.angles *)
    | PRotT _ la, PRot _ ra => red_rot (arr_bin asub ra la)       (* right.angles - left.operator.angles *)
    | PRotT _ la, PRotT _ ra => red_rot (arr_bin asub (arr_neg la) ra)  (* -left.operator.angles - right.operator.angles *)
    | _, _ => NoRed
    end.
  Definition rot_hwp_rule (l r : pop) : fres :=
    match l, r with
    | PRot i a, PHwp => Red [PHwp; PRotT i a]      (* [right, QURotationTransposeOperator(left)] *)
    | PRotT i a, PHwp => Red [PHwp; PRot i a]      (* [right, left.operator] *)
    | _, _ => NoRed
    end.
  Definition pol_hwp_rule (l r : pop) : fres :=
    match l, r with PPol, PHwp => Red [PPol] | _, _ => NoRed end.
  Definition rules : list (pop -> pop -> fres) := [inverse_rule; qurot_rule; rot_hwp_rule; pol_hwp_rule].
  (* for rule in BINARY_RULE_REGISTRY: ... except NoReduction: continue *)
  Fixpoint fire (rs : list (pop -> pop -> fres)) (l r : pop) : fres :=
    match rs with
    | [] => NoRed
    | ru :: rest => match ru l r with NoRed => fire rest l r | res => res end
    end.

  (* the while loop of AlgebraicReductionRule.apply (no identity or homothety occurs in this alphabet) *)
  Fixpoint scan (fuel : nat) (rs : list (pop -> pop -> fres)) (ops : list pop) (index : nat) : option (list pop) :=
    match fuel with
    | O => None
    | S fuel' =>
        if S index <? length ops then
          match nth_error ops index, nth_error ops (S index) with
          | Some l, Some r =>
              match fire rs l r with
              | Red new => scan fuel' rs (firstn index ops ++ new ++ skipn (index + 2) ops) (index - 1)
              | NoRed => scan fuel' rs ops (S index)
              | Fail => None
              end
          | _, _ => None
          end
        else Some ops
    end.
  (* CompositionOperator.reduce on a chain of these leaves; [] stands for IdentityOperator *)
  Definition reduce_chain (fuel : nat) (ops : list pop) : option (list pop) :=
    match ops with
    | [] | [_] => Some ops
    | _ => scan fuel rules ops 0
    end.

  (* ---------- the factories ---------- *)
  (* HWPOperator.create(angles=a): rot.T @ hwp @ rot ; LinearPolarizerOperator.create: polarizer @ rot ;
     QURotationOperator.create: cls(angles, structure).  `i` is the identity of the one `rot` object. *)
  Definition hwp_create (i : N) (a : option aarr) : list pop :=
    match a with None => [PHwp] | Some a => [PRotT i a; PHwp; PRot i a] end.
  Definition pol_create (i : N) (a : option aarr) : list pop :=
    match a with None => [PPol] | Some a => [PPol; PRot i a] end.
  Definition rot_create (i : N) (a : aarr) : list pop := [PRot i a].

  (* well-formed operands for component shape sh: the angles broadcast to sh; and (needed only for
     R.T R = I) they are angles: cos^2 + sin^2 = 1 *)
  Definition wf_arr (sh : list nat) (a : aarr) : bool :=
    bcable sh (ashape a) && (length (adata a) =? size (ashape a)).
  Definition unit_ang (a : A) : Prop := c a * c a + s a * s a = k1.
  Definition good_arr (sh : list nat) (a : aarr) : Prop := wf_arr sh a = true /\ Forall unit_ang (adata a).
  Definition good_op (sh : list nat) (o : pop) : Prop :=
    match o with PRot _ a | PRotT _ a => good_arr sh a | _ => True end.
  (* each result defined on the left is the result on the right *)
  Definition chain_le (sh : list nat) (l l' : list pop) : Prop :=
    forall x y, chain_mv sh l x = Some y -> chain_mv sh l' x = Some y.
End Mueller.

(* ---------- the executable exact instance ----------
   K = Qc; an angle a is its doubled unit vector (C, S) = (cos 2a, sin 2a) in Qc^2: addition is complex
   multiplication, negation is conjugation.  No floating point, no trigonometry. *)
Definition xang := (Qc * Qc)%type.
Definition x0 : xang := (Q2Qc 1, Q2Qc 0).
Definition xadd (a b : xang) : xang :=
  (Qcminus (Qcmult (fst a) (fst b)) (Qcmult (snd a) (snd b)),
   Qcplus (Qcmult (snd a) (fst b)) (Qcmult (fst a) (snd b))).
Definition xneg (a : xang) : xang := (fst a, Qcopp (snd a)).
Definition xsub (a b : xang) : xang := xadd a (xneg b).
Definition xc (a : xang) : Qc := fst a.
Definition xs (a : xang) : Qc := snd a.
Definition xeqb (a b : xang) : bool := Qc_eq_bool (fst a) (fst b) && Qc_eq_bool (snd a) (snd b).
Definition xhalf : Qc := Q2Qc (1 # 2).

Definition xvalue := value Qc.
Definition xpop := pop xang.
Definition xarr := aarr xang.
Definition x_mv (sh : list nat) (o : xpop) (x : xvalue) : option xvalue :=
  mv (Q2Qc 0) Qcplus Qcmult Qcminus Qcopp xhalf x0 xc xs sh o x.
Definition x_chain (sh : list nat) (l : list xpop) (x : xvalue) : option xvalue :=
  chain_mv (Q2Qc 0) Qcplus Qcmult Qcminus Qcopp xhalf x0 xc xs sh l x.
Definition x_reduce (fuel : nat) (l : list xpop) : option (list xpop) :=
  reduce_chain x0 xadd xsub xneg xeqb fuel l.
Definition x_fire (l r : xpop) : fres xang := fire (rules x0 xadd xsub xneg xeqb) l r.

(* printing: rationals as (numerator, denominator) *)
Definition qp (k : Qc) : Z * Z := (Qnum (this k), Zpos (Qden (this k))).
Definition show_val (v : option xvalue) : option (nat * list (list (Z * Z))) :=
  match v with
  | Some (Node (KStokes n) cs) =>
      match leaves_of cs with Some ls => Some (n, map (map qp) ls) | None => None end
  | Some (Leaf l) => Some (0, [map qp l])
  | _ => None
  end.
Definition show_arr (a : xarr) : list nat * list ((Z * Z) * (Z * Z)) :=
  (ashape a, map (fun cs => (qp (fst cs), qp (snd cs))) (adata a)).
Definition show_op (o : xpop) : nat * N * (list nat * list ((Z * Z) * (Z * Z))) :=
  match o with
  | PRot i a => (0, i, show_arr a)
  | PRotT i a => (1, i, show_arr a)
  | PHwp _ => (2, 0%N, ([], []))
  | PPol _ => (3, 0%N, ([], []))
  end.
Definition show_fres (r : fres xang) : nat * list (nat * N * (list nat * list ((Z * Z) * (Z * Z)))) :=
  match r with
  | NoRed _ => (0, [])
  | Red l => (1, map show_op l)
  | Fail _ => (2, [])
  end.
(* one observation of a chain: value before reduction, the reduced chain, value after reduction *)
Definition x_observe (sh : list nat) (l : list xpop) (x : xvalue) :=
  let r := x_reduce (4 * length l * length l + 8) l in
  (show_val (x_chain sh l x),
   option_map (map show_op) r,
   match r with Some l' => show_val (x_chain sh l' x) | None => None end).
(* building inputs from integers *)
Definition zleaf (l : list Z) : list Qc := map (fun z => Q2Qc (inject_Z z)) l.
Definition zstokes (ls : list (list Z)) : xvalue := mk (map zleaf ls).
Definition qang (cn cd sn sd : Z) : xang := (Q2Qc (Qmake cn (Z.to_pos cd)), Q2Qc (Qmake sn (Z.to_pos sd))).
