(* The operator expression language of furax (one constructor family per class), structures,
   object identity, decidable equality.  Definitions + the equality lemmas. *)
From Coq Require Import List Bool Arith ZArith NArith QArith String Lia.
From Furax Require Import Base.Pytree.
Import ListNotations.
Set Implicit Arguments.
Local Close Scope Q_scope.
Local Open Scope nat_scope.

(* ---------- classes (src/furax) ---------- *)
Inductive cls :=
| CAbstractLinearOperator | CAddition | CComposition | CLazyDual | CTranspose | CAbstractLazyInverse
| CInverse | CAbstractLazyInverseOrthogonal | CIdentity | CHomothety
| CAbstractBlock | CBlockRow | CBlockDiagonal | CBlockColumn
| CBroadcastDiagonal | CDiagonal | CDiagonalInverse
| CDense | CIndex | CPack | CMoveAxis | CAbstractRavelOrReshape | CRavel | CReshape | CReshapeTranspose
| CQURotation | CQURotationTranspose | CHWP | CLinearPolarizer | CToeplitz
| CObsMatrix | CObsMatrixTranspose
| CAtom.  (* any user-defined leaf operator class: direct subclass of AbstractLinearOperator *)

Definition cls_eq_dec (a b : cls) : {a = b} + {a <> b}.
Proof. decide equality. Defined.
Definition cls_eqb (a b : cls) : bool := if cls_eq_dec a b then true else false.
Lemma cls_eqb_eq a b : cls_eqb a b = true <-> a = b.
Proof. unfold cls_eqb; destruct (cls_eq_dec a b); split; congruence. Qed.

Definition all_cls : list cls :=
  [CAbstractLinearOperator; CAddition; CComposition; CLazyDual; CTranspose; CAbstractLazyInverse;
   CInverse; CAbstractLazyInverseOrthogonal; CIdentity; CHomothety; CAbstractBlock; CBlockRow;
   CBlockDiagonal; CBlockColumn; CBroadcastDiagonal; CDiagonal; CDiagonalInverse; CDense; CIndex;
   CPack; CMoveAxis; CAbstractRavelOrReshape; CRavel; CReshape; CReshapeTranspose; CQURotation;
   CQURotationTranspose; CHWP; CLinearPolarizer; CToeplitz; CObsMatrix; CObsMatrixTranspose; CAtom].

(* direct base classes, as in the source; `subclass` is the reflexive-transitive closure
   (checked against the imported package by Gen/ClassRel.v on every run) *)
Definition bases (c : cls) : list cls :=
  match c with
  | CAbstractLinearOperator => []
  | CTranspose | CAbstractLazyInverse => [CLazyDual]
  | CInverse => [CAbstractLazyInverse]
  | CAbstractLazyInverseOrthogonal => [CTranspose; CAbstractLazyInverse]
  | CBlockRow | CBlockDiagonal | CBlockColumn => [CAbstractBlock]
  | CDiagonal => [CBroadcastDiagonal]
  | CDiagonalInverse => [CDiagonal; CAbstractLazyInverse]
  | CRavel | CReshape => [CAbstractRavelOrReshape]
  | CReshapeTranspose | CObsMatrixTranspose => [CTranspose]
  | CQURotationTranspose => [CAbstractLazyInverseOrthogonal]
  | _ => [CAbstractLinearOperator]
  end.
Fixpoint subclass_fuel (n : nat) (c d : cls) : bool :=
  cls_eqb c d ||
  match n with
  | O => false
  | S n' => existsb (fun b => subclass_fuel n' b d) (bases c)
  end.
Definition subclass (c d : cls) : bool := subclass_fuel 5 c d.
Definition isinst (c : cls) (ds : list cls) : bool := existsb (subclass c) ds.

(* ---------- structures ---------- *)
Fixpoint list_eqb {A} (eqb : A -> A -> bool) (l l' : list A) : bool :=
  match l, l' with
  | [], [] => true
  | x :: xs, y :: ys => eqb x y && list_eqb eqb xs ys
  | _, _ => false
  end.
Lemma list_eqb_eq A (eqb : A -> A -> bool) : (forall a b, eqb a b = true -> a = b) ->
  forall l l', list_eqb eqb l l' = true -> l = l'.
Proof. intros He l; induction l as [|x xs IH]; intros [|y ys]; cbn; try discriminate; auto.
  intros H; apply andb_true_iff in H as [H1 H2]. f_equal; auto. Qed.
Record sds := mkSds { s_shape : list nat; s_dtype : nat }.   (* dtype: an identifier *)
Definition sds_eqb (a b : sds) : bool :=
  list_eqb Nat.eqb (s_shape a) (s_shape b) && Nat.eqb (s_dtype a) (s_dtype b).
Lemma sds_eqb_eq a b : sds_eqb a b = true -> a = b.
Proof.
  destruct a as [sa da], b as [sb db]; unfold sds_eqb; cbn [s_shape s_dtype]. intros H.
  apply andb_true_iff in H as [H1 H2]. apply Nat.eqb_eq in H2.
  apply (list_eqb_eq Nat.eqb) in H1; [now subst|]. intros; now apply Nat.eqb_eq.
Qed.
Lemma sds_eqb_refl a : sds_eqb a a = true.
Proof. destruct a as [sh d]; unfold sds_eqb; cbn [s_shape s_dtype]. rewrite Nat.eqb_refl, andb_true_r.
  induction sh as [|x xs IH]; cbn; auto. now rewrite Nat.eqb_refl. Qed.
Definition struct := pt sds.
Definition struct_eqb : struct -> struct -> bool := pt_eqb sds_eqb.
Lemma struct_eqb_eq a b : struct_eqb a b = true -> a = b.
Proof. apply pt_eqb_eq, sds_eqb_eq. Qed.
Lemma struct_eqb_refl a : struct_eqb a a = true.
Proof. apply pt_eqb_refl, sds_eqb_refl. Qed.
Definition leaf_size (s : sds) : nat := fold_right Nat.mul 1 (s_shape s).
Definition struct_size (s : struct) : nat := fold_right Nat.add 0 (map leaf_size (flatten s)).

(* ---------- parameters of leaf operators ---------- *)
Inductive ientry :=           (* one entry of IndexOperator.indices *)
| IInt (n : Z) | ISliceAll | ISlice | IEll | IArr (d : list Z) | IMask.
Inductive par :=
| PNone
| PKey (k : N)                          (* opaque operator: its action comes from the environment *)
| PAngles (a : list Q)                  (* QU rotation: angles (unit pi/4), broadcast to the leaf, flat *)
| PIndex (uniq : bool) (ix : list ientry)
| PAxes (src dst : list Z)              (* MoveAxisOperator *)
| PDiag (axis : Z) (v : list Q).        (* DiagonalOperator with 1-d values laid along `axis` *)

Definition q_eqb (a b : Q) : bool := (Qnum a =? Qnum b)%Z && (Qden a =? Qden b)%positive.
Lemma q_eqb_eq a b : q_eqb a b = true -> a = b.
Proof. destruct a, b; unfold q_eqb; cbn. intros H. apply andb_true_iff in H as [H1 H2].
  apply Z.eqb_eq in H1. apply Pos.eqb_eq in H2. now subst. Qed.
Definition ientry_eqb (a b : ientry) : bool :=
  match a, b with
  | IInt n, IInt m => (n =? m)%Z
  | ISliceAll, ISliceAll | ISlice, ISlice | IEll, IEll | IMask, IMask => true
  | IArr d, IArr d' => list_eqb Z.eqb d d'
  | _, _ => false
  end.
Lemma ientry_eqb_eq a b : ientry_eqb a b = true -> a = b.
Proof. destruct a, b; cbn; try discriminate; auto.
  - intros H; apply Z.eqb_eq in H; now subst.
  - intros H. f_equal. revert H. apply list_eqb_eq. intros; now apply Z.eqb_eq. Qed.
Definition par_eqb (a b : par) : bool :=
  match a, b with
  | PNone, PNone => true
  | PKey k, PKey k' => (k =? k')%N
  | PAngles x, PAngles y => list_eqb q_eqb x y
  | PIndex u ix, PIndex u' ix' => Bool.eqb u u' && list_eqb ientry_eqb ix ix'
  | PAxes s d, PAxes s' d' => list_eqb Z.eqb s s' && list_eqb Z.eqb d d'
  | PDiag ax v, PDiag ax' v' => (ax =? ax')%Z && list_eqb q_eqb v v'
  | _, _ => false
  end.
Lemma par_eqb_eq a b : par_eqb a b = true -> a = b.
Proof.
  assert (HZ : forall l l', list_eqb Z.eqb l l' = true -> l = l')
    by (apply list_eqb_eq; intros; now apply Z.eqb_eq).
  destruct a, b; cbn; try discriminate; auto.
  - intros H; apply N.eqb_eq in H; now subst.
  - intros H; f_equal; revert H; apply list_eqb_eq, q_eqb_eq.
  - intros H; apply andb_true_iff in H as [H1 H2]. apply Bool.eqb_prop in H1. subst. f_equal.
    revert H2; apply list_eqb_eq, ientry_eqb_eq.
  - intros H; apply andb_true_iff in H as [H1 H2]. f_equal; auto.
  - intros H; apply andb_true_iff in H as [H1 H2]. apply Z.eqb_eq in H1; subst. f_equal.
    revert H2; apply list_eqb_eq, q_eqb_eq.
Qed.

(* lazy wrappers around another operator object *)
Inductive wkind := WTranspose | WInverse | WDiagInv | WQURotT | WReshapeT | WObsT.
Definition wkind_eqb (a b : wkind) : bool :=
  match a, b with
  | WTranspose, WTranspose | WInverse, WInverse | WDiagInv, WDiagInv | WQURotT, WQURotT
  | WReshapeT, WReshapeT | WObsT, WObsT => true
  | _, _ => false
  end.
Lemma wkind_eqb_eq a b : wkind_eqb a b = true -> a = b.
Proof. destruct a, b; cbn; congruence. Qed.
Definition wcls (w : wkind) : cls :=
  match w with
  | WTranspose => CTranspose | WInverse => CInverse | WDiagInv => CDiagonalInverse
  | WQURotT => CQURotationTranspose | WReshapeT => CReshapeTranspose | WObsT => CObsMatrixTranspose
  end.

Inductive bkind := BRow | BDiag | BCol.
Definition bkind_eqb (a b : bkind) : bool :=
  match a, b with BRow, BRow | BDiag, BDiag | BCol, BCol => true | _, _ => false end.
Lemma bkind_eqb_eq a b : bkind_eqb a b = true -> a = b.
Proof. destruct a, b; cbn; congruence. Qed.
Definition bcls (b : bkind) : cls :=
  match b with BRow => CBlockRow | BDiag => CBlockDiagonal | BCol => CBlockColumn end.

Section Op.
  Variable K : Type.
  Variable keqb : K -> K -> bool.
  Hypothesis keqb_eq : forall a b, keqb a b = true -> a = b.

  (* oid: model of Python object identity.  0 = an object created during the computation. *)
  Inductive op :=
  | Prim (i : N) (c : cls) (si so : struct) (p : par)
  | Wrap (i : N) (w : wkind) (e : op)
  | Ident (i : N) (s : struct)
  | Homoth (i : N) (k : K) (s : struct)
  | Comp (i : N) (l : list op)
  | AddOp (i : N) (l : list op)
  | Block (i : N) (b : bkind) (td : treedef) (l : list op).

  Section OpInd.
    Variable P : op -> Prop.
    Hypothesis HPrim : forall i c si so p, P (Prim i c si so p).
    Hypothesis HWrap : forall i w e, P e -> P (Wrap i w e).
    Hypothesis HIdent : forall i s, P (Ident i s).
    Hypothesis HHomoth : forall i k s, P (Homoth i k s).
    Hypothesis HComp : forall i l, Forall P l -> P (Comp i l).
    Hypothesis HAdd : forall i l, Forall P l -> P (AddOp i l).
    Hypothesis HBlock : forall i b td l, Forall P l -> P (Block i b td l).
    Fixpoint op_ind' (e : op) : P e :=
      let go := fix go (l : list op) : Forall P l :=
        match l with [] => Forall_nil _ | x :: xs => Forall_cons _ (op_ind' x) (go xs) end in
      match e with
      | Prim i c si so p => HPrim i c si so p
      | Wrap i w e => HWrap i w (op_ind' e)
      | Ident i s => HIdent i s
      | Homoth i k s => HHomoth i k s
      | Comp i l => HComp i (go l)
      | AddOp i l => HAdd i (go l)
      | Block i b td l => HBlock i b td (go l)
      end.
  End OpInd.

  Definition oid (e : op) : N :=
    match e with
    | Prim i _ _ _ _ | Wrap i _ _ | Ident i _ | Homoth i _ _ | Comp i _ | AddOp i _ | Block i _ _ _ => i
    end.
  Definition cls_of (e : op) : cls :=
    match e with
    | Prim _ c _ _ _ => c
    | Wrap _ w _ => wcls w
    | Ident _ _ => CIdentity
    | Homoth _ _ _ => CHomothety
    | Comp _ _ => CComposition
    | AddOp _ _ => CAddition
    | Block _ b _ _ => bcls b
    end.
  Definition is_a (e : op) (ds : list cls) : bool := isinst (cls_of e) ds.

  Fixpoint op_eqb (a b : op) {struct a} : bool :=
    let go := fix go (l l' : list op) : bool :=
      match l, l' with
      | [], [] => true
      | x :: xs, y :: ys => op_eqb x y && go xs ys
      | _, _ => false
      end in
    match a, b with
    | Prim i c si so p, Prim i' c' si' so' p' =>
        (i =? i')%N && cls_eqb c c' && struct_eqb si si' && struct_eqb so so' && par_eqb p p'
    | Wrap i w e, Wrap i' w' e' => (i =? i')%N && wkind_eqb w w' && op_eqb e e'
    | Ident i s, Ident i' s' => (i =? i')%N && struct_eqb s s'
    | Homoth i k s, Homoth i' k' s' => (i =? i')%N && keqb k k' && struct_eqb s s'
    | Comp i l, Comp i' l' => (i =? i')%N && go l l'
    | AddOp i l, AddOp i' l' => (i =? i')%N && go l l'
    | Block i b td l, Block i' b' td' l' =>
        (i =? i')%N && bkind_eqb b b' && pt_eqb (fun _ _ => true) td td' && go l l'
    | _, _ => false
    end.

  Lemma unit_eqb_eq (a b : unit) : (fun _ _ : unit => true) a b = true -> a = b.
  Proof. now destruct a, b. Qed.

  Lemma op_eqb_eq : forall a b, op_eqb a b = true -> a = b.
  Proof.
    assert (Hgo : forall l, Forall (fun a => forall b, op_eqb a b = true -> a = b) l ->
      forall l',
      (fix go (l l' : list op) : bool :=
        match l, l' with
        | [], [] => true
        | x :: xs, y :: ys => op_eqb x y && go xs ys
        | _, _ => false
        end) l l' = true -> l = l').
    { induction 1 as [|x xs Hx _ IH]; intros [|y ys] H; try discriminate; auto.
      apply andb_true_iff in H as [H1 H2]. f_equal; auto. }
    intros a. induction a using op_ind'; intros b0; destruct b0; cbn; try discriminate; intros Heq;
      repeat match goal with H : _ && _ = true |- _ => apply andb_true_iff in H as [? ?] end;
      repeat match goal with
        | H : (_ =? _)%N = true |- _ => apply N.eqb_eq in H; subst
        | H : cls_eqb _ _ = true |- _ => apply cls_eqb_eq in H; subst
        | H : struct_eqb _ _ = true |- _ => apply struct_eqb_eq in H; subst
        | H : par_eqb _ _ = true |- _ => apply par_eqb_eq in H; subst
        | H : wkind_eqb _ _ = true |- _ => apply wkind_eqb_eq in H; subst
        | H : bkind_eqb _ _ = true |- _ => apply bkind_eqb_eq in H; subst
        | H : keqb _ _ = true |- _ => apply keqb_eq in H; subst
        | H : pt_eqb _ _ _ = true |- _ => apply (pt_eqb_eq _ unit_eqb_eq) in H; subst
        end; f_equal; auto.
  Qed.

  (* Python `a is b`: the same object.  Objects created during the computation (oid 0) are
     identical to nothing else; the structural test makes `same` imply equality of terms even
     for ill-formed inputs (equal oids on different terms), which the harness never produces. *)
  Definition same (a b : op) : bool := negb (oid a =? 0)%N && (oid a =? oid b)%N && op_eqb a b.
  Lemma same_eq a b : same a b = true -> a = b.
  Proof. unfold same. intros H. apply andb_true_iff in H as [_ H]. now apply op_eqb_eq. Qed.
End Op.

Arguments Prim {K}. Arguments Wrap {K}. Arguments Ident {K}. Arguments Homoth {K}.
Arguments Comp {K}. Arguments AddOp {K}. Arguments Block {K}.
