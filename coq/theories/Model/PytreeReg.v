(* C18 - model of the hand-registered pytree nodes (furax/landscapes.py) and of the static/dynamic
   field partition of the operator classes (equinox modules).  Definitions only.

   Part A.  A registered class is described by DATA (record cdesc): the parameter list of its
   constructor, the constructor body in a small statement language, the attributes returned as
   children and as aux data by tree_flatten and the way tree_unflatten calls the constructor.  The
   descriptions are regenerated from the source on every run (tools/translate/pytreereg.py ->
   FuraxGen.PytreeReg.gen_table); this file holds the interpreter, i.e. the Python semantics of the
   accepted constructs: keyword/positional binding with defaults, `self.a = e`, local assignment,
   `if c: raise K`, `assert c`, `super().__init__(...)`, and the expressions
   names, self.a, constants, tuples, a * b, a ** b, len(e), e[::-1], a if c else b, `is None`,
   not/and/or.

   Values: None, int, bool, str, tuple, and opaque objects (a dtype object, an array) that have an
   identity and possibly a length.  Arithmetic or slicing of an opaque object / of a str / of a bool
   is OUTSIDE the modelled domain: the interpreter answers `Unmodelled` there (never Ok), the
   harness does not generate such inputs, and every theorem has a hypothesis `... = Ok _`.

   Part B.  Field table of the operator classes: kind of every dataclass field (from its annotation),
   its static flag, and the model's classification of how `mv` uses the field. *)
From Coq Require Import ZArith List String Bool.
Import ListNotations.
Open Scope string_scope.

(* ---------------------------------------------------------------------------------------------- *)
(* Part A: values, results *)

Inductive val :=
| VNone
| VInt (z : Z)
| VBool (b : bool)
| VStr (s : string)
| VTuple (l : list val)
| VObj (id : Z) (len : option Z).   (* opaque object: identity, len() if it has one *)

Inductive ekind := TypeError | ValueError | AttributeError | AssertionError | NameError.

Inductive result (A : Type) :=
| Ok (a : A)
| Err (k : ekind)
| Unmodelled.            (* the input leaves the modelled value domain (see the header) *)
Arguments Ok {A} a.
Arguments Err {A} k.
Arguments Unmodelled {A}.

Definition bind {A B} (r : result A) (f : A -> result B) : result B :=
  match r with Ok a => f a | Err k => Err k | Unmodelled => Unmodelled end.

(* ---------------------------------------------------------------------------------------------- *)
(* expressions and statements of the accepted constructor bodies *)

Inductive expr :=
| EName (x : string)              (* a parameter or local variable *)
| EAttr (a : string)              (* self.a *)
| EConst (v : val)
| ETuple (es : list expr)
| EMul (a b : expr)
| EPow (a b : expr)
| ELen (e : expr)
| ERev (e : expr)                 (* e[::-1] *)
| EIfExp (c a b : expr)           (* a if c else b *)
| EIsNone (e : expr)
| ENot (c : expr)
| EAnd (a b : expr)
| EOr (a b : expr).

Inductive stmt :=
| SLocal (x : string) (e : expr)
| SAttr (a : string) (e : expr)                  (* self.a = e *)
| SRaiseIf (c : expr) (k : ekind)                (* if c: raise K(...) *)
| SAssert (c : expr)
| SSuper (target : string) (args : list expr) (kwargs : list (string * expr)).
                                                 (* super().__init__(...) resolved to `target` *)

Inductive pkind := POK | KWO.       (* positional-or-keyword, keyword-only *)
Record param := mkP { p_name : string; p_kind : pkind; p_default : option val }.

(* how tree_unflatten(cls, aux_data, children) calls the constructor *)
Inductive ucall :=
| UKwargs                (* cls( **aux_data ) *)
| UChildrenKwargs.       (* cls( *children, **aux_data ) *)

Record cdesc := mkC {
  c_name : string;
  c_registered : bool;             (* decorated with register_pytree_node_class / in JAX's registry *)
  c_abstract : bool;
  c_init_owner : string;           (* class of the MRO that defines the __init__ in use *)
  c_params : list param;           (* of that __init__, without self *)
  c_body : list stmt;
  c_flatten_owner : string;
  c_children : list string;        (* attributes returned as children *)
  c_aux : list (string * string);  (* aux_data key -> attribute *)
  c_unflatten_owner : string;
  c_unflatten : ucall
}.

Definition env := list (string * val).

Fixpoint lookup (x : string) (e : env) : option val :=
  match e with
  | [] => None
  | (k, v) :: r => if String.eqb k x then Some v else lookup x r
  end.

(* assignment keeps the position of an existing binding, a new binding goes to the end
   (the order of an instance's __dict__) *)
Fixpoint set (x : string) (v : val) (e : env) : env :=
  match e with
  | [] => [(x, v)]
  | (k, w) :: r => if String.eqb k x then (k, v) :: r else (k, w) :: set x v r
  end.

Definition truth (v : val) : result bool :=
  match v with VBool b => Ok b | _ => Unmodelled end.

Definition py_mul (a b : val) : result val :=
  match a, b with
  | VInt x, VInt y => Ok (VInt (x * y))
  | VNone, _ | _, VNone => Err TypeError
  | VInt _, VTuple _ | VTuple _, VInt _ => Unmodelled   (* sequence repetition *)
  | VTuple _, VTuple _ => Err TypeError
  | _, _ => Unmodelled
  end.

Definition py_pow (a b : val) : result val :=
  match a, b with
  | VInt x, VInt y => if (y <? 0)%Z then Unmodelled else Ok (VInt (x ^ y))
  | VNone, _ | _, VNone => Err TypeError
  | VTuple _, _ | _, VTuple _ => Err TypeError
  | VStr _, _ | _, VStr _ => Err TypeError
  | _, _ => Unmodelled
  end.

Definition py_len (v : val) : result val :=
  match v with
  | VTuple l => Ok (VInt (Z.of_nat (List.length l)))
  | VStr s => Ok (VInt (Z.of_nat (String.length s)))
  | VObj _ (Some n) => Ok (VInt n)
  | VObj _ None => Err TypeError
  | VNone | VInt _ | VBool _ => Err TypeError
  end.

Definition py_rev (v : val) : result val :=
  match v with
  | VTuple l => Ok (VTuple (rev l))
  | VNone | VInt _ | VBool _ => Err TypeError        (* not subscriptable *)
  | VStr _ | VObj _ _ => Unmodelled
  end.

Fixpoint eval (loc self : env) (e : expr) : result val :=
  match e with
  | EName x => match lookup x loc with Some v => Ok v | None => Err NameError end
  | EAttr a => match lookup a self with Some v => Ok v | None => Err AttributeError end
  | EConst v => Ok v
  | ETuple es =>
      bind ((fix go (l : list expr) : result (list val) :=
               match l with
               | [] => Ok []
               | x :: r => bind (eval loc self x) (fun v => bind (go r) (fun vs => Ok (v :: vs)))
               end) es) (fun vs => Ok (VTuple vs))
  | EMul a b => bind (eval loc self a) (fun x => bind (eval loc self b) (fun y => py_mul x y))
  | EPow a b => bind (eval loc self a) (fun x => bind (eval loc self b) (fun y => py_pow x y))
  | ELen a => bind (eval loc self a) py_len
  | ERev a => bind (eval loc self a) py_rev
  | EIfExp c a b =>
      bind (bind (eval loc self c) truth) (fun t => if t then eval loc self a else eval loc self b)
  | EIsNone a => bind (eval loc self a) (fun v => Ok (VBool (match v with VNone => true | _ => false end)))
  | ENot c => bind (bind (eval loc self c) truth) (fun t => Ok (VBool (negb t)))
  | EAnd a b =>
      bind (bind (eval loc self a) truth)
           (fun t => if t then bind (bind (eval loc self b) truth) (fun u => Ok (VBool u)) else Ok (VBool false))
  | EOr a b =>
      bind (bind (eval loc self a) truth)
           (fun t => if t then Ok (VBool true) else bind (bind (eval loc self b) truth) (fun u => Ok (VBool u)))
  end.

Fixpoint eval_list (loc self : env) (es : list expr) : result (list val) :=
  match es with
  | [] => Ok []
  | x :: r => bind (eval loc self x) (fun v => bind (eval_list loc self r) (fun vs => Ok (v :: vs)))
  end.

Fixpoint eval_kw (loc self : env) (es : list (string * expr)) : result env :=
  match es with
  | [] => Ok []
  | (k, x) :: r => bind (eval loc self x) (fun v => bind (eval_kw loc self r) (fun vs => Ok ((k, v) :: vs)))
  end.

(* ---------------------------------------------------------------------------------------------- *)
(* Python call binding (no *args / **kwargs parameters: the translator refuses them) *)

Fixpoint has_param (x : string) (ps : list param) : bool :=
  match ps with [] => false | p :: r => String.eqb (p_name p) x || has_param x r end.

(* positional arguments fill the positional-or-keyword parameters in order *)
Fixpoint bind_pos (ps : list param) (args : list val) : result env :=
  match args, ps with
  | [], _ => Ok []
  | _ :: _, [] => Err TypeError                                   (* too many positional arguments *)
  | a :: ar, p :: pr =>
      match p_kind p with
      | KWO => Err TypeError
      | POK => bind (bind_pos pr ar) (fun e => Ok ((p_name p, a) :: e))
      end
  end.

(* every keyword must name a parameter that is not bound yet; keywords are unique (a dict) *)
Fixpoint bind_kw (ps : list param) (bound : env) (kw : env) : result env :=
  match kw with
  | [] => Ok bound
  | (k, v) :: r =>
      if negb (has_param k ps) then Err TypeError                 (* unexpected keyword argument *)
      else match lookup k bound with
           | Some _ => Err TypeError                              (* multiple values for argument *)
           | None => bind_kw ps (bound ++ [(k, v)])%list r
           end
  end.

(* the local namespace in parameter order; an unbound parameter takes its default *)
Fixpoint fill (ps : list param) (bound : env) : result env :=
  match ps with
  | [] => Ok []
  | p :: r =>
      match lookup (p_name p) bound, p_default p with
      | Some v, _ => bind (fill r bound) (fun e => Ok ((p_name p, v) :: e))
      | None, Some d => bind (fill r bound) (fun e => Ok ((p_name p, d) :: e))
      | None, None => Err TypeError                               (* missing required argument *)
      end
  end.

Definition bind_call (ps : list param) (args : list val) (kw : env) : result env :=
  bind (bind_pos ps args) (fun b => bind (bind_kw ps b kw) (fill ps)).

(* ---------------------------------------------------------------------------------------------- *)
(* constructor execution *)

Fixpoint find_class (n : string) (t : list cdesc) : option cdesc :=
  match t with
  | [] => None
  | d :: r => if String.eqb (c_name d) n then Some d else find_class n r
  end.

(* fuel bounds the depth of the super().__init__ chain *)
Fixpoint run_body (t : list cdesc) (fuel : nat) {struct fuel} : list stmt -> env -> env -> result env :=
  fix go (body : list stmt) (loc self : env) {struct body} : result env :=
  match body with
  | [] => Ok self
  | s :: rest =>
      match s with
      | SLocal x e => bind (eval loc self e) (fun v => go rest (set x v loc) self)
      | SAttr a e => bind (eval loc self e) (fun v => go rest loc (set a v self))
      | SRaiseIf c k =>
          bind (bind (eval loc self c) truth) (fun b => if b then Err k else go rest loc self)
      | SAssert c =>
          bind (bind (eval loc self c) truth)
               (fun b => if b then go rest loc self else Err AssertionError)
      | SSuper target args kwargs =>
          match fuel with
          | O => Unmodelled
          | S f =>
              match find_class target t with
              | None => Unmodelled
              | Some d =>
                  bind (eval_list loc self args) (fun vs =>
                  bind (eval_kw loc self kwargs) (fun kvs =>
                  bind (bind_call (c_params d) vs kvs) (fun loc' =>
                  bind (run_body t f (c_body d) loc' self) (fun self' =>
                  go rest loc self'))))
              end
          end
      end
  end.

Definition construct (t : list cdesc) (d : cdesc) (args : list val) (kw : env) : result env :=
  bind (bind_call (c_params d) args kw) (fun loc => run_body t (List.length t) (c_body d) loc []).

(* tree_flatten: children and aux data read from the attributes *)
Fixpoint read_attrs (self : env) (names : list string) : result (list val) :=
  match names with
  | [] => Ok []
  | a :: r =>
      match lookup a self with
      | None => Err AttributeError
      | Some v => bind (read_attrs self r) (fun vs => Ok (v :: vs))
      end
  end.

Fixpoint read_aux (self : env) (aux : list (string * string)) : result env :=
  match aux with
  | [] => Ok []
  | (k, a) :: r =>
      match lookup a self with
      | None => Err AttributeError
      | Some v => bind (read_aux self r) (fun vs => Ok ((k, v) :: vs))
      end
  end.

Definition flatten (d : cdesc) (self : env) : result (list val * env) :=
  bind (read_attrs self (c_children d)) (fun ch => bind (read_aux self (c_aux d)) (fun aux => Ok (ch, aux))).

Definition unflatten (t : list cdesc) (d : cdesc) (children : list val) (aux : env) : result env :=
  match c_unflatten d with
  | UKwargs => construct t d [] aux
  | UChildrenKwargs => construct t d children aux
  end.

Definition roundtrip (t : list cdesc) (d : cdesc) (self : env) : result env :=
  bind (flatten d self) (fun ca => unflatten t d (fst ca) (snd ca)).

(* the property, for one table: every object any registered class's constructor can produce is
   returned field-wise equal (same attributes, same values, same order) by unflatten . flatten *)
Definition roundtrip_holds (t : list cdesc) : Prop :=
  forall d args kw obj, In d t -> c_registered d = true ->
    construct t d args kw = Ok obj -> roundtrip t d obj = Ok obj.

(* key-level necessary condition, decidable on the table alone (this is what D4 violated):
   every aux key is a constructor parameter and every parameter without default is an aux key
   (children are not passed under UKwargs) *)
Fixpoint has_key (x : string) (aux : list (string * string)) : bool :=
  match aux with [] => false | (k, _) :: r => String.eqb k x || has_key x r end.

Definition keys_accepted (d : cdesc) : bool :=
  forallb (fun ka => has_param (fst ka) (c_params d)) (c_aux d).
Definition required_given (d : cdesc) : bool :=
  forallb (fun p => match p_default p with Some _ => true | None => has_key (p_name p) (c_aux d) end)
          (c_params d).
Definition keys_ok (d : cdesc) : bool :=
  match c_unflatten d with
  | UKwargs => keys_accepted d && required_given d
  | UChildrenKwargs => keys_accepted d
  end.

Fixpoint nodupb (l : list string) : bool :=
  match l with [] => true | x :: r => negb (existsb (String.eqb x) r) && nodupb r end.

(* the table-level condition under which the call cls( **aux_data ) binds for ALL field values *)
Definition call_binds_check (d : cdesc) : bool :=
  match c_unflatten d with UKwargs => true | UChildrenKwargs => false end
  && keys_accepted d && required_given d && nodupb (map fst (c_aux d)).

(* classes that define the tree_flatten/tree_unflatten pair but are not registered must stay
   unregistered (ConfigState: its pair is lossy) - recorded by the translator as c_registered=false
   entries of a separate list *)
Definition unregistered_ok (names : list string) (t : list cdesc) : bool :=
  forallb (fun n => match find_class n t with Some d => negb (c_registered d) | None => true end) names.

(* observation printed for the correspondence harness *)
Inductive robs :=
| RCtorFailed (r : result env)
| RDone (obj : env) (children : list val) (aux : env) (back : result env).

Definition observe (t : list cdesc) (name : string) (args : list val) (kw : env) : option robs :=
  match find_class name t with
  | None => None
  | Some d =>
      Some match construct t d args kw with
           | Ok obj =>
               match flatten d obj with
               | Ok (ch, aux) => RDone obj ch aux (unflatten t d ch aux)
               | Err k => RDone obj [] [] (Err k)
               | Unmodelled => RDone obj [] [] Unmodelled
               end
           | r => RCtorFailed r
           end
  end.

(* ---------------------------------------------------------------------------------------------- *)
(* Part B: field partition of the operator classes *)

Inductive fkind :=
| KArray          (* Float/Inexact/Integer[Array, ...] : a numeric array *)
| KScalar         (* jaxtyping Scalar: a 0-d array (or a Python number) *)
| KBoolArray      (* Bool[Array, ...] *)
| KInt | KOptInt | KStr | KBool | KIntTuple
| KStructure      (* PyTree[jax.ShapeDtypeStruct] *)
| KOperator       (* one operator *)
| KOperators      (* a pytree / list of operators *)
| KConfig         (* ConfigState *)
| KSparse         (* jax.experimental.sparse CSR: registered pytree, arrays + static shape *)
| KIndexTuple.    (* tuple of int | slice | Ellipsis | integer array | boolean array *)

(* how mv (and the methods it calls) uses a field *)
Inductive fuse :=
| UValue          (* only as numbers inside array arithmetic *)
| UShapeLevel     (* consulted by Python-level control flow: loop bounds, shape arithmetic, axis
                     tuples, method names, einsum subscripts, structure comparison *)
| UMask           (* a boolean array whose VALUES determine the output shape *)
| UIndex          (* the index tuple: structure and ints/slices at shape level, integer arrays at
                     value level, boolean arrays as UMask *)
| UOperand        (* sub-operator(s), applied recursively *)
| UConfigUse      (* solver configuration: Python objects read at trace time *)
| USparse.        (* sparse matrix: arrays at value level, shape static inside the node *)

Definition is_python_static_kind (k : fkind) : bool :=
  match k with KInt | KOptInt | KStr | KBool | KIntTuple => true | _ => false end.

(* A field's leaves are TRACED by a filtering jit (equinox.filter_jit: arrays dynamic, everything
   else static) iff the field is not declared static and its kind has array leaves. *)
Definition may_be_traced (static : bool) (k : fkind) : bool :=
  negb static &&
  match k with
  | KArray | KScalar | KBoolArray | KSparse | KIndexTuple | KOperator | KOperators => true
  | _ => false
  end.

(* consistency of a declaration with the use of the field *)
Definition consistent (static : bool) (k : fkind) (u : fuse) : bool :=
  match u with
  | UValue => negb static && match k with KArray | KScalar => true | _ => false end
  | UShapeLevel => (static && negb (match k with KArray | KScalar | KBoolArray | KSparse => true | _ => false end))
                   || (negb static && is_python_static_kind k)
  | UMask => negb static && match k with KBoolArray => true | _ => false end
  | UIndex => negb static && match k with KIndexTuple => true | _ => false end
  | UOperand => negb static && match k with KOperator | KOperators => true | _ => false end
  | UConfigUse => static && match k with KConfig => true | _ => false end
  | USparse => negb static && match k with KSparse => true | _ => false end
  end.

Definition ftable := list (string * list (string * (bool * fkind))).
Definition utable := list (string * list (string * fuse)).

Fixpoint assoc {A} (x : string) (l : list (string * A)) : option A :=
  match l with [] => None | (k, v) :: r => if String.eqb k x then Some v else assoc x r end.

Definition use_of (u : utable) (cls field : string) : option fuse :=
  match assoc cls u with Some fs => assoc field fs | None => None end.

(* The model's classification of every field of every operator class of the package, written from
   reading each mv (and the helpers it calls).  A class or field missing here makes
   partition_sound fail (fail closed). *)
Definition model_uses : utable := [
  ("AbstractLinearOperator", []);
  ("AdditionOperator", [("operands", UOperand)]);
  ("CompositionOperator", [("operands", UOperand)]);
  ("_AbstractLazyDualOperator", [("operator", UOperand)]);
  ("TransposeOperator", [("operator", UOperand)]);
  ("AbstractLazyInverseOperator", [("operator", UOperand)]);
  ("InverseOperator", [("operator", UOperand); ("config", UConfigUse)]);
  ("AbstractLazyInverseOrthogonalOperator", [("operator", UOperand)]);
  ("IdentityOperator", [("_in_structure", UShapeLevel)]);
  ("HomothetyOperator", [("value", UValue); ("_in_structure", UShapeLevel)]);
  ("AbstractBlockOperator", [("blocks", UOperand)]);
  ("BlockRowOperator", [("blocks", UOperand)]);
  ("BlockDiagonalOperator", [("blocks", UOperand)]);
  ("BlockColumnOperator", [("blocks", UOperand)]);
  ("BroadcastDiagonalOperator", [("_diagonal", UValue); ("axis_destination", UShapeLevel); ("_in_structure", UShapeLevel)]);
  ("DiagonalOperator", [("_diagonal", UValue); ("axis_destination", UShapeLevel); ("_in_structure", UShapeLevel)]);
  ("DiagonalInverseOperator", [("operator", UOperand); ("_diagonal", UValue); ("axis_destination", UShapeLevel); ("_in_structure", UShapeLevel)]);
  ("DenseBlockDiagonalOperator", [("blocks", UValue); ("_in_structure", UShapeLevel); ("subscripts", UShapeLevel)]);
  ("IndexOperator", [("indices", UIndex); ("_in_structure", UShapeLevel); ("_out_structure", UShapeLevel); ("unique_indices", UShapeLevel)]);
  ("PackOperator", [("mask", UMask); ("_in_structure", UShapeLevel)]);
  ("MoveAxisOperator", [("source", UShapeLevel); ("destination", UShapeLevel); ("_in_structure", UShapeLevel)]);
  ("AbstractRavelOrReshapeOperator", [("_in_structure", UShapeLevel)]);
  ("RavelOperator", [("_in_structure", UShapeLevel); ("first_axis", UShapeLevel); ("last_axis", UShapeLevel)]);
  ("ReshapeOperator", [("_in_structure", UShapeLevel); ("shape", UShapeLevel)]);
  ("ReshapeTransposeOperator", [("operator", UOperand)]);
  ("QURotationOperator", [("angles", UValue); ("_in_structure", UShapeLevel)]);
  ("QURotationTransposeOperator", [("operator", UOperand)]);
  ("HWPOperator", [("_in_structure", UShapeLevel)]);
  ("LinearPolarizerOperator", [("_in_structure", UShapeLevel)]);
  ("SymmetricBandToeplitzOperator", [("band_values", UValue); ("_in_structure", UShapeLevel); ("method", UShapeLevel); ("fft_size", UShapeLevel)]);
  ("ToastObservationMatrixOperator", [("matrix", USparse)]);
  ("ToastObservationMatrixTransposeOperator", [("operator", UOperand)])
].

(* classes whose fields select elements through a boolean-mask array: excluded by the property
   from the filtering-jit clause *)
Definition field_is_mask (u : fuse) : bool := match u with UMask | UIndex => true | _ => false end.

Definition field_ok (u : utable) (cls : string) (f : string * (bool * fkind)) : bool :=
  match use_of u cls (fst f) with
  | Some use => consistent (fst (snd f)) (snd (snd f)) use
  | None => false
  end.

Definition names_eqb (a b : list string) : bool :=
  Nat.eqb (List.length a) (List.length b) && forallb (fun p => String.eqb (fst p) (snd p)) (combine a b).

(* every generated class is classified, with exactly the generated fields in the generated order,
   and every field's declaration is consistent with its use *)
Definition class_ok (u : utable) (c : string * list (string * (bool * fkind))) : bool :=
  match assoc (fst c) u with
  | None => false
  | Some fs => names_eqb (map fst fs) (map fst (snd c)) && forallb (field_ok u (fst c)) (snd c)
  end.

Definition partition_ok (u : utable) (t : ftable) : bool := forallb (class_ok u) t.

(* optional classes (need the toast extra) may be absent from the generated table; every other
   modelled class must be generated *)
Definition optional_classes : list string :=
  ["ToastObservationMatrixOperator"; "ToastObservationMatrixTransposeOperator"].
Definition mem (x : string) (l : list string) : bool := existsb (String.eqb x) l.
Definition coverage_ok (u : utable) (t : ftable) : bool :=
  forallb (fun c => mem (fst c) (map fst t) || mem (fst c) optional_classes) u.

(* what the harness asks for one instance: `facts` = per field, whether the instance has array
   leaves in the dynamic partition of equinox.partition(op, is_array) *)
Definition instance_ok (t : ftable) (cls : string) (facts : list (string * bool)) : list bool :=
  match assoc cls t with
  | None => [false]
  | Some fs =>
      Nat.eqb (List.length fs) (List.length facts) ::
      map (fun fb => match assoc (fst fb) fs with
                     | None => false
                     | Some (st, k) => implb (snd fb) (may_be_traced st k)
                     end) facts
  end.

(* ---------------------------------------------------------------------------------------------- *)
(* Part C: equality of the static part of an operator = the cache key of a jit that takes the operator
   as ARGUMENT (the treedef holds the values of the static fields and is compared with ==).

   ctable: per class, per dataclass field, the `compare` flag of the field declaration.  Regenerated
   for every operator class (gen_field_compare) and for every dataclass stored in a static field
   (gen_static_records: ConfigState). *)

Definition ctable := list (string * list (string * bool)).

Definition all_compared (t : ctable) : bool :=
  forallb (fun c : string * list (string * bool) => forallb (fun f : string * bool => snd f) (snd c)) t.

(* the __eq__ that @dataclass generates: the fields declared compare=True, in order, with the
   equality `veq` of the field values; a field missing on either side is a mismatch *)
Definition rec_eq {V : Type} (veq : V -> V -> bool) (flags : list (string * bool)) (a b : list (string * V)) : bool :=
  forallb (fun f : string * bool => if snd f
                    then match assoc (fst f) a, assoc (fst f) b with
                         | Some x, Some y => veq x y
                         | _, _ => false
                         end
                    else true) flags.

(* every static field of kind KConfig has its record class in the regenerated record table *)
Definition has_config_field (t : ftable) : bool :=
  existsb (fun c : string * list (string * (bool * fkind)) =>
    existsb (fun f : string * (bool * fkind) => fst (snd f) && match snd (snd f) with KConfig => true | _ => false end) (snd c)) t.
Definition config_record_present (t : ftable) (r : ctable) : bool :=
  implb (has_config_field t) (mem "ConfigState" (map fst r)).

(* ---------------------------------------------------------------------------------------------- *)
(* The registered classes as they are in the tree the proofs were written against (pinned tree +
   fixes/C18-landscape-unflatten.diff): a copy of FuraxGen.PytreeReg.gen_table.  Lemmas/PytreeRegL.v
   proves roundtrip_holds pinned_table for all constructor arguments; Props/C18.v checks on every run
   that the regenerated table still equals this one (an unknown class, a changed constructor, a
   changed aux key or a changed tree_unflatten fails closed). *)
Open Scope Z_scope.
Definition pinned_table : list cdesc := [
  mkC "Landscape" true true "Landscape" [mkP "shape" POK None; mkP "dtype" POK (Some (VObj 1 None))] 
      [SAttr "shape" (EName "shape"); SAttr "dtype" (EName "dtype")]
      "Landscape" [] [("shape", "shape"); ("dtype", "dtype")] "Landscape" UKwargs;
  mkC "StokesLandscape" true true "StokesLandscape" [mkP "shape" POK (Some VNone); mkP "stokes" POK (Some (VStr "IQU")); mkP "dtype" POK (Some (VObj 1 None)); mkP "pixel_shape" POK (Some VNone)] 
      [SRaiseIf (EAnd (EIsNone (EName "shape")) (EIsNone (EName "pixel_shape"))) TypeError; SRaiseIf (EAnd (ENot (EIsNone (EName "shape"))) (ENot (EIsNone (EName "pixel_shape")))) TypeError; SLocal "shape" (EIfExp (EIsNone (EName "pixel_shape")) (EName "shape") (ERev (EName "pixel_shape"))); SAssert (ENot (EIsNone (EName "shape"))); SSuper "Landscape" [(EName "shape"); (EName "dtype")] []; SAttr "stokes" (EName "stokes"); SAttr "pixel_shape" (ERev (EName "shape"))]
      "StokesLandscape" [] [("shape", "shape"); ("dtype", "dtype"); ("stokes", "stokes")] "Landscape" UKwargs;
  mkC "HealpixLandscape" true false "HealpixLandscape" [mkP "nside" POK None; mkP "stokes" POK (Some (VStr "IQU")); mkP "dtype" POK (Some (VObj 1 None))] 
      [SLocal "shape" (ETuple [(EMul (EConst (VInt (12))) (EPow (EName "nside") (EConst (VInt (2)))))]); SSuper "StokesLandscape" [(EName "shape"); (EName "stokes"); (EName "dtype")] []; SAttr "nside" (EName "nside")]
      "HealpixLandscape" [] [("dtype", "dtype"); ("stokes", "stokes"); ("nside", "nside")] "Landscape" UKwargs;
  mkC "FrequencyLandscape" true false "FrequencyLandscape" [mkP "nside" POK None; mkP "frequencies" POK None; mkP "stokes" POK (Some (VStr "IQU")); mkP "dtype" POK (Some (VObj 1 None))] 
      [SSuper "HealpixLandscape" [(EName "nside"); (EName "stokes"); (EName "dtype")] []; SAttr "frequencies" (EName "frequencies"); SAttr "shape" (ETuple [(ELen (EName "frequencies")); (EMul (EConst (VInt (12))) (EPow (EName "nside") (EConst (VInt (2)))))])]
      "FrequencyLandscape" [] [("dtype", "dtype"); ("stokes", "stokes"); ("nside", "nside"); ("frequencies", "frequencies")] "Landscape" UKwargs
].
Definition pinned_unregistered : list string := ["ConfigState"].

(* HealpixLandscape as it was BEFORE fixes/C18-landscape-unflatten.diff (finding D4): tree_flatten
   also put the derived attribute `shape` into the aux data, which the constructor does not accept.
   Kept to document the finding (Props/C18.v: d4_before_fix). *)
Definition prefix_healpix : cdesc :=
  mkC "HealpixLandscape" true false "HealpixLandscape" [mkP "nside" POK None; mkP "stokes" POK (Some (VStr "IQU")); mkP "dtype" POK (Some (VObj 1 None))]
      [SLocal "shape" (ETuple [(EMul (EConst (VInt (12))) (EPow (EName "nside") (EConst (VInt (2)))))]); SSuper "StokesLandscape" [(EName "shape"); (EName "stokes"); (EName "dtype")] []; SAttr "nside" (EName "nside")]
      "HealpixLandscape" [] [("shape", "shape"); ("dtype", "dtype"); ("stokes", "stokes"); ("nside", "nside")] "Landscape" UKwargs.
