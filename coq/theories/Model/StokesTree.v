(* Model of the Stokes containers of furax/landscapes.py (StokesPyTree and its four subclasses:
   _operation/_roperation, the dunder table, __getitem__, ravel/reshape, class_for, structure_for,
   from_stokes, from_iquv, zeros/ones/full/normal/uniform) and of the pytree helpers of furax/tree.py
   (is_leaf, dot, as_promoted_dtype, as_structure, full_like/zeros_like/ones_like, normal_like,
   uniform_like).  Definitions only; the proofs are in Lemmas/StokesTreeL.v.

   Part 1 is polymorphic in the leaf type and in the leaf operation (an ARBITRARY function, so that
   operand order and component mix-ups are observable in the theorems).  Part 2 is the specification
   of the JAX primitives the code calls on leaves (dtype promotion lattice, broadcasting, element-wise
   arithmetic over Q, indexing, reshape) used to run the model against the real code; it is compared
   with JAX by harness/c20.py (the dtype tables exhaustively). *)
From Coq Require Import ZArith QArith Qabs List Bool String Ascii Arith.
From Furax Require Import Base.Pytree.
Import ListNotations.
Open Scope nat_scope.

(* ============================================================================================== *)
(* Part 1 - containers, dispatch, helpers over arbitrary leaves                                    *)

Inductive ekind := ValueError | TypeError | AttributeError | IndexError | KeyError | OtherError.
(* the outcome of a Python call: a value, the NotImplemented singleton, or an exception *)
Inductive res (X : Type) : Type := Ok (x : X) | NotImpl | Err (e : ekind).
Arguments Ok {X}. Arguments NotImpl {X}. Arguments Err {X}.
Definition rbind {X Y} (r : res X) (f : X -> res Y) : res Y :=
  match r with Ok x => f x | NotImpl => NotImpl | Err e => Err e end.
Definition rmap {X Y} (f : X -> Y) (r : res X) : res Y := rbind r (fun x => Ok (f x)).

(* jax.tree.map over the leaves of one container (in leaf order; the first exception propagates) *)
Definition mapM {X Y} (f : X -> res Y) : list X -> res (list Y) :=
  fix go (l : list X) : res (list Y) :=
    match l with
    | [] => Ok []
    | x :: t => rbind (f x) (fun y => rmap (cons y) (go t))
    end.
(* ... over two containers of the same class *)
Fixpoint map2M {X Y Z} (f : X -> Y -> res Z) (l : list X) (m : list Y) : res (list Z) :=
  match l, m with
  | [], [] => Ok []
  | x :: t, y :: u => rbind (f x y) (fun z => rmap (cons z) (map2M f t u))
  | _, _ => Err ValueError
  end.
Fixpoint foldM {X Y} (f : Y -> X -> res Y) (l : list X) (acc : Y) : res Y :=
  match l with
  | [] => Ok acc
  | x :: t => rbind (f acc x) (foldM f t)
  end.

(* total leaf functions seen as leaf operations, and the component-wise combination of two lists *)
Definition lift1 {A} (g : A -> A) : A -> res A := fun x => Ok (g x).
Definition lift2 {A} (g : A -> A -> A) : A -> A -> res A := fun x y => Ok (g x y).
Fixpoint zip_with {A} (g : A -> A -> A) (l m : list A) : list A :=
  match l, m with
  | x :: t, y :: u => g x y :: zip_with g t u
  | _, _ => []
  end.

(* ---- the four container classes ---------------------------------------------------------------- *)
Inductive skind := SI | SQU | SIQU | SIQUV.
Definition skind_eqb (a b : skind) : bool :=
  match a, b with SI, SI | SQU, SQU | SIQU, SIQU | SIQUV, SIQUV => true | _, _ => false end.
Definition arity (k : skind) : nat := match k with SI => 1 | SQU => 2 | SIQU => 3 | SIQUV => 4 end.
Definition kname (k : skind) : string :=
  match k with SI => "I" | SQU => "QU" | SIQU => "IQU" | SIQUV => "IQUV" end.
Definition all_kinds : list skind := [SI; SQU; SIQU; SIQUV].
(* typing.get_args(ValidStokesType) *)
Definition valid_names : list string := map kname all_kinds.

(* a container: its class and its dataclass fields in declaration order (i, q, u, v) *)
Record stokes (A : Type) := mkS { sk : skind; comps : list A }.
Arguments mkS {A}. Arguments sk {A}. Arguments comps {A}.
Definition wf {A} (s : stokes A) : Prop := List.length (comps s) = arity (sk s).
Definition comp {A} (d : A) (s : stokes A) (c : nat) : A := nth c (comps s) d.

(* what the other operand of a dunder can be *)
Inductive operand (A : Type) :=
| OS (s : stokes A)   (* a Stokes container *)
| OV (v : A)          (* jnp.isscalar(x) or isinstance(x, jax.Array) *)
| OX.                 (* anything else (None, list, dict, ...) *)
Arguments OS {A}. Arguments OV {A}. Arguments OX {A}.

Section Dispatch.
  Variable A : Type.
  Variable op : A -> A -> res A.     (* the leaf operation: operator.add, operator.sub, ... *)

  (* StokesPyTree._operation(operation, right) *)
  Definition operation (self : stokes A) (right : operand A) : res (stokes A) :=
    match right with
    | OS r =>
        if skind_eqb (sk r) (sk self)
        then rmap (mkS (sk self)) (map2M op (comps self) (comps r))
        else NotImpl
    | OV v => rmap (mkS (sk self)) (mapM (fun leaf => op leaf v) (comps self))
    | OX => NotImpl
    end.

  (* StokesPyTree._roperation(operation, left) *)
  Definition roperation (self : stokes A) (left : operand A) : res (stokes A) :=
    match left with
    | OS l =>
        if skind_eqb (sk l) (sk self)
        then rmap (mkS (sk self)) (map2M op (comps l) (comps self))
        else NotImpl
    | OV v => rmap (mkS (sk self)) (mapM (fun leaf => op v leaf) (comps self))
    | OX => NotImpl
    end.

  (* Python's binary operator protocol for `l <op> r` where at least one side is a container.
     None of the four classes derives from another, so the reflected method never has priority;
     operands of the same class do not get the reflected call; operands that are not containers
     (JAX arrays, Python numbers, str, None, lists) do not handle a container themselves: their own
     method returns NotImplemented or does not exist. *)
  Definition no_impl (r : res (stokes A)) : res (stokes A) :=
    match r with NotImpl => Err TypeError | _ => r end.
  Definition py_binop (l r : operand A) : res (stokes A) :=
    match l, r with
    | OS a, OS b =>
        match operation a r with
        | NotImpl => if skind_eqb (sk a) (sk b) then Err TypeError else no_impl (roperation b l)
        | x => x
        end
    | OS a, _ => no_impl (operation a r)
    | _, OS b => no_impl (roperation b l)
    | _, _ => Err TypeError
    end.

  (* jax.tree.map(f, self): __neg__, __abs__, ravel, reshape; __getitem__ builds the list of
     indexed fields in the order of `self.stokes` and re-applies the class *)
  Definition smapM (f : A -> res A) (s : stokes A) : res (stokes A) :=
    rmap (mkS (sk s)) (mapM f (comps s)).
End Dispatch.
Arguments operation {A}. Arguments roperation {A}. Arguments py_binop {A}. Arguments smapM {A}.
Arguments no_impl {A}.

(* the dunder table *)
Inductive bop := Add | Sub | Mul | Div | Pow.
Inductive dunder := Fwd (o : bop) | Refl (o : bop).   (* __add__ ... / __radd__ ... *)
Definition call_dunder {A} (ops : bop -> A -> A -> res A) (d : dunder) (self : stokes A)
  (other : operand A) : res (stokes A) :=
  match d with
  | Fwd o => operation (ops o) self other
  | Refl o => roperation (ops o) self other
  end.
Inductive uop := Neg | Pos | Abs.
Definition call_unary {A} (uops : uop -> A -> res A) (u : uop) (s : stokes A) : res (stokes A) :=
  match u with
  | Pos => Ok s                       (* __pos__ returns self *)
  | _ => smapM (uops u) s
  end.

(* StokesPyTree.class_for *)
Definition name_kind (s : string) : option skind :=
  find (fun k => String.eqb (kname k) s) all_kinds.
Definition class_for (s : string) : res skind :=
  match name_kind s with Some k => Ok k | None => Err ValueError end.

(* cls.structure_for(shape, dtype): len(cls.stokes) copies of one structure leaf *)
Definition structure_for {A} (k : skind) (leaf : A) : stokes A := mkS k (repeat leaf (arity k)).

(* the class chosen by from_stokes from the number of arguments *)
Definition kind_of_arity (n : nat) : option skind :=
  match n with 1 => Some SI | 2 => Some SQU | 3 => Some SIQU | 4 => Some SIQUV | _ => None end.

(* sorted(keywords) *)
Fixpoint insert_str (s : string) (l : list string) : list string :=
  match l with
  | [] => [s]
  | x :: t => if String.leb s x then s :: l else x :: insert_str s t
  end.
Definition sort_str (l : list string) : list string := fold_right insert_str [] l.
Fixpoint chars (s : string) : list string :=
  match s with EmptyString => [] | String c t => String c EmptyString :: chars t end.
Fixpoint lookup {A} (k : string) (kw : list (string * A)) : option A :=
  match kw with
  | [] => None
  | (k', v) :: t => if String.eqb k k' then Some v else lookup k t
  end.
Fixpoint lookups {A} (ks : list string) (kw : list (string * A)) : res (list A) :=
  match ks with
  | [] => Ok []
  | k :: t => match lookup k kw with
              | Some v => rmap (cons v) (lookups t kw)
              | None => Err KeyError
              end
  end.

Section FromStokes.
  Variable A : Type.
  Variable promote_all : list A -> res (list A).    (* furax.tree.as_promoted_dtype on a tuple *)

  (* StokesPyTree.from_stokes(positional args, keywords) *)
  Definition from_stokes (args : list A) (kw : list (string * A)) : res (stokes A) :=
    match args, kw with
    | _ :: _, _ :: _ => Err TypeError
    | _, _ =>
        let chosen :=
          match kw with
          | [] => Ok args
          | _ => let name := String.concat "" (sort_str (map fst kw)) in
                 match name_kind name with
                 | None => Err TypeError
                 | Some _ => lookups (chars name) kw
                 end
          end in
        rbind chosen (fun a =>
        rbind (promote_all a) (fun a' =>
        match kind_of_arity (List.length a') with
        | Some k => Ok (mkS k a')
        | None => Err TypeError
        end))
    end.

  (* cls.from_iquv(i, q, u, v): keeps the components of the class; the I class does not promote *)
  Definition from_iquv (k : skind) (i q u v : A) : res (stokes A) :=
    match k with
    | SI => Ok (mkS SI [i])
    | SQU => rmap (mkS SQU) (promote_all [q; u])
    | SIQU => rmap (mkS SIQU) (promote_all [i; q; u])
    | SIQUV => rmap (mkS SIQUV) (promote_all [i; q; u; v])
    end.
End FromStokes.
Arguments from_stokes {A}. Arguments from_iquv {A}.

(* ---- pytree helpers over arbitrary leaves ------------------------------------------------------ *)

(* jax.tree.map(f, x) and jax.tree.map(f, x, y) (y must have the structure of x) *)
Fixpoint pmapM {A B} (f : A -> res B) (t : pt A) : res (pt B) :=
  match t with
  | Leaf a => rmap Leaf (f a)
  | Node k cs => rmap (Node k) (mapM (pmapM f) cs)
  end.
Fixpoint pmap2M {A B C} (f : A -> B -> res C) (x : pt A) (y : pt B) : res (pt C) :=
  match x, y with
  | Leaf a, Leaf b => rmap Leaf (f a b)
  | Node k cs, Node k' ds =>
      if ckind_eqb k k'
      then rmap (Node k)
             ((fix go (l : list (pt A)) (m : list (pt B)) : res (list (pt C)) :=
                 match l, m with
                 | [], [] => Ok []
                 | a :: l', b :: m' => rbind (pmap2M f a b) (fun c => rmap (cons c) (go l' m'))
                 | _, _ => Err ValueError
                 end) cs ds)
      else Err ValueError
  | Leaf _, Node _ _ => Err TypeError     (* jnp.vdot receives a container *)
  | Node _ _, Leaf _ => Err ValueError
  end.

(* furax.tree.is_leaf: the treedef has a single node (so an empty container counts as a leaf) *)
Definition is_leaf {A} (t : pt A) : bool :=
  match t with Leaf _ => true | Node _ [] => true | Node _ (_ :: _) => false end.

(* a Stokes container as a pytree *)
Definition stokes_pt {A} (s : stokes A) : pt A := Node (KStokes (arity (sk s))) (map Leaf (comps s)).

Section Dot.
  (* scalars: any type with a zero, +, * and an involution *)
  Variable K : Type.
  Variables (zero : K) (add mul : K -> K -> K) (conj : K -> K).
  (* jnp.vdot on two flattened leaves of equal size: sum of conj(x_i) * y_i *)
  Fixpoint vdot (x y : list K) : K :=
    match x, y with
    | a :: x', b :: y' => add (mul (conj a) b) (vdot x' y')
    | _, _ => zero
    end.
  (* sum(leaves, start=0): ((0 + l1) + l2) + ... *)
  Definition sum_from (z : K) (l : list K) : K := fold_left add l z.
  Definition vdot_leaf (x y : list K) : res K :=
    if Nat.eqb (List.length x) (List.length y) then Ok (vdot x y) else Err TypeError.
  (* furax.tree.dot(x, y) on trees whose leaves are the flattened arrays *)
  Definition tree_dot (x y : pt (list K)) : res K :=
    rmap (fun t => sum_from zero (flatten t)) (pmap2M vdot_leaf x y).
  (* StokesPyTree.__matmul__ *)
  Definition stokes_matmul (a : stokes (list K)) (b : operand (list K)) : res K :=
    match b with
    | OS b' => if skind_eqb (sk b') (sk a) then tree_dot (stokes_pt a) (stokes_pt b') else NotImpl
    | _ => NotImpl
    end.
End Dot.

(* Gaussian integers: the exact scalars used by the correspondence for complex leaves *)
Definition gz := (Z * Z)%type.
Definition gz0 : gz := (0, 0)%Z.
Definition gz1 : gz := (1, 0)%Z.
Definition gz_add (a b : gz) : gz := (fst a + fst b, snd a + snd b)%Z.
Definition gz_mul (a b : gz) : gz :=
  (fst a * fst b - snd a * snd b, fst a * snd b + snd a * fst b)%Z.
Definition gz_opp (a : gz) : gz := (- fst a, - snd a)%Z.
Definition gz_sub (a b : gz) : gz := gz_add a (gz_opp b).
Definition gz_conj (a : gz) : gz := (fst a, - snd a)%Z.

(* ============================================================================================== *)
(* Part 2 - specification of the JAX leaf primitives (checked against JAX by the harness)           *)

(* ---- dtypes ------------------------------------------------------------------------------------ *)
Inductive dt := DBool | DI32 | DI64 | DF16 | DBF16 | DF32 | DF64 | DC64 | DC128.
(* the nodes of JAX's promotion lattice restricted to these dtypes; NWI, NWF, NWC are the weak
   types of Python int, float and complex scalars (and of arrays made from them) *)
Inductive node := NB | NWI | NI32 | NI64 | NWF | NF16 | NBF16 | NF32 | NF64 | NWC | NC64 | NC128.
Definition all_nodes : list node :=
  [NB; NWI; NI32; NI64; NWF; NF16; NBF16; NF32; NF64; NWC; NC64; NC128].
Definition node_eqb (a b : node) : bool :=
  match a, b with
  | NB, NB | NWI, NWI | NI32, NI32 | NI64, NI64 | NWF, NWF | NF16, NF16 | NBF16, NBF16
  | NF32, NF32 | NF64, NF64 | NWC, NWC | NC64, NC64 | NC128, NC128 => true
  | _, _ => false
  end.
(* THE TABLE: the edges of the lattice (jax._src.dtypes._type_promotion_lattice restricted) *)
Definition edges (n : node) : list node :=
  match n with
  | NB => [NWI] | NWI => [NI32] | NI32 => [NI64] | NI64 => [NWF]
  | NWF => [NF16; NBF16; NWC] | NF16 => [NF32] | NBF16 => [NF32] | NF32 => [NF64; NC64]
  | NF64 => [NC128] | NWC => [NC64] | NC64 => [NC128] | NC128 => []
  end.
(* reachability in at most `fuel` steps (12 nodes: 12 steps suffice) *)
Fixpoint reach (fuel : nat) (a b : node) : bool :=
  node_eqb a b ||
  match fuel with
  | 0 => false
  | S f => existsb (fun m => reach f m b) (edges a)
  end.
Definition nle (a b : node) : bool := reach 12 a b.
(* least upper bound: the first common upper bound in a linear extension of the order *)
Definition join (a b : node) : node :=
  match find (fun c => nle a c && nle b c) all_nodes with Some c => c | None => NC128 end.

(* the type of an array: dtype and weak_type flag *)
Record ty := mkTy { tdt : dt; tweak : bool }.
Definition dt_eqb (a b : dt) : bool :=
  match a, b with
  | DBool, DBool | DI32, DI32 | DI64, DI64 | DF16, DF16 | DBF16, DBF16 | DF32, DF32
  | DF64, DF64 | DC64, DC64 | DC128, DC128 => true
  | _, _ => false
  end.
(* dtype canonicalisation: without jax_enable_x64 the 64-bit types become 32-bit *)
Definition canon (x64 : bool) (d : dt) : dt :=
  if x64 then d else match d with DI64 => DI32 | DF64 => DF32 | DC128 => DC64 | _ => d end.
Definition is_int (d : dt) : bool := match d with DI32 | DI64 => true | _ => false end.
Definition is_float (d : dt) : bool :=
  match d with DF16 | DBF16 | DF32 | DF64 => true | _ => false end.
Definition is_complex (d : dt) : bool := match d with DC64 | DC128 => true | _ => false end.
(* _jax_type(dtype, weak_type) *)
Definition node_of (t : ty) : node :=
  if tweak t then
    match tdt t with
    | DBool => NB
    | DI32 | DI64 => NWI
    | DF16 | DBF16 | DF32 | DF64 => NWF
    | DC64 | DC128 => NWC
    end
  else
    match tdt t with
    | DBool => NB | DI32 => NI32 | DI64 => NI64 | DF16 => NF16 | DBF16 => NBF16 | DF32 => NF32
    | DF64 => NF64 | DC64 => NC64 | DC128 => NC128
    end.
Definition node_ty (x64 : bool) (n : node) : ty :=
  match n with
  | NB => mkTy DBool false
  | NWI => mkTy (canon x64 DI64) true
  | NI32 => mkTy DI32 false
  | NI64 => mkTy (canon x64 DI64) false
  | NWF => mkTy (canon x64 DF64) true
  | NF16 => mkTy DF16 false
  | NBF16 => mkTy DBF16 false
  | NF32 => mkTy DF32 false
  | NF64 => mkTy (canon x64 DF64) false
  | NWC => mkTy (canon x64 DC128) true
  | NC64 => mkTy DC64 false
  | NC128 => mkTy (canon x64 DC128) false
  end.
(* jnp.result_type / jax.dtypes.result_type(..., return_weak_type_flag=True) *)
Definition join_all (n : node) (l : list node) : node := fold_left join l n.
Definition result_ty (x64 : bool) (ts : list ty) : option ty :=
  match ts with
  | [] => None          (* ValueError: at least one array or dtype is required *)
  | t :: r => Some (node_ty x64 (join_all (node_of t) (map node_of r)))
  end.
Definition promote2 (x64 : bool) (a b : ty) : ty := node_ty x64 (join (node_of a) (node_of b)).

(* dtypes.to_inexact_dtype on a promoted type (true division) *)
Definition to_inexact (x64 : bool) (t : ty) : ty :=
  match tdt t with
  | DBool => mkTy DF32 false
  | DI32 => if tweak t then mkTy (canon x64 DF64) true else mkTy DF32 false
  | DI64 => mkTy (canon x64 DF64) (tweak t)
  | _ => t
  end.

(* result type of `a <op> b` on JAX operands; `b_int_scalar`: b is a concrete 0-d integer
   (jnp.power then calls lax.integer_pow and keeps the type of the base).  Boolean operands are
   outside the modelled domain (None). *)
Definition binop_ty (x64 : bool) (o : bop) (a b : ty) (b_int_scalar : bool) : option ty :=
  match tdt a, tdt b with
  | DBool, _ | _, DBool => None
  | _, _ =>
      match o with
      | Add | Sub | Mul => Some (promote2 x64 a b)
      | Div => Some (to_inexact x64 (promote2 x64 a b))
      | Pow =>
          if b_int_scalar then Some a
          else if (is_float (tdt a) || is_complex (tdt a)) && is_int (tdt b)
               then Some (mkTy (tdt a) (tweak a && tweak b))
               else let p := promote2 x64 a b in
                    (* integer ** integer arrays: the result is never weakly typed *)
                    if is_int (tdt a) && is_int (tdt b) then Some (mkTy (tdt p) false) else Some p
      end
  end.

(* ---- arrays ------------------------------------------------------------------------------------ *)
(* row-major data over an element type E (Q for arithmetic, Gaussian integers for dot) *)
Record arr (E : Type) := mkArr { ashape : list nat; aty : ty; adata : list E }.
Arguments mkArr {E}. Arguments ashape {E}. Arguments aty {E}. Arguments adata {E}.
Definition prod (l : list nat) : nat := fold_right Nat.mul 1 l.

(* a leaf or operand value: an array (Python and NumPy scalars are 0-d arrays here), a
   jax.ShapeDtypeStruct, or a str (a "scalar" for jnp.isscalar that no leaf operation accepts) *)
Inductive val (E : Type) :=
| VArr (a : arr E)
| VSds (shape : list nat) (d : dt) (weak : bool)
| VBad.
Arguments VArr {E}. Arguments VSds {E}. Arguments VBad {E}.

(* NumPy broadcasting of shapes *)
Fixpoint bshape_rev (a b : list nat) : option (list nat) :=
  match a, b with
  | [], _ => Some b
  | _, [] => Some a
  | x :: a', y :: b' =>
      match bshape_rev a' b' with
      | None => None
      | Some r =>
          if Nat.eqb x y then Some (x :: r)
          else if Nat.eqb x 1 then Some (y :: r)
          else if Nat.eqb y 1 then Some (x :: r)
          else None
      end
  end.
Definition bshape (a b : list nat) : option (list nat) :=
  option_map (@rev nat) (bshape_rev (rev a) (rev b)).
Definition pad_shape (s : list nat) (rank : nat) : list nat :=
  repeat 1 (rank - List.length s) ++ s.
Fixpoint chunks {E} (n sz : nat) (d : list E) : list (list E) :=
  match n with
  | 0 => []
  | S n' => firstn sz d :: chunks n' sz (skipn sz d)
  end.
(* jnp.broadcast_to on the data: s (padded to the rank of t) -> t *)
Fixpoint bto {E} (s t : list nat) (d : list E) : list E :=
  match s, t with
  | n :: s', m :: t' =>
      let parts := map (bto s' t') (chunks n (prod s') d) in
      if Nat.eqb n m then List.concat parts else List.concat (repeat (hd [] parts) m)
  | _, _ => d
  end.
Definition broadcast_data {E} (s t : list nat) (d : list E) : list E :=
  bto (pad_shape s (List.length t)) t d.

(* element-wise arithmetic over exact rationals (floating-point rounding is not modelled: the
   harness rounds a quotient to the result dtype; the other operations are exact on its inputs) *)
Definition q_is_int (x : Q) : bool := Pos.eqb (Qden (Qred x)) 1.
Definition qop (o : bop) (x y : Q) : res Q :=
  match o with
  | Add => Ok (Qred (x + y))
  | Sub => Ok (Qred (x - y))
  | Mul => Ok (Qred (x * y))
  | Div => if Qeq_bool y 0 then Err OtherError else Ok (Qred (x / y))
  | Pow => if q_is_int y && (0 <=? Qnum (Qred y))%Z
           then Ok (Qred (Qpower x (Qnum (Qred y)))) else Err OtherError
  end.

Definition is_int_scalar {E} (a : arr E) : bool :=
  match ashape a with [] => is_int (tdt (aty a)) | _ => false end.

(* jnp.add/subtract/multiply/true_divide/power on two arrays *)
Definition arr_bop (x64 : bool) (o : bop) (a b : arr Q) : res (arr Q) :=
  match binop_ty x64 o (aty a) (aty b) (is_int_scalar b) with
  | None => Err OtherError
  | Some t =>
      match bshape (ashape a) (ashape b) with
      | None =>                    (* incompatible shapes for broadcasting: lax raises TypeError
                                      for equal ranks, jnp's shape promotion ValueError otherwise *)
          if Nat.eqb (List.length (ashape a)) (List.length (ashape b))
          then Err TypeError else Err ValueError
      | Some s =>
          rmap (mkArr s t)
               (map2M (qop o) (broadcast_data (ashape a) s (adata a))
                              (broadcast_data (ashape b) s (adata b)))
      end
  end.
Definition val_bop (x64 : bool) (o : bop) (x y : val Q) : res (val Q) :=
  match x, y with
  | VArr a, VArr b => rmap VArr (arr_bop x64 o a b)
  | _, _ => Err TypeError
  end.
Definition val_uop (u : uop) (x : val Q) : res (val Q) :=
  match x with
  | VArr a =>
      match u with
      | Neg => Ok (VArr (mkArr (ashape a) (aty a) (map (fun q => Qred (- q)) (adata a))))
      | Abs => Ok (VArr (mkArr (ashape a) (aty a) (map (fun q => Qred (Qabs q)) (adata a))))
      | Pos => Ok x
      end
  | _ => Err TypeError
  end.

(* indexing along the first axis (in-range indices; negative integers count from the end) *)
Inductive index := IInt (i : Z) | ISlice (lo hi : nat) | IArr (l : list Z).
Definition norm_idx (n : nat) (i : Z) : nat :=
  Z.to_nat (if (i <? 0)%Z then (i + Z.of_nat n)%Z else i).
Definition arr_getitem {E} (ix : index) (a : arr E) : res (arr E) :=
  match ashape a with
  | [] => Err IndexError
  | n :: rest =>
      let rows := chunks n (prod rest) (adata a) in
      match ix with
      | IInt i => Ok (mkArr rest (aty a) (nth (norm_idx n i) rows []))
      | ISlice lo hi =>
          Ok (mkArr ((hi - lo) :: rest) (aty a) (List.concat (firstn (hi - lo) (skipn lo rows))))
      | IArr l =>
          Ok (mkArr (List.length l :: rest) (aty a)
                    (List.concat (map (fun i => nth (norm_idx n i) rows []) l)))
      end
  end.
(* ---- general NumPy/JAX indexing (basic + advanced) ------------------------------------------------
   x[e1, ..., ek] with entries: integers (negative from the end), slices with any non-zero step,
   Ellipsis, None/newaxis, integer arrays of any rank, boolean masks of rank >= 1.  In-range integer
   indices only (JAX clamps out-of-range ones where NumPy raises: outside the property, never
   generated by the harness); a rank-0 mask is not modelled (Err OtherError, not compared).
   The semantics: masks become their nonzero() coordinate arrays; Ellipsis / missing trailing entries
   become full slices; integers are 0-d advanced indices; the advanced indices are broadcast to a
   common shape B, whose axes stand where the advanced indices stood when these are adjacent and in
   front otherwise; every result element is the source element at the sum of the per-axis offsets. *)
Inductive ient :=
| EInt (i : Z)
| ESlice (lo hi : option Z) (step : Z)
| EEllipsis
| ENew
| EIArr (sh : list nat) (d : list Z)
| EMask (sh : list nat) (d : list bool).
(* after expansion: a slice, a new axis, or an advanced index array (chk: the source axis must have
   this length - the axis of a mask) *)
Inductive nent :=
| NSl (lo hi : option Z) (step : Z)
| NNew
| NAdv (sh : list nat) (d : list Z) (chk : option nat).
(* after assignment to source axes: offsets (position * stride) into the row-major data *)
Inductive item := TNew | TSl (offs : list nat) | TAdv (sh : list nat) (offs : list nat).

Fixpoint strides (s : list nat) : list nat :=
  match s with [] => [] | _ :: t => prod t :: strides t end.
Definition true_positions (d : list bool) : list nat :=
  map fst (filter snd (combine (seq 0 (List.length d)) d)).
(* numpy.nonzero(mask): one coordinate list per axis of the mask *)
Definition mask_coords (sh : list nat) (d : list bool) : list (list nat) :=
  let ps := true_positions d in
  map (fun ns => map (fun p => (p / snd ns) mod (fst ns)) ps) (combine sh (strides sh)).
Definition consumes (e : ient) : nat :=
  match e with
  | EInt _ | ESlice _ _ _ | EIArr _ _ => 1
  | EMask sh _ => List.length sh
  | EEllipsis | ENew => 0
  end.
Definition is_ellipsis (e : ient) : bool := match e with EEllipsis => true | _ => false end.
Definition full_slice : nent := NSl None None 1%Z.
Definition expand_ent (fill : nat) (e : ient) : res (list nent) :=
  match e with
  | EInt i => Ok [NAdv [] [i] None]
  | ESlice lo hi st => Ok [NSl lo hi st]
  | EEllipsis => Ok (repeat full_slice fill)
  | ENew => Ok [NNew]
  | EIArr sh d => Ok [NAdv sh d None]
  | EMask [] _ => Err OtherError
  | EMask sh d =>
      if Nat.eqb (List.length d) (prod sh)
      then Ok (map (fun nc => NAdv [List.length (snd nc)] (map Z.of_nat (snd nc)) (Some (fst nc)))
                   (combine sh (mask_coords sh d)))
      else Err OtherError
  end.
Definition expand_index (rank : nat) (es : list ient) : res (list nent) :=
  let n_ell := List.length (filter is_ellipsis es) in
  let n_c := fold_right (fun e acc => consumes e + acc) 0 es in
  if Nat.ltb 1 n_ell then Err IndexError
  else if Nat.ltb rank n_c then Err IndexError
  else rmap (fun l => List.concat l ++ (if Nat.eqb n_ell 0 then repeat full_slice (rank - n_c) else []))
            (mapM (expand_ent (rank - n_c)) es).

(* slice(lo, hi, step).indices(n) as the list of selected positions *)
Definition clampi (n lower upper s : Z) : Z :=
  if (s <? 0)%Z then Z.max (s + n) lower else Z.min s upper.
Definition slice_positions (n : nat) (lo hi : option Z) (step : Z) : list nat :=
  let nz := Z.of_nat n in
  let neg := (step <? 0)%Z in
  let lower := if neg then (-1)%Z else 0%Z in
  let upper := if neg then (nz - 1)%Z else nz in
  let start := match lo with None => if neg then upper else lower | Some s => clampi nz lower upper s end in
  let stop := match hi with None => if neg then lower else upper | Some s => clampi nz lower upper s end in
  let cnt := if neg then ((start - stop + (- step) - 1) / (- step))%Z
             else ((stop - start + step - 1) / step)%Z in
  map (fun k => Z.to_nat (start + Z.of_nat k * step)%Z) (seq 0 (Z.to_nat cnt)).
Definition norm_pos (n : nat) (i : Z) : option nat :=
  let j := if (i <? 0)%Z then (i + Z.of_nat n)%Z else i in
  if ((0 <=? j) && (j <? Z.of_nat n))%Z then Some (Z.to_nat j) else None.
Fixpoint norm_all (n : nat) (d : list Z) : option (list nat) :=
  match d with
  | [] => Some []
  | i :: t => match norm_pos n i, norm_all n t with
              | Some p, Some ps => Some (p :: ps)
              | _, _ => None
              end
  end.
Definition chk_ok (chk : option nat) (n : nat) : bool :=
  match chk with None => true | Some m => Nat.eqb m n end.
(* entries meet the source axes (length, stride) from left to right *)
Fixpoint assign_axes (es : list nent) (axes : list (nat * nat)) : res (list item) :=
  match es with
  | [] => Ok []
  | NNew :: t => rmap (cons TNew) (assign_axes t axes)
  | NSl lo hi st :: t =>
      match axes with
      | [] => Err IndexError
      | (n, sd) :: ax =>
          if (st =? 0)%Z then Err ValueError
          else rmap (cons (TSl (map (fun p => p * sd) (slice_positions n lo hi st)))) (assign_axes t ax)
      end
  | NAdv sh d chk :: t =>
      match axes with
      | [] => Err IndexError
      | (n, sd) :: ax =>
          if negb (chk_ok chk n) then Err IndexError
          else match norm_all n d with
               | None => Err OtherError
               | Some ps => rmap (cons (TAdv sh (map (fun p => p * sd) ps))) (assign_axes t ax)
               end
      end
  end.
Definition is_adv (it : item) : bool := match it with TAdv _ _ => true | _ => false end.
Fixpoint take_while {X} (p : X -> bool) (l : list X) : list X :=
  match l with x :: t => if p x then x :: take_while p t else [] | [] => [] end.
Fixpoint drop_while {X} (p : X -> bool) (l : list X) : list X :=
  match l with x :: t => if p x then drop_while p t else l | [] => [] end.
Definition adv_shape (its : list item) : option (list nat) :=
  fold_right (fun it acc => match it, acc with
                            | TAdv sh _, Some b => bshape sh b
                            | _, _ => acc
                            end) (Some []) its.
Definition adv_offsets (b : list nat) (its : list item) : list nat :=
  fold_right (fun it acc => match it with
                            | TAdv sh o => map (fun xy => fst xy + snd xy) (combine (broadcast_data sh b o) acc)
                            | _ => acc
                            end) (repeat 0 (prod b)) its.
(* a group of result axes: its shape and the offset contributed at each of its positions *)
Definition gen_of (it : item) : list (list nat * list nat) :=
  match it with
  | TNew => [([1], [0])]
  | TSl o => [([List.length o], o)]
  | TAdv _ _ => []
  end.
Definition result_gens (its : list item) : res (list (list nat * list nat)) :=
  match adv_shape its with
  | None => Err ValueError              (* index arrays that cannot be broadcast together *)
  | Some b =>
      let bgen := (b, adv_offsets b its) in
      let before := take_while (fun it => negb (is_adv it)) its in
      let after := drop_while is_adv (drop_while (fun it => negb (is_adv it)) its) in
      if existsb is_adv after
      then Ok (bgen :: flat_map gen_of its)
      else Ok (flat_map gen_of before ++ bgen :: flat_map gen_of after)
  end.
Definition all_offsets (gens : list (list nat * list nat)) : list nat :=
  fold_right (fun g acc => flat_map (fun o => map (Nat.add o) acc) (snd g)) [0] gens.
Definition arr_index {E} (es : list ient) (a : arr E) : res (arr E) :=
  rbind (expand_index (List.length (ashape a)) es) (fun ns =>
  rbind (assign_axes ns (combine (ashape a) (strides (ashape a)))) (fun its =>
  rbind (result_gens its) (fun gens =>
  Ok (mkArr (flat_map fst gens) (aty a)
            (flat_map (fun o => firstn 1 (skipn o (adata a))) (all_offsets gens)))))).

Definition arr_ravel {E} (a : arr E) : arr E := mkArr [prod (ashape a)] (aty a) (adata a).
(* jnp.reshape with at most one -1 *)
Definition infer_shape (size : nat) (new : list Z) : option (list nat) :=
  let known := fold_right (fun z acc => if (z <? 0)%Z then acc else (Z.to_nat z * acc)) 1 new in
  let negs := List.length (filter (fun z => (z <? 0)%Z) new) in
  match negs with
  | 0 => if Nat.eqb known size then Some (map Z.to_nat new) else None
  | 1 => if Nat.eqb known 0 then None
         else if Nat.eqb (size mod known) 0
              then Some (map (fun z => if (z <? 0)%Z then size / known else Z.to_nat z) new)
              else None
  | _ => None
  end.
Definition arr_reshape {E} (new : list Z) (a : arr E) : res (arr E) :=
  match infer_shape (prod (ashape a)) new with
  | Some s => Ok (mkArr s (aty a) (adata a))
  | None => Err TypeError
  end.
Definition on_arr {E} (f : arr E -> res (arr E)) (x : val E) : res (val E) :=
  match x with VArr a => rmap VArr (f a) | _ => Err AttributeError end.

Definition val_shape {E} (x : val E) : list nat :=
  match x with VArr a => ashape a | VSds s _ _ => s | VBad => [] end.
Definition val_dt {E} (x : val E) : option dt :=
  match x with VArr a => Some (tdt (aty a)) | VSds _ d _ => Some d | VBad => None end.

(* ---- the helpers on concrete leaves ------------------------------------------------------------ *)
Definition val_ty {E} (x : val E) : option ty :=
  match x with
  | VArr a => Some (aty a)
  | VSds _ d _ => Some (mkTy d false)   (* result_type ignores the weak flag of a structure leaf *)
  | VBad => None
  end.
Fixpoint all_some {X} (l : list (option X)) : option (list X) :=
  match l with
  | [] => Some []
  | Some x :: t => option_map (cons x) (all_some t)
  | None :: _ => None
  end.
(* the leaf transformation of as_promoted_dtype: arrays are cast (data unchanged in the exact
   model), structures rebuilt *)
Definition cast_val {E} (t : ty) (x : val E) : res (val E) :=
  match x with
  | VArr a => Ok (VArr (mkArr (ashape a) (mkTy (tdt t) false) (adata a)))
  | VSds s _ _ => Ok (VSds s (tdt t) false)
  | VBad => Err TypeError
  end.
(* `empty_ok`: the guard `if not leaves: return x` (fixes/C20-as-promoted-dtype-empty.diff);
   without it jnp.result_type() raises ValueError on a tree without leaves *)
Definition as_promoted_dtype {E} (empty_ok x64 : bool) (t : pt (val E)) : res (pt (val E)) :=
  match all_some (map val_ty (flatten t)) with
  | None => Err TypeError
  | Some tys =>
      match result_ty x64 tys with
      | None => if empty_ok then Ok t else Err ValueError
      | Some r => pmapM (cast_val r) t
      end
  end.
(* on the tuple of arguments of from_stokes / from_iquv *)
Definition promote_list {E} (empty_ok x64 : bool) (l : list (val E)) : res (list (val E)) :=
  rbind (as_promoted_dtype empty_ok x64 (Node KTuple (map Leaf l)))
        (fun t => Ok (flatten t)).

(* as_structure: jax.eval_shape of the identity *)
Definition struct_val {E} (x64 : bool) (x : val E) : res (val E) :=
  match x with
  | VArr a => Ok (VSds (ashape a) (canon x64 (tdt (aty a))) (tweak (aty a)))
  | VSds s d w => Ok (VSds s (canon x64 d) w)
  | VBad => Err TypeError
  end.
Definition as_structure {E} (x64 : bool) (t : pt (val E)) : res (pt (val E)) :=
  pmapM (struct_val x64) t.

(* full_like: jnp.full(leaf.shape, fill_value, leaf.dtype) *)
Definition full_val {E} (x64 : bool) (fill : E) (x : val E) : res (val E) :=
  match x with
  | VArr a => Ok (VArr (mkArr (ashape a) (mkTy (canon x64 (tdt (aty a))) false)
                              (repeat fill (prod (ashape a)))))
  | VSds s d _ => Ok (VArr (mkArr s (mkTy (canon x64 d) false) (repeat fill (prod s))))
  | VBad => Err AttributeError
  end.
Definition full_like {E} (x64 : bool) (fill : E) (t : pt (val E)) : res (pt (val E)) :=
  pmapM (full_val x64 fill) t.

(* normal_like / uniform_like: leaf number j (in leaf order) is drawn with the j-th of
   len(leaves) sub-keys; the model keeps (shape, dtype, j) *)
Inductive dist := Normal | Uniform.
Definition dist_ok (d : dist) (t : dt) : bool :=
  match d with Normal => is_float t || is_complex t | Uniform => is_float t end.
Fixpoint number_leaves {A} (t : pt A) (n : nat) : pt (A * nat) * nat :=
  match t with
  | Leaf a => (Leaf (a, n), S n)
  | Node k cs =>
      let '(cs', n') :=
        (fix go (l : list (pt A)) (n : nat) : list (pt (A * nat)) * nat :=
           match l with
           | [] => ([], n)
           | x :: xs => let '(x', n1) := number_leaves x n in
                        let '(xs', n2) := go xs n1 in (x' :: xs', n2)
           end) cs n in
      (Node k cs', n')
  end.
Definition random_val {E} (x64 : bool) (d : dist) (p : val E * nat)
  : res (list nat * dt * nat) :=
  match fst p with
  | VArr a => if dist_ok d (canon x64 (tdt (aty a)))
              then Ok (ashape a, canon x64 (tdt (aty a)), snd p) else Err ValueError
  | VSds s t _ => if dist_ok d (canon x64 t) then Ok (s, canon x64 t, snd p) else Err ValueError
  | VBad => Err AttributeError
  end.
Definition random_like {E} (x64 : bool) (d : dist) (t : pt (val E))
  : res (pt (list nat * dt * nat)) :=
  pmapM (random_val x64 d) (fst (number_leaves t 0)).

(* ---- the factories on concrete leaves ---------------------------------------------------------- *)
(* cls.zeros/ones/full(shape, dtype) = full_like(cls.structure_for(shape, dtype), value) *)
Definition stokes_of_pt {A} (k : skind) (t : pt A) : stokes A := mkS k (flatten t).
Definition factory_full {E} (x64 : bool) (k : skind) (shape : list nat) (d : dt) (fill : E)
  : res (stokes (val E)) :=
  rmap (stokes_of_pt k) (full_like x64 fill (stokes_pt (structure_for k (VSds shape d false)))).
Definition factory_random (x64 : bool) (ds : dist) (k : skind) (shape : list nat) (d : dt)
  : res (stokes (list nat * dt * nat)) :=
  rmap (stokes_of_pt k)
       (random_like x64 ds (stokes_pt (structure_for k (@VSds Q shape d false)))).

(* the dunders and methods on concrete containers *)
Definition stokes_binop (x64 : bool) (o : bop) (l r : operand (val Q)) : res (stokes (val Q)) :=
  py_binop (val_bop x64 o) l r.
Definition stokes_unary (u : uop) (s : stokes (val Q)) : res (stokes (val Q)) :=
  call_unary val_uop u s.
Definition stokes_getitem {E} (ix : index) (s : stokes (val E)) : res (stokes (val E)) :=
  smapM (on_arr (arr_getitem ix)) s.
Definition stokes_index {E} (es : list ient) (s : stokes (val E)) : res (stokes (val E)) :=
  smapM (on_arr (arr_index es)) s.
Definition stokes_ravel {E} (s : stokes (val E)) : res (stokes (val E)) :=
  smapM (on_arr (fun a => Ok (arr_ravel a))) s.
Definition stokes_reshape {E} (new : list Z) (s : stokes (val E)) : res (stokes (val E)) :=
  smapM (on_arr (arr_reshape new)) s.

(* dot on concrete leaves over the Gaussian integers: values by tree_dot, type by the promotion
   of vdot's operands and of the running sum started at the weak integer 0 *)
Definition arr_flat {E} (x : val E) : list E := match x with VArr a => adata a | _ => [] end.
Definition all_arrays {E} (t : pt (val E)) : bool :=
  forallb (fun x => match x with VArr _ => true | _ => false end) (flatten t).
Definition dot_ty (x64 : bool) (x y : pt (val gz)) : option ty :=
  match all_some (map val_ty (flatten x)), all_some (map val_ty (flatten y)) with
  | Some tx, Some ty_ =>
      Some (fold_left (promote2 x64) (map (fun p => promote2 x64 (fst p) (snd p)) (combine tx ty_))
                      (node_ty x64 NWI))
  | _, _ => None
  end.
Definition dot_val (x64 : bool) (x y : pt (val gz)) : res (gz * option ty) :=
  if all_arrays x && all_arrays y
  then rmap (fun v => (v, dot_ty x64 x y))
            (tree_dot gz gz0 gz_add gz_mul gz_conj (pmap arr_flat x) (pmap arr_flat y))
  else Err TypeError.

(* rationals are shown as (numerator, denominator) pairs *)
Definition qpair (q : Q) : Z * Z := (Qnum q, Zpos (Qden q)).
Definition show_val (v : val Q) : val (Z * Z) :=
  match v with
  | VArr a => VArr (mkArr (ashape a) (aty a) (map qpair (adata a)))
  | VSds s d w => VSds s d w
  | VBad => VBad
  end.
Definition show_stokes (s : stokes (val Q)) : stokes (val (Z * Z)) := mkS (sk s) (map show_val (comps s)).
Definition show_tree (t : pt (val Q)) : pt (val (Z * Z)) := pmap show_val t.

(* ---- printable observations -------------------------------------------------------------------- *)
Definition show_res {X Y} (f : X -> Y) (r : res X) : res Y := rmap f r.
Definition dtable (x64 : bool) : list (list ty) :=
  map (fun a => map (fun b => node_ty x64 (join a b)) all_nodes) all_nodes.
(* scalar = true: both operands are 0-d, so an integer right operand is a concrete integer scalar *)
Definition optable (x64 : bool) (o : bop) (scalar : bool) : list (list (option ty)) :=
  map (fun a => map (fun b => binop_ty x64 o (node_ty x64 a) (node_ty x64 b)
                                (scalar && is_int (tdt (node_ty x64 b)))) all_nodes)
      all_nodes.
Definition all_bops : list bop := [Add; Sub; Mul; Div; Pow].
Definition all_tables (x64 : bool) :=
  (dtable x64, map (fun o => optable x64 o false) all_bops, map (fun o => optable x64 o true) all_bops).
Definition triple_table (x64 : bool) : list (list (list (option ty))) :=
  map (fun a => map (fun b => map (fun c =>
        result_ty x64 [node_ty x64 a; node_ty x64 b; node_ty x64 c]) all_nodes) all_nodes) all_nodes.
