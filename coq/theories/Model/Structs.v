(* C05 - declared input/output structures are honest.  Definitions only (proofs: Lemmas/StructsL.v).

   The DECLARED structures are Model/Algebra.v `structs` (in_struct / out_struct / in_size / out_size),
   which transcribe in_structure()/out_structure() of every class (square family: out IS in; lazy
   duals swap; composition: last in / first out; sum: first operand; blocks: tree of the blocks'
   structures, row: first block's out, column: first block's in).  This file adds
     1. dtypes of structure leaves (identifiers -> the dtype lattice of Model/StokesTree.v, imported
        read-only), availability of a dtype in the current 64-bit mode, promoted dtype of a structure;
     2. `vhas`: a value (pytree of flat arrays over any carrier) has a structure (tree, leaf sizes);
     3. `seval`: the ABSTRACT EVALUATION of an operator on a structure - what jax.eval_shape(op.mv, s)
        computes and what the structure of an actual mv result is (tree, leaf shapes, leaf dtypes) -
        for all expression trees over an abstract evaluation of the leaf operators, and `xeval`, its
        executable instance whose leaf rules are computed from the class and the type/shape of its
        array parameter (scalar value, diagonal values, band values, rotation angles);
     4. the property's guards as booleans: `params_not_wider` and `dtypes_available`;
     5. the shape arithmetic of BroadcastDiagonalOperator._reshape_leaves (`diag_leaf_shape`: destination
        axes at / beyond the leaf rank on both sides, negative axes, unit and extra axes of the values),
        the constructors built on it (`diag_ctor`: what DiagonalOperator / BroadcastDiagonalOperator accept
        and what they return) and `ctor_checked`: the checks those constructors made on an existing object. *)
From Coq Require Import List Bool Arith ZArith NArith QArith String Lia.
From Furax Require Import Base.Pytree Model.Op Model.Algebra Model.Denote Model.Wf.
From Furax Require Model.StokesTree.
Import ListNotations.
Set Implicit Arguments.
Local Close Scope Q_scope.
Local Open Scope nat_scope.

Module ST := StokesTree.
Notation dt := ST.dt.
Notation ty := ST.ty.

(* ---------- 1. dtypes of structure leaves ---------- *)
(* identifiers of harness/c05.py (0-6 are those of harness/algebra.py) *)
Definition dt_of_id (n : nat) : option dt :=
  match n with
  | 0 => Some ST.DF32 | 1 => Some ST.DF64 | 2 => Some ST.DI32 | 3 => Some ST.DI64 | 4 => Some ST.DF16
  | 5 => Some ST.DBool | 6 => Some ST.DC64 | 7 => Some ST.DC128 | 8 => Some ST.DBF16 | _ => None
  end.
Definition id_of_dt (d : dt) : nat :=
  match d with
  | ST.DF32 => 0 | ST.DF64 => 1 | ST.DI32 => 2 | ST.DI64 => 3 | ST.DF16 => 4 | ST.DBool => 5
  | ST.DC64 => 6 | ST.DC128 => 7 | ST.DBF16 => 8
  end.
Definition sd_dt (sd : sds) : option dt := dt_of_id (s_dtype sd).
(* a ShapeDtypeStruct / an array is strongly typed *)
Definition sd_ty (sd : sds) : option ty := option_map (fun d => ST.mkTy d false) (sd_dt sd).
Definition ty_eqb (a b : ty) : bool := ST.dt_eqb (ST.tdt a) (ST.tdt b) && Bool.eqb (ST.tweak a) (ST.tweak b).

(* a dtype exists in the current mode: without jax_enable_x64 no array is float64/int64/complex128 *)
Definition dt_avail (x64 : bool) (d : dt) : bool := ST.dt_eqb (ST.canon x64 d) d.
Definition sd_avail (x64 : bool) (sd : sds) : bool :=
  match sd_dt sd with Some d => dt_avail x64 d | None => false end.
Definition avail (x64 : bool) (s : struct) : bool := forallb (sd_avail x64) (flatten s).

Definition retype (sd : sds) (t : ty) : sds := mkSds (s_shape sd) (id_of_dt (ST.tdt t)).
(* parameter (type t, shape that broadcasts into the leaf) * leaf *)
Definition sd_mul (x64 : bool) (t : ty) (sd : sds) : option sds :=
  option_map (fun u => retype sd (ST.promote2 x64 t u)) (sd_ty sd).
(* parameter of shape psh * leaf, with NumPy broadcasting of the shapes *)
Definition sd_mulb (x64 : bool) (t : ty) (psh : list nat) (sd : sds) : option sds :=
  match sd_ty sd, ST.bshape (s_shape sd) psh with
  | Some u, Some sh => Some (mkSds sh (id_of_dt (ST.tdt (ST.promote2 x64 t u))))
  | _, _ => None
  end.
(* jnp.add / jnp.subtract of two arrays *)
Definition sd_add (x64 : bool) (a b : sds) : option sds :=
  match sd_ty a, sd_ty b, ST.bshape (s_shape a) (s_shape b) with
  | Some ta, Some tb, Some sh => Some (mkSds sh (id_of_dt (ST.tdt (ST.promote2 x64 ta tb))))
  | _, _, _ => None
  end.

Fixpoint pmapo {A B} (f : A -> option B) (t : pt A) : option (pt B) :=
  match t with
  | Leaf a => option_map Leaf (f a)
  | Node k cs =>
      option_map (Node k)
        ((fix go (l : list (pt A)) : option (list (pt B)) :=
            match l with
            | [] => Some []
            | x :: xs => match pmapo f x, go xs with Some y, Some ys => Some (y :: ys) | _, _ => None end
            end) cs)
  end.

(* jax.tree.map(jnp.add, a, b) on structures *)
Fixpoint sadd (x64 : bool) (a b : struct) : option struct :=
  match a, b with
  | Leaf u, Leaf v => option_map Leaf (sd_add x64 u v)
  | Node k cs, Node k' cs' =>
      if ckind_eqb k k' then
        option_map (Node k)
          ((fix go (l l' : list struct) : option (list struct) :=
              match l, l' with
              | [], [] => Some []
              | x :: xs, y :: ys =>
                  match sadd x64 x y, go xs ys with Some z, Some zs => Some (z :: zs) | _, _ => None end
              | _, _ => None
              end) cs cs')
      else None
  | _, _ => None
  end.
Definition ssum (x64 : bool) (ys : list struct) : option struct :=
  match ys with
  | [] => None
  | y :: r => fold_left (fun acc z => obind acc (fun a => sadd x64 a z)) r (Some y)
  end.

(* in_promoted_dtype / out_promoted_dtype: jnp.result_type of all leaves *)
Definition promoted (x64 : bool) (s : struct) : option ty :=
  match ST.all_some (map sd_ty (flatten s)) with
  | Some ts => ST.result_ty x64 ts
  | None => None
  end.

(* ---------- 2. values ---------- *)
Section Values.
  Variable K : Type.
  Notation value := (value K).
  (* tree shape and leaf sizes (the same function as Exec.has_struct, over any carrier) *)
  Fixpoint vhas (x : value) (s : struct) : bool :=
    match x, s with
    | Leaf d, Leaf sd => Nat.eqb (List.length d) (leaf_size sd)
    | Node k cs, Node k' ss =>
        ckind_eqb k k' &&
        (fix go (l : list value) (l' : list struct) : bool :=
           match l, l' with
           | [], [] => true
           | a :: r, b :: r' => vhas a b && go r r'
           | _, _ => false
           end) cs ss
    | _, _ => false
    end.
  Definition vsize (x : value) : nat := List.length (List.concat (flatten x)).
End Values.

(* ---------- 3. leaves of an expression ---------- *)
Section Leaves.
  Variable K : Type.
  Notation op := (op K).
  (* the operators whose action is not defined by the expression language itself *)
  Fixpoint leaves (e : op) : list op :=
    match e with
    | Prim _ _ _ _ _ | Wrap _ _ _ => [e]
    | Ident _ _ | Homoth _ _ _ => []
    | Comp _ l | AddOp _ l | Block _ _ _ l => flat_map leaves l
    end.
  (* ... and, for the abstract evaluation with dtypes, the scalar operators as well *)
  Fixpoint sleaves (e : op) : list op :=
    match e with
    | Prim _ _ _ _ _ | Wrap _ _ _ | Homoth _ _ _ => [e]
    | Ident _ _ => []
    | Comp _ l | AddOp _ l | Block _ _ _ l => flat_map sleaves l
    end.
  Fixpoint subterms (e : op) : list op :=
    e :: match e with
         | Comp _ l | AddOp _ l | Block _ _ _ l => flat_map subterms l
         | Wrap _ _ x => subterms x
         | _ => []
         end.

  (* every declared structure in the tree uses dtypes that exist in the current mode *)
  Definition dtypes_available (x64 : bool) (e : op) : bool :=
    forallb (fun a => avail x64 (in_struct a) && avail x64 (out_struct a)) (subterms e).

  (* Prim terms of classes whose transpose() returns self must be square classes *)
  Fixpoint prims_sane (e : op) : bool :=
    match e with
    | Prim _ c _ _ _ => negb (returns_self_on_transpose c) || square_cls c
    | Wrap _ _ x => prims_sane x
    | Ident _ _ | Homoth _ _ _ => true
    | Comp _ l | AddOp _ l | Block _ _ _ l => forallb prims_sane l
    end.
End Leaves.

(* ---------- 4. abstract evaluation over abstract leaf rules ---------- *)
Section SEval.
  Variable K : Type.
  Variable x64 : bool.
  Notation op := (op K).
  Variable leafeval : op -> struct -> option struct.

  Fixpoint seval (e : op) (s : struct) {struct e} : option struct :=
    match e with
    | Prim _ _ _ _ _ | Wrap _ _ _ | Homoth _ _ _ => leafeval e s
    | Ident _ _ => Some s
    | Comp _ l =>
        (fix go (l : list op) (s : struct) : option struct :=
           match l with
           | [] => Some s
           | e :: r => obind (go r s) (seval e)
           end) l s
    | AddOp _ l =>
        obind ((fix go (l : list op) : option (list struct) :=
                  match l with
                  | [] => Some []
                  | e :: r => match seval e s, go r with Some y, Some ys => Some (y :: ys) | _, _ => None end
                  end) l) (ssum x64)
    | Block _ b td l =>
        if negb (Nat.eqb (List.length l) (nleaves td)) then None else
        match b with
        | BDiag =>
            obind (split_prefix td s) (fun xs =>
            option_map (fun ys => build s td ys)
              ((fix go (l : list op) (xs : list struct) : option (list struct) :=
                  match l, xs with
                  | [], [] => Some []
                  | e :: r, x :: xr => match seval e x, go r xr with Some y, Some ys => Some (y :: ys) | _, _ => None end
                  | _, _ => None
                  end) l xs))
        | BCol =>
            option_map (fun ys => build s td ys)
              ((fix go (l : list op) : option (list struct) :=
                  match l with
                  | [] => Some []
                  | e :: r => match seval e s, go r with Some y, Some ys => Some (y :: ys) | _, _ => None end
                  end) l)
        | BRow =>
            obind (split_prefix td s) (fun xs =>
            obind ((fix go (l : list op) (xs : list struct) : option (list struct) :=
                  match l, xs with
                  | [], [] => Some []
                  | e :: r, x :: xr => match seval e x, go r xr with Some y, Some ys => Some (y :: ys) | _, _ => None end
                  | _, _ => None
                  end) l xs) (ssum x64))
        end
    end.
  Definition schain (l : list op) (s : struct) : option struct :=
    fold_right (fun e acc => obind acc (seval e)) (Some s) l.
End SEval.

(* ---------- 5. executable leaf rules ---------- *)
(* type (dtype, weak flag) and shape of the array parameter of an operator object *)
(* ... and, for the diagonal classes, the static field axis_destination (empty otherwise) *)
Record pinfo := mkPinfo { pi_ty : ty; pi_shape : list nat; pi_axes : list Z }.
Definition infos := list (N * pinfo).
Fixpoint ilookup (t : infos) (k : N) : option pinfo :=
  match t with
  | [] => None
  | (k', p) :: r => if (k =? k')%N then Some p else ilookup r k
  end.

Definition weak_float : ty := ST.mkTy ST.DF32 true.    (* a Python float such as 0.5 *)
Definition weak_int : ty := ST.mkTy ST.DI32 true.      (* a Python int such as 2 *)
(* type of cos(2 * angles) *)
Definition trig_ty (x64 : bool) (t : ty) : ty := ST.to_inexact x64 (ST.promote2 x64 weak_int t).

(* The scalar construction paths of AbstractLinearOperator.  __rmul__ (k * A; A * k, -A = (-1) * A and
   A - B = A + (-1) * B go the same way): HomothetyOperator(jnp.asarray(k), A.out_structure()) @ A - the scalar
   KEEPS its type (a Python scalar stays weakly typed, so that every leaf of a mixed-precision output keeps its
   own dtype).  __truediv__ (A / k): HomothetyOperator(1 / jnp.asarray(k), ...) - true division of the weakly
   typed 1 by k.  `scalar_param_ty`: type of the value the new scalar operator stores, from the type of k. *)
Inductive spath := SMul | SDiv.
Definition scalar_param_ty (x64 : bool) (p : spath) (t : ty) : ty :=
  match p with
  | SMul => t
  | SDiv => ST.to_inexact x64 (ST.promote2 x64 weak_int t)
  end.
Definition scalar_pinfo (x64 : bool) (p : spath) (t : ty) : pinfo := mkPinfo (scalar_param_ty x64 p t) [] [].

(* qu_rotations._cos_sin_2angles(angles, like = x.q): cos / sin (2 * angles), of type t, are CAST to the dtype of the
   Q leaf they multiply when that dtype is inexact (a strongly typed array of the data's dtype: angles wider than the
   data no longer promote Q and U); for integer / boolean data the factors keep their own type *)
Definition rot_ty (x64 : bool) (t : ty) (q : sds) : ty :=
  match sd_dt q with
  | Some d => if ST.is_float d || ST.is_complex d then ST.mkTy (ST.canon x64 d) false else t
  | None => t
  end.
(* q * c -+ u * s for Stokes leaves q, u and trigonometric factors of type t and shape ash *)
Definition rot_leaf (x64 : bool) (t : ty) (ash : list nat) (q u : sds) : option sds :=
  match sd_mulb x64 t ash q, sd_mulb x64 t ash u with
  | Some a, Some b => sd_add x64 a b
  | _, _ => None
  end.
Definition rot_eval (x64 : bool) (p : pinfo) (s : struct) : option struct :=
  let t := trig_ty x64 (pi_ty p) in
  let ash := pi_shape p in
  match s with
  | Node (KStokes 1) [Leaf _] => Some s
  | Node (KStokes 2) [Leaf q; Leaf u] =>
      match rot_leaf x64 (rot_ty x64 t q) ash q u, rot_leaf x64 (rot_ty x64 t q) ash q u with
      | Some q', Some u' => Some (Node (KStokes 2) [Leaf q'; Leaf u'])
      | _, _ => None
      end
  | Node (KStokes 3) [Leaf i; Leaf q; Leaf u] =>
      match rot_leaf x64 (rot_ty x64 t q) ash q u with
      | Some q' => Some (Node (KStokes 3) [Leaf i; Leaf q'; Leaf q'])
      | None => None
      end
  | Node (KStokes 4) [Leaf i; Leaf q; Leaf u; Leaf v] =>
      match rot_leaf x64 (rot_ty x64 t q) ash q u with
      | Some q' => Some (Node (KStokes 4) [Leaf i; Leaf q'; Leaf q'; Leaf v])
      | None => None
      end
  | _ => None
  end.
Definition is_stokes (s : struct) : bool :=
  match s with
  | Node (KStokes 1) [Leaf _] | Node (KStokes 2) [Leaf _; Leaf _] | Node (KStokes 3) [Leaf _; Leaf _; Leaf _]
  | Node (KStokes 4) [Leaf _; Leaf _; Leaf _; Leaf _] => true
  | _ => false
  end.
(* LinearPolarizerOperator.mv: 0.5 * i, 0.5 * q, 0.5 * (i + q) *)
Definition pol_eval (x64 : bool) (s : struct) : option struct :=
  match s with
  | Node (KStokes 1) [Leaf i] => option_map Leaf (sd_mul x64 weak_float i)
  | Node (KStokes 2) [Leaf q; Leaf _] => option_map Leaf (sd_mul x64 weak_float q)
  | Node (KStokes 3) [Leaf i; Leaf q; Leaf _] | Node (KStokes 4) [Leaf i; Leaf q; Leaf _; Leaf _] =>
      match sd_add x64 i q with Some a => option_map Leaf (sd_mul x64 weak_float a) | None => None end
  | _ => None
  end.
(* jnp.vectorize(f, signature='(n),(k)->(n)')(x, band_values) *)
Definition toep_eval (x64 : bool) (p : pinfo) (s : struct) : option struct :=
  match s with
  | Leaf sd =>
      match s_shape sd, pi_shape p with
      | _ :: _, _ :: _ =>
          match sd_ty sd, ST.bshape (removelast (s_shape sd)) (removelast (pi_shape p)) with
          | Some u, Some batch =>
              Some (Leaf (mkSds (batch ++ [last (s_shape sd) 0]) (id_of_dt (ST.tdt (ST.promote2 x64 (pi_ty p) u)))))
          | _, _ => None
          end
      | _, _ => None
      end
  | _ => None
  end.
(* same tree and the same leaf shapes (dtypes may differ) *)
Definition shapes_of (s : struct) : pt (list nat) := pmap s_shape s.
Definition same_shapes (a b : struct) : bool := pt_eqb (list_eqb Nat.eqb) (shapes_of a) (shapes_of b).
(* ReshapeTransposeOperator.mv: every leaf reshaped to the shape of the corresponding leaf of `target` *)
Fixpoint reshape_to (s target : struct) : option struct :=
  match s, target with
  | Leaf a, Leaf b => if Nat.eqb (leaf_size a) (leaf_size b) then Some (Leaf (mkSds (s_shape b) (s_dtype a))) else None
  | Node k cs, Node k' cs' =>
      if ckind_eqb k k' then
        option_map (Node k)
          ((fix go (l l' : list struct) : option (list struct) :=
              match l, l' with
              | [], [] => Some []
              | x :: xs, y :: ys =>
                  match reshape_to x y, go xs ys with Some z, Some zs => Some (z :: zs) | _, _ => None end
              | _, _ => None
              end) cs cs')
      else None
  | _, _ => None
  end.

(* jax.linear_transpose accepts [float or complex] -> [float or complex] and integer -> integer functions *)
Definition sd_inexact (sd : sds) : bool :=
  match sd_dt sd with Some d => ST.is_float d || ST.is_complex d | None => false end.
Definition sd_int (sd : sds) : bool := match sd_dt sd with Some d => ST.is_int d | None => false end.
Definition lt_ok (a b : struct) : bool :=
  forallb sd_inexact (flatten a ++ flatten b) || forallb sd_int (flatten a ++ flatten b).


(* ---------- DiagonalOperator / BroadcastDiagonalOperator: _reshape_leaves on shapes ---------- *)
(* _normalize_axes: axis if axis >= 0 else ndim + axis (the result may still be negative) *)
Definition norm_axis (n : nat) (a : Z) : Z := if (0 <=? a)%Z then a else (Z.of_nat n + a)%Z.
Fixpoint zmem (a : Z) (l : list Z) : bool :=
  match l with [] => false | b :: r => (a =? b)%Z || zmem a r end.
Fixpoint has_dup (l : list Z) : bool :=
  match l with [] => false | a :: r => zmem a r || has_dup r end.
Definition zmin0 (l : list Z) : Z := fold_right Z.min 0%Z l.        (* min(0, min(l)) *)
Definition zmax_list (l : list Z) : Z := match l with [] => 0%Z | a :: r => fold_right Z.max a r end.
Fixpoint find_dest (p : nat) (dests vals : list nat) : option nat :=
  match dests, vals with
  | d :: ds, v :: vs => if Nat.eqb d p then Some v else find_dest p ds vs
  | _, _ => None
  end.
(* jnp.moveaxis(a, range(k), dests) on the shape: the first k dimensions go to `dests`, the others
   fill the remaining positions in their order *)
Fixpoint place (p cnt : nat) (dests moved rest : list nat) : list nat :=
  match cnt with
  | 0 => []
  | S c =>
      match find_dest p dests moved with
      | Some v => v :: place (S p) c dests moved rest
      | None => match rest with
                | x :: r => x :: place (S p) c dests moved r
                | [] => 1 :: place (S p) c dests moved []
                end
      end
  end.
Definition moveaxis_front (sh dests : list nat) : list nat :=
  let k := List.length dests in place 0 (List.length sh) dests (firstn k sh) (skipn k sh).

(* shape of reshaped_diagonal * reshaped_input_leaf for values of shape dsh sent to the destination axes
   `axes` of a leaf of shape lsh; None: ValueError (duplicated axes, shapes that do not broadcast).
     left  = -min(0, min axes)          unit axes the values need BEFORE the first axis of the leaf
     right = max(0, max axes - ndim + 1) unit axes APPENDED to the leaf to reach the destination axes
   the values are padded with unit axes up to left + right + ndim dimensions, their own axes moved to
   axes + left; the leaf becomes lsh + (1,) * right; NumPy broadcasting prepends the left axes *)
Definition diag_leaf_shape (dsh : list nat) (axes : list Z) (lsh : list nat) : option (list nat) :=
  let n := List.length lsh in
  let ax := map (norm_axis n) axes in
  match ax with
  | [] => None
  | _ =>
      if has_dup ax then None else
      let left := (- zmin0 ax)%Z in
      let right := Z.max 0 (zmax_list ax - Z.of_nat n + 1)%Z in
      let m := Z.to_nat (left + right) + n in
      let padded := dsh ++ repeat 1 (m - List.length dsh) in
      let dests := map (fun a => Z.to_nat (a + left)) ax in
      if (List.length dests <=? List.length padded) && forallb (fun d => d <? List.length padded) dests then
        ST.bshape (moveaxis_front padded dests) (lsh ++ repeat 1 (Z.to_nat right))
      else None
  end.

(* the constructor argument axis_destination: an int n >= 0 means (n, ..., n + ndim - 1), an int n < 0
   means (n - ndim + 1, ..., n), a sequence is taken as it is *)
Inductive axspec := AxInt (a : Z) | AxSeq (l : list Z).
Definition spec_axes (s : axspec) (nd : nat) : list Z :=
  match s with
  | AxInt a => if (0 <=? a)%Z then map (fun j => (a + Z.of_nat j)%Z) (seq 0 nd)
               else map (fun j => (a - Z.of_nat nd + 1 + Z.of_nat j)%Z) (seq 0 nd)
  | AxSeq l => l
  end.
(* DiagonalOperator._check_leaf_shapes (strict): the product must have the shape of the DECLARED leaf;
   BroadcastDiagonalOperator: it only has to exist *)
Definition diag_leaf_checked (strict : bool) (dsh : list nat) (axes : list Z) (lsh : list nat) : option (list nat) :=
  match diag_leaf_shape dsh axes lsh with
  | Some r => if strict && negb (list_eqb Nat.eqb r lsh) then None else Some r
  | None => None
  end.
(* the constructors on (shape of the values, axis_destination, shapes of the input leaves):
   None = ValueError, Some (normalised axes, shapes of the leaves mv returns) *)
Definition diag_ctor (strict : bool) (dsh : list nat) (s : axspec) (leaves : list (list nat))
  : option (list Z * list (list nat)) :=
  match dsh with
  | [] => None      (* scalar values: "Use HomothetyOperator instead" *)
  | _ =>
      let axes := spec_axes s (List.length dsh) in
      option_map (fun outs => (axes, outs)) (ST.all_some (map (diag_leaf_checked strict dsh axes) leaves))
  end.

(* values of type (pi_ty p), shape (pi_shape p), destination axes (pi_axes p) times one leaf *)
Definition diag_leaf (x64 : bool) (p : pinfo) (sd : sds) : option sds :=
  match sd_ty sd, diag_leaf_shape (pi_shape p) (pi_axes p) (s_shape sd) with
  | Some u, Some sh => Some (mkSds sh (id_of_dt (ST.tdt (ST.promote2 x64 (pi_ty p) u))))
  | _, _ => None
  end.
(* what DiagonalOperator.__init__ checked on every leaf of its input structure *)
Definition diag_ok (p : pinfo) (s : struct) : bool :=
  forallb (fun sd => match diag_leaf_shape (pi_shape p) (pi_axes p) (s_shape sd) with
                     | Some r => list_eqb Nat.eqb r (s_shape sd)
                     | None => false
                     end) (flatten s).

Section XEval.
  Variable K : Type.
  Variable x64 : bool.
  Variable info : infos.
  Notation op := (op K).

  (* a primitive applied to an input of structure s *)
  Definition prim_eval (i : N) (c : cls) (si so s : struct) : option struct :=
    match c with
    | CQURotation => match ilookup info i with Some p => rot_eval x64 p s | None => None end
    | CHWP => if is_stokes s then Some s else None
    | CLinearPolarizer => pol_eval x64 s
    | CDiagonal | CBroadcastDiagonal =>
        (* jax.tree.map(reshaped values * reshaped leaf): shapes from the values' shape and destination axes *)
        match ilookup info i with Some p => pmapo (diag_leaf x64 p) s | None => None end
    | CToeplitz => match ilookup info i with Some p => toep_eval x64 p s | None => None end
    | _ =>
        (* default out_structure(): the declared structure IS the abstract evaluation at si *)
        if struct_eqb s si then Some so else None
    end.

  Fixpoint xeval (e : op) (s : struct) {struct e} : option struct :=
    match e with
    | Prim i c si so _ => prim_eval i c si so s
    | Homoth i _ _ =>
        match ilookup info i with Some p => pmapo (sd_mul x64 (pi_ty p)) s | None => None end
    | Wrap i w x =>
        match w with
        | WQURotT =>
            match x with
            | Prim j CQURotation _ _ _ => match ilookup info j with Some p => rot_eval x64 p s | None => None end
            | _ => None
            end
        | WDiagInv =>
            (* DiagonalInverseOperator IS a DiagonalOperator (values 1/d, same destination axes) *)
            match ilookup info i with Some p => pmapo (diag_leaf x64 p) s | None => None end
        | WReshapeT => reshape_to s (in_struct x)
        | WTranspose | WObsT =>
            (* jax.linear_transpose: the argument must have the structure the wrapped operator really
               returns; the result has the wrapped operator's input structure *)
            match xeval x (in_struct x) with
            | Some so' => if struct_eqb s so' && lt_ok (in_struct x) so' then Some (in_struct x) else None
            | None => None
            end
        | WInverse =>
            (* lx.linear_solve: same contract *)
            match xeval x (in_struct x) with
            | Some so' => if struct_eqb s so' then Some (in_struct x) else None
            | None => None
            end
        end
    | Ident _ _ => Some s
    | Comp _ l =>
        (fix go (l : list op) (s : struct) : option struct :=
           match l with
           | [] => Some s
           | e :: r => obind (go r s) (xeval e)
           end) l s
    | AddOp _ l =>
        obind ((fix go (l : list op) : option (list struct) :=
                  match l with
                  | [] => Some []
                  | e :: r => match xeval e s, go r with Some y, Some ys => Some (y :: ys) | _, _ => None end
                  end) l) (ssum x64)
    | Block _ b td l =>
        if negb (Nat.eqb (List.length l) (nleaves td)) then None else
        match b with
        | BDiag =>
            obind (split_prefix td s) (fun xs =>
            option_map (fun ys => build s td ys)
              ((fix go (l : list op) (xs : list struct) : option (list struct) :=
                  match l, xs with
                  | [], [] => Some []
                  | e :: r, x :: xr => match xeval e x, go r xr with Some y, Some ys => Some (y :: ys) | _, _ => None end
                  | _, _ => None
                  end) l xs))
        | BCol =>
            option_map (fun ys => build s td ys)
              ((fix go (l : list op) : option (list struct) :=
                  match l with
                  | [] => Some []
                  | e :: r => match xeval e s, go r with Some y, Some ys => Some (y :: ys) | _, _ => None end
                  end) l)
        | BRow =>
            obind (split_prefix td s) (fun xs =>
            obind ((fix go (l : list op) (xs : list struct) : option (list struct) :=
                  match l, xs with
                  | [], [] => Some []
                  | e :: r, x :: xr => match xeval e x, go r xr with Some y, Some ys => Some (y :: ys) | _, _ => None end
                  | _, _ => None
                  end) l xs) (ssum x64))
        end
    end.

  (* ---------- the property's guard ---------- *)
  (* multiplying a leaf by a parameter of type t leaves the leaf's dtype unchanged *)
  Definition absorbs (t : ty) (sd : sds) : bool :=
    match sd_ty sd with Some u => ty_eqb (ST.promote2 x64 t u) u | None => false end.
  Definition shape_absorbs (psh : list nat) (sd : sds) : bool :=
    match ST.bshape (s_shape sd) psh with Some sh => list_eqb Nat.eqb sh (s_shape sd) | None => false end.
  (* the factors are cast to the dtype of inexact data (`rot_ty`): the dtype of the ANGLES then does not matter - only
     integer / boolean data are widened by the (floating-point) factors *)
  Definition rot_ok (p : pinfo) (s : struct) : bool :=
    let t := trig_ty x64 (pi_ty p) in
    let ok (q u : sds) := sds_eqb q u && absorbs (rot_ty x64 t q) q && shape_absorbs (pi_shape p) q && sd_avail x64 q in
    match s with
    | Node (KStokes 1) [Leaf _] => true
    | Node (KStokes 2) [Leaf q; Leaf u] => ok q u
    | Node (KStokes 3) [Leaf _; Leaf q; Leaf u] => ok q u
    | Node (KStokes 4) [Leaf _; Leaf q; Leaf u; Leaf _] => ok q u
    | _ => false
    end.
  Definition toep_ok (p : pinfo) (s : struct) : bool :=
    match s with
    | Leaf sd =>
        match s_shape sd, pi_shape p with
        | _ :: _, _ :: _ =>
            absorbs (pi_ty p) sd &&
            match ST.bshape (removelast (s_shape sd)) (removelast (pi_shape p)) with
            | Some batch => list_eqb Nat.eqb batch (removelast (s_shape sd))
            | None => false
            end
        | _, _ => false
        end
    | _ => false
    end.
  Definition scal_ok (i : N) (s : struct) : bool :=
    match ilookup info i with Some p => forallb (absorbs (pi_ty p)) (flatten s) | None => false end.

  (* `params_not_wider`: the array parameters of the operators of the @square family (scalar value,
     diagonal values, Toeplitz band values, rotation angles) broadcast INTO the input leaves - in
     shape and in dtype (rotation angles on inexact data: in shape only, mv casts the factors to the dtype of the
     data) - so that mv cannot return something wider than the declared structure.
     For the other leaf classes out_structure() is the abstract evaluation itself; the Prim term then
     only has to carry it (`so` = what the class rule computes, where the model has a class rule). *)
  Fixpoint params_not_wider (e : op) : bool :=
    match e with
    | Prim i c si so _ =>
        match c with
        | CQURotation => match ilookup info i with Some p => rot_ok p si | None => false end
        | CHWP => is_stokes si
        (* 0.5 * x on integer data is WEAKLY typed (a later factor then decides the dtype): outside the property *)
        | CLinearPolarizer =>
            forallb sd_inexact (flatten si) &&
            match pol_eval x64 si with Some s' => struct_eqb s' so | None => false end
        | CDiagonal => scal_ok i si
        | CToeplitz => match ilookup info i with Some p => toep_ok p si | None => false end
        (* their declaration is the traced evaluation (ctor_checked for the broadcast diagonal); wider blocks /
           values are outside the property all the same (the structures of their transposes depend on it) *)
        | CDense | CBroadcastDiagonal => scal_ok i si
        | _ => true
        end
    | Homoth i _ s => scal_ok i s
    | Wrap i w x =>
        params_not_wider x &&
        match w with
        | WQURotT => match x with Prim _ CQURotation _ _ _ => true | _ => false end
        | WDiagInv => scal_ok i (in_struct x)
        | WReshapeT => match reshape_to (out_struct x) (in_struct x) with
                       | Some s' => struct_eqb s' (in_struct x) | None => false end
        | WTranspose | WObsT => lt_ok (in_struct x) (out_struct x)
        | WInverse => true
        end
    | Ident _ _ => true
    | Comp _ l | AddOp _ l | Block _ _ _ l => forallb params_not_wider l
    end.

  (* ---------- what the constructors checked ---------- *)
  (* `ctor_checked`: the object exists, so its constructor accepted it.  DiagonalOperator (and the
     DiagonalInverseOperator built from it): on every leaf of the input structure the product of the
     reshaped values and the reshaped leaf has the shape of the DECLARED leaf (`diag_ok`);
     BroadcastDiagonalOperator: the default out_structure() traced this very mv (the Prim term carries it). *)
  Fixpoint ctor_checked (e : op) : bool :=
    match e with
    | Prim i c si so _ =>
        match c with
        | CDiagonal => match ilookup info i with Some p => diag_ok p si | None => false end
        | CBroadcastDiagonal =>
            match ilookup info i with
            | Some p => match pmapo (diag_leaf x64 p) si with Some s' => struct_eqb s' so | None => false end
            | None => false
            end
        | _ => true
        end
    | Wrap i w x =>
        ctor_checked x &&
        match w with
        | WDiagInv => match ilookup info i with Some p => diag_ok p (in_struct x) | None => false end
        | _ => true
        end
    | Ident _ _ | Homoth _ _ _ => true
    | Comp _ l | AddOp _ l | Block _ _ _ l => forallb ctor_checked l
    end.
End XEval.

(* observations for the correspondence harness *)
Definition c05_obs (K : Type) (x64 : bool) (info : infos) (e : op K) :=
  (wfo e, params_not_wider x64 info e, dtypes_available x64 e, ctor_checked x64 info e,
   (in_size e, out_size e),
   (option_map (fun t => id_of_dt (ST.tdt t)) (promoted x64 (in_struct e)),
    option_map (fun t => id_of_dt (ST.tdt t)) (promoted x64 (out_struct e)))).
