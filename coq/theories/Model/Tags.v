(* C08 - model of the algebraic tags of furax (definitions only; proofs in Lemmas/TagsL.v).

   What the library DECLARES about a class is not written here: it is regenerated on every run by
   tools/translate/tags.py from the imported package into FuraxGen.TagTable (per class: the value of
   the seven lineax tag predicates on the class's registered dispatch, whether `transpose` is the
   `lambda self: self` of the `symmetric` decorator, whether `inverse is transpose`, whether
   `out_structure is in_structure`).

   What is written here is what each tagged class IS: its parameters, the guard under which the
   parameters describe an operator at all (`cm_legal`: what the constructor checks, or - for the two
   classes whose constructor does not check it - that the parameter arrays broadcast INTO the input
   instead of widening it, the same guard `params_not_wider` as property C05), its action `mv` on
   flat vectors (mirroring the `mv` method of the class, leaves concatenated in pytree order, each
   leaf row-major), its dense matrix (`matrix_of`: column j is mv(e_j), the definition of
   AbstractLinearOperator.as_matrix), its declared input structure and the structure of what `mv`
   really returns.  `sem q c` is then the meaning of "tag q is true of class c": for ALL legal
   parameters the dense matrix has the property.  A class without a model has `sem q c = False`,
   so a `true` in the regenerated table for it cannot be proved (fail closed).

   Scalars: any type K with ring operations (the lemmas assume a commutative ring; the order `kle`
   is only used by the definitions of positive/negative semidefinite; `kinv` is the pointwise
   pseudo-inverse `where(d != 0, 1/d, 0)` of DiagonalInverseOperator, about which nothing needs to
   be known).  The correspondence harness evaluates the model at K := Q. *)
From Coq Require Import ZArith QArith List Bool String.
From Furax Require Import Model.Op Model.Toeplitz.
Import ListNotations.
Open Scope Z_scope.

(* ------------------------------------------------------------------------------------------ *)
(* the tag queries: seven lineax predicates + three decorator effects (order = table columns) *)
Inductive tagq :=
| QDiagonal | QLower | QUpper | QTridiagonal | QSymmetric | QPsd | QNsd   (* lineax predicates *)
| QSelfT      (* `transpose` is `lambda self: self`           (decorator symmetric)  *)
| QInvIsT     (* `cls.inverse is cls.transpose`               (decorator orthogonal, or by hand) *)
| QSquare.    (* `cls.out_structure is cls.in_structure`      (decorator square)     *)

Definition tagqs : list tagq :=
  [QDiagonal; QLower; QUpper; QTridiagonal; QSymmetric; QPsd; QNsd; QSelfT; QInvIsT; QSquare].
Definition tagq_name (q : tagq) : string :=
  match q with
  | QDiagonal => "is_diagonal" | QLower => "is_lower_triangular" | QUpper => "is_upper_triangular"
  | QTridiagonal => "is_tridiagonal" | QSymmetric => "is_symmetric"
  | QPsd => "is_positive_semidefinite" | QNsd => "is_negative_semidefinite"
  | QSelfT => "transpose_returns_self" | QInvIsT => "inverse_is_transpose"
  | QSquare => "out_structure_is_in_structure"
  end%string.
Definition tagq_idx (q : tagq) : nat :=
  match q with
  | QDiagonal => 0 | QLower => 1 | QUpper => 2 | QTridiagonal => 3 | QSymmetric => 4 | QPsd => 5
  | QNsd => 6 | QSelfT => 7 | QInvIsT => 8 | QSquare => 9
  end%nat.
(* value of query q in a table row; a row that is too short reads as `true` (fail closed) *)
Definition row_get (row : list bool) (q : tagq) : bool := nth (tagq_idx q) row true.

(* ------------------------------------------------------------------------------------------ *)
(* structures: the shapes of the leaves in pytree order (dtypes play no role for C08) *)
Definition shape := list Z.
Definition struct := list shape.
Definition ssize (st : struct) : Z := fold_right (fun sh acc => zprod sh + acc) 0 st.
Fixpoint shape_eqb (a b : shape) : bool :=
  match a, b with
  | [], [] => true
  | x :: a', y :: b' => (x =? y) && shape_eqb a' b'
  | _, _ => false
  end.
(* the parameter array of shape sp broadcasts INTO the input of shape sx (does not widen it) *)
Definition not_wider (sx sp : shape) : bool :=
  match broadcast_shapes sx sp with Some r => shape_eqb r sx | None => false end.
(* all-or-nothing sequence of optional leaf shapes *)
Fixpoint oseq {A} (l : list (option A)) : option (list A) :=
  match l with
  | [] => Some []
  | None :: _ => None
  | Some a :: t => match oseq t with Some r => Some (a :: r) | None => None end
  end.

(* Stokes containers: leaves in the order of the dataclass fields *)
Inductive stokes := SI | SQU | SIQU | SIQUV.
Definition nleaves (s : stokes) : Z := match s with SI => 1 | SQU => 2 | SIQU => 3 | SIQUV => 4 end.
(* index of the q leaf (the u leaf follows it); meaningless for SI *)
Definition qleaf (s : stokes) : Z := match s with SQU => 0 | _ => 1 end.

(* outcome of a constructor: accepted, or the kind of the exception *)
Inductive ctor_res := CtorOk | CtorValueError.

(* AbstractLinearOperator.__rmul__ / __truediv__ (hence __mul__, __neg__, __sub__): the factor, after
   jnp.asarray, must be 0-d:   if other.shape != (): raise ValueError(...)   and the operator built is
   HomothetyOperator(<value>, self.out_structure()) @ self with <value> = other, resp. 1 / other *)
Definition scale_ctor (factor_shape : shape) : ctor_res :=
  match factor_shape with [] => CtorOk | _ => CtorValueError end.
(* the same read from the source (tools/translate/tags.py, ast): per method the guard of the raise,
   the exception, the value and the structure given to HomothetyOperator *)
Definition scale_path := (string * (string * (string * (string * string))))%type.
Definition scale_paths_modelled : list scale_path :=
  [("__rmul__", ("other.shape != ()", ("ValueError", ("other", "self.out_structure()"))));
   ("__truediv__", ("other.shape != ()", ("ValueError", ("1 / other", "self.out_structure()"))))]%string.

Section Sem.
  Variable K : Type.
  Variables (k0 k1 : K) (kadd kmul ksub : K -> K -> K) (kopp : K -> K).
  Variable kinv : K -> K.
  Variable kle : K -> K -> Prop.

  Notation sumZ := (Toeplitz.sumZ K k0 kadd).
  Notation arr := (Toeplitz.arr K).

  (* dense matrices and flat vectors: sizes + total read functions *)
  Record mat := mkMat { mrows : Z; mcols : Z; ment : Z -> Z -> K }.
  Definition vec := Z -> K.
  Definition basis (j : Z) : vec := fun q => if q =? j then k1 else k0.
  Definition delta (i j : Z) : K := if i =? j then k1 else k0.
  (* AbstractLinearOperator.as_matrix: column j is mv(e_j) *)
  Definition matrix_of (mv : vec -> vec) (nout nin : Z) : mat :=
    mkMat nout nin (fun i j => mv (basis j) i).
  Definition mtranspose (M : mat) : mat := mkMat (mcols M) (mrows M) (fun i j => ment M j i).
  Definition inr (n i : Z) : Prop := 0 <= i < n.

  (* ---------------------------------------------------------------------------------------- *)
  (* the matrix properties the tags stand for *)
  Definition m_square (M : mat) : Prop := mrows M = mcols M.
  Definition m_symmetric (M : mat) : Prop :=
    m_square M /\ forall i j, inr (mrows M) i -> inr (mrows M) j -> ment M i j = ment M j i.
  Definition m_diagonal (M : mat) : Prop :=
    m_square M /\ forall i j, inr (mrows M) i -> inr (mrows M) j -> i <> j -> ment M i j = k0.
  Definition m_lower (M : mat) : Prop :=
    m_square M /\ forall i j, inr (mrows M) i -> inr (mrows M) j -> i < j -> ment M i j = k0.
  Definition m_upper (M : mat) : Prop :=
    m_square M /\ forall i j, inr (mrows M) i -> inr (mrows M) j -> j < i -> ment M i j = k0.
  Definition m_tridiagonal (M : mat) : Prop :=
    m_square M /\ forall i j, inr (mrows M) i -> inr (mrows M) j -> 1 < Z.abs (i - j) -> ment M i j = k0.
  (* M^T M = I and M M^T = I *)
  Definition m_orthogonal (M : mat) : Prop :=
    m_square M /\
    forall i j, inr (mrows M) i -> inr (mrows M) j ->
      sumZ (fun k => kmul (ment M k i) (ment M k j)) 0 (Z.to_nat (mrows M)) = delta i j /\
      sumZ (fun k => kmul (ment M i k) (ment M j k)) 0 (Z.to_nat (mrows M)) = delta i j.
  (* x^T M x *)
  Definition quad (M : mat) (x : vec) : K :=
    sumZ (fun i => sumZ (fun j => kmul (kmul (x i) (ment M i j)) (x j)) 0 (Z.to_nat (mcols M)))
         0 (Z.to_nat (mrows M)).
  Definition m_psd (M : mat) : Prop := m_symmetric M /\ forall x, kle k0 (quad M x).
  Definition m_nsd (M : mat) : Prop := m_symmetric M /\ forall x, kle (quad M x) k0.

  Definition holds (q : tagq) (M : mat) : Prop :=
    match q with
    | QDiagonal => m_diagonal M
    | QLower => m_lower M
    | QUpper => m_upper M
    | QTridiagonal => m_tridiagonal M
    | QSymmetric => m_symmetric M
    | QPsd => m_psd M
    | QNsd => m_nsd M
    | QSelfT => m_symmetric M      (* A.T is A   is only right for a symmetric matrix   *)
    | QInvIsT => m_orthogonal M    (* A.I is A.T is only right for an orthogonal matrix *)
    | QSquare => m_square M        (* the structural part is in `sem` below *)
    end.

  (* ---------------------------------------------------------------------------------------- *)
  (* the action of each tagged class on flat vectors, mirroring its `mv` *)

  (* IdentityOperator.mv: return x *)
  Definition id_mv (x : vec) : vec := x.
  (* HomothetyOperator.mv: tree.map(lambda leaf: value * leaf, x) *)
  Definition homothety_mv (k : K) (x : vec) : vec := fun p => kmul k (x p).
  (* DiagonalOperator.mv: reshaped_diagonal * leaf on every leaf; d = the values of the diagonal
     broadcast to each leaf and concatenated (how they are laid out along the axes is C11) *)
  Definition diag_mv (d : vec) (x : vec) : vec := fun p => kmul (d p) (x p).
  (* DiagonalInverseOperator: the same with diagonal = where(d != 0, 1 / d, 0) *)
  Definition diaginv_mv (d : vec) (x : vec) : vec := fun p => kmul (kinv (d p)) (x p).

  (* HWPOperator.mv on a Stokes pytree of N pixels per leaf:
       I -> x;  QU -> (q, -u);  IQU -> (i, q, -u);  IQUV -> (i, q, -u, -v) *)
  Definition hwp_mv (s : stokes) (N : Z) (x : vec) : vec := fun p =>
    let l := p / N in
    match s with
    | SI => x p
    | SQU => if l =? 0 then x p else kopp (x p)
    | SIQU => if l <? 2 then x p else kopp (x p)
    | SIQUV => if l <? 2 then x p else kopp (x p)
    end.

  (* QURotationOperator.mv; c t = cos(2 angles)[t], sn t = sin(2 angles)[t] for pixel t (angles
     broadcast to the pixel shape):   q' = q c - u s;  u' = q s + u c;  i, v returned unchanged *)
  Definition qurot_mv (s : stokes) (N : Z) (c sn : vec) (x : vec) : vec := fun p =>
    let l := p / N in
    let t := p mod N in
    let xq := x (qleaf s * N + t) in
    let xu := x ((qleaf s + 1) * N + t) in
    match s with
    | SI => x p
    | _ => if l =? qleaf s then ksub (kmul xq (c t)) (kmul xu (sn t))
           else if l =? qleaf s + 1 then kadd (kmul xq (sn t)) (kmul xu (c t))
           else x p
    end.
  (* QURotationTransposeOperator.mv:   q' = q c + u s;  u' = -q s + u c *)
  Definition qurotT_mv (s : stokes) (N : Z) (c sn : vec) (x : vec) : vec := fun p =>
    let l := p / N in
    let t := p mod N in
    let xq := x (qleaf s * N + t) in
    let xu := x ((qleaf s + 1) * N + t) in
    match s with
    | SI => x p
    | _ => if l =? qleaf s then kadd (kmul xq (c t)) (kmul xu (sn t))
           else if l =? qleaf s + 1 then kadd (kmul (kopp xq) (sn t)) (kmul xu (c t))
           else x p
    end.

  (* MoveAxisOperator.mv: jnp.moveaxis is a relabelling: output position p reads input position
     tau p (which relabelling it is, and that it is one, is property C13) *)
  Definition gather_mv (tau : Z -> Z) (x : vec) : vec := fun p => x (tau p).

  (* SymmetricBandToeplitzOperator.as_matrix (Model/Toeplitz.v, property C09): block diagonal over
     the rows of the batch, block r = the symmetric band Toeplitz matrix of the band row used for
     input row r; n = length of the last axis *)
  Definition mat_toeplitz (n : Z) (bands : list arr) : mat :=
    let size := Z.of_nat (List.length bands) * n in
    mkMat size size (Toeplitz.as_matrix_entry K k0 n (map (Toeplitz.Tm K k0) bands)).

  (* ---------------------------------------------------------------------------------------- *)
  (* per class: parameters, guard, dense matrix, declared input structure, structure of mv's result *)
  Record class_model := mkCM {
    cm_P : Type;
    cm_legal : cm_P -> Prop;
    cm_mat : cm_P -> mat;
    cm_in : cm_P -> struct;            (* in_structure() as declared *)
    cm_out : cm_P -> option struct }.  (* structure of mv(x) for x of structure cm_in; None: mv raises
                                          or the structure is not modelled here *)

  (* IdentityOperator(in_structure) *)
  Definition cm_identity : class_model :=
    mkCM struct (fun _ => True) (fun st => matrix_of id_mv (ssize st) (ssize st))
         (fun st => st) (fun st => Some st).
  (* HomothetyOperator(value, in_structure): `value: Scalar`, but the constructor (the dataclass one)
     checks nothing; mv = tree.map(lambda leaf: value * leaf), so a leaf of shape s comes back with
     shape broadcast_shapes(value.shape, s).  The guard of the class is that the value is 0-d
     (hm_vshape = []): this is what the public construction paths `s * A`, `A * s`, `A / s`
     (AbstractLinearOperator.__rmul__ / __truediv__: `if other.shape != (): raise ValueError`,
     scale_ctor below, tied to the source by FuraxGen.TagTable.gen_scale_paths) enforce, and what
     `-A`, HomothetyOperator.inverse/__matmul__ and HomothetyRule preserve (products / quotients of
     0-d values). *)
  Record hm_params := mkHm { hm_value : K; hm_vshape : shape; hm_struct : struct }.
  Definition hm_out (p : hm_params) : option struct :=
    oseq (map (fun leaf => broadcast_shapes (hm_vshape p) leaf) (hm_struct p)).
  Definition cm_homothety : class_model :=
    mkCM hm_params (fun p => hm_vshape p = [])
         (fun p => matrix_of (homothety_mv (hm_value p)) (ssize (hm_struct p)) (ssize (hm_struct p)))
         hm_struct hm_out.

  (* DiagonalOperator(diagonal, axis_destination, in_structure): per leaf the shape of the reshaped
     diagonal, of the reshaped input leaf and of the input leaf itself; dg_vals = broadcast values.
     _check_leaf_shapes (run by the constructor through eval_shape) raises ValueError unless
     broadcast_shapes(diagonal, leaf) == input shape. *)
  Record diag_params := mkDg { dg_vals : vec; dg_leaves : list (shape * shape * shape) }.
  Definition dg_in (p : diag_params) : struct := map (fun l => snd l) (dg_leaves p).
  Definition dg_leaf_out (l : shape * shape * shape) : option shape :=
    broadcast_shapes (fst (fst l)) (snd (fst l)).
  Definition dg_leaf_ok (l : shape * shape * shape) : bool :=
    match dg_leaf_out l with Some r => shape_eqb r (snd l) | None => false end.
  Definition diag_ctor (p : diag_params) : ctor_res :=
    if forallb dg_leaf_ok (dg_leaves p) then CtorOk else CtorValueError.
  Definition dg_out (p : diag_params) : option struct := oseq (map dg_leaf_out (dg_leaves p)).
  Definition cm_diagonal : class_model :=
    mkCM diag_params (fun p => diag_ctor p = CtorOk)
         (fun p => matrix_of (diag_mv (dg_vals p)) (ssize (dg_in p)) (ssize (dg_in p))) dg_in dg_out.
  Definition cm_diagonal_inverse : class_model :=
    mkCM diag_params (fun p => diag_ctor p = CtorOk)
         (fun p => matrix_of (diaginv_mv (dg_vals p)) (ssize (dg_in p)) (ssize (dg_in p))) dg_in dg_out.

  (* HWPOperator(in_structure = Stokes kind of leaves of shape sh) *)
  Definition stokes_struct (s : stokes) (sh : shape) : struct := repeat sh (Z.to_nat (nleaves s)).
  Definition cm_hwp : class_model :=
    mkCM (stokes * shape) (fun _ => True)
         (fun p => let n := nleaves (fst p) * zprod (snd p) in matrix_of (hwp_mv (fst p) (zprod (snd p))) n n)
         (fun p => stokes_struct (fst p) (snd p)) (fun p => Some (stokes_struct (fst p) (snd p))).

  (* SymmetricBandToeplitzOperator(band_values, in_structure): input of shape tp_xbatch ++ [tp_n],
     band values of shape tp_bbatch ++ [K]; tp_bands = the band row used for each input row.
     jnp.vectorize broadcasts the two batch shapes: the result has shape broadcast ++ [n]. *)
  Record toep_params := mkTp { tp_xbatch : shape; tp_n : Z; tp_bbatch : shape; tp_bands : list arr }.
  Definition cm_toeplitz : class_model :=
    mkCM toep_params (fun p => not_wider (tp_xbatch p) (tp_bbatch p) = true)
         (fun p => mat_toeplitz (tp_n p) (tp_bands p))
         (fun p => [tp_xbatch p ++ [tp_n p]])
         (fun p => match broadcast_shapes (tp_xbatch p) (tp_bbatch p) with
                   | Some o => Some [o ++ [tp_n p]] | None => None end).

  (* QURotationOperator(angles, in_structure = Stokes kind of leaves of shape qr_shape); angles of
     shape qr_ashape; qr_c, qr_s = cos(2 angles), sin(2 angles) per pixel after broadcasting *)
  Record qurot_params := mkQr { qr_kind : stokes; qr_shape : shape; qr_ashape : shape; qr_c : vec; qr_s : vec }.
  Definition qr_N (p : qurot_params) : Z := zprod (qr_shape p).
  Definition qr_legal (p : qurot_params) : Prop :=
    not_wider (qr_shape p) (qr_ashape p) = true /\
    forall t, inr (qr_N p) t -> kadd (kmul (qr_c p t) (qr_c p t)) (kmul (qr_s p t) (qr_s p t)) = k1.
  (* the q and u leaves are products with the angle array (broadcast); i and v are returned as they are *)
  Definition qr_out (p : qurot_params) : option struct :=
    match qr_kind p with
    | SI => Some [qr_shape p]
    | k => oseq (map (fun l => if (l =? qleaf k) || (l =? qleaf k + 1)
                               then broadcast_shapes (qr_shape p) (qr_ashape p) else Some (qr_shape p))
                     (zrange 0 (Z.to_nat (nleaves k))))
    end.
  Definition cm_qurot : class_model :=
    mkCM qurot_params qr_legal
         (fun p => let n := nleaves (qr_kind p) * qr_N p in
                   matrix_of (qurot_mv (qr_kind p) (qr_N p) (qr_c p) (qr_s p)) n n)
         (fun p => stokes_struct (qr_kind p) (qr_shape p)) qr_out.
  Definition cm_qurotT : class_model :=
    mkCM qurot_params qr_legal
         (fun p => let n := nleaves (qr_kind p) * qr_N p in
                   matrix_of (qurotT_mv (qr_kind p) (qr_N p) (qr_c p) (qr_s p)) n n)
         (fun p => stokes_struct (qr_kind p) (qr_shape p)) qr_out.

  (* AbstractLazyInverseOrthogonalOperator(operator): mv = jax.linear_transpose(operator.mv), i.e.
     the transposed matrix (trusted, as everywhere); the class is meant for orthogonal, hence square,
     operands and nothing checks it: that is its guard.  Declared in_structure = operator.out_structure(). *)
  Record lio_params := mkLio { lio_mat : mat; lio_op_in : struct; lio_op_out : struct }.
  Definition cm_lazy_inv_orth : class_model :=
    mkCM lio_params (fun p => m_orthogonal (lio_mat p) /\ lio_op_in p = lio_op_out p)
         (fun p => mtranspose (lio_mat p)) (fun p => lio_op_out p) (fun p => Some (lio_op_in p)).

  (* MoveAxisOperator: `inverse = transpose` written by hand in the class body (not square: the
     structures differ, so the output structure is not modelled here - C13) *)
  Record perm_params := mkPm { pm_n : Z; pm_tau : Z -> Z; pm_sigma : Z -> Z }.
  Definition pm_legal (p : perm_params) : Prop :=
    (forall i, inr (pm_n p) i -> inr (pm_n p) (pm_tau p i) /\ pm_sigma p (pm_tau p i) = i) /\
    (forall i, inr (pm_n p) i -> inr (pm_n p) (pm_sigma p i) /\ pm_tau p (pm_sigma p i) = i).
  Definition cm_moveaxis : class_model :=
    mkCM perm_params pm_legal (fun p => matrix_of (gather_mv (pm_tau p)) (pm_n p) (pm_n p))
         (fun p => [[pm_n p]]) (fun _ => None).

  (* ToastObservationMatrixOperator(path): the stored CSR matrix (any content) of shape (r, c);
     the constructor raises ValueError unless r = c; in_structure() is (shape[0],) = (r,) while
     `matrix @ x` needs an x of length c and returns r values *)
  Definition obs_ctor (M : mat) : ctor_res := if mrows M =? mcols M then CtorOk else CtorValueError.
  Definition cm_obs_matrix : class_model :=
    mkCM mat (fun M => obs_ctor M = CtorOk) (fun M => M) (fun M => [[mrows M]])
         (fun M => if mcols M =? mrows M then Some [[mrows M]] else None).

  Definition model_of (c : cls) : option class_model :=
    match c with
    | CIdentity => Some cm_identity
    | CHomothety => Some cm_homothety
    | CDiagonal => Some cm_diagonal
    | CDiagonalInverse => Some cm_diagonal_inverse
    | CHWP => Some cm_hwp
    | CToeplitz => Some cm_toeplitz
    | CQURotation => Some cm_qurot
    | CQURotationTranspose => Some cm_qurotT
    | CAbstractLazyInverseOrthogonal => Some cm_lazy_inv_orth
    | CMoveAxis => Some cm_moveaxis
    | CObsMatrix => Some cm_obs_matrix
    | _ => None
    end.

  (* "query q is true of class c": for all legal parameters.  For QSquare: the matrix is square AND
     what mv returns has the declared input structure. *)
  Definition sem_cm (q : tagq) (m : class_model) : Prop :=
    forall p : cm_P m, cm_legal m p ->
      holds q (cm_mat m p) /\ (q = QSquare -> cm_out m p = Some (cm_in m p)).
  Definition sem (q : tagq) (c : cls) : Prop :=
    match model_of c with Some m => sem_cm q m | None => False end.

  (* ---------------------------------------------------------------------------------------- *)
  (* the finite decision: which (class, query) pairs have a proof in Lemmas/TagsL.v *)
  Definition diag_family (c : cls) : bool :=
    match c with CIdentity | CHomothety | CDiagonal | CDiagonalInverse | CHWP => true | _ => false end.
  Definition proved (c : cls) (q : tagq) : bool :=
    match q with
    | QDiagonal | QLower | QUpper | QTridiagonal => diag_family c
    | QSymmetric | QSelfT => diag_family c || match c with CToeplitz => true | _ => false end
    | QPsd | QNsd => false
    | QInvIsT =>
        match c with
        | CIdentity | CHWP | CQURotation | CQURotationTranspose | CAbstractLazyInverseOrthogonal
        | CMoveAxis => true
        | _ => false
        end
    | QSquare =>
        diag_family c ||
        match c with
        | CToeplitz | CQURotation | CQURotationTranspose | CAbstractLazyInverseOrthogonal | CObsMatrix => true
        | _ => false
        end
    end.
  (* every `true` of a regenerated table has a proof, rows are complete, no class is listed twice
     with different rows being irrelevant: every listed row is checked *)
  Definition row_ok (r : cls * list bool) : bool :=
    (List.length (snd r) =? List.length tagqs)%nat &&
    forallb (fun q => implb (row_get (snd r) q) (proved (fst r) q)) tagqs.
  Definition table_ok (t : list (cls * list bool)) : bool := forallb row_ok t.
  (* what the decorators promise on top: a class declared symmetric returns itself as transpose *)
  Definition symmetric_rows_return_self (t : list (cls * list bool)) : bool :=
    forallb (fun r => implb (row_get (snd r) QSymmetric) (row_get (snd r) QSelfT)) t.

  (* ---------------------------------------------------------------------------------------- *)
  (* executable observations for the correspondence *)
  Definition eval_mat (M : mat) : list (list K) :=
    map (fun i => map (fun j => ment M i j) (zrange 0 (Z.to_nat (mcols M)))) (zrange 0 (Z.to_nat (mrows M))).
  Definition vec_of (l : list K) : vec := fun p => if p <? 0 then k0 else nth (Z.to_nat p) l k0.
  Definition arr_of (l : list K) : arr := Toeplitz.mkArr (Z.of_nat (List.length l)) (vec_of l).
  Definition mat_of (rows : list (list K)) (r c : Z) : mat := mkMat r c (fun i j => vec_of (nth (Z.to_nat i) rows []) j).
  Definition obs (m : class_model) (p : cm_P m) : list (list K) * struct * option struct :=
    (eval_mat (cm_mat m p), cm_in m p, cm_out m p).
End Sem.

Arguments mkMat {K}.
Arguments mrows {K}.
Arguments mcols {K}.
Arguments ment {K}.

(* ------------------------------------------------------------------------------------------ *)

(* ------------------------------------------------------------------------------------------ *)
(* the decorators of furax/_base/core.py as data (FuraxGen.TagTable.gen_decorators, read from the
   source with ast): per decorator the lineax tags it registers `lambda _: True` for, the decorators
   it calls, and the class attributes it assigns.  `deco_closure` = every query a decorator makes
   true of the class it is applied to; `deco_primary` = the property the decorator's name declares;
   `implies_ok p q` = "a matrix with property p has property q" (proved in TagsL.implies_sound). *)
Definition deco_entry := (string * (list string * (list string * list (string * string))))%type.
Definition tagq_of_name (s : string) : option tagq := find (fun q => String.eqb (tagq_name q) s) tagqs.
Definition effect_of_set (av : string * string) : option tagq :=
  let '(a, v) := av in
  if String.eqb a "transpose" && String.eqb v "lambda self: self" then Some QSelfT
  else if String.eqb a "inverse" && String.eqb v "cls.transpose" then Some QInvIsT
  else if String.eqb a "out_structure" && String.eqb v "cls.in_structure" then Some QSquare
  else None.
Definition deco_primary (name : string) : option tagq :=
  if String.eqb name "diagonal" then Some QDiagonal
  else if String.eqb name "lower_triangular" then Some QLower
  else if String.eqb name "upper_triangular" then Some QUpper
  else if String.eqb name "symmetric" then Some QSymmetric
  else if String.eqb name "positive_semidefinite" then Some QPsd
  else if String.eqb name "negative_semidefinite" then Some QNsd
  else if String.eqb name "square" then Some QSquare
  else if String.eqb name "orthogonal" then Some QInvIsT
  else None.
Definition oapp {A} (a b : option (list A)) : option (list A) :=
  match a, b with Some x, Some y => Some (x ++ y) | _, _ => None end.
Fixpoint deco_closure (fuel : nat) (ds : list deco_entry) (name : string) : option (list tagq) :=
  match fuel with
  | O => None
  | S f =>
      match find (fun e : deco_entry => String.eqb (fst e) name) ds with
      | None => None
      | Some (_, (tags, (calls, sets))) =>
          oapp (oseq (map tagq_of_name tags))
               (oapp (oseq (map effect_of_set sets))
                     (match oseq (map (deco_closure f ds) calls) with
                      | Some ls => Some (List.concat ls) | None => None end))
      end
  end.
Definition tagq_eqb (a b : tagq) : bool := (tagq_idx a =? tagq_idx b)%nat.
Definition implies_ok (p q : tagq) : bool :=
  tagq_eqb p q ||
  match p, q with
  | _, QSquare => true
  | QDiagonal, (QLower | QUpper | QTridiagonal | QSymmetric | QSelfT) => true
  | (QSymmetric | QPsd | QNsd), (QSymmetric | QSelfT) => true
  | QSelfT, QSymmetric => true
  | _, _ => false
  end.
Definition decorators_ok (ds : list deco_entry) : bool :=
  forallb (fun e : deco_entry =>
             match deco_primary (fst e), deco_closure 6 ds (fst e) with
             | Some p, Some qs => forallb (implies_ok p) qs
             | _, _ => false
             end) ds.
(* the tags given a `lambda _: False` default at class creation are exactly the seven predicates *)
Definition default_tags_ok (l : list string) : bool :=
  list_eqb String.eqb l (map tagq_name [QDiagonal; QLower; QUpper; QTridiagonal; QSymmetric; QPsd; QNsd]).

(* ------------------------------------------------------------------------------------------ *)
(* the instance the harness evaluates: K := Q (results reduced with Qred); parameters as lists *)
Module TagsQ.
  Definition outQ (r : list (list Q) * struct * option struct) :=
    let '(m, i, o) := r in (map (map Qred) m, i, o).
  Definition vq (l : list Q) : vec Q := vec_of Q 0%Q l.
  Definition o_identity (st : struct) := outQ (obs Q (cm_identity Q 0%Q 1%Q) st).
  Definition o_homothety (k : Q) (vshape : shape) (st : struct) :=
    outQ (obs Q (cm_homothety Q 0%Q 1%Q Qmult) (mkHm Q k vshape st)).
  (* the HomothetyOperator built by s * A / A * s (SMul), A / s (SDiv), -A (SNeg) on A.out_structure() = st,
     for a factor of shape fshape; None: the factor is rejected (ValueError) *)
  Inductive spath := SMul | SDiv | SNeg.
  Definition scale_value (p : spath) (s : Q) : Q :=
    match p with SMul => s | SDiv => Qinv s | SNeg => (-1 # 1)%Q end.
  Definition o_scale (p : spath) (s : Q) (fshape : shape) (st : struct) :=
    match scale_ctor (match p with SNeg => [] | _ => fshape end) with
    | CtorOk => Some (o_homothety (scale_value p s) (match p with SNeg => [] | _ => fshape end) st)
    | CtorValueError => None
    end.
  (* HomothetyOperator.__matmul__(HomothetyOperator) / HomothetyRule: the product of the values;
     HomothetyOperator.inverse: 1 / value *)
  Definition o_homothety_merged (s t : Q) (st : struct) := o_homothety (Qmult s t) [] st.
  Definition o_homothety_inverse (s : Q) (st : struct) := o_homothety (Qinv s) [] st.
  Definition p_diag (vals : list Q) (leaves : list (shape * shape * shape)) := mkDg Q (vq vals) leaves.
  Definition o_diag_ctor vals leaves := diag_ctor Q (p_diag vals leaves).
  Definition o_diagonal vals leaves := outQ (obs Q (cm_diagonal Q 0%Q 1%Q Qmult) (p_diag vals leaves)).
  Definition o_diagonal_inverse vals leaves :=
    outQ (obs Q (cm_diagonal_inverse Q 0%Q 1%Q Qmult Qinv) (p_diag vals leaves)).
  Definition o_hwp (s : stokes) (sh : shape) := outQ (obs Q (cm_hwp Q 0%Q 1%Q Qopp) (s, sh)).
  Definition o_toeplitz (xb : shape) (n : Z) (bb : shape) (bands : list (list Q)) :=
    outQ (obs Q (cm_toeplitz Q 0%Q) (mkTp Q xb n bb (map (arr_of Q 0%Q) bands))).
  Definition o_qurot (s : stokes) (sh ash : shape) (c sn : list Q) :=
    outQ (obs Q (cm_qurot Q 0%Q 1%Q Qplus Qmult Qminus) (mkQr Q s sh ash (vq c) (vq sn))).
  Definition o_qurotT (s : stokes) (sh ash : shape) (c sn : list Q) :=
    outQ (obs Q (cm_qurotT Q 0%Q 1%Q Qplus Qmult Qopp) (mkQr Q s sh ash (vq c) (vq sn))).
  Definition o_lazy_inv_orth (rows : list (list Q)) (n : Z) (sin sout : struct) :=
    outQ (obs Q (cm_lazy_inv_orth Q 0%Q 1%Q Qplus Qmult) (mkLio Q (mat_of Q 0%Q rows n n) sin sout)).
  Definition zvec (l : list Z) : Z -> Z := fun p => if p <? 0 then 0 else nth (Z.to_nat p) l 0.
  Definition o_moveaxis (tau sigma : list Z) :=
    outQ (obs Q (cm_moveaxis Q 0%Q 1%Q) (mkPm (Z.of_nat (List.length tau)) (zvec tau) (zvec sigma))).
  Definition o_obs_ctor (r c : Z) := obs_ctor Q (mkMat r c (fun _ _ => 0%Q)).
  Definition o_obs_matrix (rows : list (list Q)) (r c : Z) := outQ (obs Q (cm_obs_matrix Q) (mat_of Q 0%Q rows r c)).
End TagsQ.
