(* Model of furax/operators/toeplitz.py (SymmetricBandToeplitzOperator and
   dense_symmetric_band_toeplitz).  Definitions only - the proofs are in Lemmas/ToeplitzL.v.

   Arrays are a length and a total read function Z -> K; K is any type with a zero, an addition and a
   multiplication (the lemmas assume a commutative ring; the correspondence uses K := Z).
   The integer quantities of the FFT/direct/overlap-save kernels (pad widths, block count, offsets,
   slice bounds) are NOT written here: the kernels take them from the records direct_q / fft_q / os_q,
   which tools/translate/toeplitz.py regenerates from the Python source (FuraxGen.ToeplitzArith).

   JAX primitives are given their documented meaning (validated by harness/c09.py, trusted):
     jnp.pad(constant), python slices, jnp.concatenate, jnp.convolve(mode='valid'),
     lax.dynamic_slice / dynamic_update_slice (negative start wraps once, then the start is clamped
     so that the window fits), x.at[idx].set(v) (negative indices wrap once, indices still out of
     range are dropped), lax.fori_loop, jnp.vectorize (row-wise over broadcast batch dimensions),
     jsl.block_diag, and   ifft(fft(a, L) * fft(b, L)).real = circular convolution of length L.  *)
From Coq Require Import ZArith List Bool String.
Import ListNotations.
Open Scope Z_scope.

(* ------------------------------------------------------------------------------------------ *)
(* integer helpers used by the generated arithmetic *)

(* int(np.ceil(a / b)) for b > 0 *)
Definition cdiv (a b : Z) : Z := - ((- a) / b).
(* np.ceil(np.log2(a)) for a >= 1 *)
Definition clog2 (a : Z) : Z := Z.log2_up a.

Inductive errkind := ValueError | TypeError | NotImplementedError.
Inductive result (A : Type) := Ok (a : A) | Err (e : errkind).
Arguments Ok {A} a.
Arguments Err {A} e.

Definition is_some {A} (o : option A) : bool := match o with Some _ => true | None => false end.
Definition is_none {A} (o : option A) : bool := negb (is_some o).
Definition oget (o : option Z) : Z := match o with Some v => v | None => 0 end.
Definition str_in (s : string) (l : list string) : bool := existsb (String.eqb s) l.
(* str.startswith *)
Definition startswith (s p : string) : bool := String.prefix p s.

(* quantities of _apply_direct: jnp.pad(x, (d_pad_lo, d_pad_hi)) *)
Record direct_q := mkDQ { d_pad_lo : Z; d_pad_hi : Z }.
(* quantities of _apply_fft: fft(kernel, f_H_len); pad(x, (f_pad_lo, f_pad_hi)); `if f_whole: return
   Y_padded`; return Y_padded[f_lo:f_hi] *)
Record fft_q := mkFQ { f_H_len : Z; f_pad_lo : Z; f_pad_hi : Z; f_whole : bool; f_lo : Z; f_hi : Z }.
(* quantities of _apply_overlap_save *)
Record os_q := mkOS {
  o_H_len : Z;              (* fft(kernel, o_H_len) *)
  o_pad_lo : Z;             (* x_padding_start *)
  o_pad_hi : Z;             (* x_padding_end *)
  o_y_len : Z;              (* jnp.zeros(o_y_len) *)
  o_loop_lo : Z;            (* lax.fori_loop(o_loop_lo, o_loop_hi, func, y) *)
  o_loop_hi : Z;
  o_xb_start : Z -> Z;      (* iblock -> start of dynamic_slice(x_padded, ., .) *)
  o_xb_size : Z;
  o_keep_start : Z;         (* dynamic_slice(y_block, (o_keep_start,), (o_keep_size,)) *)
  o_keep_size : Z;
  o_write_pos : Z -> Z;     (* iblock -> start of dynamic_update_slice(y, ., .) *)
  o_out_lo : Z;             (* return y[o_out_lo:o_out_hi] *)
  o_out_hi : Z }.

(* ------------------------------------------------------------------------------------------ *)
(* dtypes (real floating dtypes only) *)
Inductive dtype := F32 | F64.
Definition dt_max (a b : dtype) : dtype := match a, b with F32, F32 => F32 | _, _ => F64 end.
Definition dt_le (a b : dtype) : bool := match a, b with F64, F32 => false | _, _ => true end.
(* dtype an array really has when it is requested as d: without x64, float64 is truncated to float32 *)
Definition dt_canon (x64 : bool) (d : dtype) : dtype := if x64 then d else F32.
(* jnp.zeros(n) without dtype *)
Definition dt_default (x64 : bool) : dtype := if x64 then F64 else F32.
(* which dtype `y = jnp.zeros(...)` of _apply_overlap_save is allocated with (regenerated) *)
Inductive ydtype := YDefault | YResult | YData | YBand.
Definition dt_eqb (a b : dtype) : bool := match a, b with F32, F32 | F64, F64 => true | _, _ => false end.

(* dtype of the result of each method for data of dtype xd and band values of dtype bd (already
   canonical); dense: matrix(bd) @ x(xd); direct: convolve; fft: ifft(fft(x) * fft(kernel)).real;
   overlap_save: dynamic_update_slice(y, y_block-part, .) requires equal dtypes (TypeError). *)
Definition dtype_out (yd : ydtype) (x64 : bool) (method : string) (xd bd : dtype) : result dtype :=
  let r := dt_max xd bd in
  if String.eqb method "overlap_save" then
    let y := match yd with YDefault => dt_default x64 | YResult => r | YData => xd | YBand => bd end in
    if dt_eqb y r then Ok r else Err TypeError
  else Ok r.

(* ------------------------------------------------------------------------------------------ *)
(* batch shapes (jnp.vectorize): reversed shapes, innermost dimension first *)
Fixpoint bcast_rev (a b : list Z) : option (list Z) :=
  match a, b with
  | [], _ => Some b
  | _, [] => Some a
  | x :: a', y :: b' =>
      match bcast_rev a' b' with
      | None => None
      | Some r => if x =? y then Some (x :: r) else if x =? 1 then Some (y :: r)
                  else if y =? 1 then Some (x :: r) else None
      end
  end.
Definition broadcast_shapes (a b : list Z) : option (list Z) :=
  match bcast_rev (rev a) (rev b) with Some r => Some (rev r) | None => None end.
Definition zprod (l : list Z) : Z := fold_right Z.mul 1 l.
(* reversed multi-index of the flat (row-major) index r in the reversed shape rs *)
Fixpoint unravel_rev (rs : list Z) (r : Z) : list Z :=
  match rs with [] => [] | d :: t => (r mod d) :: unravel_rev t (r / d) end.
(* flat index, in an operand of reversed shape rs, of the broadcast multi-index ri *)
Fixpoint ravel_bcast_rev (rs ri : list Z) : Z :=
  match rs, ri with
  | d :: ds, i :: is_ => (if d =? 1 then 0 else i) + d * ravel_bcast_rev ds is_
  | _, _ => 0
  end.
(* row of an operand of batch shape s that is used for row r of the broadcast batch shape out *)
Definition bidx (out s : list Z) (r : Z) : Z := ravel_bcast_rev (rev s) (unravel_rev (rev out) r).
Definition zrange (lo : Z) (n : nat) : list Z := map (fun k => lo + Z.of_nat k) (seq 0 n).

Section Model.
  Variable K : Type.
  Variables (k0 : K) (kadd kmul : K -> K -> K).

  Record arr := mkArr { alen : Z; aget : Z -> K }.

  Fixpoint sumZ (f : Z -> K) (lo : Z) (n : nat) : K :=
    match n with O => k0 | S m => kadd (f lo) (sumZ f (lo + 1) m) end.

  Definition inb (lo hi i : Z) : bool := (lo <=? i) && (i <? hi).

  Definition zeros (len : Z) : arr := mkArr len (fun _ => k0).
  (* jnp.pad(a, (lo, hi), mode='constant') *)
  Definition pad (lo hi : Z) (a : arr) : arr :=
    mkArr (lo + alen a + hi) (fun i => if inb lo (lo + alen a) i then aget a (i - lo) else k0).
  (* a[start:stop] *)
  Definition norm_idx (len i : Z) : Z := Z.max 0 (Z.min len (if i <? 0 then i + len else i)).
  Definition slice (start stop : Z) (a : arr) : arr :=
    let s := norm_idx (alen a) start in
    let e := norm_idx (alen a) stop in
    mkArr (Z.max 0 (e - s)) (fun i => aget a (s + i)).
  (* a[start:stop:-1] *)
  Definition norm_idx_rev (len i : Z) : Z := Z.max (-1) (Z.min (len - 1) (if i <? 0 then i + len else i)).
  Definition slice_rev (start stop : Z) (a : arr) : arr :=
    let s := norm_idx_rev (alen a) start in
    let e := norm_idx_rev (alen a) stop in
    mkArr (Z.max 0 (s - e)) (fun i => aget a (s - i)).
  Definition concat (a b : arr) : arr :=
    mkArr (alen a + alen b) (fun i => if i <? alen a then aget a i else aget b (i - alen a)).

  (* _get_kernel: jnp.concatenate((band_values[-1:0:-1], band_values)) *)
  Definition get_kernel (band : arr) : arr := concat (slice_rev (-1) 0 band) band.

  (* the input of fft(a, L): a cropped or zero-padded to length L *)
  Definition resize (L : Z) (a : arr) : arr :=
    mkArr L (fun i => if inb 0 (Z.min L (alen a)) i then aget a i else k0).
  (* SPECIFICATION of the DFT: ifft(fft(a) * fft(b)).real for real a, b of length L *)
  Definition circ_conv (L : Z) (a b : arr) : arr :=
    mkArr L (fun t => sumZ (fun s => kmul (aget a s) (aget b ((t - s) mod L))) 0 (Z.to_nat L)).

  (* jnp.convolve(a, v, mode='valid'): full[p] = sum_s v[s] a[p-s], valid = full[lv-1 : la] (la >= lv;
     the operands are swapped otherwise) *)
  Definition conv_valid1 (a v : arr) : arr :=
    mkArr (alen a - alen v + 1)
      (fun k => sumZ (fun s => kmul (aget v s) (aget a (k + alen v - 1 - s))) 0 (Z.to_nat (alen v))).
  Definition conv_valid (a v : arr) : arr :=
    if alen a <? alen v then conv_valid1 v a else conv_valid1 a v.

  (* lax.dynamic_slice(a, (start,), (size,)) / lax.dynamic_update_slice(a, upd, (start,)) *)
  Definition dyn_start (len size start : Z) : Z :=
    Z.max 0 (Z.min (len - size) (if start <? 0 then start + len else start)).
  Definition dyn_slice (a : arr) (start size : Z) : arr :=
    let s := dyn_start (alen a) size start in mkArr size (fun i => aget a (s + i)).
  Definition dyn_update (a upd : arr) (start : Z) : arr :=
    let s := dyn_start (alen a) (alen upd) start in
    mkArr (alen a) (fun i => if inb s (s + alen upd) i then aget upd (i - s) else aget a i).

  (* out.at[idx(0), ..., idx(m-1)].set(v) on a flat array *)
  Definition scat_idx (len i : Z) : Z := if i <? 0 then i + len else i.
  Definition scatter_set (out : arr) (idx : Z -> Z) (m : Z) (v : K) : arr :=
    mkArr (alen out)
      (fun p => if inb 0 (alen out) p &&
                   existsb (fun t => scat_idx (alen out) (idx t) =? p) (zrange 0 (Z.to_nat m))
                then v else aget out p).

  (* lax.fori_loop(lo, hi, f, init) *)
  Fixpoint fori_n (cnt : nat) (i : Z) (f : Z -> arr -> arr) (y : arr) : arr :=
    match cnt with O => y | S c => fori_n c (i + 1) f (f i y) end.
  Definition fori (lo hi : Z) (f : Z -> arr -> arr) (y : arr) : arr := fori_n (Z.to_nat (hi - lo)) lo f y.

  (* dense_symmetric_band_toeplitz(n, band_values), before the final reshape(n, n) *)
  Definition dense_step (n : Z) (band : arr) (output : arr) (j : Z) : arr :=
    let value := aget band (Z.abs j) in
    let m := n - j in
    let indices := if 0 <=? j then (fun t => j + t * (n + 1)) else (fun t => - n * j + t * (n + 1)) in
    scatter_set output indices m value.
  Definition dense_flat (n : Z) (band : arr) : arr :=
    let band_width := alen band - 1 in
    fold_left (dense_step n band) (zrange (- band_width) (Z.to_nat (band_width + 1 + band_width)))
      (zeros (n ^ 2)).
  (* entry (i, j) of output.reshape(n, n) *)
  Definition dense (n : Z) (band : arr) (i j : Z) : K := aget (dense_flat n band) (i * n + j).

  (* _apply_dense: matrix @ x *)
  Definition apply_dense (x band : arr) : option arr :=
    let n := alen x in
    Some (mkArr n (fun i => sumZ (fun j => kmul (dense n band i j) (aget x j)) 0 (Z.to_nat n))).

  (* _apply_direct *)
  Definition apply_direct (q : direct_q) (x band : arr) : option arr :=
    if (0 <=? d_pad_lo q) && (0 <=? d_pad_hi q) then
      Some (conv_valid (pad (d_pad_lo q) (d_pad_hi q) x) (get_kernel band))
    else None.

  (* _apply_fft; None = a shape error of a JAX primitive (negative pad width, X_padded * H with
     different lengths - broadcasting of a length-1 operand is not modelled) *)
  Definition apply_fft (q : fft_q) (x band : arr) : option arr :=
    let H := resize (f_H_len q) (get_kernel band) in
    let x_padded := pad (f_pad_lo q) (f_pad_hi q) x in
    if (0 <=? f_pad_lo q) && (0 <=? f_pad_hi q) && (alen H =? alen x_padded) && (1 <=? alen H) then
      let Y_padded := circ_conv (alen x_padded) H x_padded in
      Some (if f_whole q then Y_padded else slice (f_lo q) (f_hi q) Y_padded)
    else None.

  (* _apply_overlap_save; None = a shape error of a JAX primitive (negative pad width or length,
     window larger than the operand, X * H with different lengths) *)
  Definition os_body (q : os_q) (H x_padded : arr) (iblock : Z) (y : arr) : arr :=
    let x_block := dyn_slice x_padded (o_xb_start q iblock) (o_xb_size q) in
    let y_block := circ_conv (alen x_block) H x_block in
    dyn_update y (dyn_slice y_block (o_keep_start q) (o_keep_size q)) (o_write_pos q iblock).
  Definition os_checks (q : os_q) (x : arr) : bool :=
    (0 <=? o_pad_lo q) && (0 <=? o_pad_hi q) && (0 <=? o_y_len q) &&
    (1 <=? o_xb_size q) && (o_xb_size q <=? o_pad_lo q + alen x + o_pad_hi q) &&
    (o_H_len q =? o_xb_size q) &&
    (0 <=? o_keep_size q) && (o_keep_size q <=? o_xb_size q) && (o_keep_size q <=? o_y_len q).
  Definition apply_overlap_save (q : os_q) (x band : arr) : option arr :=
    let H := resize (o_H_len q) (get_kernel band) in
    let x_padded := pad (o_pad_lo q) (o_pad_hi q) x in
    if os_checks q x then
      let y := fori (o_loop_lo q) (o_loop_hi q) (os_body q H x_padded) (zeros (o_y_len q)) in
      Some (slice (o_out_lo q) (o_out_hi q) y)
    else None.

  (* ---------------------------------------------------------------------------------------- *)
  (* the specification: the symmetric band Toeplitz matrix of the band values and its product *)
  Definition Tm (band : arr) (i j : Z) : K :=
    if Z.abs (i - j) <? alen band then aget band (Z.abs (i - j)) else k0.
  Definition Tx (band x : arr) (i : Z) : K :=
    sumZ (fun j => kmul (Tm band i j) (aget x j)) 0 (Z.to_nat (alen x)).

  (* ---------------------------------------------------------------------------------------- *)
  (* mv: jnp.vectorize(func, signature='(n),(k)->(n)')(x, band_values) on batches of rows;
     a batched array is its batch shape and its rows in row-major order *)
  Record barr := mkB { bshape : list Z; brows : list arr }.
  Definition brow (b : barr) (r : Z) : arr := nth (Z.to_nat r) (brows b) (zeros 0).
  Definition vectorize {A} (f : arr -> arr -> A) (x band : barr) : result (list Z * list A) :=
    match broadcast_shapes (bshape x) (bshape band) with
    | None => Err ValueError
    | Some out =>
        Ok (out, map (fun r => f (brow x (bidx out (bshape x) r)) (brow band (bidx out (bshape band) r)))
                  (zrange 0 (Z.to_nat (zprod out))))
    end.

  (* _get_func: the kernel of a method name (overlap_add is dead code: METHODS excludes it) *)
  Definition get_func (dq : Z -> Z -> direct_q) (fq : Z -> Z -> fft_q) (oq : Z -> Z -> Z -> os_q)
      (method : string) (fft_size : option Z) : option (arr -> arr -> option arr) :=
    let ks band := alen (get_kernel band) in
    if String.eqb method "dense" then Some apply_dense
    else if String.eqb method "direct" then Some (fun x band => apply_direct (dq (ks band) (alen x)) x band)
    else if String.eqb method "fft" then Some (fun x band => apply_fft (fq (ks band) (alen x)) x band)
    else if String.eqb method "overlap_save" then
      Some (fun x band => apply_overlap_save (oq (oget fft_size) (ks band) (alen x)) x band)
    else None.

  (* as_matrix: blocks = vectorize(dense)(zeros(in_shape), band_values); block_diag over the
     flattened batch when there is one; entry (p, q) of the result, n = in_shape[-1] *)
  Definition as_matrix_entry (n : Z) (blocks : list (Z -> Z -> K)) (p q : Z) : K :=
    if (p / n) =? (q / n) then nth (Z.to_nat (p / n)) blocks (fun _ _ => k0) (p mod n) (q mod n) else k0.

  (* mv: func = jnp.vectorize(self._get_func(), signature='(n),(k)->(n)'); func(x, self.band_values).
     vectorize checks the core dimension n of every output row against the input row (ValueError
     "inconsistent size for core dimension"); a row that is None (shape error inside a kernel, whose
     exception type is not modelled) is kept as None *)
  Inductive rowres := RowOk (y : arr) | RowShapeErr | RowCoreDimErr.
  Definition check_row (f : arr -> arr -> option arr) (xr br : arr) : rowres :=
    match f xr br with
    | None => RowShapeErr
    | Some y => if alen y =? alen xr then RowOk y else RowCoreDimErr
    end.
  Definition row_bad (r : rowres) : bool := match r with RowCoreDimErr => true | _ => false end.
  Definition row_out (r : rowres) : option arr := match r with RowOk y => Some y | _ => None end.
  Definition mv (dq : Z -> Z -> direct_q) (fq : Z -> Z -> fft_q) (oq : Z -> Z -> Z -> os_q)
      (method : string) (fft_size : option Z) (x band : barr) : result (list Z * list (option arr)) :=
    match get_func dq fq oq method fft_size with
    | None => Err NotImplementedError
    | Some f =>
        match vectorize (check_row f) x band with
        | Err e => Err e
        | Ok (out, rows) => if existsb row_bad rows then Err ValueError else Ok (out, map row_out rows)
        end
    end.

  (* as_matrix of an operator whose input has batch shape xbatch and last axis n: (size, entries);
     the zero input only provides the shape, so its rows are not represented *)
  Definition as_matrix (xbatch : list Z) (n : Z) (band : barr) : result (Z * (Z -> Z -> K)) :=
    match vectorize (fun _ b => dense n b) (mkB xbatch []) band with
    | Err e => Err e
    | Ok (out, blocks) => Ok (zprod out * n, as_matrix_entry n blocks)
    end.
End Model.

Arguments mkArr {K}.
Arguments alen {K}.
Arguments aget {K}.
Arguments mkB {K}.
Arguments bshape {K}.
Arguments brows {K}.

(* ------------------------------------------------------------------------------------------ *)
(* executable instance K := Z used by the correspondence *)
Definition zarr_of_list (l : list Z) : arr Z :=
  mkArr (Z.of_nat (List.length l)) (fun i => if (0 <=? i) && (i <? Z.of_nat (List.length l)) then nth (Z.to_nat i) l 0 else 0).
Definition zarr_to_list (a : arr Z) : list Z := map (aget a) (zrange 0 (Z.to_nat (alen a))).
Definition zbarr (shape : list Z) (rows : list (list Z)) : barr Z := mkB shape (map zarr_of_list rows).

(* observations of the model on integer data: constructor outcome, then the batch shape and rows of
   mv / the dense matrix of as_matrix.  The arithmetic (dq, fq, oq) and the constructor are parameters:
   the harness passes the regenerated ones. *)
Inductive obs (A : Type) := ObsOk (a : A) | ObsCtorErr (e : errkind) | ObsApplyErr (e : errkind).
Arguments ObsOk {A} a.
Arguments ObsCtorErr {A} e.
Arguments ObsApplyErr {A} e.

Definition zobs_mv (dq : Z -> Z -> direct_q) (fq : Z -> Z -> fft_q) (oq : Z -> Z -> Z -> os_q)
    (ctor : string -> option Z -> Z -> Z -> result (option Z))
    (method : string) (fft_size : option Z) (xshape : list Z) (xrows : list (list Z))
    (bshape : list Z) (brows : list (list Z)) : obs (option Z * list Z * list (option (list Z))) :=
  let klast := match brows with r :: _ => Z.of_nat (List.length r) | [] => 0 end in
  match ctor method fft_size (zprod bshape * klast) klast with
  | Err e => ObsCtorErr e
  | Ok stored =>
      match mv Z 0 Z.add Z.mul dq fq oq method stored (zbarr xshape xrows) (zbarr bshape brows) with
      | Err e => ObsApplyErr e
      | Ok (out, rows) => ObsOk (stored, out, map (option_map zarr_to_list) rows)
      end
  end.

Definition zobs_matrix (xbatch : list Z) (n : Z) (bshape : list Z) (brows : list (list Z))
    : obs (Z * list (list Z)) :=
  match as_matrix Z 0 xbatch n (zbarr bshape brows) with
  | Err e => ObsApplyErr e
  | Ok (size, M) =>
      ObsOk (size, map (fun p => map (fun q => M p q) (zrange 0 (Z.to_nat size))) (zrange 0 (Z.to_nat size)))
  end.
