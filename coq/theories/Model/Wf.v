(* Well-formed operator terms: what the constructors of furax guarantee about the objects they
   build (CompositionOperator operands chain-compatible, AdditionOperator operands with equal
   structures, block containers validated by the block constructors).  Definitions only. *)
From Coq Require Import List Bool Arith ZArith NArith QArith String Lia.
From Furax Require Import Base.Pytree Model.Op Model.Algebra.
Import ListNotations.
Set Implicit Arguments.
Local Close Scope Q_scope.
Local Open Scope nat_scope.

Section Wf.
  Variable K : Type.
  Notation op := (op K).

  (* adjacent operands of a composition: input structure of the left = output structure of the right *)
  Fixpoint chain_ok (l : list op) : bool :=
    match l with
    | [] => true
    | a :: r => match r with
                | [] => true
                | b :: _ => struct_eqb (in_struct a) (out_struct b) && chain_ok r
                end
    end.
  Definition sum_ok (l : list op) : bool :=
    all_eqb (map (@in_struct K) l) && all_eqb (map (@out_struct K) l).

  Fixpoint wfo (e : op) : bool :=
    let all := fix all (l : list op) : bool :=
      match l with [] => true | x :: xs => wfo x && all xs end in
    match e with
    | Prim _ _ _ _ _ | Ident _ _ | Homoth _ _ _ => true
    | Wrap _ w x =>
        (* lazy inverses exist for square operators only (InverseOperator.__init__, @square classes) *)
        wfo x && (if isinst (wcls w) [CAbstractLazyInverse] then is_square x else true)
    | Comp _ l => negb (Nat.eqb (List.length l) 0) && chain_ok l && all l
    | AddOp _ l => negb (Nat.eqb (List.length l) 0) && sum_ok l && all l
    | Block _ b td l =>
        negb (Nat.eqb (List.length l) 0) && Nat.eqb (List.length l) (nleaves td) &&
        match b with
        | BRow => all_eqb (map (@out_struct K) l)
        | BCol => all_eqb (map (@in_struct K) l)
        | BDiag => true
        end && all l
    end.
End Wf.
