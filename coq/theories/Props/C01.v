(* C01 - reducing an operator never changes the linear map it denotes.
   Statements only; proofs are `exact <lemma>` (Lemmas/Sound.v).
   `leaf_facts leafsem` lists the facts of linear algebra about the leaf operators (primitives and
   opaque user operators) that the rules rely on; reduce() itself, the rule registry (in ANY order:
   `order` is universally quantified), the scan with its index bookkeeping, the scalar/identity
   rules, the block rules with their nested reductions and the model of `@` are verified. *)
From Coq Require Import List Ring.
From Furax Require Import Base.Pytree Model.Op Model.Algebra Model.Denote Lemmas.DenoteL Lemmas.Sound.
Import ListNotations.

Section C01.
  Variable K : Type.
  Variables (k0 k1 : K) (kadd kmul ksub : K -> K -> K) (kopp : K -> K).
  Hypothesis Kth : ring_theory k0 k1 kadd kmul ksub kopp (@eq K).
  Variable keqb : K -> K -> bool.
  Hypothesis keqb_eq : forall a b, keqb a b = true -> a = b.
  Variable leafsem : op K -> value K -> option (value K).
  Hypothesis LF : leaf_facts K kadd kmul leafsem.

  (* For every expression tree e (any depth, any operand kinds), every order of the rule registry
     and every fuel for which reduce returns an operator e': every input on which e can be applied
     gives the same result through e'. *)
  Theorem reduce_sound : forall fuel order e e',
    reduce keqb k1 kmul fuel order e = Ok e' ->
    forall x y, denote kadd kmul leafsem e x = Some y -> denote kadd kmul leafsem e' x = Some y.
  Proof. exact (reduce_sound_l K k0 k1 kadd kmul ksub kopp Kth keqb keqb_eq leafsem LF). Qed.

  (* each registered binary rule, fired on any adjacent pair *)
  Theorem every_rule_sound : forall rr ru l r new,
    (forall e e', rr e = Ok e' -> den_le kadd kmul leafsem e e') ->
    guard_ok keqb (guard_of ru) l r = true ->
    apply_rule keqb kmul rr ru l r = Ok (Some new) ->
    chain_le kadd kmul leafsem [l; r] new.
  Proof. exact (fun rr ru l r new H => rule_sound K k0 k1 kadd kmul ksub kopp Kth keqb keqb_eq leafsem LF rr H ru l r new). Qed.

  (* the scan, for any number of firings and any index policy outcome *)
  Theorem scan_preserves_map : forall rr fuel order ops index res,
    (forall e e', rr e = Ok e' -> den_le kadd kmul leafsem e e') ->
    scan keqb k1 kmul rr fuel order ops index = Ok res -> chain_le kadd kmul leafsem ops res.
  Proof. exact (fun rr fuel order ops index res H => scan_sound K k0 k1 kadd kmul ksub kopp Kth keqb keqb_eq leafsem LF rr H fuel order ops index res). Qed.

  Theorem scalar_relocation_sound : forall ops,
    chain_le kadd kmul leafsem ops (homothety_rule k1 kmul ops).
  Proof. exact (homothety_rule_sound K k0 k1 kadd kmul ksub kopp Kth leafsem LF). Qed.
End C01.
Print Assumptions reduce_sound.
Print Assumptions every_rule_sound.
Print Assumptions scan_preserves_map.
Print Assumptions scalar_relocation_sound.
