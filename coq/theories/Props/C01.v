From Furax Require Import Lemmas.Sound.
Example placeholder_c01 : True. Proof. exact I. Qed.
