(* C01, structural clause: "reduce() returns an operator with the same input and output
   structures" (also `reduce_structs` of C05 and the squareness premise of C06).
   Statements only; proofs are `exact <lemma>` (Lemmas/ReduceStructsL.v).

   Hypotheses on the expression tree e:
   * `wfo e` (Model/Wf.v): what the constructors of furax guarantee (chain-compatible compositions,
     sums of operators with equal structures, validated block containers, lazy inverses of square
     operators only);
   * `prims_ok e` (decidable: `prims_okb`): the two facts about declared structures that the rules
     rely on and that cannot be read off a term:
       - MoveAxisOperator: out_structure() is the leaf-wise jnp.moveaxis image of in_structure()
         (`moveaxis_okb`; the class computes it so, by eval_shape of mv);
       - IndexOperator without indexed axis: out_structure() = in_structure().
   Everything else (@square classes, lazy wrappers, every rule incl. the four block rules with
   their nested reductions, the scalar/identity rules, the scan with its splices, the collapses
   of reduce()) is proved, for every registry order and every fuel. *)
From Coq Require Import List Bool ZArith NArith QArith.
From Furax Require Import Base.Pytree Model.Op Model.Algebra Model.Wf Lemmas.BuildL Lemmas.ReduceStructsL.
Import ListNotations.
Local Close Scope Q_scope.
Local Open Scope nat_scope.

Section C01Structs.
  Variable K : Type.
  Variable keqb : K -> K -> bool.
  Hypothesis keqb_eq : forall a b, keqb a b = true -> a = b.
  Variables (k1 : K) (kmul : K -> K -> K).

  Theorem reduce_structs : forall fuel order (e e' : op K), wfo e = true -> prims_ok e ->
    reduce keqb k1 kmul fuel order e = Ok e' ->
    wfo e' = true /\ prims_ok e' /\ in_struct e' = in_struct e /\ out_struct e' = out_struct e.
  Proof. exact (ReduceStructsL.reduce_structs K keqb keqb_eq k1 kmul). Qed.

  Theorem reduce_square : forall fuel order (e e' : op K), wfo e = true -> prims_ok e ->
    is_square e = true -> reduce keqb k1 kmul fuel order e = Ok e' -> is_square e' = true.
  Proof. exact (ReduceStructsL.reduce_square K keqb keqb_eq k1 kmul). Qed.

  (* each registered binary rule fired on an adjacent chain-compatible pair: either the pair
     disappears and the outer structures coincide, or the replacement is a chain of well-formed
     factors between the same outer structures.  `rr` is the reduce() used by the block rules. *)
  Theorem rule_structs : forall rr ru (l r : op K) new, keeps rr ->
    guard_ok keqb (guard_of ru) l r = true -> apply_rule keqb kmul rr ru l r = Ok (Some new) ->
    wfo l = true -> wfo r = true -> prims_ok l -> prims_ok r -> in_struct l = out_struct r ->
    (new = [] /\ in_struct r = out_struct l) \/
    (new <> [] /\ chain_ok new = true /\ allwf K new = true /\ allpk new = true /\
     in_struct (last new l) = in_struct r /\ out_struct (hd l new) = out_struct l).
  Proof. exact (ReduceStructsL.rule_structs K keqb keqb_eq kmul). Qed.

  (* AlgebraicReductionRule.apply on the operands of a composition *)
  Theorem algebraic_structs : forall rr fuel order (ops res : list (op K)) d, keeps rr ->
    ops <> [] -> chain_ok ops = true -> allwf K ops = true -> allpk ops = true ->
    algebraic_reduction keqb k1 kmul rr fuel order ops = Ok res ->
    res <> [] /\ chain_ok res = true /\ allwf K res = true /\ allpk res = true /\
    in_struct (last res d) = in_struct (last ops d) /\ out_struct (hd d res) = out_struct (hd d ops).
  Proof. exact (ReduceStructsL.algebraic_structs K keqb keqb_eq k1 kmul). Qed.

  (* the scalar rule alone: relocating the scalar keeps the path of structures *)
  Theorem homothety_rule_structs : forall (ops : list (op K)) si so,
    typed ops si so -> typed (homothety_rule k1 kmul ops) si so.
  Proof. exact (ReduceStructsL.homothety_rule_typed K k1 kmul). Qed.
End C01Structs.
Print Assumptions reduce_structs.
Print Assumptions reduce_square.
Print Assumptions rule_structs.
Print Assumptions algebraic_structs.
Print Assumptions homothety_rule_structs.

(* ---------- non-vacuity: concrete terms over Z ---------- *)
Definition sA : struct := Leaf (mkSds [2; 3] 0).
Definition sB : struct := Leaf (mkSds [3; 2] 0).
(* M(1->0) @ M(0->1) @ 2 @ x[:, ...] @ 3 @ A : the MoveAxis pair cancels, the index is a no-op, the
   scalars merge on the left *)
Definition ex1 : op Z :=
  Comp 1 [Prim 2 CMoveAxis sB sA (PAxes [1%Z] [0%Z]); Prim 3 CMoveAxis sA sB (PAxes [0%Z] [1%Z]);
          Homoth 4 2%Z sA; Prim 5 CIndex sA sA (PIndex true [ISliceAll; IEll]); Homoth 6 3%Z sA;
          Prim 7 CAtom sA sA (PKey 9)].
Example ex1_reduces :
  wfo ex1 = true /\ prims_okb ex1 = true /\
  reduce Z.eqb 1%Z Z.mul 6 default_order ex1 = Ok (Comp 0 [Homoth 0 6%Z sA; Prim 7 CAtom sA sA (PKey 9)]).
Proof. vm_compute. auto. Qed.

(* BlockRow @ BlockDiagonal with a nested reduction (polariser @ HWP inside the product) *)
Definition td2 : treedef := Node KTuple [Leaf tt; Leaf tt].
Definition sQ : struct := Node (KStokes 2) [Leaf (mkSds [4] 0); Leaf (mkSds [4] 0)].
Definition sO : struct := Leaf (mkSds [4] 0).
Definition ex2 : op Z :=
  Comp 10 [Block 11 BRow td2 [Prim 13 CAtom sQ sO (PKey 1); Prim 16 CLinearPolarizer sQ sO PNone];
           Block 12 BDiag td2 [Prim 14 CQURotation sQ sQ (PAngles [(1#2)%Q]); Prim 15 CHWP sQ sQ PNone]].
Example ex2_reduces :
  wfo ex2 = true /\ prims_okb ex2 = true /\
  reduce Z.eqb 1%Z Z.mul 6 default_order ex2 =
    Ok (Block 0 BRow td2 [Comp 0 [Prim 13 CAtom sQ sO (PKey 1); Prim 14 CQURotation sQ sQ (PAngles [(1#2)%Q])];
                          Prim 16 CLinearPolarizer sQ sO PNone]) /\
  in_struct ex2 = Node KTuple [sQ; sQ] /\ out_struct ex2 = sO.
Proof. vm_compute. auto. Qed.
Example ex2_by_theorem : forall e', reduce Z.eqb 1%Z Z.mul 6 default_order ex2 = Ok e' ->
  in_struct e' = Node KTuple [sQ; sQ] /\ out_struct e' = sO.
Proof.
  intros e' H.
  destruct (reduce_structs Z Z.eqb (fun a b => proj1 (Z.eqb_eq a b)) 1%Z Z.mul 6 default_order ex2 e'
              eq_refl eq_refl H) as (_ & _ & -> & ->). split; reflexivity.
Qed.

(* prims_ok is needed: a MoveAxis object whose declared out structure is not the moveaxis image of
   its in structure (no real object is like that) makes the rule change the out structure *)
Definition sC : struct := Leaf (mkSds [6] 0).
Definition bad1 : op Z :=
  Comp 1 [Prim 2 CMoveAxis sB sC (PAxes [1%Z] [0%Z]); Prim 3 CMoveAxis sA sB (PAxes [0%Z] [1%Z])].
Example prims_ok_needed_moveaxis :
  wfo bad1 = true /\ prims_okb bad1 = false /\
  reduce Z.eqb 1%Z Z.mul 6 default_order bad1 = Ok (Ident 0 sA) /\ out_struct bad1 = sC.
Proof. vm_compute. auto. Qed.
(* an IndexOperator built with an explicit out_structure that lies *)
Definition bad2 : op Z := Prim 5 CIndex sA sC (PIndex true [ISliceAll; IEll]).
Example prims_ok_needed_index :
  wfo bad2 = true /\ prims_okb bad2 = false /\
  reduce Z.eqb 1%Z Z.mul 6 default_order bad2 = Ok (Ident 0 sA) /\ out_struct bad2 = sC.
Proof. vm_compute. auto. Qed.
