(* C01, last clause: "reduce() terminates without raising".
   Statements only; proofs are `exact <lemma>` (Lemmas/ReduceTotalL.v).

   Hypotheses on the expression tree e (all three decidable, evaluated by the harness on every
   encoded expression):
   * `wfo e` (Model/Wf.v): what the constructors of furax guarantee;
   * `prims_ok e` (Lemmas/ReduceStructsL.v): declared structures of MoveAxis / no-op Index objects;
   * `params_ok e` (`params_okb`, Lemmas/ReduceTotalL.v): the typing of parameters that real objects
     satisfy and that keeps the rules out of their `Err` branches:
       - a `Prim` is an object of a LEAF class (not a lazy wrapper / container / composition class);
       - a QURotationOperator carries its angles; a QURotationTransposeOperator wraps such an operator;
       - a MoveAxisOperator carries (source, destination);
       - an IndexOperator carries its index tuple; if `unique_indices` is False (the constructor
         forces True unless some entry is an integer array) it has an indexed axis, and when it has
         exactly one and all leaves share one shape: that entry is an integer array, the axis
         exists in the shape, and the input pytree has a leaf (stronger than needed since the
         fix of TransposeIndexRule for the empty pytree: see `empty_pytree_index_no_longer_raises`).
   Fuel: `fuel_for e = weight e`, the nesting measure in which a composition counts one level and a
   sum / block container two; reduce() never makes an operator heavier.  Inside one composition the
   while loop of AlgebraicReductionRule runs at most phi(ops, index) =
   4|ops|^3 + 2 inv(ops) + (|ops| - index) < scan_fuel iterations (inv = number of pairs
   rotation-like operator ... HWP further right; every iteration lowers phi). *)
From Coq Require Import List Bool ZArith NArith QArith.
From Furax Require Import Base.Pytree Model.Op Model.Algebra Model.Wf Lemmas.BuildL
  Lemmas.ReduceStructsL Lemmas.ReduceTotalL.
From Furax Require Model.Exec.
Import ListNotations.
Local Close Scope Q_scope.
Local Open Scope nat_scope.

Section C01Total.
  Variable K : Type.
  Variable keqb : K -> K -> bool.
  Hypothesis keqb_eq : forall a b, keqb a b = true -> a = b.
  Variables (k1 : K) (kmul : K -> K -> K).
  Notation reduce := (reduce keqb k1 kmul).

  (* more fuel never changes a result; any outcome other than fuel exhaustion is final *)
  Theorem fuel_mono : forall order f f' (e e' : op K),
    reduce f order e = Ok e' -> f <= f' -> reduce f' order e = Ok e'.
  Proof. exact (ReduceTotalL.fuel_mono K keqb k1 kmul). Qed.
  Theorem fuel_mono_any : forall order f f' (e : op K),
    reduce f order e <> Err OutOfFuel -> f <= f' -> reduce f' order e = reduce f order e.
  Proof. exact (ReduceTotalL.fuel_mono_any K keqb k1 kmul). Qed.
  Theorem scan_fuel_mono : forall rr order fuel fuel' (ops : list (op K)) index res,
    scan keqb k1 kmul rr fuel order ops index = Ok res -> fuel <= fuel' ->
    scan keqb k1 kmul rr fuel' order ops index = Ok res.
  Proof. exact (ReduceTotalL.scan_fuel_mono K keqb k1 kmul). Qed.

  (* the while loop: with a reduce() for the block rules that does not fail on well-typed
     operators, the scan of a typed chain returns (a typed chain) within any fuel above the
     potential; scan_fuel of the list the loop started from is above it *)
  Theorem scan_terminates : forall rr D order fuel (ops : list (op K)) index si so,
    keeps rr ->
    (forall e, wfo e = true -> prims_ok e -> params_ok e ->
       exists e', rr e = Ok e' /\ params_ok e' /\ weight e' <= weight e /\ od e' <= od e) ->
    1 <= D -> typed ops si so -> Forall (pelt D) ops -> phi ops index < fuel ->
    exists res, scan keqb k1 kmul rr fuel order ops index = Ok res /\ typed res si so /\ Forall (pelt D) res.
  Proof. exact (ReduceTotalL.scan_terminates K keqb keqb_eq k1 kmul). Qed.
  Theorem scan_fuel_enough : forall (ops ops0 : list (op K)) index,
    List.length ops <= List.length ops0 -> phi ops index < scan_fuel ops0.
  Proof. exact (ReduceTotalL.scan_fuel_enough K). Qed.

  (* (1) no exception: for every fuel and registry order the only possible error is fuel exhaustion *)
  Theorem reduce_no_exception : forall order fuel (e : op K),
    wfo e = true -> prims_ok e -> params_ok e ->
    (exists e', reduce fuel order e = Ok e') \/ reduce fuel order e = Err OutOfFuel.
  Proof. exact (ReduceTotalL.reduce_no_exception K keqb keqb_eq k1 kmul). Qed.
  (* the sharpest form: a well-typed result that is not heavier, or fuel exhaustion - and this
     only when the fuel is below the weight *)
  Theorem reduce_outcome : forall order fuel (e : op K),
    wfo e = true -> prims_ok e -> params_ok e ->
    (exists e', reduce fuel order e = Ok e' /\ params_ok e' /\ weight e' <= weight e /\ od e' <= od e) \/
    (reduce fuel order e = Err OutOfFuel /\ fuel < weight e).
  Proof. exact (ReduceTotalL.reduce_main K keqb keqb_eq k1 kmul). Qed.
  (* the typing is preserved, the result is not heavier *)
  Theorem reduce_params : forall order fuel (e e' : op K),
    wfo e = true -> prims_ok e -> params_ok e -> reduce fuel order e = Ok e' ->
    params_ok e' /\ weight e' <= weight e.
  Proof. exact (ReduceTotalL.reduce_params K keqb keqb_eq k1 kmul). Qed.

  (* (2) termination, with the explicit fuel *)
  Theorem reduce_total_fuel : forall order fuel (e : op K),
    wfo e = true -> prims_ok e -> params_ok e -> fuel_for e <= fuel ->
    exists e', reduce fuel order e = Ok e'.
  Proof. exact (ReduceTotalL.reduce_total_fuel K keqb keqb_eq k1 kmul). Qed.
  Theorem reduce_terminates : forall order (e : op K),
    wfo e = true -> prims_ok e -> params_ok e ->
    exists fuel, forall fuel', fuel <= fuel' -> reduce fuel' order e <> Err OutOfFuel.
  Proof. exact (ReduceTotalL.reduce_terminates K keqb keqb_eq k1 kmul). Qed.
  Theorem reduce_total : forall order (e : op K),
    wfo e = true -> prims_ok e -> params_ok e -> exists e', reduce (fuel_for e) order e = Ok e'.
  Proof. exact (ReduceTotalL.reduce_total K keqb keqb_eq k1 kmul). Qed.
End C01Total.

(* the instance the harness runs (Model/Exec.v, alg_fuel = 12 levels): `reduce_readyb e` =
   wfo && prims_okb && params_okb && (weight e <=? alg_fuel) *)
Theorem x_reduce_no_exception : forall order (e : Exec.xop),
  wfo e = true -> prims_ok e -> params_ok e ->
  (exists e', Exec.x_reduce order e = Ok e') \/ Exec.x_reduce order e = Err OutOfFuel.
Proof. exact ReduceTotalL.x_reduce_no_exception. Qed.
Theorem x_reduce_total : forall order (e : Exec.xop), reduce_readyb e = true ->
  exists e', Exec.x_reduce order e = Ok e' /\ wfo e' = true /\ prims_ok e' /\ params_ok e' /\
             in_struct e' = in_struct e /\ out_struct e' = out_struct e /\ weight e' <= weight e.
Proof. exact ReduceTotalL.x_reduce_total. Qed.

Print Assumptions fuel_mono.
Print Assumptions fuel_mono_any.
Print Assumptions scan_fuel_mono.
Print Assumptions scan_terminates.
Print Assumptions scan_fuel_enough.
Print Assumptions reduce_no_exception.
Print Assumptions reduce_outcome.
Print Assumptions reduce_params.
Print Assumptions reduce_total_fuel.
Print Assumptions reduce_terminates.
Print Assumptions reduce_total.
Print Assumptions x_reduce_no_exception.
Print Assumptions x_reduce_total.

(* ---------- non-vacuity: concrete terms over Z ---------- *)
Definition sQ : struct := Node (KStokes 2) [Leaf (mkSds [4] 0); Leaf (mkSds [4] 0)].
Definition sO : struct := Leaf (mkSds [4] 0).
Definition sE : struct := Node KTuple [].
Definition td1 : treedef := Node KList [Leaf tt].
Definition td2 : treedef := Node KTuple [Leaf tt; Leaf tt].
Definition red := reduce Z.eqb 1%Z Z.mul.
Definition hyps (e : op Z) : bool := wfo e && prims_okb e && params_okb e.
Definition is_ok (r : result (op Z)) : bool := match r with Ok _ => true | Err _ => false end.

(* the weight is the exact fuel here: two single-block containers; the block rule rebuilds a
   container of the composition of their contents, three levels below the composition *)
Definition ex_tight : op Z :=
  Comp 1 [Block 2 BDiag td1 [Prim 4 CAtom sO sO (PKey 1)]; Block 3 BDiag td1 [Prim 5 CAtom sO sO (PKey 2)]].
Example ex_tight_fuel :
  hyps ex_tight = true /\ fuel_for ex_tight = 4 /\ red 3 default_order ex_tight = Err OutOfFuel /\
  red 4 default_order ex_tight =
    Ok (Block 0 BDiag td1 [Comp 0 [Prim 4 CAtom sO sO (PKey 1); Prim 5 CAtom sO sO (PKey 2)]]).
Proof. vm_compute. auto. Qed.
(* polariser . rotation . HWP: the rotation is swapped with the HWP (same length, one inversion
   less), then the polariser absorbs the HWP *)
Definition ex_swap : op Z :=
  Comp 10 [Prim 11 CLinearPolarizer sQ sO PNone; Prim 12 CQURotation sQ sQ (PAngles [(1#2)%Q]); Prim 13 CHWP sQ sQ PNone].
Example ex_swap_reduces :
  hyps ex_swap = true /\
  red (fuel_for ex_swap) default_order ex_swap =
    Ok (Comp 0 [Prim 11 CLinearPolarizer sQ sO PNone;
                Wrap 0 WQURotT (Prim 12 CQURotation sQ sQ (PAngles [(1#2)%Q]))]).
Proof. vm_compute. auto. Qed.
(* row @ diag @ column: two block rules with nested reductions (a scalar produced inside) *)
Definition ex_blocks : op Z :=
  Comp 10 [Block 11 BRow td2 [Prim 13 CAtom sQ sO (PKey 1); Prim 16 CLinearPolarizer sQ sO PNone];
           Block 12 BDiag td2 [Prim 14 CQURotation sQ sQ (PAngles [(1#2)%Q]); Prim 15 CHWP sQ sQ PNone];
           Block 17 BCol td2 [Homoth 18 2%Z sQ; Homoth 19 3%Z sQ]].
Example ex_blocks_by_theorem : exists e', red (fuel_for ex_blocks) default_order ex_blocks = Ok e'.
Proof.
  apply (reduce_total Z Z.eqb (fun a b => proj1 (Z.eqb_eq a b)) 1%Z Z.mul default_order ex_blocks);
    reflexivity.
Qed.
Example ex_blocks_fuel :
  fuel_for ex_blocks = 4 /\ is_ok (red 4 default_order ex_blocks) = true /\
  red 3 default_order ex_blocks = Err OutOfFuel.
Proof. vm_compute. auto. Qed.

(* ---------- each conjunct of params_ok is needed: terms that satisfy wfo and prims_ok, violate
   params_ok in one way (no real object does), and make reduce() raise ---------- *)
(* a rotation whose angles are not available (the Encoder marks such objects unsupported) *)
Definition bad_angles : op Z :=
  Comp 1 [Prim 2 CQURotation sQ sQ (PKey 3); Prim 3 CQURotation sQ sQ (PAngles [1%Q])].
Example params_needed_angles :
  wfo bad_angles = true /\ prims_okb bad_angles = true /\ params_okb bad_angles = false /\
  red 5 default_order bad_angles = Err AssertionError.
Proof. vm_compute. auto. Qed.
(* a QURotationTransposeOperator around something that is not a rotation *)
Definition bad_wrap : op Z :=
  Comp 1 [Wrap 2 WQURotT (Prim 3 CAtom sQ sQ (PKey 1)); Prim 4 CQURotation sQ sQ (PAngles [1%Q])].
Example params_needed_wrapped_rotation :
  wfo bad_wrap = true /\ prims_okb bad_wrap = true /\ params_okb bad_wrap = false /\
  red 5 default_order bad_wrap = Err AttributeError.
Proof. vm_compute. auto. Qed.
(* a leaf object of a wrapper class *)
Definition bad_class : op Z := Comp 1 [Prim 2 CInverse sO sO (PKey 1); Prim 3 CAtom sO sO (PKey 2)].
Example params_needed_leaf_class :
  wfo bad_class = true /\ prims_okb bad_class = true /\ params_okb bad_class = false /\
  red 5 default_order bad_class = Err AssertionError.
Proof. vm_compute. auto. Qed.
(* a MoveAxisOperator without its axes *)
Definition bad_axes : op Z := Comp 1 [Prim 2 CMoveAxis sO sO PNone; Prim 2 CMoveAxis sO sO PNone].
Example params_needed_axes :
  wfo bad_axes = true /\ prims_okb bad_axes = true /\ params_okb bad_axes = false /\
  red 5 default_order bad_axes = Err AssertionError.
Proof. vm_compute. auto. Qed.
(* a non-unique IndexOperator whose single indexed entry is an int (the constructor sets
   unique_indices = True for such a tuple) *)
Definition Pint : op Z := Prim 2 CIndex sO (Leaf (mkSds [] 0)) (PIndex false [IInt 0%Z]).
Definition bad_index_int : op Z := Comp 1 [Wrap 3 WTranspose Pint; Pint].
Example params_needed_index_array :
  wfo bad_index_int = true /\ prims_okb bad_index_int = true /\ params_okb bad_index_int = false /\
  red 5 default_order bad_index_int = Err AssertionError.
Proof. vm_compute. auto. Qed.
(* An index operator on the EMPTY pytree: before fix 2d6bc32 (`len(shapes) != 1` -> NoReduction) the real
   `(P.T @ P).reduce()` raised ValueError there (out_promoted_dtype of no leaves); now the rule does not
   fire and reduce returns the composition.  params_ok still asks for a leaf (harmless: stronger than needed). *)
Definition Pempty : op Z := Prim 2 CIndex sE sE (PIndex false [IArr [0%Z; 0%Z]]).
Definition bad_index_empty : op Z := Comp 1 [Wrap 3 WTranspose Pempty; Pempty].
Example empty_pytree_index_no_longer_raises :
  wfo bad_index_empty = true /\ prims_okb bad_index_empty = true /\ params_okb bad_index_empty = false /\
  exists e', red 5 default_order bad_index_empty = Ok e'.
Proof. vm_compute. repeat split; eauto. Qed.
