(* C02 - operator arithmetic is matrix arithmetic, whatever the grouping.
   Statements only; proofs are `exact <lemma>` (Lemmas/BuildL.v, Lemmas/Sound.v).
   The model of the dunders (Model/Algebra.v: matmul, add, sub, neg, smul, sdiv) transcribes
   AbstractLinearOperator.__matmul__/__add__/__sub__/__neg__/__rmul__/__truediv__ and the overrides
   of CompositionOperator, AdditionOperator, IdentityOperator, HomothetyOperator and
   AbstractLazyInverseOperator, shortcuts included.  `denote` is partial (None = the application
   fails); a theorem "denote c x = Some ..." therefore also says that c can be applied. *)
From Coq Require Import List Ring ZArith.
From Furax Require Import Base.Pytree Model.Op Model.Algebra Model.Denote Model.Wf
  Lemmas.DenoteL Lemmas.Sound Lemmas.BuildL.
Import ListNotations.

Section C02.
  Variable K : Type.
  Variables (k0 k1 : K) (kadd kmul ksub : K -> K -> K) (kopp : K -> K) (kinv : K -> K).
  Hypothesis Kth : ring_theory k0 k1 kadd kmul ksub kopp (@eq K).
  Variable keqb : K -> K -> bool.
  Hypothesis keqb_eq : forall a b, keqb a b = true -> a = b.
  Variable leafsem : op K -> value K -> option (value K).
  Hypothesis LF : leaf_facts K kadd kmul leafsem.
  Notation den := (denote kadd kmul leafsem).

  (* A @ B denotes the product - for operands of any class (plain, composition, sum, identity,
     scalar, lazy inverse), shortcuts included (identity absorption, scalar merging,
     A.I @ A and A @ A.I collapsing to the identity). *)
  Theorem matmul_sound : forall a b c, matmul keqb kmul a b = Ok c ->
    forall x y1 y, den b x = Some y1 -> den a y1 = Some y -> den c x = Some y.
  Proof. exact (BuildL.matmul_sound_pt K k0 k1 kadd kmul ksub kopp Kth keqb keqb_eq leafsem LF). Qed.

  (* the result has the structures of the product and is again a well-formed operator *)
  Theorem matmul_structs : forall a b c, wfo a = true -> wfo b = true -> matmul keqb kmul a b = Ok c ->
    wfo c = true /\ in_struct c = in_struct b /\ out_struct c = out_struct a.
  Proof. exact (matmul_wf K kmul keqb keqb_eq). Qed.

  (* operands whose structures do not match are rejected, never turned into an operator *)
  Theorem matmul_mismatch_rejected : forall a b,
    struct_eqb (in_struct a) (out_struct b) = false -> matmul keqb kmul a b = Err ValueError.
  Proof. exact (matmul_mismatch K kmul keqb keqb_eq). Qed.
  Theorem add_mismatch_rejected : forall a b : op K,
    struct_eqb (in_struct a) (in_struct b) = false \/ struct_eqb (out_struct a) (out_struct b) = false ->
    add a b = Err ValueError.
  Proof. exact (add_mismatch K). Qed.
  Theorem sub_mismatch_rejected : forall a b,
    struct_eqb (in_struct a) (in_struct b) = false \/ struct_eqb (out_struct a) (out_struct b) = false ->
    sub keqb k1 kmul kopp a b = Err ValueError.
  Proof. exact (sub_mismatch K k1 kmul kopp keqb). Qed.

  (* however the product is parenthesised *)
  Theorem matmul_assoc : forall a b c ab abc bc abc',
    matmul keqb kmul a b = Ok ab -> matmul keqb kmul ab c = Ok abc ->
    matmul keqb kmul b c = Ok bc -> matmul keqb kmul a bc = Ok abc' ->
    forall x y, chain kadd kmul leafsem [a; b; c] x = Some y -> den abc x = Some y /\ den abc' x = Some y.
  Proof. exact (matmul_assoc_sound K k0 k1 kadd kmul ksub kopp Kth keqb keqb_eq leafsem LF). Qed.

  (* A + B (flattening of nested sums included), A - B, -A, k * A = A * k, A / k *)
  Theorem add_sound : forall a b c : op K, add a b = Ok c ->
    forall x ya yb y, den a x = Some ya -> den b x = Some yb -> vadd kadd ya yb = Some y -> den c x = Some y.
  Proof. exact (BuildL.add_sound K k0 k1 kadd kmul ksub kopp Kth leafsem). Qed.
  Theorem add_structs : forall a b c : op K, wfo a = true -> add a b = Ok c ->
    in_struct c = in_struct a /\ out_struct c = out_struct a.
  Proof. exact (BuildL.add_structs K). Qed.
  Theorem smul_sound : forall k a c, smul keqb kmul k a = Ok c ->
    forall x y, den a x = Some y -> den c x = Some (vscale kmul k y).
  Proof. exact (BuildL.smul_sound K k0 k1 kadd kmul ksub kopp Kth keqb keqb_eq leafsem LF). Qed.
  Theorem smul_structs : forall k a c, wfo a = true -> smul keqb kmul k a = Ok c ->
    wfo c = true /\ in_struct c = in_struct a /\ out_struct c = out_struct a.
  Proof. exact (BuildL.smul_structs K kmul keqb keqb_eq). Qed.
  Theorem sdiv_sound : forall a k c, sdiv keqb kmul kinv a k = Ok c ->
    forall x y, den a x = Some y -> den c x = Some (vscale kmul (kinv k) y).
  Proof. exact (BuildL.sdiv_sound K k0 k1 kadd kmul ksub kopp kinv Kth keqb keqb_eq leafsem LF). Qed.
  Theorem neg_sound : forall a c, neg keqb k1 kmul kopp a = Ok c ->
    forall x y, den a x = Some y -> den c x = Some (vscale kmul (kopp k1) y).
  Proof. exact (BuildL.neg_sound K k0 k1 kadd kmul ksub kopp Kth keqb keqb_eq leafsem LF). Qed.
  Theorem sub_sound : forall a b c, sub keqb k1 kmul kopp a b = Ok c ->
    forall x ya yb y, den a x = Some ya -> den b x = Some yb ->
    vadd kadd ya (vscale kmul (kopp k1) yb) = Some y -> den c x = Some y.
  Proof. exact (BuildL.sub_sound K k0 k1 kadd kmul ksub kopp Kth keqb keqb_eq leafsem LF). Qed.
End C02.
Print Assumptions matmul_sound.
Print Assumptions matmul_structs.
Print Assumptions matmul_mismatch_rejected.
Print Assumptions add_mismatch_rejected.
Print Assumptions sub_mismatch_rejected.
Print Assumptions matmul_assoc.
Print Assumptions add_sound.
Print Assumptions add_structs.
Print Assumptions smul_sound.
Print Assumptions smul_structs.
Print Assumptions sdiv_sound.
Print Assumptions neg_sound.
Print Assumptions sub_sound.

(* non-vacuity: the hypotheses are met by concrete operators over Z *)
Example c02_example :
  let s := Leaf (mkSds [2] 0) in
  let h2 : op Z := Homoth 1%N 2%Z s in let h3 : op Z := Homoth 2%N 3%Z s in
  matmul Z.eqb Z.mul h2 h3 = Ok (Homoth 0%N 6%Z s) /\
  wfo (Comp 3%N [h2; Ident 4%N s]) = true /\
  matmul Z.eqb Z.mul h2 (Ident 5%N (Leaf (mkSds [3] 0))) = Err ValueError.
Proof. vm_compute. repeat split. Qed.
