(* C03 - transpose is the exact adjoint of every operator.
   Statements only; proofs are `exact <lemma>` (Lemmas/TransposeL.v, Lemmas/TransposeExecL.v).
   The model of transpose() is Model/Algebra.v `transpose` (default lazy TransposeOperator;
   TransposeOperator.transpose returning the operand; CompositionOperator reversed;
   AdditionOperator operand-wise; block row <-> column, block diagonal block-wise, over containers
   of any nesting; @symmetric classes returning self; einsum operator with rewritten subscripts;
   MoveAxis(dst, src); the three hand-written transpose classes).  <x, y> is the sum over leaves
   and elements (Model/Adjoint.v `inner`); `denote` is partial (None = the application fails), so
   "both sides defined" is part of every statement.  `adj_facts leafsem` lists what is assumed of
   LEAF operators: the operator that transpose() returns for a leaf acts as the adjoint of the leaf
   (for the generic lazy TransposeOperator this is what jax.linear_transpose provides).
   Expressions containing the iterative-solver InverseOperator are outside the property (the library
   cannot evaluate their transpose): guard `no_inverse`. *)
From Coq Require Import List Ring ZArith NArith QArith Qcanon.
From Furax Require Import Base.Pytree Model.Op Model.Algebra Model.Denote Model.Wf Model.Exec Model.Adjoint
  Lemmas.DenoteL Lemmas.TransposeL Lemmas.TransposeExecL.
Import ListNotations.

Section C03.
  Variable K : Type.
  Variables (k0 k1 : K) (kadd kmul ksub : K -> K -> K) (kopp : K -> K).
  Hypothesis Kth : ring_theory k0 k1 kadd kmul ksub kopp (@eq K).
  Variable leafsem : op K -> value K -> option (value K).
  Notation den := (denote kadd kmul leafsem).
  Notation "<< x , y >>" := (inner k0 kadd kmul x y).

  (* For every expression e of any depth (compositions, sums, block rows/columns/diagonals over any
     container, lazy wrappers) that does not contain the iterative inverse, every x and y on which
     both sides are defined:  <e x, y> = <x, e.T y>. *)
  Theorem transpose_adjoint : adj_facts k0 kadd kmul leafsem ->
    forall e, no_inverse e = true ->
    forall x y ex ety, den e x = Some ex -> den (transpose e) y = Some ety -> << ex, y >> = << x, ety >>.
  Proof. exact (fun AF e G => transpose_adjoint_l K k0 k1 kadd kmul ksub kopp Kth leafsem AF e G). Qed.

  (* ... hence also <e.T y, x> = <y, e.T.T x>: the guard is stable under transposition *)
  Theorem transpose_in_domain : forall e : op K, no_inverse e = true -> no_inverse (transpose e) = true.
  Proof. exact (transpose_no_inverse_l K). Qed.

  (* the closure lemmas used by the induction, for arbitrary partial maps *)
  Theorem adjoint_of_composition : forall f f' g g',
    adjoint k0 kadd kmul f f' -> adjoint k0 kadd kmul g g' ->
    adjoint k0 kadd kmul (fun x => obind (g x) f) (fun y => obind (f' y) g').
  Proof. exact (adjoint_comp K k0 kadd kmul). Qed.
  Theorem adjoint_symmetric : forall f g, adjoint k0 kadd kmul f g -> adjoint k0 kadd kmul g f.
  Proof. exact (adjoint_sym K k0 k1 kadd kmul ksub kopp Kth). Qed.
  (* the inner product splits along any container prefix (block operators over nested containers) *)
  Theorem inner_splits : forall td a b xs ys,
    split_prefix td a = Some xs -> split_prefix td b = Some ys -> << a, b >> = inners k0 kadd kmul xs ys.
  Proof. exact (inner_split K k0 k1 kadd kmul ksub kopp Kth). Qed.

  (* input and output structures are swapped *)
  Theorem transpose_structs : forall e : op K, wfo e = true -> sym_square e = true ->
    in_struct (transpose e) = out_struct e /\ out_struct (transpose e) = in_struct e.
  Proof.
    exact (fun e W S => match transpose_structs_l K e W S in (_ = p)
                              return (fst (structs (transpose e)) = fst p /\ snd (structs (transpose e)) = snd p)
                        with eq_refl => conj eq_refl eq_refl end).
  Qed.

  (* ... and the transpose is again a well-formed operator (chain-compatible operands in the reversed
     composition, equal structures in the transposed sum, validated block containers) *)
  Theorem transpose_well_formed : forall e : op K, wfo e = true -> sym_square e = true -> wfo (transpose e) = true.
  Proof. exact (transpose_wf_l K). Qed.

  (* A.T.T denotes A (wrappers as .T creates them; re-created objects act through their data) *)
  Theorem transpose_involutive : oid_facts leafsem ->
    forall e, canonical e = true -> forall x, den (transpose (transpose e)) x = den e x.
  Proof. exact (fun OF e C => transpose_involutive_l K kadd kmul leafsem OF e C). Qed.

  (* where the code returns an existing object: X.T is X.operator, x.T.T is x, S.T is S *)
  Theorem transpose_of_lazy_is_operand : forall i w (x : op K), lazyT w = true -> transpose (Wrap i w x) = x.
  Proof. exact (transpose_wrap_operand K). Qed.
  Theorem lazy_transpose_twice_is_self : forall i c si so p w,
    transpose (Prim i c si so p : op K) = Wrap fresh w (Prim i c si so p) ->
    transpose (transpose (Prim i c si so p : op K)) = Prim i c si so p.
  Proof. exact (transpose_lazy_involutive K). Qed.
  Theorem symmetric_returns_self : forall i c si so p, returns_self_on_transpose c = true ->
    transpose (Prim i c si so p : op K) = Prim i c si so p.
  Proof. exact (transpose_symmetric_self K). Qed.
  Theorem composition_reversed : forall i (l : list (op K)), transpose (Comp i l) = Comp fresh (rev (map (@transpose K) l)).
  Proof. exact (transpose_comp K). Qed.
  Theorem sum_operandwise : forall i (l : list (op K)), transpose (AddOp i l) = AddOp fresh (map (@transpose K) l).
  Proof. exact (transpose_add K). Qed.
  Theorem block_row_column_swapped : forall i b td (l : list (op K)),
    transpose (Block i b td l) =
    Block fresh (match b with BRow => BCol | BDiag => BDiag | BCol => BRow end) td (map (@transpose K) l).
  Proof. exact (transpose_block K). Qed.

  (* outside the property: the transpose of the iterative inverse is a lazy TransposeOperator the
     library cannot apply; such expressions fail the guard, before and after transposition *)
  Theorem inverse_transpose_excluded : forall i (x : op K),
    transpose (Wrap i WInverse x) = Wrap fresh WTranspose (Wrap i WInverse x) /\
    no_inverse (Wrap i WInverse x) = false /\ no_inverse (transpose (Wrap i WInverse x)) = false.
  Proof. exact (transpose_inverse_unsupported K). Qed.
End C03.

(* ---------- second stage: the assumptions are met by the executable semantics ---------- *)
(* The table-free executable leaf semantics of Model/Exec.v (QU rotation and its hand-written
   transpose, half-wave plate, 1-d diagonal; identity and scalars are constructors) satisfies ALL the
   leaf facts, so for every expression over those classes transposition is the exact adjoint with
   no assumption left. *)
Theorem exec_leaf_facts : adj_facts k0 Qcplus Qcmult (leafsem []).
Proof. exact exec_adj_facts_empty. Qed.
Theorem exec_transpose_is_adjoint : forall e : xop, no_inverse e = true ->
  forall x y ex ety, den [] e x = Some ex -> den [] (x_transpose e) y = Some ety -> xinner ex y = xinner x ety.
Proof. exact exec_transpose_adjoint. Qed.
Theorem exec_identity_facts : oid_facts (leafsem []).
Proof. exact exec_oid_facts_empty. Qed.
(* table-backed leaves: the matrix the model gives to a lazy transpose created by transpose()
   (Model/Exec.v `transpose_m`) is the adjoint of the measured matrix: <M x, y> = <x, M^T y> *)
Theorem table_transpose_is_adjoint : forall n (m : matrix) x y,
  Forall (fun r => List.length r = n) m -> List.length x = n ->
  dot (matvec m x) y = dot x (matvec (transpose_m m n) y).
Proof. exact matvec_transpose_adjoint. Qed.
(* ... lifted through flatten/unflatten: a leaf acting through a table matrix m (rows of the input size,
   as many rows as the output size) and a leaf acting through transpose_m m are adjoint on pytrees *)
Theorem table_leaf_transpose_is_adjoint : forall m si so x y fx gy, matrix_ok si so m ->
  apply_matrix m si so x = Some fx -> apply_matrix (transpose_m m (struct_size si)) so si y = Some gy ->
  xinner fx y = xinner x gy.
Proof. exact apply_matrix_adjoint. Qed.
(* ... hence the generic lazy transposes (TransposeOperator, ReshapeTransposeOperator,
   ToastObservationMatrixTransposeOperator) that transpose() creates around a primitive which acts
   through a measured matrix are adjoint to it in the executable model, for any table *)
Theorem fresh_lazy_transpose_is_adjoint : forall tb w j c si so p m,
  (w = WTranspose \/ w = WReshapeT \/ w = WObsT) ->
  lookup tb (wrap_key j p) = Some m ->
  matrix_ok (in_struct (Prim j c si so p : xop)) (out_struct (Prim j c si so p : xop)) m ->
  (forall x, leafsem tb (Prim j c si so p) x =
             apply_matrix m (in_struct (Prim j c si so p : xop)) (out_struct (Prim j c si so p : xop)) x) ->
  adjoint k0 Qcplus Qcmult (leafsem tb (Prim j c si so p)) (leafsem tb (Wrap fresh w (Prim j c si so p))).
Proof. exact exec_fresh_lazy_transpose_adjoint. Qed.
Print Assumptions transpose_adjoint.
Print Assumptions transpose_in_domain.
Print Assumptions adjoint_of_composition.
Print Assumptions adjoint_symmetric.
Print Assumptions inner_splits.
Print Assumptions transpose_structs.
Print Assumptions transpose_well_formed.
Print Assumptions transpose_involutive.
Print Assumptions transpose_of_lazy_is_operand.
Print Assumptions lazy_transpose_twice_is_self.
Print Assumptions symmetric_returns_self.
Print Assumptions composition_reversed.
Print Assumptions sum_operandwise.
Print Assumptions block_row_column_swapped.
Print Assumptions inverse_transpose_excluded.
Print Assumptions exec_leaf_facts.
Print Assumptions exec_transpose_is_adjoint.
Print Assumptions exec_identity_facts.
Print Assumptions table_transpose_is_adjoint.
Print Assumptions table_leaf_transpose_is_adjoint.
Print Assumptions fresh_lazy_transpose_is_adjoint.

(* non-vacuity: a block-diagonal of (rotation @ half-wave plate) and a scaled rotation, over Qc: both
   sides of the adjoint identity are defined, equal and non-zero; the guard, well-formedness and the
   structure swap hold; an expression with the iterative inverse fails the guard *)
Example c03_example :
  let l2 := Leaf (mkSds [2%nat] 0%nat) in let s := Node (KStokes 3%nat) [l2; l2; l2] in
  let r : xop := Prim 1%N CQURotation s s (PAngles [1%Q; 2%Q]) in
  let h : xop := Prim 2%N CHWP s s PNone in
  let e : xop := Block 5%N BDiag (Node KList [Leaf tt; Leaf tt]) [Comp 3%N [r; h]; Comp 4%N [Homoth 6%N (Q2Qc 3%Q) s; r]] in
  let q (n : Z) : K := Q2Qc (inject_Z n) in
  let v a b c d f g := Node (KStokes 3%nat) [Leaf [q a; q b]; Leaf [q c; q d]; Leaf [q f; q g]] in
  let x := Node KList [v 1 2 3 4 5 6; v 0 1 (-1) 2 3 1]%Z in
  let y := Node KList [v 2 0 1 1 (-3) 2; v 1 1 0 5 2 (-2)]%Z in
  no_inverse e = true /\ wfo e = true /\ sym_square e = true /\ canonical e = true /\
  structs (x_transpose e) = swap (structs e) /\ wfo (x_transpose e) = true /\
  match den [] e x, den [] (x_transpose e) y with
  | Some ex, Some ety => Qc_eq_bool (xinner ex y) (xinner x ety) && negb (Qc_eq_bool (xinner ex y) k0)
  | _, _ => false
  end = true /\
  no_inverse (Wrap 7%N WInverse r) = false.
Proof. vm_compute. repeat split. Qed.

(* non-vacuity of the REVERSED order of a transposed composition: a symmetric band Toeplitz operator (K = 2,
   acting through its measured matrix) and a diagonal operator with distinct entries are their own transposes,
   but they do not commute: the model of (T @ D).T is D @ T - not T @ D - and its matrix (given by columns) is
   the transpose of, and differs from, the matrix of T @ D *)
Example c03_symmetric_operands_do_not_commute :
  let s := Leaf (mkSds [3%nat] 0%nat) in
  let q (n : Z) : K := Q2Qc (inject_Z n) in
  let tb : table := [(2%N, [[q 2; q 1; q 0]; [q 1; q 2; q 1]; [q 0; q 1; q 2]]%Z)] in
  let t : xop := Prim 1%N CToeplitz s s (PKey 2%N) in
  let d : xop := Prim 2%N CDiagonal s s (PDiag 0%Z [1%Q; 2%Q; (-4)%Q]) in
  let e : xop := Comp 3%N [t; d] in
  let cols (l : list (list Z)) := Some (map (map (fun z => (z, 1%Z))) l) in
  x_transpose t = t /\ x_transpose d = d /\ x_transpose e = Comp fresh [d; t] /\
  no_inverse e = true /\ wfo e = true /\ sym_square e = true /\
  mat tb e = cols [[2; 1; 0]; [2; 4; 2]; [0; -4; -8]]%Z /\
  mat tb (x_transpose e) = cols [[2; 2; 0]; [1; 4; -4]; [0; 2; -8]]%Z.
Proof. vm_compute. repeat split. Qed.
