(* C03 - matrix form: the dense matrix of e.T is the transpose of the dense matrix of e, for the executable
   model over Qc that the correspondence harness runs, for an ARBITRARY table of measured matrices.
   Statements only; proofs are `exact <lemma>` (Lemmas/TransposeMatL.v).

   `Exec.mat tb e` (Model/Exec.v) is the matrix the harness compares: the list of its COLUMNS (column j is the
   flattened image of the j-th basis vector of the flattened input), entries printed as (numerator,
   denominator); `None` when the model gives e no action on some basis vector.  `ltrans d n m` is the
   transposition of a list of lists whose inner lists have length n: entry j of inner list i of the result is
   entry i of inner list j of m (on such arguments it is the model's own Exec.transpose_m:
   `ltrans_is_transpose_m`).  So `mat (e.T) = ltrans _ (out_size e) (mat e)` says: the columns of the matrix of
   e.T are the rows of the matrix of e.

   Hypotheses kept, all decidable and evaluated by vm_compute on the encoded expression and table:
     wfo e            the constructors' guarantees (Model/Wf.v);
     sym_square e     classes whose transpose() returns self declare equal structures (Model/Adjoint.v);
                      needed for "input and output structures are swapped";
     table_okb tb e   the measured matrices have the declared dimensions and the matrix stored for a lazy wrapper
                      is consistent with its operand (Lemmas/ExecFactsL.v);
     transpose_okb tb e   for every LEAF of e, the check under which Props/ExecFacts.v proves that the operator
                      transpose() returns for that leaf acts as its adjoint: measured matrix of a self-transposing
                      class symmetric (sym_leaf_okb), matrix under the adjoint key of an einsum operator
                      transposed (dense_okb), lazy transposes created by transpose() resolve to the matrix through
                      which the wrapped primitive acts (fresh_okb), DiagonalInverse symmetric (dinv_okb), a QU
                      rotation acts through its closed form (no measured matrix stored for it).  An explicit lazy
                      TransposeOperator with a measured matrix may wrap ANY expression (its consistency with the
                      operand is part of table_okb).  The table is arbitrary, so a condition on it is unavoidable:
                      `matrix_form_needs_the_table_check` below.
   "Both sides defined" is part of the statement, as everywhere in C03: the model gives no action to the lazy
   transpose of the iterative inverse (outside C03), nor - under `Exec.leafsem` - to the MoveAxisOperator that
   transpose() re-creates (object id 0: `moveaxis_transpose_has_no_matrix_under_leafsem`); the C03 harness
   therefore evaluates e.T with Adjoint.leafsemT / matT / observeT, which look such operators up by their
   parameters in a second table `pt`: the `harness_*` theorems are the same statements for that semantics,
   not vacuous for move-axis operators. *)
From Coq Require Import List Bool Arith NArith ZArith QArith Qcanon.
From Furax Require Import Base.Pytree Model.Op Model.Algebra Model.Denote Model.Wf Model.Exec Model.Structs
  Model.Adjoint Lemmas.StructsL Lemmas.TransposeL Lemmas.TransposeExecL Lemmas.ExecFactsL Lemmas.TransposeMatL.
Import ListNotations.
Local Close Scope Q_scope.
Local Close Scope Qc_scope.
Local Open Scope nat_scope.

(* ---------------- the matrix form for Exec.mat ---------------- *)
(* the dense matrix of e.T is the transpose of the dense matrix of e *)
Theorem exec_transpose_matrix : forall tb (e : xop),
  wfo e = true -> sym_square e = true -> table_okb tb e = true -> transpose_okb tb e = true ->
  forall A B, Exec.mat tb e = Some A -> Exec.mat tb (x_transpose e) = Some B ->
  B = ltrans zero_pair (out_size e) A.
Proof. exact exec_transpose_matrix_l. Qed.
(* equational form: whenever the model gives e.T a matrix at all *)
Theorem exec_transpose_matrix_eq : forall tb (e : xop),
  wfo e = true -> sym_square e = true -> table_okb tb e = true -> transpose_okb tb e = true ->
  forall A, Exec.mat tb e = Some A -> isNone (Exec.mat tb (x_transpose e)) = false ->
  Exec.mat tb (x_transpose e) = Some (ltrans zero_pair (out_size e) A).
Proof. exact exec_transpose_matrix_eq_l. Qed.
(* before printing (entries in Qc), with the model's own transposition of a table matrix *)
Theorem exec_transpose_matrix_Qc : forall tb (e : xop),
  wfo e = true -> sym_square e = true -> table_okb tb e = true -> transpose_okb tb e = true ->
  forall A B, matK (leafsem tb) e = Some A -> matK (leafsem tb) (x_transpose e) = Some B ->
  B = transpose_m A (out_size e).
Proof. exact exec_transpose_matrixK_m. Qed.
Theorem mat_prints_matK : forall tb (e : xop), Exec.mat tb e = option_map pr (matK (leafsem tb) e).
Proof. exact mat_matK. Qed.
(* A.T.T has the matrix of A *)
Theorem exec_transpose_involutive_matrix : forall tb (e : xop),
  wfo e = true -> sym_square e = true -> table_okb tb e = true -> transpose_okb tb e = true ->
  transpose_okb tb (x_transpose e) = true ->
  forall A B C, Exec.mat tb e = Some A -> Exec.mat tb (x_transpose e) = Some B ->
    Exec.mat tb (x_transpose (x_transpose e)) = Some C -> C = A.
Proof. exact exec_transpose_involutive_matrix_l. Qed.
(* at the level of the observations the harness compares: structures swapped, matrix transposed *)
Theorem exec_transpose_observe : forall tb (e : xop),
  wfo e = true -> sym_square e = true -> table_okb tb e = true -> transpose_okb tb e = true ->
  forall s si so A s' si' so' B,
    observe tb (Ok e) = OOk s si so (Some A) -> observe tb (Ok (x_transpose e)) = OOk s' si' so' (Some B) ->
    si' = so /\ so' = si /\ B = ltrans zero_pair (out_size e) A.
Proof. exact exec_transpose_observe_l. Qed.

(* ---------------- the same for the semantics of the C03 harness (leafsemT / matT / observeT) ---------------- *)
Theorem harness_transpose_matrix : forall tb pt (e : xop),
  wfo e = true -> sym_square e = true -> table_okb tb e = true -> ptable_okb pt e = true ->
  transposeT_okb tb pt e = true ->
  forall A B, matT tb pt e = Some A -> matT tb pt (x_transpose e) = Some B -> B = ltrans zero_pair (out_size e) A.
Proof. exact execT_transpose_matrix_l. Qed.
Theorem harness_transpose_involutive_matrix : forall tb pt (e : xop),
  wfo e = true -> sym_square e = true -> table_okb tb e = true -> ptable_okb pt e = true ->
  transposeT_okb tb pt e = true -> transposeT_okb tb pt (x_transpose e) = true ->
  forall A B C, matT tb pt e = Some A -> matT tb pt (x_transpose e) = Some B ->
    matT tb pt (x_transpose (x_transpose e)) = Some C -> C = A.
Proof. exact execT_transpose_involutive_matrix_l. Qed.
Theorem harness_transpose_observe : forall tb pt (e : xop),
  wfo e = true -> sym_square e = true -> table_okb tb e = true -> ptable_okb pt e = true ->
  transposeT_okb tb pt e = true ->
  forall s si so A s' si' so' B,
    observeT tb pt e = OOk s si so (Some A) -> observeT tb pt (x_transpose e) = OOk s' si' so' (Some B) ->
    si' = so /\ so' = si /\ B = ltrans zero_pair (out_size e) A.
Proof. exact execT_transpose_observe_l. Qed.
(* the harness condition implies the plain one *)
Theorem harness_check_implies_plain : forall tb pt (e : xop), transposeT_okb tb pt e = true -> transpose_okb tb e = true.
Proof. exact transposeT_weaken. Qed.

(* ---------------- how it is obtained ---------------- *)
(* (1) for ANY leaf semantics: an expression is adjoint to its transpose as soon as each of its leaves is
       (the induction of transpose_adjoint relativised to the leaves that occur) ... *)
Theorem leaf_adjointness_suffices : forall (ls : xop -> xvalue -> option xvalue) (e : xop),
  Forall (adjT K k0 Qcplus Qcmult ls) (leaves e) -> adjT K k0 Qcplus Qcmult ls e.
Proof. exact adj_from_leaves. Qed.
(* ... and the same for the adjoint identity on values of the declared structures only (`adjS`: what a lazy
   transpose around a composite operand satisfies), for well-formed expressions whose leaves - and those of
   the transpose - return values of their declared output structures (`pre`) *)
Theorem structured_leaf_adjointness_suffices : forall (ls : xop -> xvalue -> option xvalue) (e : xop),
  wfo e = true -> sym_square e = true ->
  Forall (leaf_honest K ls) (leaves e) -> Forall (leaf_honest K ls) (leaves (x_transpose e)) ->
  Forall (adjS ls) (leaves e) -> adjS ls e.
Proof. exact (fun ls e W S H1 H2 H3 => adjS_from_leaves ls e (conj W (conj S (conj H1 (conj H2 H3))))). Qed.
Theorem adjS_is_adjoint_on_structured_values : forall (ls : xop -> xvalue -> option xvalue) (e : xop),
  adjS ls e <->
  (forall x y fx gy, has_struct x (in_struct e) = true -> has_struct y (out_struct e) = true ->
     denote Qcplus Qcmult ls e x = Some fx -> denote Qcplus Qcmult ls (x_transpose e) y = Some gy ->
     xinner fx y = xinner x gy).
Proof. exact (fun ls e => conj (fun H => H) (fun H => H)). Qed.
(* (2) for ANY leaf semantics: the adjoint identity at the basis vectors is the matrix form, given swapped
       structures and outputs of the declared structures *)
Theorem matrix_form_from_adjointness : forall (ls : xop -> xvalue -> option xvalue) (e : xop),
  adjS ls e -> swapped K e ->
  (forall x y, has_struct x (in_struct e) = true -> denote Qcplus Qcmult ls e x = Some y ->
     has_struct y (out_struct e) = true) ->
  (forall x y, has_struct x (in_struct (x_transpose e)) = true -> denote Qcplus Qcmult ls (x_transpose e) x = Some y ->
     has_struct y (out_struct (x_transpose e)) = true) ->
  forall A B, matK ls e = Some A -> matK ls (x_transpose e) = Some B -> B = ltrans k0 (out_size e) A.
Proof. exact transpose_matrix_generic. Qed.
(* (3) the leaf facts for Exec.leafsem tb from the checks; the table check is stable under transposition *)
Theorem checked_leaves_are_adjoint : forall tb (e : xop),
  wfo e = true -> sym_square e = true -> table_okb tb e = true -> transpose_okb tb e = true -> adjS (leafsem tb) e.
Proof. exact transpose_okb_adj. Qed.
Theorem table_check_stable_under_transpose : forall tb (e : xop),
  table_okb tb e = true -> transpose_okb tb e = true -> table_okb tb (x_transpose e) = true.
Proof. exact table_okb_transpose. Qed.
(* the transposition used in the statements *)
Theorem ltrans_is_transpose_m : forall n (m : matrix),
  Forall (fun r => List.length r = n) m -> transpose_m m n = ltrans k0 n m.
Proof. exact transpose_m_ltrans. Qed.
Theorem ltrans_twice : forall (A : Type) (d : A) n (m : list (list A)),
  Forall (fun c => List.length c = n) m -> ltrans d (List.length m) (ltrans d n m) = m.
Proof. exact ltrans_involutive. Qed.

Print Assumptions exec_transpose_matrix.
Print Assumptions exec_transpose_matrix_eq.
Print Assumptions exec_transpose_matrix_Qc.
Print Assumptions mat_prints_matK.
Print Assumptions exec_transpose_involutive_matrix.
Print Assumptions exec_transpose_observe.
Print Assumptions harness_transpose_matrix.
Print Assumptions harness_transpose_involutive_matrix.
Print Assumptions harness_transpose_observe.
Print Assumptions harness_check_implies_plain.
Print Assumptions leaf_adjointness_suffices.
Print Assumptions structured_leaf_adjointness_suffices.
Print Assumptions adjS_is_adjoint_on_structured_values.
Print Assumptions matrix_form_from_adjointness.
Print Assumptions checked_leaves_are_adjoint.
Print Assumptions table_check_stable_under_transpose.
Print Assumptions ltrans_is_transpose_m.
Print Assumptions ltrans_twice.

(* ---------------- non-vacuity ---------------- *)
Definition qz (n : Z) : K := Q2Qc (inject_Z n).
Definition s2 : struct := Leaf (mkSds [2] 0).
Definition s3 : struct := Leaf (mkSds [3] 0).
(* a measured table: an opaque user operator A : 3 -> 2 (object 1), an einsum operator D : 2 -> 3 (object 2, its
   matrix under key 4 and the matrix of the re-created D.T under the adjoint key 5), a symmetric band Toeplitz
   operator on 3 (object 3) *)
Definition tbM : table :=
  [ (2%N, [[qz 1; qz 2; qz 3]; [qz 0; qz (-1); qz 4]]);
    (4%N, [[qz 2; qz 1]; [qz 0; qz 5]; [qz 7; qz (-2)]]);
    (5%N, [[qz 2; qz 0; qz 7]; [qz 1; qz 5; qz (-2)]]);
    (6%N, [[qz 2; qz 1; qz 0]; [qz 1; qz 2; qz 1]; [qz 0; qz 1; qz 2]]) ].
Definition opA : xop := Prim 1 CAtom s3 s2 (PKey 2).
Definition opD : xop := Prim 2 CDense s2 s3 (PKey 4).
Definition opT : xop := Prim 3 CToeplitz s3 s3 (PKey 6).
Definition opG : xop := Prim 4 CDiagonal s2 s2 (PDiag 0 [1%Q; (-3)%Q]).
(* G @ A @ T @ D @ 3I, summed with A @ D, in a block row with A, in a block diagonal with a block column *)
Definition exC : xop := Comp 10 [opG; opA; opT; opD; Homoth 11 (qz 3) s2].
Definition exS : xop := AddOp 12 [exC; Comp 13 [opA; opD]].
Definition exR : xop := Block 14 BRow (Node KList [Leaf tt; Leaf tt]) [exS; opA].
Definition exL : xop := Block 15 BCol (Node KList [Leaf tt; Leaf tt]) [exS; opD].
Definition exB : xop := Block 16 BDiag (Node KList [Leaf tt; Leaf tt]) [exR; exL].
Definition pz (l : list (list Z)) : list (list (Z * Z)) := map (map (fun z => (z, 1%Z))) l.

(* the hypotheses hold of the block operator and of its transpose ... *)
Example matrix_form_hypotheses_hold :
  wfo exB = true /\ sym_square exB = true /\ table_okb tbM exB = true /\ transpose_okb tbM exB = true /\
  transpose_okb tbM (x_transpose exB) = true.
Proof. vm_compute. repeat split; reflexivity. Qed.
(* ... the three matrices are defined, so the theorems apply: *)
Example matrix_form_applies : forall A B C,
  Exec.mat tbM exB = Some A -> Exec.mat tbM (x_transpose exB) = Some B ->
  Exec.mat tbM (x_transpose (x_transpose exB)) = Some C ->
  B = ltrans zero_pair (out_size exB) A /\ C = A.
Proof.
  intros A B C HA HB HC. split.
  - apply (exec_transpose_matrix tbM exB); try (vm_compute; reflexivity); assumption.
  - apply (exec_transpose_involutive_matrix tbM exB) with (B := B); try (vm_compute; reflexivity); assumption.
Qed.
(* ... and this is what they say on the block row R = [S, A] (2 x 5): the 5 columns of R, the 2 columns of R.T
   (the rows of R), not symmetric, not trivial *)
Example matrix_form_values :
  Exec.mat tbM exR = Some (pz [[215; -395]; [89; 32]; [1; 0]; [2; -1]; [3; 4]]%Z) /\
  Exec.mat tbM (x_transpose exR) = Some (pz [[215; 89; 1; 2; 3]; [-395; 32; 0; -1; 4]]%Z) /\
  ltrans zero_pair (out_size exR) (pz [[215; -395]; [89; 32]; [1; 0]; [2; -1]; [3; 4]]%Z) =
    pz [[215; 89; 1; 2; 3]; [-395; 32; 0; -1; 4]]%Z /\
  isNone (Exec.mat tbM exB) = false /\ isNone (Exec.mat tbM (x_transpose exB)) = false /\
  isNone (Exec.mat tbM (x_transpose (x_transpose exB))) = false.
Proof. vm_compute. repeat split; reflexivity. Qed.

(* an explicit lazy TransposeOperator (object 30, with its measured matrix under key 60) around the COMPOSITE
   S = G A T D 3I + A D, inside a composition: the hypotheses hold, the matrices are defined and transposed *)
Definition tbL : table := tbM ++ [ (60%N, [[qz 215; qz (-395)]; [qz 89; qz 32]]) ].
Definition exLT : xop := Comp 31 [opA; opT; opD; Wrap 30 WTranspose exS].
Example lazy_transpose_of_composite :
  wfo exLT = true /\ sym_square exLT = true /\ table_okb tbL exLT = true /\ transpose_okb tbL exLT = true /\
  Exec.mat tbL exLT = Some (pz [[16252; 9660]; [-24384; -18725]]%Z) /\
  Exec.mat tbL (x_transpose exLT) = Some (pz [[16252; -24384]; [9660; -18725]]%Z).
Proof. vm_compute. repeat split; reflexivity. Qed.

(* the check on the table is NEEDED: with a non-symmetric matrix measured for the (self-transposing) Toeplitz
   class every other hypothesis holds, transpose_okb fails, and the conclusion is false *)
Definition tbBad : table := [ (6%N, [[qz 2; qz 1; qz 0]; [qz 5; qz 2; qz 1]; [qz 0; qz 1; qz 2]]) ].
Example matrix_form_needs_the_table_check :
  wfo opT = true /\ sym_square opT = true /\ table_okb tbBad opT = true /\ transpose_okb tbBad opT = false /\
  match Exec.mat tbBad opT, Exec.mat tbBad (x_transpose opT) with
  | Some A, Some B => negb (list_eqb (list_eqb (fun p q => (fst p =? fst q)%Z && (snd p =? snd q)%Z)) B
                              (ltrans zero_pair (out_size opT) A))
  | _, _ => false
  end = true.
Proof. vm_compute. repeat split; reflexivity. Qed.

(* MoveAxisOperator: transpose() re-creates MoveAxis(dst, src) (object id 0).  Under Exec.leafsem it has no
   action, so Exec.mat gives None for the transpose (the matrix theorem is vacuous there); under the harness
   semantics leafsemT, with the matrix measured on the real `.T` in the parameter table, all hypotheses hold and
   the 6 x 6 permutation matrix is transposed *)
Definition s23 : struct := Leaf (mkSds [2; 3] 0).
Definition s32 : struct := Leaf (mkSds [3; 2] 0).
Definition opM : xop := Prim 5 CMoveAxis s23 s32 (PAxes [0%Z] [1%Z]).
Definition perm (rows : list nat) : matrix := map (fun c => map (fun j => if Nat.eqb j c then k1 else k0) (seq 0 6)) rows.
Definition tbMv : table := [ (10%N, perm [0; 3; 1; 4; 2; 5]) ].
Definition ptMv : ptable := [ (PAxes [1%Z] [0%Z], s32, perm [0; 2; 4; 1; 3; 5]) ].
Definition exM : xop := Comp 20 [Homoth 21 (qz 2) s32; opM].
Example moveaxis_transpose_has_no_matrix_under_leafsem :
  isNone (Exec.mat tbMv exM) = false /\ Exec.mat tbMv (x_transpose exM) = None.
Proof. vm_compute. split; reflexivity. Qed.
Example moveaxis_harness_hypotheses_hold :
  wfo exM = true /\ sym_square exM = true /\ table_okb tbMv exM = true /\ ptable_okb ptMv exM = true /\
  transposeT_okb tbMv ptMv exM = true /\
  isNone (matT tbMv ptMv exM) = false /\ isNone (matT tbMv ptMv (x_transpose exM)) = false /\
  matT tbMv ptMv (x_transpose exM) = option_map (ltrans zero_pair (out_size exM)) (matT tbMv ptMv exM) /\
  negb (match matT tbMv ptMv exM, matT tbMv ptMv (x_transpose exM) with
        | Some A, Some B => list_eqb (list_eqb (fun p q => (fst p =? fst q)%Z && (snd p =? snd q)%Z)) A B
        | _, _ => true end) = true.
Proof. vm_compute. repeat split; reflexivity. Qed.
Example moveaxis_harness_theorem_applies : forall A B,
  matT tbMv ptMv exM = Some A -> matT tbMv ptMv (x_transpose exM) = Some B -> B = ltrans zero_pair (out_size exM) A.
Proof. apply (harness_transpose_matrix tbMv ptMv exM); vm_compute; reflexivity. Qed.
