(* C04 - application is linear and as_matrix() is its faithful dense form.  (work in progress) *)
From Coq Require Import List Ring ZArith.
From Furax Require Import Base.Pytree Model.Op Model.Algebra Model.Denote Model.Wf Model.AsMatrix
  Lemmas.DenoteL Lemmas.Sound Lemmas.AsMatrixL.
Import ListNotations.

Example c04_eye : m_cols (eye Z 0%Z 1%Z 2) = [[1%Z; 0%Z]; [0%Z; 1%Z]].
Proof. reflexivity. Qed.
