(* C04 - application is linear and as_matrix() is its faithful dense form.
   Statements only; proofs are `exact <lemma>` (Lemmas/AsMatrixL.v).
   Model: Model/Denote.v (`denote`: what mv does, over pytrees of flat row-major leaves),
   Model/AsMatrix.v (`as_matrix_generic`: the fori_loop of AbstractLinearOperator.as_matrix with its
   jcounter; `generic_columns`: column j = flattened image of the j-th basis vector; `as_matrix`: every
   override).  `lin_facts leafsem`: the leaf operators (primitives, opaque user operators, lazy wrappers)
   are additive and homogeneous - the composite statements are proved for ALL expression trees. *)
From Coq Require Import List Ring ZArith String.
From Furax Require Import Base.Pytree Model.Op Model.Algebra Model.Denote Model.Wf Model.AsMatrix
  Lemmas.DenoteL Lemmas.Sound Lemmas.AsMatrixL Lemmas.StructsL Lemmas.AsMatrixExecL Lemmas.AsMatrixLoopL.
From FuraxGen Require Import Tables.
Import ListNotations.

(* T-tie (FuraxGen.Tables is regenerated from the imported furax package on every run by
   tools/translate/tables.py: for every operator class, the definition of as_matrix Python's method
   resolution finds): every class resolves as_matrix to the definition the model's `as_matrix` dispatches
   to (Lemmas/AsMatrixL.v am_of_cls / am_owner).  A new override (say on the lazy TransposeOperator), a
   removed or a moved one breaks this theorem (and Props/Tables.v method_resolution_unchanged) at once;
   the oracle of the harness then looks for the input on which the dense forms differ. *)
Theorem as_matrix_resolution_as_modelled : am_resolution_ok gen_method_names gen_methods = true.
Proof. vm_compute. reflexivity. Qed.

Section C04.
  Variable K : Type.
  Variables (k0 k1 : K) (kadd kmul ksub : K -> K -> K) (kopp : K -> K).
  Hypothesis Kth : ring_theory k0 k1 kadd kmul ksub kopp (@eq K).
  Variable leafsem : op K -> value K -> option (value K).
  Hypothesis LA : lin_facts K kadd kmul leafsem.
  Notation den := (denote kadd kmul leafsem).

  (* op(k x) = k op(x): for every expression tree, every scalar, every input (None = None when the
     application fails) *)
  Theorem denote_homogeneous : forall e k x, den e (vscale kmul k x) = option_map (vscale kmul k) (den e x).
  Proof. exact (denote_hom' K k0 k1 kadd kmul ksub kopp Kth leafsem LA). Qed.

  (* op(x + y) = op(x) + op(y) whenever op applies to x and to y (then it applies to x + y) *)
  Theorem denote_additive : forall e x y z x' y', vadd kadd x y = Some z ->
    den e x = Some x' -> den e y = Some y' ->
    exists z', vadd kadd x' y' = Some z' /\ den e z = Some z'.
  Proof. exact (AsMatrixL.denote_additive K k0 k1 kadd kmul ksub kopp Kth leafsem LA). Qed.

  (* op(a x + b y) = a op(x) + b op(y) *)
  Theorem denote_linear : forall e a b x y x' y' z, den e x = Some x' -> den e y = Some y' ->
    vadd kadd (vscale kmul a x) (vscale kmul b y) = Some z ->
    exists z', vadd kadd (vscale kmul a x') (vscale kmul b y') = Some z' /\ den e z = Some z'.
  Proof. exact (denote_linear_l K k0 k1 kadd kmul ksub kopp Kth leafsem LA). Qed.

  (* op(x) = M flat(x) for the matrix M whose j-th column is the flattened image of the j-th basis
     vector of the flattened input (leaves in pytree order, each row-major; rows likewise), for every
     pytree layout of input and output.  `honest e`: the declared output size is the size of what the
     operator returns (C05).
     FULL statement: apply_is_matvec below - the same with `as_matrix_generic e = Some M` (the transcribed
     fori_loop with jcounter and basis_input) instead of `generic_columns e = Some cols`; the step
     `as_matrix_generic e = option_map (mkMat (out_size e)) (generic_columns e)` is generic_loop_is_columns
     (also checked by the correspondence on every case: x_generic vs Exec.mat vs the real generic as_matrix). *)
  Theorem apply_is_matvec_partial : forall e cols, honest K kadd kmul leafsem e ->
    generic_columns K k0 k1 kadd kmul leafsem e = Some cols ->
    forall x y, vhas K x (in_struct e) = true -> den e x = Some y ->
    vflat K y = matvec K k0 kadd kmul (mkMat (out_size e) cols) (vflat K x).
  Proof. exact (columns_matvec K k0 k1 kadd kmul ksub kopp Kth leafsem LA). Qed.

  (* LOOP, proved (Lemmas/AsMatrixLoopL.v): the transcribed fori_loop of AbstractLinearOperator.as_matrix
     (per input leaf: zeros = in_leaves_ref.copy(); zeros[ileaf] = leaf.ravel().at[index].set(1); unflatten;
     mv; matrix.at[:, jcounter].set(...); jcounter += 1) builds exactly the matrix whose j-th column is the
     flattened image of the j-th basis vector of the flattened input.  NO premise: every operator term, every
     pytree structure (empty leaves / containers included), every leaf semantics; undefined on one side
     iff undefined on the other. *)
  Theorem generic_loop_is_columns : forall e,
    as_matrix_generic K k0 k1 kadd kmul leafsem e =
    option_map (mkMat (out_size e)) (generic_columns K k0 k1 kadd kmul leafsem e).
  Proof. exact (generic_loop_eq K k0 k1 kadd kmul leafsem). Qed.

  (* the input the loop body builds for (ileaf, index) is the basis vector number
     (sizes of the leaves before ileaf) + index of the flattened input *)
  Theorem loop_input_is_basis_vector : forall s il idx,
    il < List.length (flatten s) -> idx < nth il (map leaf_size (flatten s)) 0 ->
    basis_input K k0 k1 s il idx =
    basis_value K k0 k1 s (lsum (firstn il (map leaf_size (flatten s))) + idx).
  Proof. exact (basis_input_value K k0 k1). Qed.

  (* FULL form of apply_is_matvec_partial: op(x) = M flat(x) for the matrix M returned by the transcribed
     generic as_matrix loop *)
  Theorem apply_is_matvec : forall e M, honest K kadd kmul leafsem e ->
    as_matrix_generic K k0 k1 kadd kmul leafsem e = Some M ->
    forall x y, vhas K x (in_struct e) = true -> den e x = Some y ->
    vflat K y = matvec K k0 kadd kmul M (vflat K x).
  Proof. exact (generic_matvec K k0 k1 kadd kmul ksub kopp Kth leafsem LA). Qed.

  (* ---- every override ---- *)
  Section Overrides.
    Variable leaf_override : op K -> option (mat K).   (* as_matrix of DiagonalOperator / Toeplitz / DiagonalInverse *)
    Variable minv : mat K -> option (mat K).           (* jnp.linalg.inv *)
    Notation asm := (as_matrix K k0 k1 kadd kmul leafsem leaf_override minv).
    Notation gen := (as_matrix_generic K k0 k1 kadd kmul leafsem).
    Notation represents := (repr K k0 kadd kmul leafsem).
    (* the premises of the composite theorem:
       LOOP  the transcribed fori_loop builds the matrix of columns (a premise of the two `_partial`
             theorems of this section only; PROVED since: generic_loop_is_columns, and discharged in
             override_represents / override_eq_generic below)
       HON   C05: what a well-formed operator returns has its declared output size (NOT proved here)
       HOV   leaf-level overrides (C11 diag_as_matrix, C09 as_matrix_times_x) represent their leaf
       HRESH ravel/reshape: eye(in_size) represents the relabelling
       HINV  jnp.linalg.inv returned a left inverse;  HSOLVE  a lazy inverse returns a solution *)
    Hypothesis LOOP : forall e, gen e = option_map (mkMat (out_size e)) (generic_columns K k0 k1 kadd kmul leafsem e).
    Hypothesis HON : forall e, wfo e = true -> honest K kadd kmul leafsem e.
    Hypothesis HOV : forall e M, leaf_override e = Some M -> represents e M.
    Hypothesis HRESH : forall i c si so p, c = CRavel \/ c = CReshape ->
      represents (Prim i c si so p) (eye K k0 k1 (in_size (Prim i c si so p : op K))).
    Hypothesis HINV : forall M N, minv M = Some N ->
      mwf K N /\ m_nr N = List.length (m_cols M) /\ List.length (m_cols N) = m_nr M /\
      forall w, List.length w = List.length (m_cols M) -> matvec K k0 kadd kmul N (matvec K k0 kadd kmul M w) = w.
    Hypothesis HSOLVE : forall i w e z y1, w = WInverse \/ w = WQURotT ->
      vhas K z (out_struct e) = true -> leafsem (Wrap i w e) z = Some y1 ->
      den e y1 = Some z /\ vhas K y1 (in_struct e) = true.

    (* as_matrix() of every well-formed expression tree - identity, scalar, sum, block row / diagonal /
       column over arbitrarily nested containers (leaves in pytree order), ravel/reshape, lazy inverse,
       compositions, and every composite of them - is an (out_size x in_size) array whose product with the
       flattened input is the flattened output *)
    Theorem override_represents_partial : forall e, wfo e = true -> forall M, asm e = Some M -> represents e M.
    Proof. exact (override_repr K k0 k1 kadd kmul ksub kopp Kth leafsem LA leaf_override minv LOOP HON HOV HRESH HINV HSOLVE). Qed.

    (* ... hence it IS the matrix of the generic construction.
       override_eq_generic below: the same without the premise LOOP (HON: honesty_premise_from_C05). *)
    Theorem override_eq_generic_partial : forall e M G, wfo e = true -> asm e = Some M -> gen e = Some G -> M = G.
    Proof. exact (override_eq_generic_l K k0 k1 kadd kmul ksub kopp Kth leafsem LA leaf_override minv LOOP HON HOV HRESH HINV HSOLVE). Qed.
  End Overrides.

  (* ---- the same two theorems WITHOUT the premise LOOP (now generic_loop_is_columns) ---- *)
  Section OverridesLoopFree.
    Variable leaf_override : op K -> option (mat K).
    Variable minv : mat K -> option (mat K).
    Notation asm := (as_matrix K k0 k1 kadd kmul leafsem leaf_override minv).
    Notation gen := (as_matrix_generic K k0 k1 kadd kmul leafsem).
    Notation represents := (repr K k0 kadd kmul leafsem).
    (* remaining premises, as above: HON (C05; from honest leaves by honesty_premise_from_C05), HOV, HRESH,
       HINV, HSOLVE *)
    Hypothesis HON : forall e, wfo e = true -> honest K kadd kmul leafsem e.
    Hypothesis HOV : forall e M, leaf_override e = Some M -> represents e M.
    Hypothesis HRESH : forall i c si so p, c = CRavel \/ c = CReshape ->
      represents (Prim i c si so p) (eye K k0 k1 (in_size (Prim i c si so p : op K))).
    Hypothesis HINV : forall M N, minv M = Some N ->
      mwf K N /\ m_nr N = List.length (m_cols M) /\ List.length (m_cols N) = m_nr M /\
      forall w, List.length w = List.length (m_cols M) -> matvec K k0 kadd kmul N (matvec K k0 kadd kmul M w) = w.
    Hypothesis HSOLVE : forall i w e z y1, w = WInverse \/ w = WQURotT ->
      vhas K z (out_struct e) = true -> leafsem (Wrap i w e) z = Some y1 ->
      den e y1 = Some z /\ vhas K y1 (in_struct e) = true.

    Theorem override_represents : forall e, wfo e = true -> forall M, asm e = Some M -> represents e M.
    Proof.
      exact (override_repr K k0 k1 kadd kmul ksub kopp Kth leafsem LA leaf_override minv
               (generic_loop_eq K k0 k1 kadd kmul leafsem) HON HOV HRESH HINV HSOLVE).
    Qed.

    Theorem override_eq_generic : forall e M G, wfo e = true -> asm e = Some M -> gen e = Some G -> M = G.
    Proof.
      exact (override_eq_generic_l K k0 k1 kadd kmul ksub kopp Kth leafsem LA leaf_override minv
               (generic_loop_eq K k0 k1 kadd kmul leafsem) HON HOV HRESH HINV HSOLVE).
    Qed.
  End OverridesLoopFree.

  (* the class-by-class steps, free of the premises above: a sum / block operator of represented operands
     is represented by the sum / hstack / block_diag / vstack of their matrices (leaf order = pytree order) *)
  Theorem sum_represents : forall i l Ms M, wfo (AddOp i l) = true ->
    Forall2 (repr K k0 kadd kmul leafsem) l Ms -> msum K kadd Ms = Some M -> repr K k0 kadd kmul leafsem (AddOp i l) M.
  Proof. exact (repr_sum K k0 k1 kadd kmul ksub kopp Kth leafsem). Qed.
  Theorem block_represents : forall i b td l Ms M, wfo (Block i b td l) = true ->
    Forall2 (repr K k0 kadd kmul leafsem) l Ms ->
    (match b with BRow => hstack K Ms | BDiag => Some (block_diag K k0 Ms) | BCol => vstack K Ms end) = Some M ->
    repr K k0 kadd kmul leafsem (Block i b td l) M.
  Proof. exact (repr_block K k0 k1 kadd kmul ksub kopp Kth leafsem). Qed.

  (* IdentityOperator and HomothetyOperator over ANY pytree structure: no premise at all *)
  Theorem identity_scalar_override_is_generic : forall leaf_override minv e M cols,
    (exists i s, e = Ident i s) \/ (exists i k s, e = Homoth i k s) ->
    as_matrix K k0 k1 kadd kmul leafsem leaf_override minv e = Some M ->
    generic_columns K k0 k1 kadd kmul leafsem e = Some cols -> M = mkMat (out_size e) cols.
  Proof. exact (override_ident_homoth K k0 k1 kadd kmul ksub kopp Kth leafsem LA). Qed.

  (* the premise HON is C05's theorem (Lemmas/StructsL.v, read-only) whenever the leaves are honest *)
  Theorem honesty_premise_from_C05 : (forall l, leaf_honest K leafsem l) ->
    forall e : op K, wfo e = true -> honest K kadd kmul leafsem e.
  Proof. exact (honest_from_c05 K kadd kmul leafsem). Qed.

  (* any (out_size x in_size) array whose product with the flattened input is the flattened output
     IS the generic matrix: equality of the overrides with the generic construction reduces to "the
     override multiplies like the operator applies" *)
  Theorem represents_implies_generic : forall e M cols, repr K k0 kadd kmul leafsem e M ->
    honest K kadd kmul leafsem e -> generic_columns K k0 k1 kadd kmul leafsem e = Some cols ->
    M = mkMat (out_size e) cols.
  Proof. exact (repr_to_columns K k0 k1 kadd kmul ksub kopp Kth leafsem LA). Qed.

  (* what the table above means for the model: a class resolving to AbstractLinearOperator.as_matrix (lazy
     transposes, products, every leaf class without an override) gets the transcribed generic loop; the classes
     with an override of their own get that override (identity, scalar, sum, block row / diagonal / column, lazy
     inverse, diagonal [and its inverse], ravel / reshape, Toeplitz) *)
  Theorem generic_classes_use_the_loop : forall leaf_override minv (e : op K), am_of_cls (cls_of e) = AmGeneric ->
    as_matrix K k0 k1 kadd kmul leafsem leaf_override minv e = as_matrix_generic K k0 k1 kadd kmul leafsem e.
  Proof. exact (fun lo mi => generic_dispatch K k0 k1 kadd kmul leafsem lo mi). Qed.
  Theorem overriding_classes_use_their_override : forall leaf_override minv (e : op K),
    let asm := as_matrix K k0 k1 kadd kmul leafsem leaf_override minv in
    match e with
    | Ident _ _ => am_of_cls (cls_of e) = AmIdentity /\ asm e = Some (eye K k0 k1 (in_size e))
    | Homoth _ k _ => am_of_cls (cls_of e) = AmHomothety /\ asm e = Some (mscale K kmul k (eye K k0 k1 (in_size e)))
    | AddOp _ l => am_of_cls (cls_of e) = AmAddition /\ asm e = obind (omapl asm l) (msum K kadd)
    | Block _ BRow _ l => am_of_cls (cls_of e) = AmBlockRow /\ asm e = obind (omapl asm l) (hstack K)
    | Block _ BDiag _ l => am_of_cls (cls_of e) = AmBlockDiagonal /\ asm e = obind (omapl asm l) (fun ms => Some (block_diag K k0 ms))
    | Block _ BCol _ l => am_of_cls (cls_of e) = AmBlockColumn /\ asm e = obind (omapl asm l) (vstack K)
    | Wrap _ WInverse x | Wrap _ WQURotT x => am_of_cls (cls_of e) = AmLazyInverse /\ asm e = obind (asm x) minv
    | Wrap _ WDiagInv _ => am_of_cls (cls_of e) = AmDiagonal /\ asm e = leaf_override e
    | Prim _ CDiagonal _ _ _ => am_of_cls (cls_of e) = AmDiagonal /\ asm e = leaf_override e
    | Prim _ CToeplitz _ _ _ => am_of_cls (cls_of e) = AmToeplitz /\ asm e = leaf_override e
    | Prim _ CRavel _ _ _ | Prim _ CReshape _ _ _ => am_of_cls (cls_of e) = AmRavelOrReshape /\ asm e = Some (eye K k0 k1 (in_size e))
    | _ => True
    end.
  Proof. exact (fun lo mi => override_dispatch K k0 k1 kadd kmul leafsem lo mi). Qed.

  (* a dense matrix is determined by its products with vectors (so "same products" = "same array") *)
  Theorem matrix_determined_by_products : forall A B : mat K, mwf K A -> mwf K B -> m_nr A = m_nr B ->
    List.length (m_cols A) = List.length (m_cols B) ->
    (forall v, List.length v = List.length (m_cols A) -> matvec K k0 kadd kmul A v = matvec K k0 kadd kmul B v) -> A = B.
  Proof. exact (mat_ext K k0 k1 kadd kmul ksub kopp Kth). Qed.
End C04.
Print Assumptions as_matrix_resolution_as_modelled.
Print Assumptions denote_homogeneous.
Print Assumptions denote_additive.
Print Assumptions denote_linear.
Print Assumptions apply_is_matvec_partial.
Print Assumptions override_represents_partial.
Print Assumptions override_eq_generic_partial.
Print Assumptions generic_loop_is_columns.
Print Assumptions loop_input_is_basis_vector.
Print Assumptions apply_is_matvec.
Print Assumptions override_represents.
Print Assumptions override_eq_generic.
Print Assumptions sum_represents.
Print Assumptions block_represents.
Print Assumptions identity_scalar_override_is_generic.
Print Assumptions honesty_premise_from_C05.
Print Assumptions represents_implies_generic.
Print Assumptions generic_classes_use_the_loop.
Print Assumptions overriding_classes_use_their_override.
Print Assumptions matrix_determined_by_products.

(* non-vacuity: lin_facts is satisfiable (every leaf the identity map), and the overrides compute the
   expected matrices on a concrete nested container with dict keys in sorted order *)
Example c04_lin_facts_sat : lin_facts Z Z.add Z.mul (fun _ x => Some x).
Proof.
  split.
  - intros; reflexivity.
  - intros e x y z x' y' _ Hz Hx Hy. inversion Hx; inversion Hy; subst. eauto.
Qed.
Example c04_block_diag :
  let s2 := Leaf (mkSds [2] 0) in let s1 := Leaf (mkSds [] 0) in
  let e : op Z := Block 1%N BDiag (Node (KDict ["a"; "b"]%string) [Leaf tt; Node KList [Leaf tt]])
                   [Homoth 2%N 3%Z s2; Ident 3%N s1] in
  option_map (@m_cols Z) (as_matrix Z 0%Z 1%Z Z.add Z.mul (fun _ x => Some x) (fun _ => None) (fun _ => None) e)
  = Some [[3; 0; 0]; [0; 3; 0]; [0; 0; 1]]%Z /\
  option_map (@m_cols Z) (as_matrix_generic Z 0%Z 1%Z Z.add Z.mul (fun _ x => Some x) e)
  = Some [[3; 0; 0]; [0; 3; 0]; [0; 0; 1]]%Z /\
  generic_columns Z 0%Z 1%Z Z.add Z.mul (fun _ x => Some x) e = Some [[3; 0; 0]; [0; 3; 0]; [0; 0; 1]]%Z.
Proof. vm_compute. repeat split. Qed.
