(* C04, second stage - "every as_matrix override equals the generic column-by-column construction" for the
   EXECUTABLE semantics that the correspondence harness runs (`x_as_matrix tb otb`: every override transcribed;
   `x_generic tb`: the transcribed fori_loop; `Exec.mat tb`: the matrix of application), for an ARBITRARY table
   `tb` of measured application matrices and an ARBITRARY table `otb` of measured override matrices.
   Statements only; proofs are `exact <lemma>` (Lemmas/AsMatrixOvL.v).

   The premises of Props/C04.v override_eq_generic (HON, HOV, HRESH, HINV, HSOLVE) are replaced by three
   DECIDABLE conditions that the harness evaluates by vm_compute on every encoded operator:
     wfo e                  what the constructors guarantee (Model/Wf.v)
     table_okb tb e         Lemmas/ExecFactsL.v: measured matrices have the declared dimensions; a lazy inverse
                            stores a two-sided inverse of its operand's matrix, a lazy transpose the transpose.
                            Only its consequence `dtable_okb tb e` (Lemmas/AsMatrixOvL.v) is needed - the `_min`
                            theorems: dimensions of every leaf; the inverse check only for the wrappers whose
                            as_matrix inverts a matrix (InverseOperator, QURotationTranspose), so that the
                            pseudo-inverse of a singular DiagonalOperator is covered
     otable_okb tb otb e    Lemmas/AsMatrixOvL.v:
        - DiagonalOperator / SymmetricBandToeplitzOperator / DiagonalInverseOperator: the class's own as_matrix
          (measured in `otb`, or the 1-d closed form diag(values)) is the matrix whose columns are the leaf's own
          images of the basis vectors (HOV);
        - RavelOperator / ReshapeOperator: the leaf acts as the identity on the flattened data (HRESH);
        - InverseOperator / QURotationTransposeOperator: the wrapper has a measured matrix (a two-sided inverse of
          the operand's by table_okb).  HINV is x_minv_inverts + x_minv_complete for the modelled jnp.linalg.inv
          (Gauss-Jordan, result accepted only after checking N M = I and M N = I): it succeeds on every
          invertible matrix and returns a left inverse; HSOLVE is not needed: the measured matrix is a right
          inverse, the computed one a left inverse, so they are equal;
        - AdditionOperator / BlockRow / BlockDiagonal / BlockColumn: every leaf operator below applies to its
          declared input structure (`leaf_applies`: defined on the basis vectors and on zero);
        - identity, scalar, composition, lazy transposes, every class without an override: nothing.
   HON (honesty, C05) follows from table_okb (ExecFacts exec_honest).
   The conclusions are equalities of OPTIONS: defined on one side iff defined on the other. *)
From Coq Require Import List Bool Arith NArith ZArith QArith Qcanon.
From Furax Require Import Base.Pytree Model.Op Model.Algebra Model.Denote Model.Wf Model.Exec Model.Structs
  Model.AsMatrix Lemmas.AsMatrixL Lemmas.ExecFactsL Lemmas.AsMatrixOvL.
Import ListNotations.
Local Close Scope Q_scope.
Local Close Scope Qc_scope.
Local Open Scope nat_scope.

(* override_eq_generic of Props/C04.v for the executable model: as_matrix() of every well-formed expression
   tree - with every override - IS the matrix built by the generic loop *)
Theorem exec_override_eq_generic : forall tb otb (e : xop),
  wfo e = true -> table_okb tb e = true -> otable_okb tb otb e = true ->
  x_as_matrix tb otb e = x_generic tb e.
Proof. exact exec_override_eq_generic_l. Qed.

(* ... and both are the matrix of application `Exec.mat tb e` (column j = flattened image of the j-th basis
   vector; `show_cols` prints the columns as numerator/denominator pairs, the orientation of Exec.mat) *)
Theorem exec_override_eq_generic_full : forall tb otb (e : xop),
  wfo e = true -> table_okb tb e = true -> otable_okb tb otb e = true ->
  x_as_matrix tb otb e = x_generic tb e /\ Exec.mat tb e = option_map show_cols (x_as_matrix tb otb e).
Proof. exact exec_override_eq_generic_full_l. Qed.

(* the same two under the weaker condition on the table of application matrices *)
Theorem table_okb_implies_dtable_okb : forall tb (e : xop), table_okb tb e = true -> dtable_okb tb e = true.
Proof. exact table_dtable. Qed.
Theorem exec_override_eq_generic_min : forall tb otb (e : xop),
  wfo e = true -> dtable_okb tb e = true -> otable_okb tb otb e = true ->
  x_as_matrix tb otb e = x_generic tb e.
Proof. exact exec_override_eq_generic_min_l. Qed.
Theorem exec_override_eq_generic_full_min : forall tb otb (e : xop),
  wfo e = true -> dtable_okb tb e = true -> otable_okb tb otb e = true ->
  x_as_matrix tb otb e = x_generic tb e /\ Exec.mat tb e = option_map show_cols (x_as_matrix tb otb e).
Proof. exact exec_override_eq_generic_full_min_l. Qed.

(* the generic loop alone (no condition on the override table) *)
Theorem exec_mat_is_generic : forall tb (e : xop), wfo e = true -> table_okb tb e = true ->
  Exec.mat tb e = option_map show_cols (x_generic tb e).
Proof. exact exec_mat_is_generic_l. Qed.

(* override_represents of Props/C04.v for the executable model: what as_matrix() returns is an
   (out_size x in_size) array whose product with the flattened input is the flattened output *)
Theorem exec_override_represents : forall tb otb (e : xop) M,
  wfo e = true -> table_okb tb e = true -> otable_okb tb otb e = true ->
  x_as_matrix tb otb e = Some M ->
  mwf K M /\ m_nr M = out_size e /\ List.length (m_cols M) = in_size e /\
  forall x y, AsMatrix.vhas K x (in_struct e) = true -> den tb e x = Some y ->
    vflat K y = xmatvec M (vflat K x).
Proof. exact exec_override_represents_l. Qed.

(* HINV of Props/C04.v holds for the modelled jnp.linalg.inv, for every matrix *)
Theorem x_minv_inverts : forall M N : xmat, mwf K M -> x_minv M = Some N ->
  m_nr M = List.length (m_cols M) /\ mwf K N /\ m_nr N = m_nr M /\ List.length (m_cols N) = m_nr M /\
  forall w, List.length w = m_nr M -> xmatvec N (xmatvec M w) = w.
Proof. exact x_minv_spec. Qed.

(* ... and is complete: Gauss-Jordan elimination succeeds on every (n x n) matrix that is injective and has a
   right inverse g, and the result passes both checks *)
Theorem x_minv_complete : forall n (cols : list (list K)), colsok K n cols -> List.length cols = n ->
  forall g : list K -> list K,
  (forall v, List.length v = n -> matvec_cols K k0 Qcplus Qcmult n cols v = zeros K k0 n -> v = zeros K k0 n) ->
  (forall v, List.length v = n -> matvec_cols K k0 Qcplus Qcmult n cols (g v) = v) ->
  (forall v, List.length v = n -> List.length (g v) = n) ->
  exists N, x_minv (mkMat n cols) = Some N.
Proof. exact x_minv_defined. Qed.

(* the step for one lazy inverse (HINV + the inverse facts of table_okb; no HSOLVE) *)
Theorem exec_lazy_inverse_override : forall tb otb i w (x : xop), w = WInverse \/ w = WQURotT ->
  wfo (Wrap i w x) = true -> dtable_okb tb (Wrap i w x) = true ->
  x_as_matrix tb otb x = x_generic tb x ->
  is_some (stored tb i) = true ->
  x_as_matrix tb otb (Wrap i w x) = x_generic tb (Wrap i w x).
Proof. exact inverse_node. Qed.

(* what `leaf_applies` buys: a linear leaf defined on the basis vectors and on zero is defined on every value
   of its declared input structure, and then so is every well-formed expression over such leaves *)
Theorem exec_applies_total : forall tb (e : xop), wfo e = true -> dtable_okb tb e = true ->
  forallb (leaf_applies tb) (leaves e) = true ->
  forall x, AsMatrix.vhas K x (in_struct e) = true -> exists y, den tb e x = Some y.
Proof. exact applies_total. Qed.

Print Assumptions exec_override_eq_generic.
Print Assumptions exec_override_eq_generic_full.
Print Assumptions table_okb_implies_dtable_okb.
Print Assumptions exec_override_eq_generic_min.
Print Assumptions exec_override_eq_generic_full_min.
Print Assumptions exec_mat_is_generic.
Print Assumptions exec_override_represents.
Print Assumptions x_minv_inverts.
Print Assumptions x_minv_complete.
Print Assumptions exec_lazy_inverse_override.
Print Assumptions exec_applies_total.

(* ---- non-vacuity: a concrete measured table on which the three hypotheses hold ---- *)
Definition q (n : Z) (d : positive) : K := Q2Qc (Qmake n d).
Definition s2 : struct := Leaf (mkSds [2] 0).
Definition s12 : struct := Leaf (mkSds [1; 2] 0).
(* object 1: an opaque user operator A = [[2, 1], [0, 4]]; object 2: its lazy inverse, measured [[1/2, -1/8], [0, 1/4]];
   object 3: a Toeplitz operator acting as [[2, 1], [1, 2]] whose own as_matrix() was measured into the override table;
   object 4: a 1-d DiagonalOperator diag(3, 5) (closed form on both sides); object 6: its DiagonalInverseOperator
   (measured action and measured as_matrix diag(1/3, 1/5)); object 5: a RavelOperator (1, 2) -> (2,) measured as I *)
Definition opA : xop := Prim 1 CAtom s2 s2 PNone.
Definition invA : xop := Wrap 2 WInverse opA.
Definition opT : xop := Prim 3 CToeplitz s2 s2 PNone.
Definition opD : xop := Prim 4 CDiagonal s2 s2 (PDiag 0 [inject_Z 3; inject_Z 5]).
Definition opR : xop := Prim 5 CRavel s12 s2 (PKey 10).
Definition dinvD : xop := Wrap 6 WDiagInv opD.
Definition tbO : table :=
  [ (2%N, [[q 2 1; q 1 1]; [q 0 1; q 4 1]]);
    (4%N, [[q 1 2; q (-1) 8]; [q 0 1; q 1 4]]);
    (6%N, [[q 2 1; q 1 1]; [q 1 1; q 2 1]]);
    (10%N, [[q 1 1; q 0 1]; [q 0 1; q 1 1]]);
    (12%N, [[q 1 3; q 0 1]; [q 0 1; q 1 5]]) ].
Definition otbO : otable :=
  [ (6%N, mkMat 2 [[q 2 1; q 1 1]; [q 1 1; q 2 1]]);
    (12%N, mkMat 2 [[q 1 3; q 0 1]; [q 0 1; q 1 5]]) ].
(* BlockDiagonal([A^-1 + T + D + D^-1, Ravel]) *)
Definition sumO : xop := AddOp 7 [invA; opT; opD; dinvD].
Definition exprO : xop := Block 8 BDiag (Node KList [Leaf tt; Leaf tt]) [sumO; opR].
Example override_hypotheses_hold :
  wfo exprO = true /\ table_okb tbO exprO = true /\ otable_okb tbO otbO exprO = true.
Proof. vm_compute. repeat split; reflexivity. Qed.
(* so the theorem applies to it ... *)
Example override_theorem_applies :
  x_as_matrix tbO otbO exprO = x_generic tbO exprO /\
  Exec.mat tbO exprO = option_map show_cols (x_as_matrix tbO otbO exprO).
Proof. apply exec_override_eq_generic_full; vm_compute; reflexivity. Qed.
(* ... and the common value is the expected dense matrix, column by column:
   A^-1 + T + D + D^-1 = [[35/6, 7/8], [1, 149/20]], then the identity block of the ravel *)
Example override_value :
  show_mat (x_as_matrix tbO otbO exprO) =
  Some (4, [[(35, 6); (1, 1); (0, 1); (0, 1)]; [(7, 8); (149, 20); (0, 1); (0, 1)];
            [(0, 1); (0, 1); (1, 1); (0, 1)]; [(0, 1); (0, 1); (0, 1); (1, 1)]]%Z) /\
  show_mat (x_generic tbO exprO) = show_mat (x_as_matrix tbO otbO exprO).
Proof. vm_compute. split; reflexivity. Qed.

(* ---- the hypothesis otable_okb is needed: where it is false the conclusion fails ---- *)
(* (a) a wrong measured override (Toeplitz as_matrix with one wrong entry): wfo and table_okb hold,
       otable_okb does not, and as_matrix differs from the generic matrix *)
Definition otbBad : otable :=
  [ (6%N, mkMat 2 [[q 2 1; q 1 1]; [q 1 1; q 3 1]]);
    (12%N, mkMat 2 [[q 1 3; q 0 1]; [q 0 1; q 1 5]]) ].
Example wrong_override_rejected :
  wfo exprO = true /\ table_okb tbO exprO = true /\ otable_okb tbO otbBad exprO = false /\
  omat_eqb (x_as_matrix tbO otbBad exprO) (x_generic tbO exprO) = false.
Proof. vm_compute. repeat split; reflexivity. Qed.
(* (b) a "ravel" that does not act as the identity (it swaps the two elements): eye(in_size) is not its matrix *)
Definition tbSwap : table := [ (10%N, [[q 0 1; q 1 1]; [q 1 1; q 0 1]]) ].
Example non_identity_ravel_rejected :
  wfo opR = true /\ table_okb tbSwap opR = true /\ otable_okb tbSwap [] opR = false /\
  show_mat (x_as_matrix tbSwap [] opR) = Some (2, [[(1, 1); (0, 1)]; [(0, 1); (1, 1)]]%Z) /\
  show_mat (x_generic tbSwap opR) = Some (2, [[(0, 1); (1, 1)]; [(1, 1); (0, 1)]]%Z).
Proof. vm_compute. repeat split; reflexivity. Qed.
(* (c) a lazy inverse without a measured matrix has no action in the executable model: inv(I) = I is returned
       by the override, the generic loop is undefined *)
Example unmeasured_inverse_rejected :
  let e : xop := Wrap 0 WInverse (Ident 1 s2) in
  wfo e = true /\ table_okb [] e = true /\ otable_okb [] [] e = false /\
  show_mat (x_as_matrix [] [] e) = Some (2, [[(1, 1); (0, 1)]; [(0, 1); (1, 1)]]%Z) /\ x_generic [] e = None.
Proof. vm_compute. repeat split; reflexivity. Qed.
(* (d) `leaf_applies` under a block container: an operand with an EMPTY input structure contributes no column to
       hstack, but if it cannot be applied (here: no action at all) the block operator applies to nothing *)
Definition s0 : struct := Leaf (mkSds [0] 0).
Example inapplicable_operand_rejected :
  let e : xop := Block 9 BRow (Node KList [Leaf tt; Leaf tt]) [Prim 0 CAtom s0 s2 PNone; opA] in
  wfo e = true /\ table_okb tbO e = true /\ otable_okb tbO [] e = false /\
  show_mat (x_as_matrix tbO [] e) = Some (2, [[(2, 1); (0, 1)]; [(1, 1); (4, 1)]]%Z) /\ x_generic tbO e = None.
Proof. vm_compute. repeat split; reflexivity. Qed.
(* table_okb is needed as well: a measured "inverse" that is not the inverse (tbBad of Props/ExecFacts.v) *)
Definition tbBadInv : table :=
  [ (2%N, [[q 2 1; q 1 1]; [q 0 1; q 4 1]]); (4%N, [[q 1 2; q 0 1]; [q 0 1; q 1 4]]) ].
Example wrong_inverse_rejected :
  wfo invA = true /\ table_okb tbBadInv invA = false /\ otable_okb tbBadInv [] invA = true /\
  omat_eqb (x_as_matrix tbBadInv [] invA) (x_generic tbBadInv invA) = false.
Proof. vm_compute. repeat split; reflexivity. Qed.
(* dtable_okb is really weaker: the DiagonalInverseOperator of the SINGULAR diag(2, 0) is measured as the
   pseudo-inverse diag(1/2, 0) - not an inverse, table_okb rejects it - and yet its as_matrix (DiagonalOperator's,
   measured into the override table) is its generic matrix, by the `_min` theorem *)
Definition opDz : xop := Prim 1 CDiagonal s2 s2 (PDiag 0 [inject_Z 2; inject_Z 0]).
Definition pinvDz : xop := Wrap 2 WDiagInv opDz.
Definition tbDz : table := [ (4%N, [[q 1 2; q 0 1]; [q 0 1; q 0 1]]) ].
Definition otbDz : otable := [ (4%N, mkMat 2 [[q 1 2; q 0 1]; [q 0 1; q 0 1]]) ].
Example pseudo_inverse_covered :
  wfo pinvDz = true /\ table_okb tbDz pinvDz = false /\ dtable_okb tbDz pinvDz = true /\ otable_okb tbDz otbDz pinvDz = true.
Proof. vm_compute. repeat split; reflexivity. Qed.
Example pseudo_inverse_theorem_applies : x_as_matrix tbDz otbDz pinvDz = x_generic tbDz pinvDz.
Proof. apply exec_override_eq_generic_min; vm_compute; reflexivity. Qed.
